#!/usr/bin/env python3
"""Generate coq/gen/Gen_cli.v from /repo/jsonpath/cli.py and /repo/jsonpath/exceptions.py with Python's ast
(the package is never imported).  What is extracted:
  - per sub-command: the argparse destinations its parser defines;
  - per handler function: the attributes of `args` it reads;
  - per handler: its `try` statements in order, each with its ordered `except` clauses:
      (exception class names, re-raises when args.debug, writes to stderr, calls sys.exit(1));
  - the exception class hierarchy of exceptions.py (plus the few built-in ancestors the CLI relies on).
Fail-soft: anything the translator does not understand is recorded as the clause/attribute name "UNKNOWN",
which makes the generated table differ from what the proofs expect (a broken obligation, then searched), never a crash."""
import ast
import os
import sys

REPO = os.environ.get("VERIF_REPO", "/repo")
OUT = sys.argv[1] if len(sys.argv) > 1 else os.path.join(os.path.dirname(os.path.dirname(os.path.abspath(__file__))), "coq", "gen", "Gen_cli.v")


def coq_str(s):
    return "[" + "; ".join(str(ord(c)) for c in s) + "]%N"


def name_of(node):
    if isinstance(node, ast.Name):
        return node.id
    if isinstance(node, ast.Attribute):
        return node.attr        # json.JSONDecodeError -> JSONDecodeError
    return "UNKNOWN"


# ---- module-level helpers and constants are looked through (a handler may delegate to them) -------------------
FNS = {}        # module-level functions of cli.py, filled in below
CONSTS = {}     # module-level NAME = (A, B) / [A, B] / {A: ..., B: ...} / {A, B}


def const_names(node):
    """the exception class names a handler type expression denotes, looking through module-level constants"""
    if isinstance(node, ast.Tuple) or isinstance(node, ast.List) or isinstance(node, ast.Set):
        out = []
        for e in node.elts:
            out += const_names(e)
        return out
    if isinstance(node, ast.Dict):
        out = []
        for k in node.keys:
            out += const_names(k) if k is not None else ["UNKNOWN"]
        return out
    if isinstance(node, ast.Call) and isinstance(node.func, ast.Name) and node.func.id in ("tuple", "list", "set", "frozenset") and len(node.args) == 1:
        return const_names(node.args[0])
    if isinstance(node, ast.Name) and node.id in CONSTS:
        return const_names(CONSTS[node.id])
    return [name_of(node)]


def walk_inlined(node, args_names=("args",), depth=0, seen=()):
    """ast.walk that also descends into the bodies of module-level helper functions called from `node`; yields
    (node, names) where `names` are the local names that denote the argparse namespace at that point"""
    for n in ast.walk(node):
        yield n, args_names
        if isinstance(n, ast.Call) and isinstance(n.func, ast.Name) and n.func.id in FNS and depth < 4 and n.func.id not in seen:
            callee = FNS[n.func.id]
            params = [a.arg for a in callee.args.args]
            inner = []
            for i, a in enumerate(n.args):
                if isinstance(a, ast.Name) and a.id in args_names and i < len(params):
                    inner.append(params[i])
            for kw in n.keywords:
                if isinstance(kw.value, ast.Name) and kw.value.id in args_names and kw.arg:
                    inner.append(kw.arg)
            for stmt in callee.body:
                yield from walk_inlined(stmt, tuple(inner), depth + 1, seen + (n.func.id,))


def dests_of(fn, skip=()):
    out = []
    for node, _ in walk_inlined(fn, seen=tuple(skip)):
        if isinstance(node, ast.Call) and isinstance(node.func, ast.Attribute) and node.func.attr == "add_argument":
            dest = None
            for kw in node.keywords:
                if kw.arg == "dest" and isinstance(kw.value, ast.Constant):
                    dest = kw.value.value
            if dest is None:
                names = [a.value for a in node.args if isinstance(a, ast.Constant) and isinstance(a.value, str)]
                longs = [n for n in names if n.startswith("--")]
                if longs:
                    dest = longs[0][2:].replace("-", "_")
                elif names:
                    dest = names[0].lstrip("-").replace("-", "_")
            if dest:
                out.append(dest)
    return out


def reads_of(fn):
    out = []
    for node, names in walk_inlined(fn):
        if isinstance(node, ast.Attribute) and isinstance(node.value, ast.Name) and node.value.id in names:
            if node.attr not in out:
                out.append(node.attr)
    return out


def clause_info(h):
    if h.type is None:
        classes = ["BaseException"]
    else:
        classes = const_names(h.type)
    src = ast.dump(ast.Module(body=h.body, type_ignores=[]))
    reraise_on_debug = False
    for node in h.body:
        if isinstance(node, ast.If) and isinstance(node.test, ast.Attribute) and node.test.attr == "debug":
            if any(isinstance(x, ast.Raise) and x.exc is None for x in node.body):
                reraise_on_debug = True
    writes = 0
    exits = False
    for node, _ in walk_inlined(ast.Module(body=h.body, type_ignores=[])):
        if isinstance(node, ast.Call) and isinstance(node.func, ast.Attribute):
            if node.func.attr == "write" and "stderr" in ast.dump(node.func):
                writes += 1
            if node.func.attr == "exit" and node.args and isinstance(node.args[0], ast.Constant) and node.args[0].value == 1:
                exits = True
    return classes, reraise_on_debug, writes, exits


def tries_of(fn):
    out = []
    for node in fn.body:
        if isinstance(node, ast.Try):
            out.append([clause_info(h) for h in node.handlers])
    return out


cli = ast.parse(open(os.path.join(REPO, "jsonpath", "cli.py")).read())
fns = {n.name: n for n in cli.body if isinstance(n, ast.FunctionDef)}
FNS.update(fns)
for n in cli.body:
    if isinstance(n, ast.Assign) and len(n.targets) == 1 and isinstance(n.targets[0], ast.Name):
        CONSTS[n.targets[0].id] = n.value
    elif isinstance(n, ast.AnnAssign) and isinstance(n.target, ast.Name) and n.value is not None:
        CONSTS[n.target.id] = n.value
exc = ast.parse(open(os.path.join(REPO, "jsonpath", "exceptions.py")).read())
hier = []
for n in exc.body:
    if isinstance(n, ast.ClassDef):
        hier.append((n.name, [name_of(b) for b in n.bases]))
BUILTIN = [("JSONDecodeError", ["ValueError"]), ("UnicodeDecodeError", ["ValueError"]), ("ValueError", ["Exception"]),
           ("IndexError", ["Exception"]), ("KeyError", ["Exception"]), ("TypeError", ["Exception"]), ("AttributeError", ["Exception"]),
           ("Exception", ["BaseException"])]
hier += BUILTIN

lines = ["(* GENERATED by translator/gen_cli.py from jsonpath/cli.py and jsonpath/exceptions.py - do not edit. *)",
         "From Coq Require Import NArith List Bool.", "Import ListNotations.", ""]


def emit_strs(name, strs):
    lines.append("Definition %s : list (list N) :=\n  [%s]." % (name, ";\n   ".join(coq_str(s) for s in strs)))
    lines.append("")


for cmd in ("path", "pointer", "patch"):
    emit_strs("cli_%s_dests" % cmd, dests_of(fns.get("%s_sub_command" % cmd, ast.parse("def f(): pass").body[0])) +
              dests_of(fns.get("setup_parser", ast.parse("def f(): pass").body[0]),
                       skip=("path_sub_command", "pointer_sub_command", "patch_sub_command")))
    h = fns.get("handle_%s_command" % cmd)
    emit_strs("cli_%s_reads" % cmd, reads_of(h) if h else ["UNKNOWN"])
    tries = tries_of(h) if h else []
    items = []
    for t in tries:
        cl = []
        for classes, reraise, writes, exits in t:
            cl.append("(%s, %s, %d%%nat, %s)" % ("[" + "; ".join(coq_str(c) for c in classes) + "]", "true" if reraise else "false",
                                                writes, "true" if exits else "false"))
        items.append("[" + ";\n    ".join(cl) + "]")
    lines.append("Definition cli_%s_tries : list (list (list (list N) * bool * nat * bool)) :=\n  [%s]." % (cmd, ";\n   ".join(items)))
    lines.append("")
lines.append("Definition exc_hierarchy : list (list N * list (list N)) :=\n  [%s]." %
             ";\n   ".join("(%s, [%s])" % (coq_str(c), "; ".join(coq_str(b) for b in bs)) for c, bs in hier))
lines.append("")
text = "\n".join(lines)
old = open(OUT).read() if os.path.exists(OUT) else None
if old != text:
    open(OUT, "w").write(text)
print("Gen_cli.v written" if old != text else "Gen_cli.v unchanged")
