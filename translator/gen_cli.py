#!/usr/bin/env python3
"""Generate coq/gen/Gen_cli.v from /repo/jsonpath/cli.py and /repo/jsonpath/exceptions.py with Python's ast
(the package is never imported).  What is extracted:
  - per sub-command: the argparse destinations its parser defines;
  - per handler function: the attributes of `args` it reads;
  - per handler: its `try` statements in order, each with its ordered `except` clauses:
      (exception class names, re-raises when args.debug, writes to stderr, calls sys.exit(1));
  - the exception class hierarchy of exceptions.py (plus the few built-in ancestors the CLI relies on).
Fail-soft: anything the translator does not understand is recorded as the clause/attribute name "UNKNOWN",
which makes the generated table differ from what the proofs expect (a broken obligation, then searched), never a crash."""
import ast
import os
import sys

REPO = os.environ.get("VERIF_REPO", "/repo")
OUT = sys.argv[1] if len(sys.argv) > 1 else os.path.join(os.path.dirname(os.path.dirname(os.path.abspath(__file__))), "coq", "gen", "Gen_cli.v")


def coq_str(s):
    return "[" + "; ".join(str(ord(c)) for c in s) + "]%N"


def name_of(node):
    if isinstance(node, ast.Name):
        return node.id
    if isinstance(node, ast.Attribute):
        return node.attr        # json.JSONDecodeError -> JSONDecodeError
    return "UNKNOWN"


# ---- module-level helpers and constants are looked through (a handler may delegate to them) -------------------
FNS = {}        # module-level functions of cli.py, filled in below
CONSTS = {}     # module-level NAME = (A, B) / [A, B] / {A: ..., B: ...} / {A, B}


def const_names(node):
    """the exception class names a handler type expression denotes, looking through module-level constants"""
    if isinstance(node, ast.Tuple) or isinstance(node, ast.List) or isinstance(node, ast.Set):
        out = []
        for e in node.elts:
            out += const_names(e)
        return out
    if isinstance(node, ast.Dict):
        out = []
        for k in node.keys:
            out += const_names(k) if k is not None else ["UNKNOWN"]
        return out
    if isinstance(node, ast.Call) and isinstance(node.func, ast.Name) and node.func.id in ("tuple", "list", "set", "frozenset") and len(node.args) == 1:
        return const_names(node.args[0])
    if isinstance(node, ast.Name) and node.id in CONSTS:
        return const_names(CONSTS[node.id])
    return [name_of(node)]


def walk_inlined(node, args_names=("args",), depth=0, seen=()):
    """ast.walk that also descends into the bodies of module-level helper functions called from `node`; yields
    (node, names) where `names` are the local names that denote the argparse namespace at that point"""
    for n in ast.walk(node):
        yield n, args_names
        if isinstance(n, ast.Call) and isinstance(n.func, ast.Name) and n.func.id in FNS and depth < 4 and n.func.id not in seen:
            callee = FNS[n.func.id]
            params = [a.arg for a in callee.args.args]
            inner = []
            for i, a in enumerate(n.args):
                if isinstance(a, ast.Name) and a.id in args_names and i < len(params):
                    inner.append(params[i])
            for kw in n.keywords:
                if isinstance(kw.value, ast.Name) and kw.value.id in args_names and kw.arg:
                    inner.append(kw.arg)
            for stmt in callee.body:
                yield from walk_inlined(stmt, tuple(inner), depth + 1, seen + (n.func.id,))


def dests_of(fn, skip=()):
    out = []
    for node, _ in walk_inlined(fn, seen=tuple(skip)):
        if isinstance(node, ast.Call) and isinstance(node.func, ast.Attribute) and node.func.attr == "add_argument":
            dest = None
            for kw in node.keywords:
                if kw.arg == "dest" and isinstance(kw.value, ast.Constant):
                    dest = kw.value.value
            if dest is None:
                names = [a.value for a in node.args if isinstance(a, ast.Constant) and isinstance(a.value, str)]
                longs = [n for n in names if n.startswith("--")]
                if longs:
                    dest = longs[0][2:].replace("-", "_")
                elif names:
                    dest = names[0].lstrip("-").replace("-", "_")
            if dest:
                out.append(dest)
    return out


def reads_of(fn):
    out = []
    for node, names in walk_inlined(fn):
        if isinstance(node, ast.Attribute) and isinstance(node.value, ast.Name) and node.value.id in names:
            if node.attr not in out:
                out.append(node.attr)
        # a module-level class constructed with the namespace: what its methods read through `self.<attr>.<dest>`
        if isinstance(node, ast.Call) and isinstance(node.func, ast.Name) and node.func.id in CLASSES:
            bind = ctx_bindings(CLASSES[node.func.id], node) or {}
            held = [k for k, v in bind.items() if isinstance(v, ast.Name) and v.id in names]
            for sub in ast.walk(CLASSES[node.func.id]):
                if isinstance(sub, ast.Attribute) and _self_attr(sub.value) and sub.value.attr in held and sub.attr not in out:
                    out.append(sub.attr)
    return out


def clause_info(h):
    if h.type is None:
        classes = ["BaseException"]
    else:
        classes = const_names(h.type)
    src = ast.dump(ast.Module(body=h.body, type_ignores=[]))
    reraise_on_debug = False
    for node in h.body:
        if isinstance(node, ast.If) and isinstance(node.test, ast.Attribute) and node.test.attr == "debug":
            if any(isinstance(x, ast.Raise) and x.exc is None for x in node.body):
                reraise_on_debug = True
    writes = 0
    exits = False
    for node, _ in walk_inlined(ast.Module(body=h.body, type_ignores=[])):
        if isinstance(node, ast.Call) and isinstance(node.func, ast.Attribute):
            if node.func.attr == "write" and "stderr" in ast.dump(node.func):
                writes += 1
            if node.func.attr == "exit" and node.args and isinstance(node.args[0], ast.Constant) and node.args[0].value == 1:
                exits = True
    return classes, reraise_on_debug, writes, exits


# ---- error reporting through a context manager: `with Reporter(args, TABLE): <library call>` ---------------------
CLASSES = {}    # module-level classes of cli.py


def eval_pairs(node):
    """a static table of (exception classes, message prefix) pairs: tuple/list displays, module-level names and `+`"""
    if isinstance(node, ast.Name) and node.id in CONSTS:
        return eval_pairs(CONSTS[node.id])
    if isinstance(node, ast.BinOp) and isinstance(node.op, ast.Add):
        a, b = eval_pairs(node.left), eval_pairs(node.right)
        return None if a is None or b is None else a + b
    if isinstance(node, (ast.Tuple, ast.List)):
        out = []
        for e in node.elts:
            if isinstance(e, ast.Starred):
                sub = eval_pairs(e.value)
                if sub is None:
                    return None
                out += sub
            elif isinstance(e, (ast.Tuple, ast.List)) and len(e.elts) == 2:
                out.append(const_names(e.elts[0]))
            else:
                return None
        return out
    return None


def _is_false(node):
    return node is None or (isinstance(node, ast.Constant) and node.value in (False, None))


def _self_attr(node, attr=None):
    return (isinstance(node, ast.Attribute) and isinstance(node.value, ast.Name) and node.value.id == "self"
            and (attr is None or node.attr == attr))


def _count_effects(stmts):
    writes, exits = 0, False
    for node, _ in walk_inlined(ast.Module(body=stmts, type_ignores=[])):
        if isinstance(node, ast.Call) and isinstance(node.func, ast.Attribute):
            if node.func.attr == "write" and "stderr" in ast.dump(node.func):
                writes += 1
            if node.func.attr == "exit" and node.args and isinstance(node.args[0], ast.Constant) and node.args[0].value == 1:
                exits = True
    return writes, exits


def ctx_bindings(cls, call):
    """self attribute -> constructor argument expression, from `__init__`'s `self.X = param` statements"""
    init = next((n for n in cls.body if isinstance(n, ast.FunctionDef) and n.name == "__init__"), None)
    if init is None:
        return None
    params = [a.arg for a in init.args.args][1:]
    bound = {}
    for i, a in enumerate(call.args):
        if i < len(params):
            bound[params[i]] = a
    for kw in call.keywords:
        if kw.arg:
            bound[kw.arg] = kw.value
    out = {}
    for st in init.body:
        if isinstance(st, ast.Assign) and len(st.targets) == 1 and _self_attr(st.targets[0]) and isinstance(st.value, ast.Name):
            if st.value.id in bound:
                out[st.targets[0].attr] = bound[st.value.id]
    return out


def ctx_clauses(cls, call):
    """the clause table a `with cls(...)` statement amounts to, or None when `__exit__` is not of the recognised shape:
         [if exc is None: return False]
         for classes, prefix in self.TABLE:
             if isinstance(exc, classes):
                 [if not self.ARGS.debug:]  write to stderr; sys.exit(1)
                 break | return False
         return False"""
    bind = ctx_bindings(cls, call)
    ex = next((n for n in cls.body if isinstance(n, ast.FunctionDef) and n.name == "__exit__"), None)
    if bind is None or ex is None or len(ex.args.args) != 4:
        return None
    _, et, ev, _tb = [a.arg for a in ex.args.args]
    args_attr = next((k for k, v in bind.items() if isinstance(v, ast.Name) and v.id == "args"), None)
    body = [st for st in ex.body if not (isinstance(st, ast.Expr) and isinstance(st.value, ast.Constant))]
    clauses = None
    for st in body:
        if isinstance(st, ast.If) and isinstance(st.test, ast.Compare) and len(st.test.ops) == 1 and isinstance(st.test.ops[0], ast.Is) \
                and isinstance(st.test.left, ast.Name) and st.test.left.id in (et, ev) and _is_false(st.test.comparators[0]) \
                and len(st.body) == 1 and isinstance(st.body[0], ast.Return) and _is_false(st.body[0].value) and not st.orelse:
            continue
        if isinstance(st, ast.Return) and _is_false(st.value):
            continue
        if isinstance(st, ast.For) and clauses is None and isinstance(st.target, ast.Tuple) and len(st.target.elts) == 2 \
                and all(isinstance(e, ast.Name) for e in st.target.elts) and _self_attr(st.iter) and st.iter.attr in bind \
                and not st.orelse and len(st.body) == 1 and isinstance(st.body[0], ast.If) and not st.body[0].orelse:
            cn = st.target.elts[0].id
            test = st.body[0].test
            ok = (isinstance(test, ast.Call) and isinstance(test.func, ast.Name) and len(test.args) == 2
                  and isinstance(test.args[1], ast.Name) and test.args[1].id == cn and isinstance(test.args[0], ast.Name)
                  and ((test.func.id == "isinstance" and test.args[0].id == ev) or (test.func.id == "issubclass" and test.args[0].id == et)))
            pairs = eval_pairs(bind[st.iter.attr])
            if not ok or pairs is None:
                return None
            inner = list(st.body[0].body)
            if not inner or not ((isinstance(inner[-1], ast.Return) and _is_false(inner[-1].value)) or isinstance(inner[-1], ast.Break)):
                return None
            inner = inner[:-1]
            reraise = False
            if len(inner) == 1 and isinstance(inner[0], ast.If) and not inner[0].orelse and isinstance(inner[0].test, ast.UnaryOp) \
                    and isinstance(inner[0].test.op, ast.Not) and isinstance(inner[0].test.operand, ast.Attribute) \
                    and inner[0].test.operand.attr == "debug" and _self_attr(inner[0].test.operand.value, args_attr):
                reraise = True                      # with --debug nothing is written and the exception propagates
                inner = inner[0].body
            elif inner and isinstance(inner[0], ast.If) and not inner[0].orelse and isinstance(inner[0].test, ast.Attribute) \
                    and inner[0].test.attr == "debug" and _self_attr(inner[0].test.value, args_attr) and len(inner[0].body) == 1 \
                    and ((isinstance(inner[0].body[0], ast.Return) and _is_false(inner[0].body[0].value)) or isinstance(inner[0].body[0], ast.Break)):
                reraise = True
                inner = inner[1:]
            if any(isinstance(n, (ast.Return, ast.Raise, ast.Break, ast.Continue, ast.If, ast.For, ast.While, ast.Try, ast.With))
                   for s2 in inner for n in ast.walk(s2)):
                return None
            writes, exits = _count_effects(inner)
            clauses = [(classes, reraise, writes, exits) for classes in pairs]
            continue
        return None
    return clauses


def ctx_call(node):
    if isinstance(node, ast.With) and len(node.items) == 1 and isinstance(node.items[0].context_expr, ast.Call) \
            and isinstance(node.items[0].context_expr.func, ast.Name) and node.items[0].context_expr.func.id in CLASSES:
        return node.items[0].context_expr
    return None


def tries_of(fn):
    out = []
    for node in fn.body:
        if isinstance(node, ast.Try):
            out.append([clause_info(h) for h in node.handlers])
        elif isinstance(node, ast.With):
            call = ctx_call(node)
            cl = ctx_clauses(CLASSES[call.func.id], call) if call is not None else None
            out.append(cl if cl is not None else [(["UNKNOWN"], False, 0, False)])
    return out


cli = ast.parse(open(os.path.join(REPO, "jsonpath", "cli.py")).read())
fns = {n.name: n for n in cli.body if isinstance(n, ast.FunctionDef)}
FNS.update(fns)
CLASSES.update({n.name: n for n in cli.body if isinstance(n, ast.ClassDef)})
for n in cli.body:
    if isinstance(n, ast.Assign) and len(n.targets) == 1 and isinstance(n.targets[0], ast.Name):
        CONSTS[n.targets[0].id] = n.value
    elif isinstance(n, ast.AnnAssign) and isinstance(n.target, ast.Name) and n.value is not None:
        CONSTS[n.target.id] = n.value
exc = ast.parse(open(os.path.join(REPO, "jsonpath", "exceptions.py")).read())
hier = []
for n in exc.body:
    if isinstance(n, ast.ClassDef):
        hier.append((n.name, [name_of(b) for b in n.bases]))
BUILTIN = [("JSONDecodeError", ["ValueError"]), ("UnicodeDecodeError", ["ValueError"]), ("ValueError", ["Exception"]),
           ("IndexError", ["Exception"]), ("KeyError", ["Exception"]), ("TypeError", ["Exception"]), ("AttributeError", ["Exception"]),
           ("Exception", ["BaseException"])]
hier += BUILTIN

lines = ["(* GENERATED by translator/gen_cli.py from jsonpath/cli.py and jsonpath/exceptions.py - do not edit. *)",
         "From Coq Require Import NArith List Bool.", "Import ListNotations.", ""]


def emit_strs(name, strs):
    lines.append("Definition %s : list (list N) :=\n  [%s]." % (name, ";\n   ".join(coq_str(s) for s in strs)))
    lines.append("")


for cmd in ("path", "pointer", "patch"):
    emit_strs("cli_%s_dests" % cmd, dests_of(fns.get("%s_sub_command" % cmd, ast.parse("def f(): pass").body[0])) +
              dests_of(fns.get("setup_parser", ast.parse("def f(): pass").body[0]),
                       skip=("path_sub_command", "pointer_sub_command", "patch_sub_command")))
    h = fns.get("handle_%s_command" % cmd)
    emit_strs("cli_%s_reads" % cmd, sorted(reads_of(h)) if h else ["UNKNOWN"])
    tries = tries_of(h) if h else []
    items = []
    for t in tries:
        cl = []
        for classes, reraise, writes, exits in t:
            cl.append("(%s, %s, %d%%nat, %s)" % ("[" + "; ".join(coq_str(c) for c in classes) + "]", "true" if reraise else "false",
                                                writes, "true" if exits else "false"))
        items.append("[" + ";\n    ".join(cl) + "]")
    lines.append("Definition cli_%s_tries : list (list (list (list N) * bool * nat * bool)) :=\n  [%s]." % (cmd, ";\n   ".join(items)))
    lines.append("")
lines.append("Definition exc_hierarchy : list (list N * list (list N)) :=\n  [%s]." %
             ";\n   ".join("(%s, [%s])" % (coq_str(c), "; ".join(coq_str(b) for b in bs)) for c, bs in hier))
lines.append("")
text = "\n".join(lines)
old = open(OUT).read() if os.path.exists(OUT) else None
if old != text:
    open(OUT, "w").write(text)
print("Gen_cli.v written" if old != text else "Gen_cli.v unchanged")
