"""C01 — RFC 9535 segments and selectors yield exactly the specified nodelist."""
import jsonpath

from . import sx as SX
from . import qgen as Q
from .common import NAME_POOL, SMALL_DOCS, exc_name, gen_doc, gen_container, sx_to_loc, deep

ID = "C01"
PROP_FILE = "props/C01.v"
RULE = ("random queries over the standard selector grammar (name, index, slice, wildcard; alone or in bracketed lists of "
        "1..3; child and descendant segments; 0..4 segments) rendered with random spelling (dot shorthand or brackets, "
        "either quote style, escape choices, blanks from {SP, HT, LF, CR} wherever the grammar has S) x documents "
        "(fixed small universe + random depth<=3 width<=3 with a nasty member-name pool); exhaustive slices start, "
        "stop in {None, -7..7}, step in {None, -3..3} on arrays of length 0..5; every selector kind against every JSON kind. "
        "non-trivial = at least one segment; distinct = distinct (query text, document)")
TRUSTED = []
ASSUMPTIONS = ["top-level str documents are excluded (the API reads a str as JSON text)"]

DOC_NAMES = ["a", "b", "c", "d", "", "0", "1", "-1", "01", "a b", "é", "\U0001F600", "'", '"', "\\", "a\\", "/", "~", "*",
             "\n", "\x01", "and", "true", "_x", "x-y"]


def std_ok(segs):
    """std_query: every '..' is followed by a child segment (no trailing '..', no '....')."""
    for i, g in enumerate(segs):
        if g == "desc" and (i + 1 >= len(segs) or segs[i + 1] == "desc"):
            return False
    return True


def gen(rng, tier):
    thorough = tier == "thorough"
    docs = [d for d in SMALL_DOCS if not isinstance(d, str)]
    # every selector kind against every JSON kind
    kinds = [None, True, 5, 1.5, [], {}, [1, "ab", [2]], {"a": 1, "0": 2, "b": {"a": 3}}, {"x": "str"}, ["s"]]
    sels = [["name", "a"], ["name", "0"], ["idx", 0], ["idx", -1], ["slice", None, None, None], ["slice", 0, 2, 1],
            ["slice", None, None, -1], "wild"]
    for d in kinds:
        for s in sels:
            for pre in ([], ["desc"]):
                for wrap in ([], [["list", ["name", "x"]]]):
                    yield {"segs": wrap + pre + [["list", s]], "doc": {"x": d} if wrap else d, "seed": 1}
    # exhaustive slices
    rng_b = [None] + list(range(-7, 8)) if thorough else [None, -7, -3, -1, 0, 1, 2, 4, 7]
    rng_s = [None, -3, -2, -1, 0, 1, 2, 3]
    for n in range(0, 6):
        arr = list(range(n))
        for a in rng_b:
            for b in rng_b:
                for c in rng_s:
                    yield {"segs": [["list", ["slice", a, b, c]]], "doc": arr, "seed": 2}
    # member names with characters that are legal unescaped in a quoted name (everything from U+0020 on, except the quote and
    # the backslash) although they are "not printable": DEL, C1 controls, no-break / line / paragraph separators, format
    # characters (soft hyphen, zero-width joiner), private use, unassigned
    odd = ["prix\u00a0ttc", "a\x7fb", "l\u2028s", "p\u2029", "\U0001F468\u200d\U0001F469", "soft\u00adhy", "\ue000pua", "\x85", "\u0378", "\ufeffbom", "\u3000", "tab\there"]
    odoc = {n: i for i, n in enumerate(odd)}
    odoc["in"] = {n: [i] for i, n in enumerate(odd[:4])}
    for n in odd:
        for segs in ([["list", ["name", n]]], ["desc", ["list", ["name", n]]], [["list", ["name", "in"]], ["list", ["name", n], ["name", "a"]]]):
            for seed in (1, 2, 3):
                yield {"segs": segs, "doc": odoc, "seed": seed}
    # queries that differ only by blank space INSIDE a quoted member name, one after the other in the same process
    bdoc = {"a b": 1, "ab": 2, " b": 3, "b": 4, "k 1": 5, "k1": 6, "a": {" b": 7, "b": 8, "b ": 9}, "": 0, " ": 10}
    for names in (["a b"], ["ab"], [" b"], ["b"], ["k 1"], ["k1"], [" "], [""], ["b", " b"], [" b", "b"], ["k1", "k 1"], ["a b", "ab", "b"]):
        for pre in ([], ["desc"], [["list", ["name", "a"]]]):
            for seed in (1, 2):
                yield {"segs": pre + [["list"] + [["name", n] for n in names]], "doc": bdoc, "seed": seed}
    # integers exactly at the I-JSON limits (RFC 9535 section 2.1: both ends are inside the range), in every position
    lim = 2 ** 53 - 1
    for arr in ([], ["a"], ["a", "b", "c"], {"k": ["a", "b", "c"]}):
        for a, b, c in [(0, lim, None), (None, None, -lim), (-lim, None, None), (None, lim, 1), (lim, None, -1), (None, -lim, -1),
                        (0, lim - 1, lim), (1, None, lim), (-lim, lim, lim), (lim, -lim, -lim), (None, None, lim - 1)]:
            yield {"segs": [["list", ["slice", a, b, c]]], "doc": arr, "seed": 3}
            yield {"segs": [["list", ["idx", 1], ["slice", a, b, c]]], "doc": arr, "seed": 3}
            yield {"segs": ["desc", ["list", ["slice", a, b, c]]], "doc": arr, "seed": 3}
        for i in (lim, -lim, lim - 1, 1 - lim):
            yield {"segs": [["list", ["idx", i]]], "doc": arr, "seed": 3}
            yield {"segs": ["desc", ["list", ["idx", i], ["idx", 0]]], "doc": arr, "seed": 3}
    # the same non-empty subtree at several positions (a caller's `[row] * 2`; entry_points evaluates the copy in which equal
    # containers are ONE object): a traversal that remembers what it has visited must still descend into each occurrence
    for sub in ({"a": 1, "b": [2, {"a": 3}]}, [1, [2, {"a": 5}]]):
        for doc in ({"x": sub, "y": [sub, {"a": 4}]}, [sub, sub, [sub]], {"a": {"a": sub}, "b": sub}):
            for segs in (["desc", ["list", ["name", "a"]]], ["desc", ["list", "wild"]], ["desc", ["list", ["idx", 0]]],
                         ["desc", ["list", ["idx", -1], ["name", "b"]]], [["list", "wild"], "desc", ["list", ["slice", None, None, -1]]]):
                yield {"segs": segs, "doc": doc, "seed": 3}
    n = 20000 if thorough else 1500
    for i in range(n):
        doc = rng.choice(docs) if rng.random() < 0.2 else (gen_container(rng, 4, 3, DOC_NAMES) if rng.random() < 0.8 else gen_doc(rng, 3, 3, DOC_NAMES))
        if isinstance(doc, str):
            continue
        if rng.random() < 0.2:
            doc = graft(rng, doc)
        segs = Q.gen_std_segs(rng, 4, Q.NAMES) if rng.random() < 0.1 else Q.gen_segs_for_doc(rng, doc, 4)
        if not std_ok(segs) and rng.random() < 0.9:
            continue
        yield {"segs": segs, "doc": doc, "seed": rng.randrange(1 << 30)}


def graft(rng, doc):
    """a copy of the document in which one non-empty container subtree occurs a second time, somewhere else"""
    import copy
    doc = copy.deepcopy(doc)
    subs, hosts = [], []

    def walk(v, depth):
        if isinstance(v, (dict, list)):
            hosts.append(v)
            if v and depth > 0:
                subs.append(v)
            for x in (v.values() if isinstance(v, dict) else v):
                walk(x, depth + 1)
    walk(doc, 0)
    if not subs:
        return doc
    sub = copy.deepcopy(rng.choice(subs))
    host = rng.choice(hosts)
    if isinstance(host, list):
        host.insert(rng.randint(0, len(host)), sub)
    else:
        host[rng.choice(["a", "b", "c", "d"])] = sub
    return doc


def text_of(case):
    import random
    sp = Q.Speller(random.Random(case["seed"]), blanks=0.2)
    return Q.render_path({"fake": False, "segs": case["segs"]}, sp)


def to_sx(case):
    q = {"first": {"fake": False, "segs": case["segs"]}, "rest": []}
    return ["eval", Q.query_sx(q), SX.j2sx(case["doc"]), SX.j2sx({})]


def show_matches(ms):
    return [[[p if isinstance(p, int) else ["k", p] for p in m.parts], m.path, SX.canon(m.obj)] for m in ms]


def impl(case):
    text = text_of(case)
    doc = deep(case["doc"])
    out = {"text": text}
    try:
        c = jsonpath.compile(text)
    except Exception as e:  # noqa: BLE001
        out["compile"] = ["err", exc_name(e)]
        return out
    from .evalbase import used_before
    used_before(c, doc)
    try:
        ms = list(c.finditer(doc))
        out["matches"] = show_matches(ms)
    except Exception as e:  # noqa: BLE001
        out["matches"] = ["err", exc_name(e)]
    out["doc_unchanged"] = SX.canon(doc) == SX.canon(case["doc"])
    if isinstance(out["matches"], list) and out["matches"][:1] != ["err"]:
        from .evalbase import entry_points
        out["entry_points"] = entry_points(text, case["doc"], reference=["ok", [m[2] for m in out["matches"]]])
    return out


def decode_matches(x):
    out = []
    for m in x:
        loc = sx_to_loc(m[0])
        out.append([[p if isinstance(p, int) else ["k", p] for p in loc], SX.sx2s(m[1]), SX.canon(SX.sx2j(m[2]))])
    return out


def decode(sx, case):
    if sx[0] == "unsupported":
        return {"model": {}, "spec": {}, "in_domain": False, "skip": True}
    _, fi, fa, spec, wf = sx[:5]
    model = {"text": text_of(case)}
    model["matches"] = decode_matches(fi[1]) if fi[0] == "ok" else ["err", fi[1]]
    model["doc_unchanged"] = True
    if fi[0] == "ok":
        model["entry_points"] = "same"        # one evaluator: every route is this function of (query, document)
    sp = {}
    if spec != "na":
        sp["entry_points"] = "same"
        sp["nodes"] = [[[p if isinstance(p, int) else ["k", p] for p in sx_to_loc(n[0])], SX.canon(SX.sx2j(n[1]))]
                       for n in spec[1]]
    std = sx[7][1] == "true"
    return {"model": model, "spec": sp, "in_domain": std and wf[1] == "true"}


def project(case, res, dec=None):
    if "matches" not in res or (res["matches"] and res["matches"][0] == "err"):
        return {"unexpected": res.get("compile") or res.get("matches")}
    return {"nodes": [[m[0], m[2]] for m in res["matches"]], "entry_points": res.get("entry_points", "same")}


def nontrivial(case, res):
    return len(case["segs"]) > 0


def classify(case, res):
    tags = []
    for g in case["segs"]:
        if g == "desc":
            tags.append("seg=descendant")
        else:
            for s in (g[1:] if g[0] == "list" else [g[1]]):
                tags.append("sel=" + (s if isinstance(s, str) else s[0]))
    if "matches" in res and not (res["matches"] and res["matches"][0] == "err"):
        tags.append("nmatches=" + ("0" if not res["matches"] else ("1" if len(res["matches"]) == 1 else "many")))
    elif "compile" in res:
        tags.append("compile-error=" + res["compile"][1])
    return tags
