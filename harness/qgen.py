"""Query ASTs: generation, rendering to surface syntax (with spelling choices), wire encoding,
and a structural dump of the implementation's compiled query in the same AST format.

AST (nested lists, mirrors coq/model/Syntax.v):
  query   := {"first": path, "rest": [[op, path], ...]}      op in {"union", "inter"}
  path    := {"fake": bool, "segs": [seg, ...]}
  seg     := ["sel", sel] | "desc" | ["list", sel, ...]
  sel     := ["name", str] | ["idx", int] | ["slice", a, b, c] | "wild" | "keys" | ["filter", expr]
  expr    := "nil" | "undef" | "key" | ["lit", v] | ["re", pat, flags] | ["list", expr...] | ["not", e]
           | ["op", o, l, r] | ["self", seg...] | ["root", fake, seg...] | ["ctx", seg...] | ["fn", name, arg...]
"""
import json
import re

from . import sx as SX

RESERVED = {"and", "or", "not", "in", "contains", "true", "false", "True", "False", "nil", "Nil", "null", "Null", "none",
            "None", "undefined", "missing"}
SHORTHAND_RE = re.compile(r"[\u0080-\U0010FFFFa-zA-Z_][\u0080-\U0010FFFFa-zA-Z0-9_]*\Z")

BLANKS = [" ", "  ", "\t", "\n", "\r", " \n "]


class Speller:
    """Spelling choices drawn from one rng: quote style, escapes, blanks where RFC 9535 allows S."""

    def __init__(self, rng, blanks=0.15, std=True, tok=None):
        self.rng = rng
        self.p_blank = blanks
        self.std = std
        self.tok = {"root": "$", "fake": "^", "self": "@", "key": "#", "union": "|", "inter": "&", "fctx": "_", "keys": "~"}
        if tok:
            self.tok.update(tok)

    def S(self):
        return self.rng.choice(BLANKS) if self.rng.random() < self.p_blank else ""

    def string(self, s):
        q = "'" if self.rng.random() < 0.6 else '"'
        out = []
        for ch in s:
            o = ord(ch)
            if ch == q:
                out.append("\\" + q)
            elif ch == "\\":
                out.append("\\\\")
            elif o < 0x20:
                short = {8: "\\b", 12: "\\f", 10: "\\n", 13: "\\r", 9: "\\t"}
                if o in short and self.rng.random() < 0.7:
                    out.append(short[o])
                else:
                    out.append("\\u%04x" % o if self.rng.random() < 0.5 else "\\u%04X" % o)
            elif self.rng.random() < 0.05:
                if o > 0xFFFF:
                    o2 = o - 0x10000
                    out.append("\\u%04x\\u%04x" % (0xD800 + (o2 >> 10), 0xDC00 + (o2 & 0x3FF)))
                elif not (0xD800 <= o <= 0xDFFF):
                    out.append("\\u%04x" % o)
                else:
                    out.append(ch)
            elif ch == "/" and self.rng.random() < 0.2:
                out.append("\\/")
            else:
                out.append(ch)
        return q + "".join(out) + q


def shorthand_ok(name, after_descent=False):
    if not SHORTHAND_RE.match(name):
        return False
    if name in RESERVED:
        return False
    # implementation lexer: a name starting with the filter-context token is not a bare name after '..'
    if after_descent and name.startswith("_"):
        return False
    return True


# ---- rendering ------------------------------------------------------------------
def render_num(v):
    if isinstance(v, bool):
        return "true" if v else "false"
    if isinstance(v, int):
        return str(v)
    r = repr(v)
    return r


def render_sel(sel, sp):
    if sel == "wild":
        return "*"
    if sel == "keys":
        return sp.tok["keys"]
    k = sel[0]
    if k == "name":
        # (a bare name must not begin with an identifier token such as `_`: the lexer tries those first)
        if getattr(sp, "bare", 0) and shorthand_ok(sel[1], after_descent=True) and sp.rng.random() < sp.bare:
            return sel[1]          # a bare member name inside brackets (non-standard, accepted)
        return sp.string(sel[1])
    if k == "idx":
        return str(sel[1])
    if k == "slice":
        a, b, c = sel[1:]
        out = ("" if a is None else str(a)) + sp.S() + ":" + sp.S() + ("" if b is None else str(b))
        if c is not None or sp.rng.random() < 0.2:
            out += sp.S() + ":" + sp.S() + ("" if c is None else str(c))
        return out
    if k == "filter":
        return "?" + sp.S() + render_expr(sel[1], sp, 0)
    raise ValueError(sel)


def render_segs(segs, sp):
    out = []
    prev_desc = False
    for g in segs:
        if g == "desc":
            out.append(sp.S() + "..")
            prev_desc = True
            continue
        if g[0] == "sel":
            s = g[1]
            lead = "" if prev_desc else sp.S() + "."
            if s == "wild":
                out.append(lead + "*")
            elif s == "keys":
                out.append(lead + sp.tok["keys"])
            elif s[0] == "name":
                out.append(lead + s[1])
            else:
                raise ValueError(("bare", s))
        else:
            items = g[1:]
            body = (sp.S() + "," + sp.S()).join(render_sel(s, sp) for s in items)
            out.append(("" if prev_desc else sp.S()) + "[" + sp.S() + body + sp.S() + "]")
        prev_desc = False
    return "".join(out)


PREC = {"||": 1, "&&": 2}


def expr_prec(e):
    if isinstance(e, list) and e[0] == "op":
        return PREC.get(e[1], 3)
    if isinstance(e, list) and e[0] == "not":
        return 4
    return 5


def render_expr(e, sp, min_prec):
    if e == "nil":
        return sp.rng.choice(["null"] if sp.std else ["null", "nil", "none", "None", "Null", "Nil"])
    if e == "undef":
        return sp.rng.choice(["undefined", "missing"])
    if e == "key":
        return sp.tok["key"]
    k = e[0]
    if k == "lit":
        v = e[1]
        if v is None:
            return "null"
        if isinstance(v, bool):
            if sp.std:
                return "true" if v else "false"
            return sp.rng.choice(["true", "True"] if v else ["false", "False"])
        if isinstance(v, int) and abs(v) >= 10 and v % 10 == 0:
            # RFC 9535 number = int [frac] [exp]: an integer may be written with an exponent (read as the nearest double)
            fl = repr(float(v))
            if int(float(v)) == v and sp.rng.random() < getattr(sp, "exp_ints", 0.5):
                if "e" in fl and "." not in fl:
                    return sp.rng.choice([fl, fl.replace("e+", "e"), fl.replace("e", "E")])
                t = str(abs(v)).rstrip("0")
                return ("-" if v < 0 else "") + t + sp.rng.choice(["e", "E", "e+"]) + str(len(str(abs(v))) - len(t))
        if isinstance(v, (int, float)):
            return render_num(v)
        return sp.string(v)
    if k == "re":
        return "/" + e[1] + "/" + e[2]
    if k == "list":
        return "[" + sp.S() + (sp.S() + "," + sp.S()).join(render_expr(x, sp, 0) for x in e[1:]) + sp.S() + "]"
    if k == "not":
        inner = render_expr(e[1], sp, 4)
        neg = "!" if sp.std else sp.rng.choice(["!", "not "])
        s = neg + sp.S() + inner
        return "(" + sp.S() + s + sp.S() + ")" if min_prec > 4 else s
    if k == "op":
        o = e[1]
        p = PREC.get(o, 3)
        spell = o
        if not sp.std:
            spell = {"&&": sp.rng.choice(["&&", "and"]), "||": sp.rng.choice(["||", "or"]),
                     "!=": sp.rng.choice(["!=", "<>"])}.get(o, o)
        if o == "<>":
            spell = "<>"
        sep_l = sp.S() if spell[0] not in "aoic" else " "
        sep_r = sp.S() if spell[-1] not in "drns" else " "
        if p == 3:
            s = render_expr(e[2], sp, 4) + (sep_l or " ") + spell + (sep_r or " ") + render_expr(e[3], sp, 4)
        else:
            s = render_expr(e[2], sp, p) + (sep_l or " ") + spell + (sep_r or " ") + render_expr(e[3], sp, p)
        if p < min_prec or sp.rng.random() < 0.05:
            return "(" + sp.S() + s + sp.S() + ")"
        return s
    if k == "self":
        return sp.tok["self"] + render_segs(e[1:], sp)
    if k == "root":
        return (sp.tok["fake"] if e[1] else sp.tok["root"]) + render_segs(e[2:], sp)
    if k == "ctx":
        return sp.tok["fctx"] + render_segs(e[1:], sp)
    if k == "fn":
        return e[1] + "(" + sp.S() + (sp.S() + "," + sp.S()).join(render_expr(a, sp, 0) for a in e[2:]) + sp.S() + ")"
    raise ValueError(e)


def render_path(path, sp, implicit_root=False):
    root = sp.tok["fake"] if path["fake"] else ("" if implicit_root else sp.tok["root"])
    segs = path["segs"]
    if (implicit_root and not path["fake"] and getattr(sp, "bare", 0) and segs and isinstance(segs[0], list) and segs[0][0] == "sel"
            and isinstance(segs[0][1], list) and segs[0][1][0] == "name" and shorthand_ok(segs[0][1][1], after_descent=True)
            and sp.rng.random() < 0.6):
        return segs[0][1][1] + render_segs(segs[1:], sp)      # a root-less query may begin with a bare name
    return root + render_segs(segs, sp)


def render_query(q, sp):
    out = render_path(q["first"], sp)
    for op, p in q["rest"]:
        out += " " + (sp.tok["union"] if op == "union" else sp.tok["inter"]) + " " + render_path(p, sp)
    return out


# ---- wire encoding ---------------------------------------------------------------
def sel_sx(s):
    if isinstance(s, str):
        return s
    k = s[0]
    if k == "name":
        return ["name", SX.s2sx(s[1])]
    if k == "idx":
        return ["idx", s[1]]
    if k == "slice":
        return ["slice"] + ["none" if x is None else x for x in s[1:]]
    if k == "filter":
        return ["filter", expr_sx(s[1])]
    raise ValueError(s)


def seg_sx(g):
    if g == "desc":
        return "desc"
    if g[0] == "sel":
        return ["sel", sel_sx(g[1])]
    return ["list"] + [sel_sx(s) for s in g[1:]]


def expr_sx(e):
    if isinstance(e, str):
        return e
    k = e[0]
    if k == "lit":
        return ["lit", SX.j2sx(e[1])]
    if k == "re":
        return ["re", SX.s2sx(e[1]), e[2]] if e[2] else ["re", SX.s2sx(e[1])]
    if k == "list":
        return ["list"] + [expr_sx(x) for x in e[1:]]
    if k == "not":
        return ["not", expr_sx(e[1])]
    if k == "op":
        return ["op", e[1], expr_sx(e[2]), expr_sx(e[3])]
    if k == "self":
        return ["self"] + [seg_sx(g) for g in e[1:]]
    if k == "root":
        return ["root", e[1]] + [seg_sx(g) for g in e[2:]]
    if k == "ctx":
        return ["ctx"] + [seg_sx(g) for g in e[1:]]
    if k == "fn":
        return ["fn", SX.s2sx(e[1])] + [expr_sx(a) for a in e[2:]]
    raise ValueError(e)


def path_sx(p):
    return ["path", p["fake"]] + [seg_sx(g) for g in p["segs"]]


def query_sx(q):
    return ["query", path_sx(q["first"])] + [[op, path_sx(p)] for op, p in q["rest"]]


# ---- structural dump of the implementation's compiled query ------------------------
def dump_expr(e):
    import jsonpath.filter as F
    if isinstance(e, F.BooleanExpression):
        return dump_expr(e.expression)
    if isinstance(e, F.CachingFilterExpression):
        return dump_expr(e._expr)
    if isinstance(e, F.Nil):
        return "nil"
    if isinstance(e, F.Undefined):
        return "undef"
    if isinstance(e, F.CurrentKey):
        return "key"
    if isinstance(e, F.RegexLiteral):
        flags = "".join(ch for fl, ch in F.RegexLiteral.RE_FLAG_MAP.items() if e.value.flags & fl)
        return ["re", e.value.pattern, flags]
    if isinstance(e, F.Literal):
        return ["lit", e.value]
    if isinstance(e, F.ListLiteral):
        return ["list"] + [dump_expr(x) for x in e.items]
    if isinstance(e, F.PrefixExpression):
        return ["not", dump_expr(e.right)]
    if isinstance(e, F.InfixExpression):
        return ["op", e.operator, dump_expr(e.left), dump_expr(e.right)]
    if isinstance(e, F.SelfPath):
        return ["self"] + dump_segs(e.path)
    if isinstance(e, F.RootPath):
        return ["root", e.path.fake_root] + dump_segs(e.path)
    if isinstance(e, F.FilterContextPath):
        return ["ctx"] + dump_segs(e.path)
    if isinstance(e, F.FunctionExtension):
        return ["fn", e.name] + [dump_expr(a) for a in e.args]
    return ["?", type(e).__name__]


def dump_sel(s):
    import jsonpath.selectors as S
    if isinstance(s, S.PropertySelector):
        return ["name", s.name]
    if isinstance(s, S.IndexSelector):
        return ["idx", s.index]
    if isinstance(s, S.SliceSelector):
        return ["slice", s.slice.start, s.slice.stop, s.slice.step]
    if isinstance(s, S.WildSelector):
        return "wild"
    if isinstance(s, S.KeysSelector):
        return "keys"
    if isinstance(s, S.Filter):
        return ["filter", dump_expr(s.expression)]
    return ["?", type(s).__name__]


def dump_segs(path):
    import jsonpath.selectors as S
    out = []
    for s in path.selectors:
        if isinstance(s, S.RecursiveDescentSelector):
            out.append("desc")
        elif isinstance(s, S.ListSelector):
            out.append(["list"] + [dump_sel(x) for x in s.items])
        else:
            out.append(["sel", dump_sel(s)])
    return out


def dump_query(c):
    import jsonpath
    if isinstance(c, jsonpath.CompoundJSONPath):
        first = c.path
        while isinstance(first, jsonpath.CompoundJSONPath):     # never nested in practice
            first = first.path
        rest = [["union" if op == c.env.union_token else "inter", {"fake": p.fake_root, "segs": dump_segs(p)}]
                for op, p in c.paths]
        return {"first": {"fake": first.fake_root, "segs": dump_segs(first)}, "rest": rest}
    return {"first": {"fake": c.fake_root, "segs": dump_segs(c)}, "rest": []}


# ---- generators --------------------------------------------------------------------
NAMES = ["a", "b", "c", "d", "", "0", "1", "-1", "01", "a b", "é", "\U0001F600", "'", '"', "\\", "a\\", "/", "~", "*", "..",
         "\n", "\x01", "and", "true", "_x", "x-y", "$", "@"]
INDICES = [0, 1, 2, -1, -2, 5, -5, 10]
BOUNDS = [None, None, 0, 1, 2, -1, -2, 3, -3, 7, -7]
STEPS = [None, None, 1, 2, -1, -2, 0, 3]


def gen_std_sel(rng, names=NAMES):
    r = rng.random()
    if r < 0.4:
        return ["name", rng.choice(names)]
    if r < 0.6:
        return ["idx", rng.choice(INDICES)]
    if r < 0.8:
        return ["slice", rng.choice(BOUNDS), rng.choice(BOUNDS), rng.choice(STEPS)]
    return "wild"


def gen_std_segs(rng, maxlen=4, names=NAMES, sel_gen=None):
    sel_gen = sel_gen or (lambda: gen_std_sel(rng, names))
    segs = []
    n = rng.randint(0, maxlen)
    for _ in range(n):
        desc = rng.random() < 0.25
        if desc:
            segs.append("desc")
        r = rng.random()
        if r < 0.35:
            s = sel_gen()
            if s == "wild" or (isinstance(s, list) and s[0] == "name" and shorthand_ok(s[1], desc)):
                segs.append(["sel", s])
            else:
                segs.append(["list", s])
        else:
            k = 1 if rng.random() < 0.6 else rng.randint(2, 3)
            segs.append(["list"] + [sel_gen() for _ in range(k)])
    return segs


def _guide_apply(v, sel):
    try:
        if sel == "wild":
            return list(v.values()) if isinstance(v, dict) else (list(v) if isinstance(v, list) else [])
        if sel[0] == "name":
            return [v[sel[1]]] if isinstance(v, dict) and sel[1] in v else []
        if sel[0] == "idx":
            if isinstance(v, list):
                return [v[sel[1]]]
            return [v[str(sel[1])]] if isinstance(v, dict) and str(sel[1]) in v else []
        if sel[0] == "slice":
            return v[slice(sel[1], sel[2], sel[3])] if isinstance(v, list) and sel[3] != 0 else []
        if sel[0] == "filter":
            return list(v.values()) if isinstance(v, dict) else (list(v) if isinstance(v, list) else [])
    except (IndexError, KeyError):
        return []
    return []


def gen_segs_for_doc(rng, doc, maxlen=4, sel_extra=None):
    """Standard segments biased towards selecting something in `doc`: names and indices are mostly taken
    from the nodes the query has reached so far."""
    cur = [doc]
    segs = []
    for _ in range(rng.randint(1, maxlen)):
        desc = rng.random() < 0.2
        if desc:
            segs.append("desc")
            nxt = []
            stack = list(cur)
            while stack and len(nxt) < 30:
                v = stack.pop()
                nxt.append(v)
                if isinstance(v, dict):
                    stack.extend(v.values())
                elif isinstance(v, list):
                    stack.extend(v)
            cur = nxt
        def sel():
            if sel_extra is not None and rng.random() < 0.25:
                return sel_extra()
            conts = [v for v in cur if isinstance(v, (dict, list)) and len(v) > 0]
            if conts and rng.random() < 0.9:
                v = rng.choice(conts)
                if isinstance(v, dict):
                    return ["name", rng.choice(list(v.keys()))] if rng.random() < 0.8 else "wild"
                r = rng.random()
                if r < 0.5:
                    return ["idx", rng.choice([rng.randrange(len(v)), -rng.randint(1, len(v))])]
                if r < 0.8:
                    return ["slice", rng.choice(BOUNDS), rng.choice(BOUNDS), rng.choice(STEPS)]
                return "wild"
            return gen_std_sel(rng)
        k = 1 if rng.random() < 0.65 else rng.randint(2, 3)
        items = [sel() for _ in range(k)]
        if k == 1 and (items[0] == "wild" or (isinstance(items[0], list) and items[0][0] == "name"
                                               and shorthand_ok(items[0][1], desc))) and rng.random() < 0.5:
            segs.append(["sel", items[0]])
        else:
            segs.append(["list"] + items)
        # advance the reached set (generation guidance only, not an oracle)
        nxt = []
        for v in cur:
            for it in items:
                nxt.extend(_guide_apply(v, it))
        cur = nxt[:40]
        if not cur:
            break
    return segs


def gen_singular_segs(rng, names=None, maxlen=2):
    names = names or ["a", "b", "c", "d", "0", "1", "é", ""]
    out = []
    for _ in range(rng.randint(0, maxlen)):
        if rng.random() < 0.7:
            nm = rng.choice(names)
            out.append(["sel", ["name", nm]] if shorthand_ok(nm) and rng.random() < 0.6 else ["list", ["name", nm]])
        else:
            out.append(["list", ["idx", rng.choice([0, 1, -1, 2])]])
    return out


LITERALS = [None, True, False, 0, 1, 2, -1, 1.0, 1.5, 0.0, "", "a", "b", "ab", "0", "1", "é", 10, "A"]
CMP_OPS = ["==", "!=", "<", "<=", ">", ">="]
PATTERNS = ["a", "a.*", "[ab]+", "a|b", ".", "(ab)*", "[^a]", "a?b", "é", "1", "a|ab", "(a|ab)(c|bcd)?", "a|ab|abc", "(a|ab)*"]


def gen_comparable(rng, depth):
    r = rng.random()
    if r < 0.3:
        return ["lit", rng.choice(LITERALS)]
    if r < 0.7:
        return ["self"] + gen_singular_segs(rng)
    if r < 0.8:
        return ["root", False] + gen_singular_segs(rng)
    r2 = rng.random()
    if r2 < 0.4:
        return ["fn", "length", gen_comparable(rng, depth - 1) if depth > 0 else ["self"] + gen_singular_segs(rng)]
    if r2 < 0.7:
        return ["fn", "count", gen_query_expr(rng, depth - 1)]
    return ["fn", "value", gen_query_expr(rng, depth - 1)]


def gen_query_expr(rng, depth):
    """a filter-query (NodesType): any relative or absolute query, possibly with a nested filter"""
    def sel():
        if depth > 0 and rng.random() < 0.2:
            return ["filter", gen_logical(rng, depth - 1)]
        return gen_std_sel(rng, ["a", "b", "c", "d", "0", "1"])
    segs = gen_std_segs(rng, 2, ["a", "b", "c", "d"], sel)
    if rng.random() < 0.75:
        return ["self"] + segs
    return ["root", False] + segs


def gen_logical(rng, depth):
    r = rng.random()
    if depth <= 0 or r < 0.35:
        r2 = rng.random()
        if r2 < 0.5:
            return ["op", rng.choice(CMP_OPS), gen_comparable(rng, depth), gen_comparable(rng, depth)]
        if r2 < 0.8:
            return gen_query_expr(rng, depth)
        name = rng.choice(["match", "search"])
        return ["fn", name, gen_comparable(rng, 0), ["lit", rng.choice(PATTERNS)] if rng.random() < 0.8 else gen_comparable(rng, 0)]
    if r < 0.5:
        return ["not", gen_logical(rng, depth - 1)]
    return ["op", rng.choice(["&&", "||"]), gen_logical(rng, depth - 1), gen_logical(rng, depth - 1)]


def canon_ast(x):
    def big(v):
        if isinstance(v, bool) or not isinstance(v, (int, list, tuple, dict)):
            return v
        if isinstance(v, int):
            return v if -SX.BIG < v < SX.BIG else "bigint:" + SX.big_str(v)
        if isinstance(v, dict):
            return {k: big(y) for k, y in v.items()}
        return [big(y) for y in v]
    return json.loads(json.dumps(big(x)))


# ---- documented extensions (C13) ------------------------------------------------------
CTX = {"k": 1, "s": "a", "names": ["a", "b", "0"], "o": {"a": 1, "b": [1, 2]}, "t": True, "n": None}


def gen_ext_comparable(rng, depth):
    r = rng.random()
    if r < 0.15:
        return "key"
    if r < 0.3:
        segs = gen_singular_segs(rng, ["k", "s", "names", "o", "a", "b", "t", "n"], 2)
        return ["ctx"] + segs
    if r < 0.35:
        return "undef"
    if r < 0.4:
        return "nil"
    return gen_comparable(rng, depth)


def gen_ext_logical(rng, depth):
    r = rng.random()
    if depth <= 0 or r < 0.45:
        r2 = rng.random()
        if r2 < 0.2:
            rhs = (["list"] + [["lit", rng.choice(LITERALS)] for _ in range(rng.randint(0, 3))]) if rng.random() < 0.5 \
                else rng.choice([["ctx", ["sel", ["name", "names"]]], ["ctx", ["sel", ["name", "o"]]], ["self", ["sel", ["name", "a"]]],
                                 ["ctx", ["sel", ["name", "s"]]], ["lit", "abc"]])
            return ["op", "in", gen_ext_comparable(rng, 0), rhs]
        if r2 < 0.35:
            lhs = rng.choice([["ctx", ["sel", ["name", "names"]]], ["ctx", ["sel", ["name", "o"]]], ["self", ["sel", ["name", "a"]]],
                              ["self"], ["lit", "abc"]])
            return ["op", "contains", lhs, gen_ext_comparable(rng, 0)]
        if r2 < 0.5:
            return ["op", "=~", gen_ext_comparable(rng, 0), ["re", rng.choice(PATTERNS), rng.choice(["", "", "i", "s", "is"])]]
        if r2 < 0.6:
            return ["op", "<>", gen_ext_comparable(rng, 0), gen_ext_comparable(rng, 0)]
        if r2 < 0.75:
            return ["op", rng.choice(["==", "!="]), gen_ext_comparable(rng, 0), rng.choice(["undef", "nil", ["lit", True], ["lit", False]])]
        if r2 < 0.85:
            return ["ctx"] + gen_singular_segs(rng, ["k", "s", "names", "o", "a", "zz"], 2)
        if r2 < 0.93:
            # the documented typeof(): of a singular query, of no node, of several nodes ("array"), against every word it can return
            def targ():
                t = rng.random()
                if t < 0.5:
                    return ["self"] + gen_singular_segs(rng)
                if t < 0.65:
                    return ["self", ["sel", "wild"]]
                if t < 0.75:
                    return ["root", False] + gen_singular_segs(rng)
                return gen_query_expr(rng, 0)
            lhs = ["fn", "typeof", targ()]
            rhs = ["fn", "typeof", targ()] if rng.random() < 0.15 else \
                ["lit", rng.choice(["number", "string", "array", "object", "boolean", "null", "undefined", "int", "float", "Number", ""])]
            return ["op", rng.choice(["==", "==", "!=", "<"]), lhs, rhs]
        return gen_logical(rng, 0)
    if r < 0.6:
        return ["not", gen_ext_logical(rng, depth - 1)]
    return ["op", rng.choice(["&&", "||"]), gen_ext_logical(rng, depth - 1), gen_ext_logical(rng, depth - 1)]


def gen_ext_segs_for_doc(rng, doc, maxlen=3):
    def extra():
        r = rng.random()
        if r < 0.3:
            return "keys"
        return ["filter", gen_ext_logical(rng, rng.randint(0, 2))]
    segs = gen_segs_for_doc(rng, doc, maxlen, extra)
    # the keys selector also has a shorthand form  .~
    out = []
    for g in segs:
        if isinstance(g, list) and g[0] == "list" and len(g) == 2 and g[1] == "keys" and rng.random() < 0.5:
            out.append(["sel", "keys"])
        else:
            out.append(g)
    return out


def gen_ext_query(rng, doc):
    first = {"fake": rng.random() < 0.15, "segs": gen_ext_segs_for_doc(rng, doc, 3)}
    rest = []
    if rng.random() < 0.3:
        for _ in range(rng.randint(1, 3)):
            rest.append([rng.choice(["union", "inter"]), {"fake": rng.random() < 0.1, "segs": gen_ext_segs_for_doc(rng, doc, 2)}])
    return {"first": first, "rest": rest}
