"""C09 — evaluation is pure: read-only, repeatable, unaffected by caching or interleaving."""
import concurrent.futures
import itertools

import jsonpath

from . import sx as SX
from . import qgen as Q
from . import c13 as EXT
from .common import exc_name, gen_container, deep
from .evalbase import show_matches, decode_matches, attempt

ID = "C09"
PROP_FILE = "props/C09.v"
RULE = ("queries mixing cacheable sub-expressions (root- and context-rooted sub-queries, constant comparisons, functions "
        "of them) with per-node ones (current node, current key), simple and compound, x a history of 3 documents "
        "(doc, other, doc again, all through ONE compiled object) x filter caching {on, off}; the same document object "
        "re-used after its contents were replaced in place; 2..3 lazy iterators of the same compiled query - over one "
        "document, and over different documents / filter contexts - advanced in every interleaving of up to 4 steps each "
        "(exhaustive for <=70 schedules, else sampled), each compared with what it yields alone; 8 concurrent evaluations in a thread pool; document, filter context and compiled query (string form, "
        "structure, ==, hash against a fresh compilation) compared before/after. non-trivial = the query has a filter; "
        "distinct = distinct (query text, documents)")
TRUSTED = ["OS threads and the GIL are not modelled; 'never modifies the document' is checked on the implementation by "
           "deep comparison (the functional model has no write operation): partial"]
ASSUMPTIONS = []

NAMES = EXT.NAMES


def gen_cacheable_logical(rng, depth):
    """bias towards non-volatile sub-expressions next to volatile ones"""
    r = rng.random()
    if depth <= 0 or r < 0.3:
        nonvol = [
            ["op", "==", ["root", False, ["sel", ["name", "a"]]], ["lit", 1]],
            ["op", "<", ["fn", "length", ["root", False, ["sel", ["name", "b"]]]], ["lit", 3]],
            ["op", ">", ["fn", "count", ["root", False, "desc", ["sel", "wild"]]], ["lit", 2]],
            ["op", "==", ["ctx", ["sel", ["name", "k"]]], ["lit", 1]],
            ["root", False, ["sel", ["name", "c"]]],
            ["ctx", ["sel", ["name", "names"]]],
            ["op", "==", ["lit", 1], ["lit", 1]],
            ["op", "in", ["ctx", ["sel", ["name", "s"]]], ["ctx", ["sel", ["name", "names"]]]],
            ["root", False, ["list", ["filter", ["op", "==", ["self", ["sel", ["name", "a"]]], ["lit", 1]]]]],
        ]
        vol = [
            ["op", "==", ["self", ["sel", ["name", "a"]]], ["root", False, ["sel", ["name", "a"]]]],
            ["op", "in", "key", ["ctx", ["sel", ["name", "names"]]]],
            ["op", "==", ["self"], ["ctx", ["sel", ["name", "k"]]]],
            ["self", ["sel", ["name", "b"]]],
            ["op", "<=", ["fn", "length", ["self"]], ["fn", "count", ["root", False, ["sel", "wild"]]]],
            ["op", "==", "key", ["lit", 0]],
        ]
        # sub-queries that themselves contain a filter: the nested filter may read $, _, @ or # whatever the outer
        # sub-query is rooted at (a current-node sub-query stays per-node even when its nested filter is constant)
        def inner():
            return rng.choice([
                ["op", "==", ["root", False, ["sel", ["name", "a"]]], ["lit", 1]],
                ["op", "==", ["ctx", ["sel", ["name", "t"]]], ["lit", True]],
                ["op", "==", ["self"], ["ctx", ["sel", ["name", "k"]]]],
                ["op", ">", ["self"], ["root", False, ["sel", ["name", "a"]]]],
                ["root", False, ["sel", ["name", "c"]]],
                ["ctx", ["sel", ["name", "names"]]],
                ["op", "in", "key", ["ctx", ["sel", ["name", "names"]]]],
                ["self", ["sel", ["name", "a"]]],
            ])

        def nested():
            head = rng.choice([["self"], ["self", ["sel", ["name", rng.choice(["a", "b", "c"])]]], ["root", False],
                               ["root", False, ["sel", ["name", rng.choice(["a", "b", "c"])]]], ["ctx", ["sel", ["name", rng.choice(["names", "o"])]]]])
            q = head + [["list", ["filter", inner()]]]
            r2 = rng.random()
            if r2 < 0.4:
                return q
            if r2 < 0.6:
                return ["not", q]
            if r2 < 0.8:
                return ["op", rng.choice(["==", ">=", "<"]), ["fn", "count", q], ["lit", rng.choice([0, 1, 2])]]
            return ["op", "==", ["fn", "value", q], ["lit", rng.choice([1, True, "a"])]]
        if rng.random() < 0.3:
            return nested()
        return rng.choice(nonvol if rng.random() < 0.5 else vol)
    if r < 0.45:
        return ["not", gen_cacheable_logical(rng, depth - 1)]
    return ["op", rng.choice(["&&", "||"]), gen_cacheable_logical(rng, depth - 1), gen_cacheable_logical(rng, depth - 1)]


def pattern_history_cases():
    """match()/search() whose PATTERN comes from the node: unusable patterns (invalid regex, non-string, missing) on
    consecutive nodes, after the same environment evaluated usable ones on another document - an unusable pattern is
    LogicalFalse whatever was compiled before"""
    for fn in ("match", "search"):
        for bad in ("a(", "[", 7, None, ["a.c"], "__absent__"):
            def item(sv):
                return {"s": sv} if bad == "__absent__" else {"s": sv, "p": bad}
            doc = [item("abc"), item("abc"), {"s": "abc", "p": "b"}, item("abc"), item("b"), item("abc")]
            other = [{"s": "abc", "p": "a.c"}, {"s": "xabcx", "p": "abc"}, {"s": "abc", "p": ".*"}]
            for e in (["fn", fn, ["self", ["sel", ["name", "s"]]], ["self", ["sel", ["name", "p"]]]],
                      ["not", ["fn", fn, ["self", ["sel", ["name", "s"]]], ["self", ["sel", ["name", "p"]]]]],
                      ["op", "||", ["fn", fn, ["self", ["sel", ["name", "s"]]], ["self", ["sel", ["name", "p"]]]],
                       ["op", "==", ["self", ["sel", ["name", "s"]]], ["lit", "b"]]]):
                for d, o in ((doc, other), (other + doc, doc), (doc + other + doc, other)):
                    yield {"query": {"first": {"fake": False, "segs": [["list", ["filter", e]]]}, "rest": []}, "doc": d, "other": o, "ctx": Q.CTX,
                           "seed": 11, "std": False, "implicit_root": False, "iters": 2, "sched_seed": 5}


def _custom_case(case):
    """the custom-function family is run on the documents of every third case (it is the same family each time)"""
    return isinstance(case["doc"], (dict, list)) and case["seed"] % 3 == 0


def lookalike_literal_cases():
    """one filter holding two constant sub-expressions that differ only by look-alike literals (1 / true, 0 / false, 1 / 1.0,
    also inside list literals and function arguments): each keeps its own value"""
    def root(name):
        return ["root", False, ["sel", ["name", name]]]

    def ctx(name):
        return ["ctx", ["sel", ["name", name]]]
    pairs = [(1, True), (0, False), (True, 1), (False, 0), ("1", 1), (None, False), (0, None)]
    for x, y in pairs:
        for lhs in (root("a"), ctx("k"), ["fn", "value", root("a")], ["fn", "count", ["root", False, ["sel", "wild"]]]):
            ex, ey = ["op", "==", lhs, ["lit", x]], ["op", "==", lhs, ["lit", y]]
            kx, ky = ["op", "==", ["self", ["sel", ["name", "kind"]]], ["lit", "n"]], ["op", "==", ["self", ["sel", ["name", "kind"]]], ["lit", "b"]]
            for e in (["op", "||", ["op", "&&", kx, ex], ["op", "&&", ky, ey]], ["op", "&&", ["op", "||", kx, ex], ["op", "||", ky, ["not", ey]]],
                      ["op", "||", ["op", "&&", ex, kx], ["op", "&&", ["op", "in", lhs, ["list", ["lit", y]]], ky]]):
                for a in (x, y):
                    doc = {"a": a, "items": [{"kind": "n", "id": 1}, {"kind": "b", "id": 2}, {"kind": "z", "id": 3}]}
                    q = {"first": {"fake": False, "segs": [["list", ["name", "items"]], ["list", ["filter", e]]]}, "rest": []}
                    yield {"query": q, "doc": doc, "other": dict(doc, a=y if a == x else x), "ctx": dict(Q.CTX, k=a), "seed": 12, "std": False,
                           "implicit_root": False, "iters": 2, "sched_seed": 6}


def gen(rng, tier):
    yield from lookalike_literal_cases()
    yield from pattern_history_cases()
    n = 4000 if tier == "thorough" else 450
    for i in range(n):
        docs = [gen_container(rng, 3, 3, NAMES) for _ in range(2)]
        for _ in range(6):
            if type(docs[0]) is type(docs[1]):
                break
            docs[1] = gen_container(rng, 3, 3, NAMES)
        if rng.random() < 0.3:
            # siblings whose current-node sub-queries differ, next to root / context members the constant parts read
            docs[0] = rng.choice([
                {"a": 1, "c": True, "x": {"a": 5, "b": [1, 2], "c": [3]}, "y": {"b": [], "a": 0}, "z": {"b": [7], "c": {"k": 1}, "a": 1}},
                {"a": 2, "b": [1, 2, 3], "x": {"a": 1, "b": [1]}, "y": {"a": 2, "b": [2, 3], "c": 1}, "c": None},
                [{"a": 1, "b": [1, 2]}, {"a": 2, "b": []}, {"b": [1], "c": [1]}, 1, "a"],
            ])
            if type(docs[0]) is not type(docs[1]):
                docs[1] = {"a": 1, "b": [5]} if isinstance(docs[0], dict) else [{"a": 1}]
        if rng.random() < 0.6:
            e = gen_cacheable_logical(rng, rng.randint(1, 3))
            pre = Q.gen_segs_for_doc(rng, docs[0], 1) if rng.random() < 0.4 else []
            segs = pre + [["list", ["filter", e]]] + ([["list", ["filter", gen_cacheable_logical(rng, 1)]]] if rng.random() < 0.2 else [])
            q = {"first": {"fake": False, "segs": segs}, "rest": []}
            if rng.random() < 0.2:
                q["rest"] = [[rng.choice(["union", "inter"]), {"fake": False, "segs": [["list", ["filter", gen_cacheable_logical(rng, 1)]]]}]]
        else:
            q = Q.gen_ext_query(rng, docs[0])
        yield {"query": q, "doc": docs[0], "other": docs[1], "ctx": Q.CTX, "seed": rng.randrange(1 << 30), "std": False,
               "implicit_root": False, "iters": rng.choice([2, 2, 3]), "sched_seed": rng.randrange(1 << 30)}


render = EXT.render


def to_sx(case):
    """the model is given the structure the implementation compiled (the text->structure tie is C06/C07/C10's);
    this makes the positions of the cache tree comparable"""
    try:
        q = Q.canon_ast(Q.dump_query(jsonpath.compile(render(case))))
    except Exception:  # noqa: BLE001
        q = case["query"]
    return ["eval", Q.query_sx(q), SX.j2sx(case["doc"]), SX.j2sx(case.get("ctx", {}))]


def schedules(k, steps, rng_seed):
    import random
    base = []
    for i in range(k):
        base += [i] * steps
    perms = set(itertools.permutations(base)) if len(base) <= 8 else None
    if perms is not None and len(perms) <= 70:
        return sorted(perms)
    rng = random.Random(rng_seed)
    out = []
    for _ in range(40):
        b = list(base)
        rng.shuffle(b)
        out.append(tuple(b))
    return out


def impl(case):
    text = render(case)
    doc, other, ctx = deep(case["doc"]), deep(case["other"]), deep(case["ctx"])
    out = {"text": text}
    try:
        c = jsonpath.compile(text)
    except Exception as e:  # noqa: BLE001
        out["compile"] = ["err", exc_name(e)]
        return out
    str0, dump0, hash0 = str(c), Q.canon_ast(Q.dump_query(c)), hash(c)
    env_nc = jsonpath.JSONPathEnvironment(filter_caching=False)
    out["first"] = attempt(lambda: show_matches(list(c.finditer(doc, filter_context=ctx))))
    out["on_other"] = attempt(lambda: [SX.canon(v) for v in c.findall(other, filter_context=ctx)])
    out["again"] = attempt(lambda: show_matches(list(c.finditer(doc, filter_context=ctx))))
    for _ in range(3):
        c.findall(doc, filter_context=ctx)
    out["hundredth"] = attempt(lambda: show_matches(list(c.finditer(doc, filter_context=ctx))))
    out["no_cache"] = attempt(lambda: show_matches(list(env_nc.compile(text).finditer(doc, filter_context=ctx))))
    # the same document OBJECT, modified in place between two uses of the compiled query, is a new document
    if type(doc) is type(other):
        scratch = deep(case["doc"])
        attempt(lambda: c.findall(scratch, filter_context=ctx))
        if isinstance(scratch, dict):
            scratch.clear()
            scratch.update(deep(case["other"]))
        else:
            scratch[:] = deep(case["other"])
        got_m = attempt(lambda: show_matches(list(c.finditer(scratch, filter_context=ctx))))
        want_m = attempt(lambda: show_matches(list(env_nc.compile(text).finditer(deep(case["other"]), filter_context=ctx))))
        out["mutated_in_place_ok"] = got_m == want_m
        if got_m != want_m:
            out["mutated_in_place_counterexample"] = {"got": got_m, "want": want_m}
        # the same history through a query compiled with filter caching OFF, and with another filter context in between
        c_nc = env_nc.compile(text)
        scratch2 = deep(case["doc"])
        ctx_b = dict(deep(case["ctx"]), k=2, s="zz", names=["c"], t=False)
        attempt(lambda: c_nc.findall(scratch2, filter_context=ctx_b))
        attempt(lambda: c_nc.findall(scratch2, filter_context=ctx))
        if isinstance(scratch2, dict):
            scratch2.clear()
            scratch2.update(deep(case["other"]))
        else:
            scratch2[:] = deep(case["other"])
        got_n = attempt(lambda: show_matches(list(c_nc.finditer(scratch2, filter_context=ctx))))
        if got_n != want_m:
            out["mutated_in_place_ok"] = False
            out["mutated_in_place_counterexample"] = {"caching": "off", "got": got_n, "want": want_m}
        got_c = attempt(lambda: show_matches(list(c_nc.finditer(scratch2, filter_context=ctx_b))))
        want_c = attempt(lambda: show_matches(list(jsonpath.JSONPathEnvironment(filter_caching=False).compile(text).finditer(deep(case["other"]), filter_context=ctx_b))))
        if got_c != want_c:
            out["mutated_in_place_ok"] = False
            out["mutated_in_place_counterexample"] = {"caching": "off", "context": "changed", "got": got_c, "want": want_c}
    else:
        out["mutated_in_place_ok"] = True
    # interleaved lazy iterators from the same compiled object: over one document, and over different documents /
    # filter contexts (each must give what it gives alone)
    full = out["first"]
    ok_all = True
    nsched = 0
    ctx2 = deep(case["ctx"])
    ctx2.update({"k": 2, "s": "zz", "names": ["c"]})
    variants = [(doc, ctx), (other, ctx), (doc, ctx2)]

    def alone(d, cx):
        return attempt(lambda: show_matches(list(env_nc.compile(text).finditer(deep(d), filter_context=deep(cx)))))
    want_alone = [alone(d, cx) for d, cx in variants]
    mixed_ok = all(isinstance(w, list) and not (w and w[0] == "err") for w in want_alone)
    if isinstance(full, list) and not (full and full[0] == "err"):
        steps = min(4, len(full) + 1)
        for sched in schedules(case["iters"], steps, case["sched_seed"]):
            nsched += 1
            mixed = mixed_ok and nsched % 2 == 0
            args = [variants[i % 3] if mixed else variants[0] for i in range(case["iters"])]
            wants = [want_alone[i % 3] if mixed else full for i in range(case["iters"])]
            its = [iter(c.finditer(d, filter_context=cx)) for d, cx in args]
            got = [[] for _ in its]
            for i in sched:
                try:
                    m = next(its[i])
                    got[i].append([[p if isinstance(p, int) else ["k", p] for p in m.parts], m.path, SX.canon(m.obj)])
                except StopIteration:
                    pass
            for i, it in enumerate(its):
                got[i] += [[[p if isinstance(p, int) else ["k", p] for p in m.parts], m.path, SX.canon(m.obj)] for m in it]
            if any(g != w for g, w in zip(got, wants)):
                ok_all = False
                out["interleave_counterexample"] = {"schedule": list(sched), "mixed_documents": mixed, "got": got, "want": wants}
                break
    out["interleaved_ok"] = ok_all
    out["schedules"] = nsched
    # threads
    with concurrent.futures.ThreadPoolExecutor(max_workers=8) as ex:
        futs = [ex.submit(lambda: attempt(lambda: [SX.canon(v) for v in c.findall(doc, filter_context=ctx)])) for _ in range(8)]
        rs = [f.result() for f in futs]
    out["threads_agree"] = all(r == rs[0] for r in rs)
    out["threads_first"] = rs[0]
    # nothing was modified
    out["doc_unchanged"] = SX.canon(doc) == SX.canon(case["doc"]) and SX.canon(other) == SX.canon(case["other"])
    out["ctx_unchanged"] = SX.canon(ctx) == SX.canon(case["ctx"])
    c2 = jsonpath.compile(text)
    out["query_unchanged"] = (str(c) == str0 and Q.canon_ast(Q.dump_query(c)) == dump0 and hash(c) == hash0)
    out["recompiled_equal"] = (c == c2 and hash(c) == hash(c2) and str(c) == str(c2))
    try:
        out["cache"] = cache_layout(c)
    except Exception:  # noqa: BLE001   (the cache tree is internal: after an internal rename it cannot be observed)
        out["cache"] = None
        out["unobservable"] = ["cache"]
    out["cached_run_equal"] = out["first"] == out["no_cache"]
    if isinstance(case["doc"], (dict, list)):
        # the document as JSON TEXT: evaluated, the returned values (and the root) edited by the caller, a patch applied to the
        # same text, evaluated again - the text still denotes the same document
        import json as _json
        from jsonpath import JSONPatch
        js = _json.dumps(case["doc"])

        def again():
            for v in c.findall(js, filter_context=ctx) + jsonpath.findall("$..*", js) + jsonpath.findall("$", js):
                if isinstance(v, (dict, list)):
                    v.clear()
            try:
                JSONPatch().add("/zz" if isinstance(case["doc"], dict) else "/-", {"a": 1}).apply(js)
            except Exception:  # noqa: BLE001
                pass
            return [SX.canon(v) for v in c.findall(js, filter_context=ctx)]
        want = [m[2] for m in out["first"]] if isinstance(out["first"], list) and out["first"][:1] != ["err"] else out["first"]
        got = attempt(again)
        out["text_history_ok"] = got == want
        if not out["text_history_ok"]:
            out["text_history_counterexample"] = {"got": got, "want": want}
    if _custom_case(case):
        from .evalbase import custom_functions_agree
        out["custom_functions"] = custom_functions_agree(case["doc"], case["ctx"])
        if out["custom_functions"] == "same" and isinstance(case["other"], (dict, list)):
            out["custom_functions"] = custom_functions_agree(case["other"], case["ctx"])       # the same environments, next document
    return out


def cache_layout(c):
    """for every top-level filter of the first path: (cacheable_nodes, positions wrapped by cache_tree())"""
    import jsonpath.filter as F
    import jsonpath.selectors as S
    first = c.path if isinstance(c, jsonpath.CompoundJSONPath) else c
    while isinstance(first, jsonpath.CompoundJSONPath):
        first = first.path
    out = []

    def walk(node, pos, acc):
        if isinstance(node, F.CachingFilterExpression):
            acc.append(list(pos))
            node = node._expr
        if isinstance(node, F.InfixExpression):
            walk(node.left, pos + [0], acc)
            walk(node.right, pos + [1], acc)
        elif isinstance(node, F.PrefixExpression):
            walk(node.right, pos + [0], acc)
        elif isinstance(node, F.ListLiteral):
            for i, x in enumerate(node.items):
                walk(x, pos + [i], acc)
        elif isinstance(node, F.FunctionExtension):
            for i, x in enumerate(node.args):
                walk(x, pos + [i], acc)
    for seg in first.selectors:
        if isinstance(seg, S.ListSelector):
            for it in seg.items:
                if isinstance(it, S.Filter):
                    acc = []
                    walk(it.expression.cache_tree().expression, [], acc)
                    out.append([bool(it.cacheable_nodes), acc])
    return out


def decode(sx, case):
    if sx[0] == "unsupported":
        return {"model": {}, "spec": {}, "in_domain": False, "skip": True}
    _, fi, fa, spec, wf, afi, afa, std, ext = sx[:9]
    extra = {x[0]: x[1] for x in sx[9:] if isinstance(x, list) and len(x) == 2}
    ms = decode_matches(fi[1]) if fi[0] == "ok" else ["err", fi[1]]
    vals = [m[2] for m in ms] if fi[0] == "ok" else ms
    nodes = [[[p if isinstance(p, int) else ["k", p] for p in __import__("harness.common", fromlist=["x"]).sx_to_loc(n[0])],
              SX.canon(SX.sx2j(n[1]))] for n in spec[1]]
    model = {"text": render(case), "first": ms, "again": ms, "hundredth": ms, "no_cache": ms, "interleaved_ok": True, "mutated_in_place_ok": True,
             "threads_agree": True, "threads_first": vals, "doc_unchanged": True, "ctx_unchanged": True,
             "query_unchanged": True, "recompiled_equal": True}
    if isinstance(case["doc"], (dict, list)):
        model["text_history_ok"] = True
    if _custom_case(case):
        model["custom_functions"] = "same"
    model["cache"] = [[x[0] == "true", [[int(i) for i in pos] for pos in x[1]]] for x in extra.get("cache", [])]
    model["cached_run_equal"] = extra.get("cached-run-equal") == "true"
    spec_ = {k: [[m[0], m[1]] for m in nodes] for k in ("first", "again", "hundredth", "no_cache")}
    spec_.update({"cached_run_equal": True, "interleaved_ok": True, "mutated_in_place_ok": True, "threads_agree": True, "threads_first": [m[1] for m in nodes], "doc_unchanged": True,
                  "ctx_unchanged": True, "query_unchanged": True, "recompiled_equal": True})
    if isinstance(case["doc"], (dict, list)):
        spec_["text_history_ok"] = True
    if _custom_case(case):
        spec_["custom_functions"] = "same"
    return {"model": model, "spec": spec_, "in_domain": ext[1] == "true" and wf[1] == "true"}


def project(case, res, dec=None):
    if "compile" in res:
        return {"unexpected": res["compile"]}
    out = {}
    for k in ("first", "again", "hundredth", "no_cache"):
        v = res[k]
        out[k] = [[m[0], m[2]] for m in v] if isinstance(v, list) and not (v and v[0] == "err") else v
    for k in ("cached_run_equal", "interleaved_ok", "mutated_in_place_ok", "threads_agree", "threads_first", "doc_unchanged", "ctx_unchanged", "query_unchanged",
              "recompiled_equal"):
        out[k] = res[k]
    if "custom_functions" in res:
        out["custom_functions"] = res["custom_functions"]
    if "text_history_ok" in res:
        out["text_history_ok"] = res["text_history_ok"]
    return out


def for_model(case, res):
    return {k: v for k, v in res.items() if k not in ("on_other", "schedules", "interleave_counterexample", "mutated_in_place_counterexample")}


def nontrivial(case, res):
    return "filter" in str(case["query"])


def classify(case, res):
    tags = ["iters=%d" % case["iters"]]
    s = str(case["query"])
    for t in ("root", "ctx", "key", "self", "fn"):
        if "'" + t + "'" in s:
            tags.append("has=" + t)
    if "schedules" in res:
        tags.append("schedules=%d" % res["schedules"])
    return tags
