"""C10 — a compiled query's string form recompiles to an equivalent query."""
import random

import jsonpath

from . import sx as SX
from . import qgen as Q
from . import c06 as FUZZ
from .common import exc_name, gen_container, deep
from .evalbase import show_matches, decode_matches

ID = "C10"
PROP_FILE = "props/C10.v"
RULE = ("every accepted query of the generators - standard queries in random spellings, extension syntax (keys selector, "
        "fake root, #, _, in/contains, =~ with flags, <>, word operators, aliases), compound queries, negation of "
        "comparisons and of groups, nested logical operators of both associativities, numeric literals (ints, floats, "
        "exponents), strings with quotes / backslashes / control characters / non-BMP - plus fuzzed strings that happen to "
        "be accepted: str(), compile(str()), str() again, and both compiled objects evaluated on 3 documents. "
        "non-trivial = the text contains a filter or a quoted name; distinct = distinct query text")
TRUSTED = ["repr(float) is modelled for decimal literals of at most 15 significant digits"]
ASSUMPTIONS = []

DOCS_NAMES = ["a", "b", "c", "d", "0", "1", "k", "s", "a'b", "é"]


def env_sx(tokens=None, unicode_escape=True, well_typed=True):
    if tokens is None and unicode_escape and well_typed:
        return "default"
    t = tokens or {}
    d = {"root": "$", "fake": "^", "self": "@", "key": "#", "union": "|", "inter": "&", "fctx": "_", "keys": "~"}
    d.update(t)
    return ["env"] + [SX.s2sx(d[k]) for k in ("root", "fake", "self", "key", "union", "inter", "fctx", "keys")] + [unicode_escape, well_typed]


LITS = [0, 1, -1, 10, 1.5, -2.5, 0.5, 100.0, 1e-7, 2.5e10, 1e16, 1e22, -3e-9, 123456789012, "a'b", 'q"x', "back\\slash", "tab\t", "\x01", "é\U0001F600", ""]


def gen_rich_logical(rng, depth):
    r = rng.random()
    if depth <= 0 or r < 0.3:
        r2 = rng.random()
        if r2 < 0.1:
            # comparisons / membership tests as operands of comparisons (accepted by the parser through grouping)
            inner = ["op", rng.choice(Q.CMP_OPS + ["in"]), Q.gen_ext_comparable(rng, 0), ["lit", rng.choice([1, "a", True])]]
            r3 = rng.random()
            if r3 < 0.3:
                # negation of a comparison, a membership test or a group as an operand
                inner = ["not", inner]
            elif r3 < 0.4:
                inner = ["not", ["op", rng.choice(["&&", "||"]), inner, Q.gen_ext_logical(rng, 0)]]
            elif r3 < 0.5:
                inner = ["op", rng.choice(["&&", "||"]), ["not", inner], Q.gen_ext_logical(rng, 0)]
            if rng.random() < 0.5:
                return ["op", rng.choice(["==", "!=", "in", "contains"]), inner, ["lit", True]]
            return ["op", rng.choice(["==", "in"]), Q.gen_ext_comparable(rng, 0), inner]
        if r2 < 0.4:
            return ["op", rng.choice(Q.CMP_OPS + ["<>"]), Q.gen_ext_comparable(rng, 1), ["lit", rng.choice(LITS)]]
        return Q.gen_ext_logical(rng, 0)
    if r < 0.5:
        return ["not", gen_rich_logical(rng, depth - 1)]
    return ["op", rng.choice(["&&", "||"]), gen_rich_logical(rng, depth - 1), gen_rich_logical(rng, depth - 1)]


# accepted spellings outside the RFC grammar that the printer has to cope with: slices written without brackets
RAW = ["$.items[?@.n > ^[0].limit]", "$.items[?^[?@.limit == 2]]", "$[?@.a == ^[0].a && $.b]", "^[?@ == ^[0]]", "$[?count(^..*) > 2]",
       "$1:2 3:4", "$1:2", "$:2 1:", "$.a 1:2", "$..1:2", "$[?@ 1:2]", "$1:2.a", "$ 1:2:3 -1:", "$1:2 3:4 5:6:-1", "$.a 0: 1:", "$[?@.a 1: == 2]",
       "$[?count(@ :2) > 1]", "$ : :", "^1:2 | $ 3:4"]


# float literals across the range the model parser accepts (<= 15 significant digits, normalised exponent in [-290, 300]),
# at its edges, and beyond (outside the model: implementation alone)
FLOAT_LITS = ["1.23456789012345e-4", "1234567890.12345e20", "0.0e400", "0e999", "-0e5", "0e0", "1e300", "1.5e-290", "9.99999999999999e299", "1.0e-289",
              "0.000000000000000000001", "100.000", "1.50", "1e-7", "123456789012345e-30", "1.0e308", "1e309", "1e-320", "-0.0", "-0.000e3", "-1.5e-10",
              "0.1", "0.30000000000000004", "1.0000000000000002", "5e-324", "2.5e+15", "1e15", "1e16", "1.0e16", "123456789012345.0",
              "1234567890123456.0", "0.00001", "0.0001", "1.0E5", "1E+2", "00.5", "1.e5", ".5"]
RAW_FLOATS = ["$[?@.a == %s]" % x for x in FLOAT_LITS] + ["$[?@.a in [%s, %s]]" % (FLOAT_LITS[0], FLOAT_LITS[1]), "$[?value(@.a) >= %s || @.b < %s]" % (FLOAT_LITS[4], FLOAT_LITS[5])]


def flip_roots(rng, x, p):
    """turn some `$`-rooted sub-queries of a filter into fake-root (`^`) ones"""
    if isinstance(x, list):
        if len(x) >= 2 and x[0] == "root" and x[1] is False and rng.random() < p:
            return ["root", True] + [flip_roots(rng, y, p) for y in x[2:]]
        return [flip_roots(rng, y, p) for y in x]
    return x


# regex literals: every flag combination next to inline flags, scoped flag groups and flag-looking text in the pattern
RE_PATS = ["x", "(?i)x", "(?i:x)y", "x(?s:.)?y", "(?m:^a)$", "a(?-i:b)c", "(?i)a(?-i:b)", "\\(?i\\)x", "[(?i)]x", "(?:x)y", "(?is)x.y", "(?s-i:x.)y",
           "(?P<n>x)(?P=n)", "(?#i)x", "x(?=y)", "(?a:\\w)", "x|(?i:y)"]
RE_FLAGS = ["", "i", "s", "m", "a", "is", "im", "ms", "ims", "ai"]
RE_DOCS = [[{"a": v} for v in ("x", "X", "xy", "xY", "Xy", "XY", "x\ny", "X\nY", "a", "A", "abc", "aBc", "ABC", "aB", "AB", "ab", "\nA", "xx", "XX", "(?i)x", "ix", "y", "Y",
                                  "é", "É", "x y", "xay", "XAY")]]
RAW_RE = ["$[?@.a =~ /%s/%s]" % (p_, f_) for p_ in RE_PATS for f_ in RE_FLAGS] + \
         ["$[?!(@.a =~ /%s/%s) && @.a =~ /%s/]" % (p_, f_, p_) for p_ in RE_PATS[:8] for f_ in ("i", "s")]


# member names equal to (or containing) the identifier tokens, inside relative / filter-context / nested queries
RAW_TOKEN_NAMES = ["$[?@['$ref'] == 'x']", "$.items[?@.tags[?@ == $.wanted]]", "$[?@.n > _['$limit']]", "$[?@['@x'] == _['_y']]", "$[?@['#k'] == 1 || @['~'] == 2]",
                   "$[?@['^'] && @['_']]", "$[?@['$'] == $['$']]", "$[?_['$'] == @['$$']]", "$[?@[?@['$a'] > $['$a']]]", "$[?count(@['$ref']['$ref']) == 1]",
                   "$[?@['a$b'] == _['a_b']]", "$..[?@['$ref'] == $['@ref']]", "$['$ref', '@ref', '_limit', '#k', '^', '~']", "$[?@.x == '$ref' || @.x == '@ref']"]
TOKEN_DOCS = [[{"$ref": "x", "@ref": "y", "n": 5, "@x": 1, "#k": 1, "~": 2, "^": 1, "_": 1, "$": 3, "$$": 7, "$a": 2, "a$b": 4, "x": "$ref"},
               {"@ref": "x", "n": 500, "@x": 2, "_": 0, "$": 4, "$$": 3, "$a": 9, "a$b": 5, "x": "@ref", "$ref": {"$ref": 1}}],
              {"items": [{"tags": ["a", "w"]}, {"tags": ["b"]}], "wanted": "w", "$ref": "x", "@ref": "x", "$": 3, "$a": 5, "_limit": 1, "#k": 2, "^": 3, "~": 4}]
TOKEN_CTX = {"$limit": 2, "_limit": 100, "_y": 1, "$": 7, "a_b": 4, "k": 1, "s": "a", "names": ["a"], "o": {}, "t": True, "n": None}


# strings in which a backslash stands directly before / after a quote, written in either quote style
RAW_QUOTES = [r"""$["it\\'s"]""", r"""$[?@.n == "a\\'b"]""", r"""$["\\'"]""", r"""$['\\\'']""", r"""$["'\\"]""", r"""$['\'\\']""", r"""$["\"\\"]""",
              r"""$[?@.n == '\\\'' || @.n == "\\\""]""", r"""$["a\\\\'b", 'c\\"d']""", r"""$[?@["\\'"] == '\\']"""]
QUOTE_DOCS = [{"it\\'s": 1, "\\'": 2, "'\\": 3, '"\\': 4, "a\\\\'b": 5, 'c\\"d': 6, "'": 7, "\\": 8},
              [{"n": "a\\'b"}, {"n": "\\'"}, {"n": '\\"'}, {"n": "'"}, {"\\'": "\\"}]]


# names written with escapes whose decoded character the string form then carries RAW (DEL, C1 controls, separators, BOM ...)
RAW_ESCAPED = ['$["a\\u007fb"]', "$['\\u007F']", '$["ab", "\\u007f"]', '$.items[?@["k\\u007f"] == 1].id', '$["\\u0080\\u009f"]', '$["l\\u2028s\\u2029"]',
               '$["\\ufeffbom"]', '$["soft\\u00adhy"]', '$["\\ud83d\\ude00"]', '$["tab\\there", "nl\\nx", "\\u001f", "\\u0000"]', '$[?@["\\u007f"] == "\\u007f"]']
ESCAPED_DOCS = [{"a\x7fb": 1, "\x7f": 2, "ab": 3, "\x80\x9f": 4, "l\u2028s\u2029": 5, "\ufeffbom": 6, "soft\xadhy": 7, "\U0001F600": 8, "tab\there": 9, "nl\nx": 10,
                 "\x1f": 11, "\x00": 12, "items": [{"k\x7f": 1, "id": "x"}, {"k\x7f": 2, "id": "y"}]}, [{"\x7f": "\x7f"}, {"\x7f": "x"}]]


def gen(rng, tier):
    for text in RAW_ESCAPED:
        yield {"text": text, "docs": ESCAPED_DOCS, "ctx": Q.CTX, "env": None}
    for text in RAW_QUOTES:
        yield {"text": text, "docs": QUOTE_DOCS, "ctx": Q.CTX, "env": None}
    for text in RAW_TOKEN_NAMES:
        yield {"text": text, "docs": TOKEN_DOCS, "ctx": TOKEN_CTX, "env": None}
    for text in RAW_RE:
        yield {"text": text, "docs": RE_DOCS, "ctx": Q.CTX, "env": None}
    for text in RAW + RAW_FLOATS:
        yield {"text": text, "docs": [[0, 1, 2, 3, 4, 5, 6, [7, 8, 9]], {"a": [[1, 2, 3], [4, 5]]}, [[0, 1, 2], [3, 4, 5]]], "ctx": Q.CTX, "env": None}
    n = 8000 if tier == "thorough" else 900
    for i in range(n):
        docs = [gen_container(rng, 3, 3, DOCS_NAMES) for _ in range(3)]
        r = rng.random()
        if r < 0.45:
            q = Q.gen_ext_query(rng, docs[0])
        elif r < 0.8:
            e = gen_rich_logical(rng, rng.randint(1, 3))
            pre = Q.gen_segs_for_doc(rng, docs[0], 2) if rng.random() < 0.4 else []
            q = {"first": {"fake": rng.random() < 0.1, "segs": pre + [["list", ["filter", e]]]}, "rest": []}
        else:
            q = None
        if q is not None:
            if rng.random() < 0.4:
                q = {"first": {"fake": q["first"]["fake"], "segs": flip_roots(rng, q["first"]["segs"], 0.5)},
                     "rest": [[o, {"fake": p["fake"], "segs": flip_roots(rng, p["segs"], 0.5)}] for o, p in q["rest"]]}
            sp = Q.Speller(random.Random(rng.randrange(1 << 30)), blanks=0.1, std=rng.random() < 0.4)
            text = Q.render_query(q, sp)
        else:
            text = "".join(rng.choice(FUZZ.ALPHABET) for _ in range(rng.randint(1, 5)))
        yield {"text": text, "docs": docs, "ctx": Q.CTX, "env": None}


def to_sx(case):
    return ["roundtrip", env_sx(case.get("env")), SX.s2sx(case["text"]), SX.j2sx(case["ctx"]), [SX.j2sx(d) for d in case["docs"]]]


def make_env(tokens):
    if not tokens:
        return jsonpath.JSONPathEnvironment()
    attrs = {"root": "root_token", "fake": "fake_root_token", "self": "self_token", "key": "key_token", "union": "union_token",
             "inter": "intersection_token", "fctx": "filter_context_token", "keys": "keys_selector_token"}
    cls = type("E", (jsonpath.JSONPathEnvironment,), {attrs[k]: v for k, v in tokens.items()})
    return cls()


def _ev(c, docs, ctx):
    out = []
    for d in docs:
        try:
            out.append(["ok", show_matches(list(c.finditer(deep(d), filter_context=deep(ctx))))])
        except Exception as e:  # noqa: BLE001
            out.append(["err", exc_name(e)])
    return out


def impl(case):
    env = make_env(case.get("env"))
    out = {}
    try:
        c = env.compile(case["text"])
    except Exception as e:  # noqa: BLE001
        return {"compile": ["err", exc_name(e)]}
    out["compile"] = ["ok", Q.canon_ast(Q.dump_query(c))]
    # other environments compile queries of their own in between (their spellings are theirs alone)
    for other in (None, {"key": "%%", "self": "@@"}, {"key": "@", "self": "#", "root": "$$", "fctx": "__"}):
        try:
            oe = make_env(other)
            d = {"root": "$", "self": "@", "key": "#", "fctx": "_"}
            d.update(other or {})
            oe.compile("%s[?%s == 1 || %s.a == %s.k]" % (d["root"], d["key"], d["self"], d["fctx"]))
        except Exception:  # noqa: BLE001
            pass
    try:
        s1 = str(c)
    except Exception as e:  # noqa: BLE001
        out["str"] = ["err", exc_name(e)]
        return out
    out["str"] = s1
    try:
        c2 = env.compile(s1)
    except Exception as e:  # noqa: BLE001
        out["recompile"] = ["err", exc_name(e)]
        return out
    out["recompile"] = ["ok", Q.canon_ast(Q.dump_query(c2))]
    out["str2"] = str(c2)
    out["eval1"] = _ev(c, case["docs"], case["ctx"])
    out["eval2"] = _ev(c2, case["docs"], case["ctx"])
    return out


def decode(sx, case):
    tag = sx[0]
    # a query outside the MODEL (a regex construct rt/Regex.v does not execute, ...) is still inside the property whenever the
    # implementation accepts it: the recompile / fixed point / same results / same regex literals oracle needs no model
    impl_only = {"model": {}, "spec": {"recompiles": True, "fixed_point": True, "same_results": True, "same_regexes": True},
                 "in_domain": True, "model_unsupported": True, "spec_if_accepted": True}
    if tag == "unsupported":
        return impl_only
    if tag == "compile-err":
        unsupported = sx[1] in ("unsupported", "fuel")
        if unsupported:
            return impl_only
        return {"model": {"compile": ["err", sx[1]]}, "spec": {}, "in_domain": False, "skip": unsupported}
    if tag == "text-err":
        return {"model": {}, "spec": {"recompiles": True, "fixed_point": True, "same_results": True, "same_regexes": True}, "in_domain": True,
                "model_unsupported": True}
    if tag == "recompile-err":
        model = {"compile": ["ok", Q.canon_ast(FUZZ.sx_query_to_ast(sx[3]))], "str": SX.sx2s(sx[2]), "recompile": ["err", sx[1]]}
        return {"model": model, "spec": {"recompiles": True, "fixed_point": True, "same_results": True, "same_regexes": True}, "in_domain": True,
                "model_unsupported": sx[1] in ("unsupported", "fuel")}
    _, q, t1, q2, t2, ev1, ev2, gate, ext = sx[:9]
    bridges = {b[0]: b[1] for b in sx[9:]}

    def evs(x):
        return [["ok", decode_matches(r[1])] if r[0] == "ok" else ["err", r[1]] for r in x]
    model = {"compile": ["ok", Q.canon_ast(FUZZ.sx_query_to_ast(q))], "str": SX.sx2s(t1),
             "recompile": ["ok", Q.canon_ast(FUZZ.sx_query_to_ast(q2))],
             "str2": SX.sx2s(t2[1]) if t2[0] == "ok" else ["err", t2[1]], "eval1": evs(ev1), "eval2": evs(ev2)}
    unsupported = "unsupported" in SX.dump([t2, ev1, ev2])
    # the hypotheses of the C10 theorems on the compiled query: in the domain whenever the two float conditions hold
    # (C10_compiled_in_domain_partial); outside the float conditions the theorems do not apply (the property is still
    # checked against the implementation through `spec`)
    floats = bridges.pop("floats-ok", "true") == "true" and bridges.pop("floats-stable", "true") == "true"
    dom = bridges.pop("in-domain", "true")
    bridges.setdefault("tokens-ok", "true")
    bridges["domain-if-floats"] = dom if floats else "true"
    model["bridges"] = bridges
    model["float_domain"] = floats
    return {"model": model, "spec": {"recompiles": True, "fixed_point": True, "same_results": True, "same_regexes": True}, "in_domain": True,
            "model_unsupported": unsupported}


def for_model(case, res):
    out = dict(res)
    if res.get("compile", ["err"])[0] == "ok" and "eval2" in res:
        out["bridges"] = {"lex-bridge": "true", "parse-bridge": "true", "norm-is-reparse": "true", "domain-if-floats": "true", "tokens-ok": "true"}
        out["float_domain"] = True
    return out


def _regexes(x, acc):
    if isinstance(x, list):
        if len(x) >= 2 and x[0] == "re":
            acc.append([x[1], "".join(sorted(x[2])) if len(x) > 2 and isinstance(x[2], str) else x[2:]])
        for y in x:
            _regexes(y, acc)
    elif isinstance(x, dict):
        for y in x.values():
            _regexes(y, acc)
    return acc


def project(case, res, dec=None):
    if res["compile"][0] != "ok":
        if dec and dec.get("spec_if_accepted"):
            return dict(dec["spec"])          # not accepted: nothing is claimed (the model cannot say whether it should be)
        return {"not-accepted": True}
    if "str" not in res or isinstance(res["str"], list):
        return {"str-failed": res.get("str")}
    if res.get("recompile", ["err"])[0] != "ok":
        return {"recompiles": False, "str": res["str"], "error": res.get("recompile")}
    return {"recompiles": True, "fixed_point": res["str2"] == res["str"], "same_results": res["eval1"] == res["eval2"],
            "same_regexes": _regexes(res["compile"][1], []) == _regexes(res["recompile"][1], [])}


def nontrivial(case, res):
    return res.get("compile", ["err"])[0] == "ok" and ("?" in case["text"] or "'" in case["text"] or '"' in case["text"])


def classify(case, res):
    if res["compile"][0] != "ok":
        return ["rejected=" + res["compile"][1]]
    tags = ["accepted"]
    t = case["text"]
    for k, pat in (("negation", "!"), ("paren", "("), ("regex", "=~"), ("fake-root", "^"), ("compound", " | "), ("float", "."),
                   ("ctx", "_"), ("key", "#"), ("keys", "~")):
        if pat in t:
            tags.append("has=" + k)
    return tags
