"""C18 — the command-line tool is a faithful front end to the library."""
import io
import json
import os
import subprocess
import sys
import tempfile

import jsonpath
import jsonpath.cli

from . import sx as SX
from .common import exc_name

ID = "C18"
PROP_FILE = "props/C18.v"
RULE = ("the three sub-commands x the option grid (expression inline or read from a file; output to stdout or a file; "
        "--pretty, --debug, --no-unicode-escape, --no-type-checks / --uri-decode; document from a file or stdin) x valid "
        "and invalid expressions (syntax, type, name, index errors; unresolvable pointers; failing patches and tests; "
        "non-list patch files) x valid and invalid documents (malformed JSON, invalid UTF-8), run in-process through "
        "jsonpath.cli.main() with patched argv/stdio, plus a python -m jsonpath subprocess sample; stdout is compared with "
        "json.dumps of what the corresponding library call returns. non-trivial = every case; distinct = distinct "
        "(argv, files)")
TRUSTED = ["argparse, file objects, json.dump and process exit are runtime (observed, not modelled); the expected output "
           "is computed by calling the library directly (the property is 'faithful front end to the library')"]
ASSUMPTIONS = ["the in-process run and a real subprocess behave alike (a sample is run both ways)"]

DOC = {"a": [1, 2, {"b": "x"}], "s": "é", "n": None, "t": True, "a ": "trailing space", " ": "blank", "t\t": "tab", "new key": 0}
GOOD_DOC = json.dumps(DOC).encode()
BAD_DOCS = [b'{"a": ', b'{"a": "\xff\xfe"}', b'']
# documents whose top-level value is a JSON string - some of them holding text that is itself JSON (the library reads a
# str ARGUMENT as JSON text, so the front end must hand over the file, not a decoded string)
STR_DOCS = [b'"[1, 2, 3]"', b'"42"', b'"{"', b'"hello"', b'"null"', b'"{\\"a\\": 1}"']
ENC_DOCS = [b"\xef\xbb\xbf" + GOOD_DOC, GOOD_DOC.decode().encode("utf-16"), GOOD_DOC.decode().encode("utf-16-le"), GOOD_DOC.decode().encode("utf-32"),
            GOOD_DOC.decode().encode("utf-16-be")]
PATH_EXPRS = [("$.a[0]", None), ("$..b", None), ("$[?@.b == 'x']", None), ("$.a[?@ > 1]", None), ("$", None), ("$.s", None),
              ("$.a[", "JSONPathSyntaxError"), ("$[?@.a.* == 1]", "JSONPathTypeError"), ("$[?nosuch(@)]", "JSONPathNameError"),
              ("$[9007199254740992]", "JSONPathIndexError"), ("$[?length(@.a) && @.b]", "JSONPathTypeError"), ("$[?@ =~ /(/]", "JSONPathSyntaxError"),
              ("$['\\u00e9']", None), ("", None),
              # compound queries (every operand reads the same document, which the front end hands over as a file)
              ("$.a[0] | $.s", None), ("$.a[*] & $.a[0]", None), ("$.a[0] | $.zz | $.t", None), ("$..b | $.a[1] & $.a[*]", None),
              # queries spread over several lines (blank space may be a line feed), a blank first line
              ("$.a\n  [2]\n  .b", None), ("\n$.a[0]", None), ("$[?@.b\n == 'x']", None), ("$.a[0,\n1]", None), ("$.a\n[", "JSONPathSyntaxError")]
POINTERS = [("/a/0", None), ("/a/2/b", None), ("", None), ("/s", None), ("/a/9", "JSONPointerIndexError"), ("/zz", "JSONPointerKeyError"),
            ("/s/0", "JSONPointerTypeError"), ("a", "JSONPointerError"), ("/a/-", "JSONPointerIndexError"), ("/%61", None), ("/\\u0061", None),
            ("/a\n/0", "JSONPointerKeyError"), ("\n/a/0", None),
            # an INLINE expression is taken as it is (only an expression read from a file loses the blank space around it)
            ("/a ", None), ("/ ", None), ("/t\t", None), ("/zz  ", "JSONPointerKeyError"), ("/a/2/b ", "JSONPointerKeyError"), (" /a/0", None)]
PATCHES = [([{"op": "add", "path": "/z", "value": 1}], None), ([{"op": "remove", "path": "/a/0"}], None), ([], None),
           ([{"op": "test", "path": "/t", "value": True}, {"op": "replace", "path": "/n", "value": [1]}], None),
           ([{"op": "test", "path": "/t", "value": 1}], "JSONPatchTestFailure"), ([{"op": "remove", "path": "/zz"}], "JSONPatchError"),
           ([{"op": "nope", "path": "/a"}], "JSONPatchError"), ({"op": "add"}, "not-a-list"), ("not json", "patch-decode"),
           ([{"op": "add", "path": "/a/-", "value": "é"}], None), ([{"op": "move", "from": "/a", "path": "/a/0"}], "JSONPatchError"),
           # paths that mean something else with --uri-decode / without --no-unicode-escape (OPTION_PATCHES: every combination is run)
           ([{"op": "add", "path": "/new%20key", "value": 1}], "option"), ([{"op": "replace", "path": "/%61/0", "value": 9}], "option"),
           ([{"op": "test", "path": "/%73", "value": "é"}], "option"), ([{"op": "move", "from": "/%74", "path": "/moved%2Fhere"}], "option"),
           ([{"op": "copy", "from": "/a/2/%62", "path": "/%6e"}], "option"), ([{"op": "replace", "path": "/\\u0061/0", "value": 9}], "option"),
           ([{"op": "add", "path": "/\\u0073", "value": "%41"}], "option"), ([{"op": "remove", "path": "/%5Cu0061"}], "option")]
OPTION_PATCHES = [i for i, (_, tag) in enumerate(PATCHES) if tag == "option"]


def gen(rng, tier):
    thorough = tier == "thorough"

    def keep(p):
        return thorough or rng.random() < p
    for expr, _ in PATH_EXPRS:
        for doc_i in range(1 + len(BAD_DOCS)):
            for debug in (False, True):
                for pretty in (False, True):
                    for from_file in (False, True):
                        for out_file in (False, True):
                            if not keep(0.5):
                                continue
                            yield {"cmd": "path", "expr": expr, "doc": doc_i, "debug": debug, "pretty": pretty, "expr_file": from_file,
                                   "out_file": out_file, "nue": rng.random() < 0.2, "ntc": rng.random() < 0.15, "stdin": rng.random() < 0.2}
    for expr, _ in POINTERS:
        for doc_i in range(1 + len(BAD_DOCS)):
            for debug in (False, True):
                for from_file in (False, True):
                    if not keep(0.7):
                        continue
                    yield {"cmd": "pointer", "expr": expr, "doc": doc_i, "debug": debug, "pretty": rng.random() < 0.5, "expr_file": from_file,
                           "out_file": rng.random() < 0.3, "nue": rng.random() < 0.2, "uri": rng.random() < 0.3, "stdin": rng.random() < 0.2}
    for doc_i in range(1 + len(BAD_DOCS), 1 + len(BAD_DOCS) + len(STR_DOCS)):
        for expr in ("$", "$[0]", "$.a", "$..*", "$[?@ == 1]"):
            for from_file in (False, True):
                yield {"cmd": "path", "expr": expr, "doc": doc_i, "debug": rng.random() < 0.3, "pretty": rng.random() < 0.3, "expr_file": from_file,
                       "out_file": rng.random() < 0.3, "nue": False, "ntc": False, "stdin": rng.random() < 0.3}
        for expr in ("", "/0", "/a", "/-"):
            yield {"cmd": "pointer", "expr": expr, "doc": doc_i, "debug": rng.random() < 0.3, "pretty": False, "expr_file": rng.random() < 0.5,
                   "out_file": rng.random() < 0.3, "nue": False, "uri": False, "stdin": rng.random() < 0.3}
        for pi in (2, 0, 1, 4):
            yield {"cmd": "patch", "patch": pi, "doc": doc_i, "debug": rng.random() < 0.3, "pretty": False, "out_file": rng.random() < 0.3,
                   "nue": False, "uri": False, "stdin": rng.random() < 0.3}
    base_i = 1 + len(BAD_DOCS) + len(STR_DOCS)
    for doc_i in range(base_i, base_i + len(ENC_DOCS)):
        for expr in ("$.a[0]", "$..b", "$.s"):
            yield {"cmd": "path", "expr": expr, "doc": doc_i, "debug": rng.random() < 0.3, "pretty": rng.random() < 0.3, "expr_file": rng.random() < 0.5,
                   "out_file": rng.random() < 0.3, "nue": False, "ntc": False, "stdin": False}
        for expr in ("/a/0", "/s", "/zz"):
            yield {"cmd": "pointer", "expr": expr, "doc": doc_i, "debug": rng.random() < 0.3, "pretty": False, "expr_file": rng.random() < 0.5,
                   "out_file": rng.random() < 0.3, "nue": False, "uri": False, "stdin": False}
        for pi in (0, 3, 4):
            yield {"cmd": "patch", "patch": pi, "doc": doc_i, "debug": rng.random() < 0.3, "pretty": False, "out_file": rng.random() < 0.3,
                   "nue": False, "uri": False, "stdin": False}
    for pi in OPTION_PATCHES:
        for uri in (False, True):
            for nue in (False, True):
                yield {"cmd": "patch", "patch": pi, "doc": 0, "debug": rng.random() < 0.3, "pretty": rng.random() < 0.5, "out_file": rng.random() < 0.3,
                       "nue": nue, "uri": uri, "stdin": rng.random() < 0.2}
    for pi in range(len(PATCHES)):
        for doc_i in range(1 + len(BAD_DOCS)):
            for debug in (False, True):
                if not keep(1.0):
                    continue
                yield {"cmd": "patch", "patch": pi, "doc": doc_i, "debug": debug, "pretty": rng.random() < 0.5, "out_file": rng.random() < 0.3,
                       "nue": rng.random() < 0.2, "uri": rng.random() < 0.3, "stdin": rng.random() < 0.2}


def doc_bytes(case):
    if case["doc"] == 0:
        return GOOD_DOC
    if case["doc"] <= len(BAD_DOCS):
        return BAD_DOCS[case["doc"] - 1]
    k = case["doc"] - 1 - len(BAD_DOCS)
    return STR_DOCS[k] if k < len(STR_DOCS) else ENC_DOCS[k - len(STR_DOCS)]


def library(case):
    """what the corresponding library call returns / raises: ('ok', value) | ('raises', stage, class name)"""
    ue = not case.get("nue", False)
    try:
        doc = json.loads(doc_bytes(case))
        doc_err = None
        if isinstance(doc, str):
            doc = io.StringIO(doc_bytes(case).decode("utf-8"))      # the library's entry point for a readable file
    except UnicodeDecodeError:
        doc_err = "UnicodeDecodeError"
    except json.JSONDecodeError:
        doc_err = "JSONDecodeError"
    if case["cmd"] == "path":
        try:
            c = jsonpath.JSONPathEnvironment(unicode_escape=ue, well_typed=not case.get("ntc", False)).compile(case["expr"].strip() if case["expr_file"] else case["expr"])
        except Exception as e:  # noqa: BLE001
            return ["raises", 0, type(e).__name__]
        if doc_err:
            return ["raises", 1, doc_err]
        try:
            return ["ok", c.findall(doc)]
        except Exception as e:  # noqa: BLE001
            return ["raises", 1, type(e).__name__]
    if case["cmd"] == "pointer":
        if doc_err:
            # load_data happens inside resolve(), after the pointer has been parsed
            try:
                jsonpath.JSONPointer(case["expr"].strip() if case["expr_file"] else case["expr"], unicode_escape=ue, uri_decode=case.get("uri", False))
            except Exception as e:  # noqa: BLE001
                return ["raises", 0, type(e).__name__]
            return ["raises", 0, doc_err]
        try:
            return ["ok", jsonpath.pointer.resolve(case["expr"].strip() if case["expr_file"] else case["expr"], doc,
                                                   unicode_escape=ue, uri_decode=case.get("uri", False))]
        except Exception as e:  # noqa: BLE001
            return ["raises", 0, type(e).__name__]
    patch, _ = PATCHES[case["patch"]]
    if patch == "not json":
        return ["raises", 0, "JSONDecodeError"]
    if not isinstance(patch, list):
        return ["not-a-list"]
    try:
        p = jsonpath.JSONPatch(patch, unicode_escape=ue, uri_decode=case.get("uri", False))
    except Exception as e:  # noqa: BLE001
        return ["raises", 1, type(e).__name__]
    if doc_err:
        return ["raises", 1, doc_err]
    try:
        return ["ok", p.apply(doc)]
    except Exception as e:  # noqa: BLE001
        return ["raises", 1, type(e).__name__]


def to_sx(case):
    lib = library(case)
    if lib[0] == "ok":
        o = "success"
    elif lib[0] == "raises":
        o = ["raises", lib[1], SX.s2sx(lib[2])]
    else:
        o = ["raises", 9, SX.s2sx("NotAList")]
    return ["cli", case["cmd"], case["debug"], o]


def run_cli(case, workdir):
    argv = ["json"]
    if case["debug"]:
        argv.append("--debug")
    if case["pretty"]:
        argv.append("--pretty")
    if case.get("nue"):
        argv.append("--no-unicode-escape")
    argv.append(case["cmd"])
    docf = os.path.join(workdir, "doc.json")
    open(docf, "wb").write(doc_bytes(case))
    outf = os.path.join(workdir, "out.json")
    if os.path.exists(outf):
        os.remove(outf)
    if case["cmd"] == "path":
        if case["expr_file"]:
            qf = os.path.join(workdir, "q.txt")
            open(qf, "w", encoding="utf-8").write(case["expr"] + "\n")
            argv += ["-r", qf]
        else:
            argv += ["-q", case["expr"]]
        if case.get("ntc"):
            argv.append("--no-type-checks")
    elif case["cmd"] == "pointer":
        if case["expr_file"]:
            qf = os.path.join(workdir, "p.txt")
            open(qf, "w", encoding="utf-8").write(case["expr"] + "\n")
            argv += ["-r", qf]
        else:
            argv += ["-p", case["expr"]]
        if case.get("uri"):
            argv.append("-u")
    else:
        patch, _ = PATCHES[case["patch"]]
        pf = os.path.join(workdir, "patch.json")
        open(pf, "w", encoding="utf-8").write(patch if isinstance(patch, str) else json.dumps(patch))
        argv.append(pf)
        if case.get("uri"):
            argv.append("-u")
    stdin = io.StringIO("")
    if case.get("stdin"):
        try:
            stdin = io.StringIO(doc_bytes(case).decode("utf-8"))
        except UnicodeDecodeError:
            argv += ["-f", docf]
    else:
        argv += ["-f", docf]
    if case["out_file"]:
        argv += ["-o", outf]
    old = sys.argv, sys.stdin, sys.stdout, sys.stderr
    so, se = io.StringIO(), io.StringIO()
    status, tb = 0, False
    try:
        sys.argv, sys.stdin, sys.stdout, sys.stderr = argv, stdin, so, se
        try:
            jsonpath.cli.main()
        except SystemExit as e:
            status = e.code if isinstance(e.code, int) else (0 if e.code is None else 1)
        except BaseException as e:  # noqa: BLE001
            status, tb = 1, type(e).__name__
    finally:
        sys.argv, sys.stdin, sys.stdout, sys.stderr = old
    out_text = so.getvalue()
    if case["out_file"] and os.path.exists(outf):
        # argparse.FileType leaves the file open; it is flushed when the object is collected
        import gc
        gc.collect()
        out_text = out_text + open(outf, encoding="utf-8").read()
    err = se.getvalue()
    return argv, status, out_text, err, tb


def impl(case):
    wd = tempfile.mkdtemp(prefix="c18-", dir=os.path.join(os.path.dirname(os.path.dirname(os.path.abspath(__file__))), ".work"))
    try:
        argv, status, out, err, tb = run_cli(case, wd)
        lib = library(case)
        res = {"status": status, "traceback": bool(tb), "stderr_lines": len([l for l in err.split("\n") if l.strip()]) if not tb else 0}
        if lib[0] == "ok":
            want = json.dumps(lib[1], indent=2 if case["pretty"] else None)
            res["stdout"] = "matches-library" if out == want else ["differs", out[:200], want[:200]]
        else:
            res["stdout"] = "empty" if out == "" else ["unexpected-output", out[:200]]
        if tb:
            res["exception"] = tb
        return res
    finally:
        subprocess.run(["rm", "-rf", wd])


def _obs(x):
    return {"status": int(x[0]), "stdout": x[1] == "true", "stderr_lines": int(x[2]), "traceback": x[3] == "true"}


def decode(sx, case):
    _, model, spec, listed, attrs = sx
    m, s = _obs(model), _obs(spec)
    lib = library(case)

    def shape(o):
        return {"status": o["status"], "traceback": o["traceback"], "stderr_lines": o["stderr_lines"],
                "stdout": ("matches-library" if o["stdout"] else "empty")}
    in_domain = True
    if lib[0] == "not-a-list":
        # not an exception of the library: the handler's own check; the property demands the rejection shape
        sp = {"status": 1, "traceback": False, "stderr_lines": 1, "stdout": "empty"}
        return {"model": sp, "spec": sp, "in_domain": True}
    if lib[0] == "raises" and listed != "true":
        in_domain = False       # an outcome class the property does not list (e.g. a recursion error)
    return {"model": shape(m), "spec": shape(s), "in_domain": in_domain}


def project(case, res, dec=None):
    return {k: res[k] for k in ("status", "traceback", "stderr_lines", "stdout")}


def for_model(case, res):
    return {k: res[k] for k in ("status", "traceback", "stderr_lines", "stdout")}


def nontrivial(case, res):
    return True


def classify(case, res):
    lib = library(case)
    return ["cmd=" + case["cmd"], "debug=%s" % case["debug"], "outcome=" + (lib[0] if lib[0] != "raises" else lib[2]),
            "status=%d" % res["status"], "traceback=%s" % res["traceback"]]
