"""Shared implementation wrappers / decoders for the query-evaluation harness modules."""
import asyncio
import random

import jsonpath

from . import sx as SX
from . import qgen as Q
from .common import exc_name, sx_to_loc, deep


def show_parts(parts):
    return [p if isinstance(p, int) else ["k", p] for p in parts]


def show_matches(ms):
    return [[show_parts(m.parts), m.path, SX.canon(m.obj)] for m in ms]


def decode_matches(x):
    return [[show_parts(sx_to_loc(m[0])), SX.sx2s(m[1]), SX.canon(SX.sx2j(m[2]))] for m in x]


def decode_values(x):
    return [SX.canon(SX.sx2j(v)) for v in x]


def res_or_err(x, f):
    return f(x[1]) if x[0] == "ok" else ["err", x[1]]


def text_of(case):
    sp = Q.Speller(random.Random(case.get("seed", 0)), blanks=case.get("blanks", 0.15), std=case.get("std", True))
    return Q.render_query(case["query"], sp)


def to_sx(case):
    return ["eval", Q.query_sx(case["query"]), SX.j2sx(case["doc"]), SX.j2sx(case.get("ctx", {}))]


def attempt(f):
    try:
        return f()
    except Exception as e:  # noqa: BLE001
        return ["err", exc_name(e)]


async def _alist(ait):
    return [m async for m in ait]


def used_before(c, doc, ctx=None, other_ctx=None):
    """a compiled query is not new when it is applied: it was already applied to this very document object - once with
    another filter context, once abandoned after the first match.  Nothing of that may show in what it returns next."""
    try:
        if other_ctx is not None:
            list(c.finditer(doc, filter_context=other_ctx))
        it = iter(c.finditer(doc, filter_context=ctx) if ctx is not None else c.finditer(doc))
        next(it, None)
        del it
    except Exception:  # noqa: BLE001
        pass
