"""Shared implementation wrappers / decoders for the query-evaluation harness modules."""
import asyncio
import random

import jsonpath

from . import sx as SX
from . import qgen as Q
from .common import exc_name, sx_to_loc, deep


def show_parts(parts):
    return [p if isinstance(p, int) else ["k", p] for p in parts]


def show_matches(ms):
    return [[show_parts(m.parts), m.path, SX.canon(m.obj)] for m in ms]


def decode_matches(x):
    return [[show_parts(sx_to_loc(m[0])), SX.sx2s(m[1]), SX.canon(SX.sx2j(m[2]))] for m in x]


def decode_values(x):
    return [SX.canon(SX.sx2j(v)) for v in x]


def res_or_err(x, f):
    return f(x[1]) if x[0] == "ok" else ["err", x[1]]


def text_of(case):
    sp = Q.Speller(random.Random(case.get("seed", 0)), blanks=case.get("blanks", 0.15), std=case.get("std", True))
    return Q.render_query(case["query"], sp)


def to_sx(case):
    return ["eval", Q.query_sx(case["query"]), SX.j2sx(case["doc"]), SX.j2sx(case.get("ctx", {}))]


def attempt(f):
    try:
        return f()
    except Exception as e:  # noqa: BLE001
        return ["err", exc_name(e)]


async def _alist(ait):
    return [m async for m in ait]


def used_before(c, doc, ctx=None, other_ctx=None):
    """a compiled query is not new when it is applied: it was already applied to this very document object - once with
    another filter context, once abandoned after the first match.  Nothing of that may show in what it returns next."""
    try:
        if other_ctx is not None:
            list(c.finditer(doc, filter_context=other_ctx))
        it = iter(c.finditer(doc, filter_context=ctx) if ctx is not None else c.finditer(doc))
        next(it, None)
        del it
    except Exception:  # noqa: BLE001
        pass


def interned(v, pool=None):
    """a copy of a JSON value in which structurally equal containers (compared type-strictly) are ONE Python object, the way
    a caller builds a document from shared pieces (`[row] * 2`, one list used under two members)"""
    pool = {} if pool is None else pool
    if isinstance(v, dict):
        out = {k: interned(x, pool) for k, x in v.items()}
    elif isinstance(v, list):
        out = [interned(x, pool) for x in v]
    else:
        return v
    return pool.setdefault(repr(SX.canon(out)), out)


def entry_points(text, doc, ctx=None, reference=None):
    """the same query through every way the library offers to evaluate it - module-level functions (default environment),
    a fresh environment, compiled objects, findall / finditer / match / query, the asynchronous twins - on the document and
    on a copy whose equal parts are shared objects: all must give what `compile(text).finditer(doc)` gives.
    Returns "same" or the routes that differ."""
    kw = {"filter_context": deep(ctx)} if ctx is not None else {}

    def values(f):
        try:
            return ["ok", [SX.canon(v) for v in f()]]
        except Exception as e:  # noqa: BLE001
            return ["err", exc_name(e)]
    ref = reference if reference is not None else values(lambda: [m.obj for m in jsonpath.compile(text).finditer(deep(doc), **kw)])
    env = jsonpath.JSONPathEnvironment()
    routes = {
        "jsonpath.findall": lambda: jsonpath.findall(text, deep(doc), **kw),
        "jsonpath.finditer": lambda: [m.obj for m in jsonpath.finditer(text, deep(doc), **kw)],
        "jsonpath.query": lambda: list(jsonpath.query(text, deep(doc), **kw).values()),
        "env.findall": lambda: env.findall(text, deep(doc), **kw),
        "env.finditer": lambda: [m.obj for m in env.finditer(text, deep(doc), **kw)],
        "env.compile.findall": lambda: env.compile(text).findall(deep(doc), **kw),
        "findall_async": lambda: asyncio.run(jsonpath.findall_async(text, deep(doc), **kw)),
        "shared-parts document": lambda: jsonpath.compile(text).findall(interned(deep(doc)), **kw),
        "shared-parts document, fresh environment": lambda: env.findall(text, interned(deep(doc)), **kw),
    }
    if isinstance(doc, (dict, list)):
        import json as _json
        jtxt = _json.dumps(doc)

        def text_twice():
            # the document as JSON TEXT; what the first evaluation returned is then edited by the caller (its containers
            # emptied, the root too); the same text evaluated again denotes the same document
            first = jsonpath.findall("$..*", jtxt) + jsonpath.findall("$", jtxt) + jsonpath.findall(text, jtxt, **kw)
            for v in first:
                if isinstance(v, (dict, list)):
                    v.clear()
            return jsonpath.findall(text, jtxt, **kw)
        routes["JSON text, after the results of an earlier evaluation of the same text were edited"] = text_twice
    diff = {}
    for name, f in routes.items():
        got = values(f)
        if got != ref:
            diff[name] = got
    try:
        m = jsonpath.match(text, deep(doc), **kw)
        first = ["ok", [SX.canon(m.obj)] if m is not None else []]
    except Exception as e:  # noqa: BLE001
        first = ["err", exc_name(e)]
    want_first = ["ok", ref[1][:1]] if ref[0] == "ok" else ref
    if first != want_first:
        diff["jsonpath.match"] = first
    return "same" if not diff else {"reference": ref, "differ": diff}


_CUSTOM = {}


def _custom_env(filter_caching):
    """an environment with documented customisations: a type-aware function that raises on bad input, and two functions whose
    `validate` hook fills in an implicit per-node argument (`has('x')` = `has(@, 'x')`, `pos()` = `pos(#)`)"""
    if filter_caching in _CUSTOM:
        return _CUSTOM[filter_caching]
    from jsonpath import JSONPath, JSONPathEnvironment
    from jsonpath.exceptions import JSONPathTypeError
    from jsonpath.filter import CURRENT_KEY, SelfPath
    from jsonpath.function_extensions import ExpressionType, FilterFunction

    class Cap(FilterFunction):
        arg_types = [ExpressionType.VALUE]
        return_type = ExpressionType.VALUE

        def __call__(self, v):
            if not isinstance(v, str):
                raise JSONPathTypeError("cap() needs a string")
            return v.upper()

    class Has:
        def validate(self, env, args, token):  # noqa: ARG002
            return [SelfPath(JSONPath(env=env, selectors=())), *args] if len(args) == 1 else args

        def __call__(self, node, name):
            return isinstance(node, dict) and isinstance(name, str) and name in node

    class Pos:
        def validate(self, env, args, token):  # noqa: ARG002
            if not args:
                args.append(CURRENT_KEY)
            return args

        def __call__(self, key):
            return key
    class Price(FilterFunction):
        """a table lookup: whatever built-in error the USER's function raises (KeyError, TypeError) comes out the same way"""
        arg_types = [ExpressionType.VALUE]
        return_type = ExpressionType.VALUE

        def __call__(self, v):
            return {"x": 1, "ab": 2, 1: 3, "a": 4}[v]

    def nth(v):         # a plain callable: IndexError / TypeError from the user's code
        return [10, 20][v]
    env = JSONPathEnvironment(filter_caching=filter_caching)
    env.function_extensions["price"] = Price()
    env.function_extensions["nth"] = nth
    env.function_extensions["cap"] = Cap()
    env.function_extensions["has"] = Has()
    env.function_extensions["pos"] = Pos()
    _CUSTOM[filter_caching] = env
    return env


CUSTOM_QUERIES = [
    ("$..[?@.a == 1 || cap(@.b) == 'X']", None), ("$..[?@.a && cap(@.a) != 'q']", None), ("$..[?cap(@.b) == 'AB' || @.a]", None),
    ("$..[?has('a')]", "$..[?has(@, 'a')]"), ("$..[?!has('b') && @]", "$..[?!has(@, 'b') && @]"), ("$..[?has($.k) || has('c')]", "$..[?has(@, $.k) || has(@, 'c')]"),
    ("$..[?price(@.b) == 1]", None), ("$..[?@.c || price(@.a) == 3]", None), ("$..[?nth(@.a) == 20]", None), ("$..[?nth(#) == 10 && @]", None),
    ("$..[?pos() == 0 || pos() == 'a']", "$..[?# == 0 || # == 'a']"), ("$..[?pos() != 1 && has('a')]", "$..[?# != 1 && has(@, 'a')]"),
]


def custom_functions_agree(doc, ctx=None):
    """the custom-function queries through sync / async evaluation with filter caching on / off, shorthand against explicit
    spelling: one outcome (values or error class) for all.  "same" or what differs."""
    kw = {"filter_context": deep(ctx)} if ctx is not None else {}

    def outcome(f):
        try:
            return ["ok", [SX.canon(v) for v in f()]]
        except Exception as e:  # noqa: BLE001
            return ["err", exc_name(e)]
    diff = {}
    for q, explicit in CUSTOM_QUERIES:
        got = {}
        for caching in (True, False):
            env = _custom_env(caching)
            for text in (q, explicit) if explicit else (q,):
                got["sync caching=%s %s" % (caching, text)] = outcome(lambda: env.findall(text, deep(doc), **kw))
                got["iter caching=%s %s" % (caching, text)] = outcome(lambda: [m.obj for m in env.finditer(text, deep(doc), **kw)])
                got["async caching=%s %s" % (caching, text)] = outcome(lambda: asyncio.run(env.findall_async(text, deep(doc), **kw)))
        ref = got["sync caching=False %s" % (explicit or q)]
        bad = {k: v for k, v in got.items() if v != ref}
        if bad:
            diff[q] = {"reference (sync, caching off)": ref, "differ": bad}
    return "same" if not diff else diff
