"""C06 — only the documented error families ever escape; every call terminates."""
import asyncio
import json
import random
import re
import signal

import jsonpath
from jsonpath import JSONPatch, JSONPointer, RelativeJSONPointer

from . import sx as SX
from . import qgen as Q
from .common import SMALL_DOCS, exc_name, gen_container, gen_doc, parts_typed, parts_to_sx, deep
from . import c04 as C04
from . import c05 as C05
from . import c16 as C16

ID = "C06"
PROP_FILE = "props/C06.v"
RULE = ("arbitrary strings as queries: token soup over the lexer's own alphabet (every operator, bracket, quote, sign, "
        "digit, exponent, reserved word, identifier token, blank), single-edit mutations (delete / insert / replace / "
        "transpose one character) of valid standard and extended queries, unterminated quotes and regexes, exponent and "
        "oversized numbers, lone signs; each compiled query is evaluated on documents of every JSON type at every "
        "position; arbitrary strings as JSON Pointers and Relative JSON Pointers, resolved against documents; arbitrary "
        "lists of patch operations (wrong types, missing members, extension tokens) built and applied. For every call the "
        "exception class is compared with the model's and str(exception) is rendered. non-trivial = the text is not "
        "accepted verbatim by the generators of valid input; distinct = distinct (kind, text, document)")
TRUSTED = ["time spent inside Python's re engine and inputs nested deeper than 100 levels are outside the claim; termination "
           "of the real lexer rests on every alternative of the master regex being non-empty (model: Lex.tokenize consumes "
           "at least one character per step) and on re itself"]
ASSUMPTIONS = ["each call is run under a 10 s alarm and, if that fires, once more under a 120 s alarm; hitting the second is reported "
               "as non-termination (the calls take well under a millisecond)"]

ALPHABET = ["$", "@", "^", "#", "_", "~", "|", "&", ".", "..", "*", "?", "[", "]", "(", ")", ",", ":", "'", '"', "\\", "/", "-", "+",
            "0", "1", "9", "01", "1e2", "1e-2", "1E+3", "1.5", "1.", ".5", "-", "1e999", "1e", "e", "==", "!=", "<>", "<=", ">=", "<", ">",
            "=~", "=", "!", "&&", "||", " and ", " or ", " not ", " in ", " contains ", "true", "True", "false", "nil", "null", "None",
            "undefined", "missing", "a", "b", "ab", "length(", "count(", "value(", "match(", "search(", "foo(", "is(", "typeof(",
            " ", "\t", "\n", "é", "\U0001F600", "/a/", "/(/", "/a/i", "'a'", '"b"', "'\\u00e9'", "'\\x'", "\x00", "::", "-1", "[-1]", "[0]",
            "[1:2]", "[?@]", "[?@.a]", ".a", "..a", "['a']", "[*]", "12345678901234567890", "9007199254740992", "-9007199254740992"]

DOCS = [None, True, 5, 1.5, [], {}, [1, "ab", [2, {"a": 1}]], {"a": {"b": [1, 2, {"a": "x"}]}, "s": "str", "n": None, "t": True, "0": 0},
        [[], {}, "", 0, False, None], {"a": [1, 2, 3], "b": "xyz", "c": {"d": 1.5}}]


class Timeout(Exception):
    pass


def _alarm(signum, frame):
    raise Timeout()


def guarded(f, seconds=10):
    old = signal.signal(signal.SIGALRM, _alarm)
    signal.alarm(seconds)
    try:
        return f()
    except Timeout:
        if seconds < 120:
            # a loaded machine is not non-termination: once more, with a long limit, before saying so
            signal.alarm(0)
            signal.signal(signal.SIGALRM, old)
            return guarded(f, 120)
        return ["did-not-terminate"]
    except RecursionError:
        return ["err", "recursion-limit"]
    except Exception as e:  # noqa: BLE001
        return ["err", exc_name(e)]
    finally:
        signal.alarm(0)
        signal.signal(signal.SIGALRM, old)


def mutate(rng, text):
    if not text:
        return rng.choice(ALPHABET)
    i = rng.randrange(len(text))
    r = rng.random()
    if r < 0.3:
        return text[:i] + text[i + 1:]
    if r < 0.6:
        return text[:i] + rng.choice(ALPHABET) + text[i:]
    if r < 0.85:
        return text[:i] + rng.choice(ALPHABET) + text[i + 1:]
    if i + 1 < len(text):
        return text[:i] + text[i + 1] + text[i] + text[i + 2:]
    return text + rng.choice(ALPHABET)


# the non-standard `#<index>` / `#<name>` tokens with every kind of digit-like text after the sign
HASH_TOKENS = ["#²", "#①", "#1¹", "#٣", "#１", "#-1", "#+1", "#1_0", "# 1", "#1 ", "#01", "#", "##", "#-", "#1e1", "#½", "#৩", "#0x1", "#1.0",
               "~²", "~1", "~0²"]


def gen(rng, tier):
    thorough = tier == "thorough"
    n = 20000 if thorough else 2500
    for tok in HASH_TOKENS:
        for doc in ([1, 2, 3], {"a": [1, 2]}, {"1": 1, "²": 2}, [[1], {"²": 1}]):
            for pre in ("", "/a", "/0", "/1"):
                yield {"kind": "ptr", "mode": True, "text": pre + "/" + tok, "doc": doc, "default": 7, "has_default": tok in ("#²", "#1")}
        yield {"kind": "patch", "mode": True, "ops": [["test", "/a/" + tok, 1], ["remove", "/a/" + tok]], "doc": {"a": [1, 2]}}
        yield {"kind": "patch", "mode": True, "ops": [["copy", "/a/" + tok, "/b"]], "doc": {"a": [1, 2]}}
        yield {"kind": "patch", "mode": True, "ops": [["replace", "/" + tok, 1]], "doc": [1, 2]}
    # the non-standard key tokens as the LAST token of every operation kind, on objects that have the member they name
    for tok in ("~a", "#a", "~0a", "#b", "~", "#"):
        for doc in ({"a": 1, "b": {"a": 2}}, {"a": [1], "~a": 2}, {"": 0, "b": {"": 1}}):
            for pre in ("", "/b"):
                p_ = pre + "/" + tok
                for ops in ([["remove", p_]], [["move", p_, "/z"]], [["copy", p_, "/z"]], [["replace", p_, 9]], [["test", p_, "a"]], [["add", p_, 9]],
                            [["move", "/a", p_]], [["test", "/a", 1], ["remove", p_]]):
                    yield {"kind": "patch", "mode": True, "ops": ops, "doc": doc}
    # member names made of every control character, reached by name, wildcard, descent and filter (each match's normalized path
    # and the query's string form are built from them)
    cdoc = {"x\x1fy": 1, "\x00": 2, "\x1f": [3], "a\x7f": 4, "\x1e": {"\x1f": 5, "\x01\x02": 6}, "\u0080\u009f": 7, "\t\n\r": 8}
    for q in ("$.*", "$..*", "$[?@ > 0]", "$['x\\u001fy']", "$..['\\u001f']", "$['\\u0000', '\\u001e']", "$['\\u001e'].*", "$..[?@ == 5]", "$['a\\u007f']",
              "$['\\u0080\\u009f']", "$['\\t\\n\\r']", "$[?@['\\u001f']]"):
        for doc in (cdoc, [cdoc], {"k": cdoc}):
            yield {"kind": "compile", "text": q, "doc": doc, "ctx": {}}
    # corner slices (zero step, steps and bounds of either sign beyond the array) through every evaluation route
    for q in ("$[::0]", "$.a[1:3:0]", "$..[::0]", "$.a[0, ::0, 2]", "$[?@[::0]]", "$[?!@[::0]]", "$..[5:-9:-3]", "$.a[-9:9:4]", "$[?count(@[::0]) == 0]",
              "$[::-0]", "$.a[::9007199254740991]"):
        for doc in DOCS:
            yield {"kind": "compile", "text": q, "doc": doc, "ctx": {}}
    # (1) queries
    for i in range(n):
        r = rng.random()
        if r < 0.35:
            text = "".join(rng.choice(ALPHABET) for _ in range(rng.randint(1, 8)))
        else:
            doc0 = gen_container(rng, 3, 3, ["a", "b", "c", "0"])
            q = Q.gen_ext_query(rng, doc0)
            sp = Q.Speller(random.Random(rng.randrange(1 << 30)), blanks=0.1, std=rng.random() < 0.5)
            text = Q.render_query(q, sp)
            for _ in range(rng.choice([0, 1, 1, 2])):
                text = mutate(rng, text)
        yield {"kind": "compile", "text": text, "doc": rng.choice(DOCS), "ctx": Q.CTX}
    # (1b) oversized numbers: more digits than the interpreter's int() converts (4300 by default), huge repetition counts
    big = "1" * 4301
    for text in ["$[%s]" % big, "$[-%s]" % big, "$[%s:]" % big, "$[:%s]" % big, "$[::%s]" % big, "$[1:2:-%s]" % big, "$[?@.a == %s]" % big,
                 "$[?@.a == -%s]" % big, "$[?@.a == %se1]" % big, "$[?@.a == %s.5]" % big, "$[?@.a == 1.%s]" % big, "$[?@.a == 1e%s]" % big,
                 "$[?@.a == 1e-%s]" % big, "$[?@ in [%s]]" % big, "$[?count(@[%s]) == 1]" % big, "$.a[?@[%s]]" % big, "$..[%s]" % big,
                 "$[?@.a =~ /a{99999999999}/]", "$[?match(@.a, 'a{99999999999}')]", "$[?search(@.a, 'a{99999999999}')]",
                 "$[?match(@.a, @.p)]", "$[?search(@.a, @.p)]", "$[?@.a =~ /a{2,99999999999}/]", "$[?@.a =~ /(a{65536}){65536}/]"]:
        if not thorough and big in text and text not in ("$[%s]" % big, "$[:%s]" % big, "$[?@.a == %s]" % big, "$[?@.a == 1e%s]" % big):
            continue
        yield {"kind": "compile", "text": text, "doc": [{"a": "aa", "p": "a{99999999999}"}, {"a": 1}], "ctx": Q.CTX}
    from . import c10 as RT
    for text in RT.RAW_FLOATS:
        yield {"kind": "compile", "text": text, "doc": [{"a": 1.5, "b": 0.1}, {"a": 1e300}], "ctx": Q.CTX}
    # (1c) regular expressions at the edges of what `re` accepts: inline flags (and their clashes with the literal's flags),
    # group syntax, back-references, look-around, classes, counted repetition, stray meta-characters
    PATS = ["(?u)x", "(?a)(?u)x", "(?au)x", "(?L)x", "x(?i)", "(?i:x)", "(?-i:x)", "(?P<n>x)", "(?P=n)", "(?#c)x", "\\p{L}", "[[:alpha:]]",
            "(?<=a)b", "(?<!a)b", "(?=a)", "(?!a)", "a{,}", "a{2,1}", "a**", "a++", "a?+", "(", ")", "[", "[]", "[^]", "\\", "\\1", "(a)\\2",
            "(?(1)a|b)", "(?x) a b", "\\Z", "\\A", "\\b", "\\N{DASH}", "\\u12", "\\x1", "\\0", "\\8", "(?s).", "(?m)^a$", "[a-\\d]", "[z-a]",
            "(?i)(?-i)a", "a{1}{2}", "(?P<1>a)", "(?P<n>a)(?P<n>b)", "(?", "(?P", "(?P<", "(*)", "+", "*a", "?", "{1}", "a|*"]
    for pat in PATS:
        for fl in (["", "a"] if "(?" in pat else [""]):
            lit = pat.replace("/", "\\/")
            yield {"kind": "compile", "text": "$[?@.a =~ /%s/%s]" % (lit, fl), "doc": [{"a": "x"}, {"a": "ab"}], "ctx": Q.CTX}
        q = "'" + pat.replace("'", "\\'") + "'"
        yield {"kind": "compile", "text": "$[?match(@.a, %s)]" % q, "doc": [{"a": "x"}, {"a": "ab"}], "ctx": Q.CTX}
        yield {"kind": "compile", "text": "$[?search(@.a, %s)]" % q, "doc": [{"a": "x"}, {"a": "ab"}], "ctx": Q.CTX}
        real = pat.replace("\\\\", "\\")
        yield {"kind": "compile", "text": "$[?match(@.a, @.p) || search(@.a, @.p)]", "doc": [{"a": "x", "p": real}, {"a": "ab", "p": real}], "ctx": Q.CTX}
    for tok in ([big, "-" + big, "#" + big, "0" + big] if thorough else [big]):
        for doc in ({"a": [1, 2], big: 3}, [1, 2]):
            yield {"kind": "ptr", "mode": True, "text": "/" + tok, "doc": doc, "default": None, "has_default": False}
            yield {"kind": "ptr", "mode": False, "text": "/a/" + tok, "doc": doc, "default": 5, "has_default": True}
        yield {"kind": "patch", "mode": True, "ops": [["add", "/a/" + tok, 1]], "doc": {"a": [1, 2]}}
        yield {"kind": "patch", "mode": True, "ops": [["move", "/a/0", "/a/" + tok]], "doc": {"a": [1, 2]}}
        yield {"kind": "badpatch", "ops": [{"op": "remove", "path": "/a/" + tok}], "doc": {"a": [1, 2]}}
    # (printing a 4301-digit number in the extracted model takes seconds: the ones that need it run on the thorough tier)
    for rel in ([big, big + "/a", "0+" + big, "0-" + big, "0-" + big + "#"] if thorough else []) + ["1/" + big, "0/a/" + big]:
        yield {"kind": "rel", "mode": True, "rel": rel, "base": parts_typed(["a", "1"])}
    # (2) pointers
    for i in range(n // 3):
        doc = rng.choice([d for d in SMALL_DOCS if not isinstance(d, str)])
        toks = [rng.choice(C04.LOOKALIKES + ["\\", "\\u0041", "\\x", "a\\/b", "%41", "~", "~2"] + HASH_TOKENS) for _ in range(rng.randint(0, 3))]
        text = "".join("/" + t for t in toks)
        if rng.random() < 0.3:
            text = mutate(rng, text)
        yield {"kind": "ptr", "mode": rng.random() < 0.6, "text": text, "doc": doc, "default": None, "has_default": False}
    # (3) relative pointers
    for i in range(n // 4):
        text = rng.choice(C16.MALFORMED + [f"{rng.randint(0, 3)}{rng.choice(C16.OFFSETS)}{rng.choice(C16.SUFFIXES)}"])
        if rng.random() < 0.5:
            text = mutate(rng, text)
        # base tokens that str.isdigit() / `\\d` call digits and int() may or may not read (superscripts, circled, other scripts)
        base = [rng.choice(C16.BASE_TOKENS + ["²", "¹²", "①", "٣", "1٣", "+³", "1²"]) for _ in range(rng.randint(0, 3))]
        yield {"kind": "rel", "mode": True, "rel": text, "base": parts_typed(base)}
    # (4) patches: well-formed operations with wild paths (model-comparable) ...
    for i in range(n // 3):
        doc = gen_container(rng, 3, 3, ["a", "b", "0", "1", "~a", "#a", "-"])
        paths = ["/" + "/".join(rng.choice(["a", "b", "0", "1", "2", "-", "-1", "#0", "#a", "~a", "~b", "01", "+1", " 1", "", "zz", "#", "~"])
                                for _ in range(rng.randint(0, 3))) for _ in range(4)]
        ops = []
        for _ in range(rng.randint(1, 3)):
            k = rng.choice(C05.VALUES and ["add", "addne", "addap", "remove", "replace", "move", "copy", "test"])
            if k in ("add", "addne", "addap", "replace", "test"):
                ops.append([k, rng.choice(paths), rng.choice(C05.VALUES)])
            elif k == "remove":
                ops.append([k, rng.choice(paths)])
            else:
                ops.append([k, rng.choice(paths), rng.choice(paths)])
        yield {"kind": "patch", "mode": True, "ops": ops, "doc": doc}
    # ... and malformed operation lists (implementation only: error family)
    BAD = [5, None, "x", [], {}, {"op": "add"}, {"op": "add", "path": 5, "value": 1}, {"op": "add", "path": "/a"}, {"op": "nope", "path": "/a"},
           {"path": "/a", "value": 1}, {"op": ["add"], "path": "/a", "value": 1}, {"op": "move", "path": "/a"}, {"op": "copy", "from": 1, "path": "/a"},
           {"op": "add", "path": "a", "value": 1}, {"op": "remove", "path": "/\\x"}, {"op": "test", "path": "/99999999999999999999", "value": 1}]
    for i in range(n // 10):
        ops = [rng.choice(BAD) for _ in range(rng.randint(1, 3))]
        yield {"kind": "badpatch", "ops": ops, "doc": rng.choice(DOCS[3:])}
    for bad in [5, None, {"op": "add"}, {"a": 1}, [[1]], [None], "[5]", "{}"]:      # a str is read as JSON text
        yield {"kind": "badpatch", "ops": bad, "doc": {"a": 1}}


def to_sx(case):
    k = case["kind"]
    if k == "compile":
        return ["compile", "default", SX.s2sx(case["text"])]
    if k == "ptr":
        return C04.to_sx(case)
    if k == "rel":
        return C16.to_sx(case)
    if k == "patch":
        return C05.to_sx(case)
    return ["compile", "default", SX.s2sx("$")]


def _tokens(text):
    env = jsonpath.JSONPathEnvironment()
    out = []
    try:
        for t in env.lexer.tokenize(text):
            out.append([t.kind, t.value])
    except Exception as e:  # noqa: BLE001
        out.append(["ILLEGAL", exc_name(e)])
    return out


def impl(case):
    k = case["kind"]
    if k == "compile":
        text = case["text"]
        out = {"tokens": guarded(lambda: _tokens(text))}
        holder = {}

        def comp():
            holder["c"] = jsonpath.compile(text)
            return ["ok", Q.canon_ast(Q.dump_query(holder["c"]))]
        out["compile"] = guarded(comp)
        if out["compile"][0] == "ok":
            c = holder["c"]
            doc = deep(case["doc"])
            if not isinstance(doc, str):
                out["eval"] = guarded(lambda: ["ok", [SX.canon(v) for v in c.findall(doc, filter_context=deep(case["ctx"]))]])
                # the lazy and the asynchronous twins of the same evaluation (separate code paths in every selector)
                out["eval_iter"] = guarded(lambda: ["ok", [m.path for m in c.finditer(deep(case["doc"]), filter_context=deep(case["ctx"]))][:0]])
                out["eval_async"] = guarded(lambda: ["ok", asyncio.run(c.findall_async(deep(case["doc"]), filter_context=deep(case["ctx"])))[:0]])
                out["str"] = guarded(lambda: ["ok", str(c)])
        return out
    if k == "ptr":
        return {"ptr": guarded(lambda: C04.impl(case))}
    if k == "rel":
        return {"rel": guarded(lambda: C16.impl(case))}
    if k == "patch":
        return {"patch": guarded(lambda: C05.impl(case))}
    if k == "badpatch":
        def run():
            try:
                p = JSONPatch(deep(case["ops"]))
            except Exception as e:  # noqa: BLE001
                return ["build-err", exc_name(e)]
            try:
                return ["ok", SX.canon(p.apply(deep(case["doc"])))]
            except Exception as e:  # noqa: BLE001
                return ["apply-err", exc_name(e)]
        return {"badpatch": guarded(run)}
    raise ValueError(k)


def _sx_expr(x):
    """model AST (sx) -> the harness AST format"""
    if isinstance(x, str):
        return x
    k = x[0]
    if k == "lit":
        return ["lit", SX.sx2j(x[1])]
    if k == "re":
        return ["re", SX.sx2s(x[1]), x[2] if len(x) > 2 else ""]
    if k == "list":
        return ["list"] + [_sx_expr(y) for y in x[1:]]
    if k == "not":
        return ["not", _sx_expr(x[1])]
    if k == "op":
        return ["op", x[1], _sx_expr(x[2]), _sx_expr(x[3])]
    if k == "self":
        return ["self"] + [_sx_seg(g) for g in x[1:]]
    if k == "root":
        return ["root", x[1] == "true"] + [_sx_seg(g) for g in x[2:]]
    if k == "ctx":
        return ["ctx"] + [_sx_seg(g) for g in x[1:]]
    if k == "fn":
        return ["fn", SX.sx2s(x[1])] + [_sx_expr(a) for a in x[2:]]
    raise ValueError(x)


def _sx_sel(s):
    if isinstance(s, str):
        return s
    k = s[0]
    if k == "name":
        return ["name", SX.sx2s(s[1])]
    if k == "idx":
        return ["idx", SX.big_int(s[1])]
    if k == "slice":
        return ["slice"] + [None if v == "none" else SX.big_int(v) for v in s[1:]]
    if k == "filter":
        return ["filter", _sx_expr(s[1])]
    raise ValueError(s)


def _sx_seg(g):
    if g == "desc":
        return "desc"
    if g[0] == "sel":
        return ["sel", _sx_sel(g[1])]
    return ["list"] + [_sx_sel(s) for s in g[1:]]


def sx_query_to_ast(x):
    def path(p):
        return {"fake": p[1] == "true", "segs": [_sx_seg(g) for g in p[2:]]}
    return {"first": path(x[1]), "rest": [[r[0], path(r[1])] for r in x[2:]]}


def decode(sx, case):
    k = case["kind"]
    if k == "compile":
        _, toks, comp = sx
        mt = [[t[0], SX.sx2s(t[1])] for t in toks]
        if mt and mt[-1][0] == "ILLEGAL":
            mt[-1] = ["ILLEGAL", "jp-syntax"]
        model = {"tokens": mt}
        unsupported = comp[0] == "err" and comp[1] in ("unsupported",)
        if comp[0] == "ok":
            model["compile"] = ["ok", Q.canon_ast(sx_query_to_ast(comp[1]))]
        else:
            model["compile"] = ["err", comp[1]]
        spec = {"compile": "ok-or-family", "tokens": "ok-or-family", "eval": "ok-or-family", "str": "ok"}
        if comp[0] == "ok" and re.search(r"[0-9]{4301}", case["text"]):
            # the model's integers are unbounded; CPython converts at most sys.get_int_max_str_digits() (4300) digits, so an
            # integer LITERAL that long is rejected by the implementation (a syntax error): outside the model
            unsupported = True
        return {"model": model, "spec": spec, "in_domain": True, "model_unsupported": unsupported or (comp[0] == "err" and comp[1] == "fuel")}
    if k == "ptr":
        d = C04.decode(sx, case)
        # (`#` followed by more digits than int() converts: a type error there, an index error in the unbounded model)
        return {"model": {"ptr": d["model"]}, "spec": {"ptr": "ok-or-family"}, "in_domain": True,
                "model_unsupported": d.get("skip", False) or bool(re.search(r"#[0-9]{4301}", case["text"]))}
    if k == "rel":
        d = C16.decode(sx, case)
        # (an origin / offset longer than the interpreter's int() limit is a syntax error there; the model's integers are unbounded)
        return {"model": {"rel": d["model"]}, "spec": {"rel": "ok-or-family"}, "in_domain": True,
                "model_unsupported": d.get("skip", False) or bool(re.search(r"[0-9]{4301}", case["rel"]))}
    if k == "patch":
        d = C05.decode(sx, case)
        return {"model": {"patch": d["model"]}, "spec": {"patch": "ok-or-family"}, "in_domain": True,
                "model_unsupported": d.get("skip", False) or bool(re.search(r"#[0-9]{4301}", json.dumps(case["ops"])))}
    return {"model": {}, "spec": {"badpatch": "ok-or-family"}, "in_domain": True, "model_unsupported": True}


def _family(names, prefixes):
    bad = [n for n in names if n == "did-not-terminate" or (n.startswith("builtin-") or n.startswith("str-failed")
                                                             or not any(n.startswith(p) for p in prefixes))]
    return "ok-or-family" if not bad else ["escaped", bad]


def _errs(x, acc):
    if isinstance(x, list):
        if len(x) >= 2 and x[0] in ("err", "build-err", "apply-err") and isinstance(x[1], str):
            acc.append(x[1])
        elif x == ["did-not-terminate"]:
            acc.append("did-not-terminate")
        else:
            for y in x:
                _errs(y, acc)
    elif isinstance(x, dict):
        for y in x.values():
            _errs(y, acc)
    return acc


def project(case, res, dec=None):
    k = case["kind"]
    if k == "compile":
        out = {"tokens": _family(_errs(res["tokens"], []) + [t[1] for t in res["tokens"] if isinstance(t, list) and t and t[0] == "ILLEGAL"], ["jp-"]),
               "compile": _family(_errs(res["compile"], []), ["jp-"]),
               "eval": _family(_errs([res.get("eval", []), res.get("eval_iter", []), res.get("eval_async", [])], []), ["jp-", "recursion-limit"]),
               "str": "ok" if res.get("str", ["ok"])[0] == "ok" else res.get("str")}
        return out
    if k == "ptr":
        return {"ptr": _family(_errs(res["ptr"], []), ["ptr-"])}
    if k == "rel":
        return {"rel": _family(_errs(res["rel"], []), ["ptr-", "rel-"])}
    if k == "patch":
        return {"patch": _family(_errs(res["patch"], []), ["patch"])}
    return {"badpatch": _family(_errs(res["badpatch"], []), ["patch"])}


def for_model(case, res):
    k = case["kind"]
    if k == "compile":
        return {"tokens": res["tokens"], "compile": res["compile"]}
    if k == "ptr":
        return {"ptr": res["ptr"]}
    if k == "rel":
        return {"rel": res["rel"]}
    if k == "patch":
        return {"patch": res["patch"]}
    return {}


def nontrivial(case, res):
    return True


def classify(case, res):
    tags = ["kind=" + case["kind"]]
    for e in set(_errs(res, [])):
        tags.append("error=" + e)
    if case["kind"] == "compile" and res["compile"][0] == "ok":
        tags.append("compiled")
    return tags
