"""C05 — JSON Patch application conforms to RFC 6902 for every document and patch."""
from jsonpath import JSONPatch, JSONPointer

from . import sx as SX
from .common import SMALL_DOCS, all_locs, exc_name, gen_container, rfc6901_spell, deep

ID = "C05"
PROP_FILE = "props/C05.v"
RULE = ("exhaustive single operations: every document of a small universe x {add, remove, replace, test, move, copy} x paths "
        "that are existing locations, their one-step extensions by {'-', len, len+1, '0', '1', '01', 'a', 'zz', ''}, and "
        "non-existent locations x values {1, true, [], {'k': true}, the value at the target, 1-for-true look-alikes}; "
        "move/copy over all (from, path) pairs of those paths for small documents; random sequences (histories) of 2..6 "
        "operations on random documents with integer-looking and nasty member names. Results compared as JSON values "
        "(member order ignored against the spec, kept against the model) with key types recorded. non-trivial = at least "
        "one operation with a non-root path; distinct = distinct (ops, document)")
TRUSTED = ["copy.deepcopy is the identity on JSON values (value semantics); in-place mutation is modelled as rebuilding the "
           "document at the parent's location"]
ASSUMPTIONS = ["documents are trees (no shared or cyclic containers)"]

VALUES = [1, True, [], {"k": True}, "s", None, [1, {"a": [True]}], 1.0, 0, False]
EXT_TOKENS = ["-", "0", "1", "01", "a", "zz", "", "2"]
DOCS = [d for d in SMALL_DOCS if isinstance(d, (list, dict))] + [
    {"1": {"2": [0]}, "0": [1, 2]}, [[], {}], {"a": [1, True, 1.0, [1], [True]], "b": {"t": True, "o": 1}},
    [1, [2, [3, [4]]]], {"x": {"y": {"z": 1}}, "y": 2},
]


def paths_for(doc):
    locs = [loc for loc, _ in all_locs(doc)]
    out = []
    for loc, node in all_locs(doc):
        out.append(loc)
        exts = list(EXT_TOKENS)
        if isinstance(node, list):
            exts += [str(len(node)), str(len(node) + 1)]
        for t in exts:
            if loc + [t] not in out:
                out.append(loc + [t])
    out.append(["nope", "deeper"])
    seen = []
    for p in out:
        if p not in seen:
            seen.append(p)
    return seen


def value_at(doc, loc):
    cur = doc
    for p in loc:
        try:
            if isinstance(cur, list):
                cur = cur[int(p)] if isinstance(p, str) else cur[p]
            else:
                cur = cur[p]
        except Exception:  # noqa: BLE001
            return None
    return cur


def gen(rng, tier):
    thorough = tier == "thorough"
    # paths that walk THROUGH (not end at) a missing member or element, of every token kind: index-looking names missing from an
    # object, indices beyond an array, names applied to arrays / scalars - for every operation kind, also after a removal
    wdoc = {"a": {"0": {"y": 1}, "k": [1]}, "b": [{"y": 2}], "s": "str", "n": None}
    for mid in ("/a/1", "/a/7", "/a/-1", "/a/01", "/a/zz", "/b/1", "/b/5", "/b/k", "/b/-", "/s/0", "/n/0", "/zz", "/a/k/3", "/a/0/y"):
        for tail in ("/y", "/y/z", "/0", "/-"):
            p_ = mid + tail
            for ops in ([["add", p_, 1]], [["remove", p_]], [["replace", p_, 1]], [["test", p_, 1]], [["move", p_, "/q"]], [["copy", p_, "/q"]],
                        [["move", "/s", p_]], [["copy", "/s", p_]], [["remove", "/a/0"], ["add", "/a/0" + tail, 1]], [["addne", p_, 1]], [["addap", p_, 1]]):
                yield {"mode": True, "ops": ops, "doc": wdoc}
    for di, doc in enumerate(DOCS):
        paths = paths_for(doc)
        if not thorough and len(paths) > 40:
            paths = paths[:12] + rng.sample(paths[12:], 28)
        for p in paths:
            text = rfc6901_spell(p)
            here = value_at(doc, p)
            for v in ([1, [], {"k": True}] if not thorough else VALUES[:6]):
                yield {"mode": True, "ops": [["add", text, v]], "doc": doc}
            yield {"mode": False, "ops": [["replace", text, [True]]], "doc": doc}
            yield {"mode": True, "ops": [["remove", text]], "doc": doc}
            yield {"mode": True, "ops": [["test", text, deep(here)]], "doc": doc}
            for v in (1, True, [1], [True], {"t": 1, "o": True}, 1.0):
                if thorough or rng.random() < 0.4:
                    yield {"mode": True, "ops": [["test", text, v]], "doc": doc}
        pairs = [(a, b) for a in paths for b in paths]
        k = len(pairs) if (thorough and len(pairs) <= 2500) else min(len(pairs), 60)
        for a, b in (pairs if k == len(pairs) else rng.sample(pairs, k)):
            yield {"mode": True, "ops": [[rng.choice(["move", "copy"]), rfc6901_spell(a), rfc6901_spell(b)]], "doc": doc}
    # move whose destination is only there once the source is gone (RFC 6902 4.4: remove at "from", then add at "path"):
    # the destination is drawn from the paths of the document after the removal
    shift_docs = [{"a": [5, 6, {}]}, [{"id": 0}, {"tags": {}}, {"meta": {}}], {"a": [5, {}], "b": 1}, [1, "s", [2], {"k": [3]}],
                  {"x": {"y": 1}, "z": [[1], 2, [3, [4]]]}] + [d for d in DOCS if isinstance(d, list) and len(d) >= 2][:6]
    for doc in shift_docs:
        for a, _ in all_locs(doc):
            if not a:
                continue
            d2 = deep(doc)
            par = value_at(d2, a[:-1])
            try:
                del par[a[-1]]
            except Exception:  # noqa: BLE001
                continue
            dests = [b for b in paths_for(d2) if b[:len(a)] != a]
            for b in (dests if thorough or len(dests) <= 25 else rng.sample(dests, 25)):
                yield {"mode": True, "ops": [["move", rfc6901_spell(a), rfc6901_spell(b)]], "doc": doc}
    for _ in range(600 if thorough else 60):
        doc = gen_container(rng, 3, 3, ["a", "b", "0", "1", "k"])
        arrs = [(loc, n) for loc, n in all_locs(doc) if isinstance(n, list) and len(n) >= 2]
        if not arrs:
            continue
        loc, n = rng.choice(arrs)
        i = rng.randrange(len(n) - 1)
        d2 = deep(doc)
        del value_at(d2, loc)[i]
        below = [b for b in paths_for(d2) if b[:len(loc)] == loc and len(b) > len(loc) + 1]
        if below:
            yield {"mode": True, "ops": [["add", "/k9", 1], ["move", rfc6901_spell(loc + [i]), rfc6901_spell(rng.choice(below))]], "doc": doc}
    # move / copy between locations whose pointer TEXTS are prefixes of one another without one being inside the other
    pdocs = [{"a": 1, "ab": {"y": 0}, "o": {"k": [1], "k2": []}, "1": "x", "12": {"1": 2}}, [list(range(3))] * 1 + list(range(11)),
             {"": {"": 1}, "x": {"": {}, "x": 1, "xx": {}}}]
    for doc in pdocs:
        locs = [rfc6901_spell(l) for l, _ in all_locs(doc) if l]
        extra = ["/ab/y", "/ab/z", "/o/k2/-", "/o/k2/0", "/12/1", "/12/x", "/10/0", "/1/0", "/x/xx/x", "/x//a", "//x"]
        for a in locs:
            for b in locs + extra:
                if b != a and b.startswith(a) and not b.startswith(a + "/"):
                    yield {"mode": True, "ops": [["move", a, b]], "doc": doc}
                    yield {"mode": True, "ops": [["copy", a, b], ["move", a, b]], "doc": doc}
    # `test` compares JSON values: a string is not the array of its characters, nor the reverse, at any depth
    tdocs = [{"x": ["a", "b"], "y": "ab", "e": [], "s": "", "n": [["a"], "a"], "o": {"k": ["x", "y"], "m": "xy"}, "one": ["a"], "c": "a"}]
    for doc in tdocs:
        pairs = [("/x", "ab"), ("/y", ["a", "b"]), ("/e", ""), ("/s", []), ("/one", "a"), ("/c", ["a"]), ("/n", ["a", "a"]), ("/n", [["a"], ["a"]]),
                 ("/o", {"k": "xy", "m": "xy"}), ("/o", {"k": ["x", "y"], "m": ["x", "y"]}), ("/n/0", "a"), ("/x", ["a", "b"]), ("/y", "ab"),
                 ("", dict(doc, x="ab")), ("/x/0", ["a"])]
        for path, v in pairs:
            yield {"mode": True, "ops": [["test", path, v]], "doc": doc}
            yield {"mode": True, "ops": [["test", path, v], ["remove", "/c"]], "doc": doc}
    # a container is added and later operations of the same patch work inside it
    for _ in range(1500 if thorough else 150):
        doc = gen_container(rng, 2, 3, ["a", "b", "0", "1"])
        base = rfc6901_spell(rng.choice([p for p in paths_for(doc) if len(p) <= 2]))
        inner = rng.choice([{"items": []}, [], {}, [[1]], {"k": {"m": [True]}}])
        ops = [[rng.choice(["add", "add", "replace"]), base, inner]]
        for _ in range(rng.randint(1, 3)):
            sub = rng.choice(["/items/-", "/-", "/k", "/0", "/items", "/k/m/0", "/0/-", "/z"])
            kind = rng.choice(["add", "add", "replace", "remove", "copy", "move", "test"])
            if kind in ("add", "replace"):
                ops.append([kind, base + sub, rng.choice(VALUES)])
            elif kind == "remove":
                ops.append([kind, base + sub])
            elif kind == "test":
                ops.append([kind, base, deep(inner)])
            else:
                ops.append([kind, base + sub, base + rng.choice(["/c2", "/-", "/items/0"])])
        yield {"mode": True, "ops": ops, "doc": doc}
    # histories
    names = ["a", "b", "0", "1", "2", "-", "01", "", "~", "/", "é", "10"]
    for _ in range(6000 if thorough else 500):
        doc = gen_container(rng, 3, 3, names)
        ops = []
        cur_paths = paths_for(doc)
        for _ in range(rng.randint(2, 6)):
            kind = rng.choice(["add", "add", "remove", "replace", "move", "copy", "test"])
            p = rfc6901_spell(rng.choice(cur_paths))
            if kind in ("add", "replace"):
                ops.append([kind, p, rng.choice(VALUES)])
            elif kind == "test":
                ops.append([kind, p, rng.choice(VALUES + [deep(value_at(doc, rng.choice(cur_paths)))])])
            elif kind == "remove":
                ops.append([kind, p])
            else:
                ops.append([kind, rfc6901_spell(rng.choice(cur_paths)), p])
        yield {"mode": rng.random() < 0.5, "ops": ops, "doc": doc}
    # non-standard add variants and extension tokens: model correspondence only
    for doc in DOCS[:12]:
        for p in paths_for(doc)[:10]:
            for kind in ("addne", "addap"):
                yield {"mode": True, "ops": [[kind, rfc6901_spell(p), 7]], "doc": doc}
    for text in ["/-1", "/#0", "/~a", "/#a", "/+1", "/1_0", "/ 1"]:
        for doc in ([1, 2, 3], {"a": 1, "~a": 2, "1": 3}):
            for op in (["add", text, 9], ["remove", text], ["replace", text, 9], ["test", text, 1], ["move", text, "/zz"]):
                yield {"mode": True, "ops": [op], "doc": doc}


def op_to_sx(o):
    k = o[0]
    if k in ("add", "addne", "addap", "replace", "test"):
        return [k, SX.s2sx(o[1]), SX.j2sx(o[2])]
    if k == "remove":
        return [k, SX.s2sx(o[1])]
    return [k, SX.s2sx(o[1]), SX.s2sx(o[2])]


def to_sx(case):
    return ["patch", case["mode"], [op_to_sx(o) for o in case["ops"]], SX.j2sx(case["doc"])]


def op_to_dict(o):
    k = o[0]
    if k in ("add", "addne", "addap", "replace", "test"):
        return {"op": k, "path": o[1], "value": deep(o[2])}
    if k == "remove":
        return {"op": k, "path": o[1]}
    return {"op": k, "from": o[1], "path": o[2]}


def dict_to_op(d):
    k = d["op"]
    if k in ("add", "addne", "addap", "replace", "test"):
        return [k, d["path"], SX.canon(d["value"])]
    if k == "remove":
        return [k, d["path"]]
    return [k, d["from"], d["path"]]


def canon_unordered(c):
    """canon() form with object members sorted (JSON value comparison)."""
    if isinstance(c, list) and c and c[0] == "o":
        return ["o"] + sorted(([k, canon_unordered(v)] for k, v in c[1:]), key=lambda kv: SX.dump(kv[0]) if False else repr(kv[0]))
    if isinstance(c, list) and c and c[0] == "a":
        return ["a"] + [canon_unordered(x) for x in c[1:]]
    return c


def impl(case):
    doc = deep(case["doc"])
    dicts = [op_to_dict(o) for o in case["ops"]]
    try:
        patch = JSONPatch(dicts, unicode_escape=case["mode"])
    except Exception as e:  # noqa: BLE001
        return {"build": ["err", exc_name(e)]}
    out = {"build": ["ok", [dict_to_op(d) for d in patch.asdicts()]]}
    try:
        patch.apply(deep(case["doc"]))       # the patch object is not new: it was applied to an equal document before
    except Exception:  # noqa: BLE001
        pass
    try:
        res = patch.apply(doc)
        out["apply"] = ["ok", SX.canon(res)]
    except Exception as e:  # noqa: BLE001
        out["apply"] = ["err", exc_name(e)]
    if parts_route_applicable(case):
        # the same operations through the builder methods, each pointer given as an OBJECT built from its reference
        # tokens (JSONPointer.from_parts keeps every token as a string): equal pointers must act equally
        try:
            b = JSONPatch(unicode_escape=case["mode"])
            for o in case["ops"]:
                ptrs = [JSONPointer.from_parts(_tokens(t), unicode_escape=case["mode"]) for t in o[1:] if isinstance(t, str)]
                if o[0] in ("add", "addne", "addap", "replace", "test"):
                    getattr(b, o[0])(JSONPointer.from_parts(_tokens(o[1]), unicode_escape=case["mode"]), deep(o[2]))
                elif o[0] == "remove":
                    b.remove(ptrs[0])
                else:
                    getattr(b, o[0])(ptrs[0], ptrs[1])
            via = ["ok", SX.canon(b.apply(deep(case["doc"])))]
        except Exception as e:  # noqa: BLE001
            via = ["err", exc_name(e)]
        out["parts_route_same"] = via == out["apply"]
        if not out["parts_route_same"]:
            out["parts_route_counterexample"] = {"text": out["apply"], "from_parts": via}
    return out


def _tokens(text):
    return [t.replace("~1", "/").replace("~0", "~") for t in text.split("/")[1:]]


def parts_route_applicable(case):
    """every path is RFC 6901 text whose index-like tokens lie within the index limits (beyond them the text form is
    refused at parse time - the recorded C04 finding - and the two routes legitimately differ)"""
    for o in case["ops"]:
        if o[0] not in ("add", "remove", "replace", "move", "copy", "test", "addne", "addap"):
            return False
        for t in (o[1:2] if o[0] in ("add", "addne", "addap", "replace", "test", "remove") else o[1:3]):
            if not isinstance(t, str) or (t and not t.startswith("/")) or "\\" in t:
                return False
            for tok in _tokens(t):
                body = tok[1:] if tok[:1] == "-" else tok
                if body.isdigit() and (len(body) > 15 or not body.isascii()):
                    return False
    return True


def _op_from_sx(x):
    k = x[0]
    if k in ("add", "addne", "addap", "replace", "test"):
        return [k, SX.sx2s(x[1]), SX.canon(SX.sx2j(x[2]))]
    if k == "remove":
        return [k, SX.sx2s(x[1])]
    return [k, SX.sx2s(x[1]), SX.sx2s(x[2])]


def decode(sx, case):
    _, m, s = sx[0], sx[1], sx[2]
    flags = {f[0]: f[1] == "true" for f in sx[3:]}
    unsupported = "unsupported" in SX.dump(m)
    if m[0] == "build-err":
        model = {"build": ["err", m[1]]}
    else:
        model = {"build": ["ok", [_op_from_sx(o) for o in m[1]]]}
        r = m[2]
        model["apply"] = ["ok", SX.canon(SX.sx2j(r[1]))] if r[0] == "ok" else ["err", r[1]]
    if s == "na":
        spec = {}
    elif s == "error":
        spec = {"apply": "error"}
    elif s == "test-failed":
        spec = {"apply": "test-failed"}
    else:
        spec = {"apply": ["ok", canon_unordered(SX.canon(SX.sx2j(s[1])))]}
    in_domain = (flags["std-ops"] and flags["outside-ext"] and flags["within-limits"] and flags["wf"]
                 and (not case["mode"] or flags["no-backslash"]) and not unsupported)
    if parts_route_applicable(case) and "apply" in model:
        model["parts_route_same"] = True          # PatchLemmas.add_len_string_as_int: a string token acts as the int
        if spec:
            spec = dict(spec, parts_route_same=True)
    return {"model": model, "spec": spec, "in_domain": in_domain, "skip": unsupported}


def project(case, res, dec=None):
    if res["build"][0] != "ok":
        return {"unexpected-build-error": res["build"]}
    a = res["apply"]
    extra = {"parts_route_same": res["parts_route_same"]} if "parts_route_same" in res else {}
    if a[0] == "ok":
        return dict(extra, apply=["ok", canon_unordered(a[1])])
    if a[1] == "patch-test":
        want = (dec or {}).get("spec", {}).get("apply")
        return dict(extra, apply="error" if want == "error" else "test-failed")
    if a[1] == "patch":
        return dict(extra, apply="error")
    return dict(extra, apply=a)


def nontrivial(case, res):
    return any(len(o[1]) > 0 for o in case["ops"])


def classify(case, res):
    tags = ["nops=%d" % len(case["ops"])] + ["op=" + o[0] for o in case["ops"]]
    if res["build"][0] == "ok":
        a = res["apply"]
        tags.append("apply=" + ("ok" if a[0] == "ok" else a[1]))
    else:
        tags.append("build=" + res["build"][1])
    return tags


def shrink(case, still_fails):
    cur = case
    changed = True
    while changed and len(cur["ops"]) > 1:
        changed = False
        for i in range(len(cur["ops"])):
            cand = dict(cur, ops=cur["ops"][:i] + cur["ops"][i + 1:])
            if cand["ops"] and still_fails(cand):
                cur = cand
                changed = True
                break
    return cur
