"""C03 — every match location (path, parts, pointer, parent) identifies exactly that node."""
import jsonpath
from jsonpath import JSONPointer

from . import sx as SX
from . import qgen as Q
from . import c13 as EXT
from .common import exc_name, gen_container, find_identity, sx_to_loc, deep
from .evalbase import decode_matches

ID = "C03"
PROP_FILE = "props/C03.v"
RULE = ("$-rooted queries without the keys selector (standard and extended filters, negative indices, negative-step "
        "slices, descendant segments) x documents whose member names are drawn from arbitrary Unicode text (empty, both "
        "quotes, backslashes incl. trailing, control characters, '/', '~', digits-only, signed look-alikes, non-BMP); for "
        "EVERY match: its path is checked against the RFC 9535 2.7 grammar and against the specification's normalized path "
        "of the node's location; the path is compiled and evaluated again (must return that one object, by identity); "
        "parts, JSONPointer.from_match, and that pointer's string parsed again must resolve to the same object; the parent "
        "chain must shorten the location one step at a time; paths must be equal iff locations are. "
        "non-trivial = at least one match below the root; distinct = distinct (query text, document)")
TRUSTED = []
ASSUMPTIONS = ["'that pointer's string form parsed again' uses unicode_escape=False when a name contains a backslash "
               "(the mode in which the parser reads plain RFC 6901), the default mode otherwise - the carve-out C04 states"]

NAMES = ["a", "b", "", "'", '"', "\\", "a\\", "\\\\", "a'b", 'a"b', "/", "~", "~1", "a/b", "0", "1", "01", "-1", "+1", " ", "\n",
         "\t", "\x01", "\x1f", "\x7f", "é", "中", "\U0001F600", "\ud83d", "and", "true", "$", "@", "*", "..", "[0]", "#", "_x",
         "x-y", "'\\'", "\\'", "1٢", "1０", "-1٢", "12", "10",
         # plain names with a blank / line-end / separator character at either END (what `$`, strip() and splitlines() treat specially)
         "a\n", "\na", "x.y\n", "total\n", "a\n\n", "a\r", "a\r\n", "ab\t", " a", "a ", "a\x0b", "a\x0c", "a\x1c", "a\x85", "a\u2028",
         "a\u00a0", "\ufeffa", "a\x00"]


def no_keys(x):
    return "keys" not in SX.dump(x) if not isinstance(x, str) else x != "keys"


def gen(rng, tier):
    # member names that look like the pointer's non-standard key tokens NEXT TO the member those tokens would name
    for doc in ({"a": 1, "~a": [2], "#a": {"v": 3}}, {"": 0, "~": [4], "#": [5]}, {"x": {"k": None, "~k": {"k": 1, "#k": [0]}, "#k": "s"}},
                [{"0": 1, "#0": [2], "~0": 3}, [7, 8]], {"b": {"~b": {"#b": {"b": 1}}}, "~b": 2}):
        for segs in (["desc", ["sel", "wild"]], [["sel", "wild"]], [["sel", "wild"], ["sel", "wild"]],
                     [["list", ["name", "~a"]]], [["list", ["name", "#a"], ["name", "a"]]], [["list", ["filter", ["op", "!=", ["self"], ["lit", None]]]]]):
            yield {"query": {"first": {"fake": False, "segs": segs}, "rest": []}, "doc": doc, "ctx": Q.CTX, "seed": 3, "std": True, "implicit_root": False}
    n = 5000 if tier == "thorough" else 500
    k = 0
    while k < n:
        doc = gen_container(rng, 4, 3, NAMES)
        r = rng.random()
        if r < 0.4:
            segs = Q.gen_segs_for_doc(rng, doc, 4)
        elif r < 0.7:
            segs = ["desc", ["sel", "wild"]] if rng.random() < 0.5 else [["sel", "wild"], "desc", ["list", "wild", ["slice", None, None, -1]]]
        else:
            segs = Q.gen_ext_segs_for_doc(rng, doc, 3)
        q = {"first": {"fake": False, "segs": segs}, "rest": []}
        if "keys" in str(q):
            continue
        k += 1
        yield {"query": q, "doc": doc, "ctx": Q.CTX, "seed": rng.randrange(1 << 30), "std": True, "implicit_root": False}


render = EXT.render
to_sx = EXT.to_sx


def check_match(m, doc):
    """Everything the property says about one match; returns a dict of observations."""
    obs = {"path": m.path, "parts": [p if isinstance(p, int) else ["k", p] for p in m.parts]}
    target = m.obj
    # parts lead to the object
    cur = doc
    try:
        for p in m.parts:
            cur = cur[p]
        obs["parts_resolve"] = cur is target or (not isinstance(target, (list, dict)) and SX.canon(cur) == SX.canon(target))
    except Exception as e:  # noqa: BLE001
        obs["parts_resolve"] = ["err", exc_name(e)]
    # the path, compiled and evaluated again
    try:
        again = jsonpath.compile(m.path).findall(doc)
        obs["path_roundtrip"] = (len(again) == 1 and (again[0] is target or (not isinstance(target, (list, dict))
                                                                              and SX.canon(again[0]) == SX.canon(target))))
        if not obs["path_roundtrip"]:
            obs["path_roundtrip_got"] = [SX.canon(x) for x in again][:3]
    except Exception as e:  # noqa: BLE001
        obs["path_roundtrip"] = ["err", exc_name(e)]
    # pointer from the match
    try:
        ptr = m.pointer()
        r = ptr.resolve(doc)
        obs["pointer_resolves"] = r is target or (not isinstance(target, (list, dict)) and SX.canon(r) == SX.canon(target))
        s = str(ptr)
        mode = "\\" not in s
        r2 = JSONPointer(s, unicode_escape=mode).resolve(doc)
        obs["pointer_text_resolves"] = r2 is target or (not isinstance(target, (list, dict)) and SX.canon(r2) == SX.canon(target))
        obs["pointer_text"] = s
    except Exception as e:  # noqa: BLE001
        obs["pointer_resolves"] = ["err", exc_name(e)]
    # parent: one step shorter
    if m.parts:
        par = m.parent
        obs["parent_ok"] = (par is not None and tuple(par.parts) == tuple(m.parts[:-1]))
        if par is not None:
            try:
                child = par.obj[m.parts[-1]]
                obs["parent_holds_child"] = child is target or (not isinstance(target, (list, dict)) and SX.canon(child) == SX.canon(target))
            except Exception as e:  # noqa: BLE001
                obs["parent_holds_child"] = ["err", exc_name(e)]
    else:
        obs["parent_ok"] = m.parent is None
    return obs


def impl(case):
    text = render(case)
    doc = deep(case["doc"])
    out = {"text": text}
    try:
        c = jsonpath.compile(text)
    except Exception as e:  # noqa: BLE001
        out["compile"] = ["err", exc_name(e)]
        return out
    try:
        ms = list(c.finditer(doc, filter_context=deep(case["ctx"])))
    except Exception as e:  # noqa: BLE001
        out["matches"] = ["err", exc_name(e)]
        return out
    out["matches"] = [check_match(m, doc) for m in ms]
    # two matches have equal paths iff they denote the same node
    by_path = {}
    inj = True
    for m in ms:
        key = tuple(("k", p) if isinstance(p, str) else ("i", p) for p in m.parts)
        if by_path.setdefault(m.path, key) != key:
            inj = False
    by_loc = {}
    for m in ms:
        key = tuple(("k", p) if isinstance(p, str) else ("i", p) for p in m.parts)
        if by_loc.setdefault(key, m.path) != m.path:
            inj = False
    out["paths_injective"] = inj
    return out


def decode(sx, case):
    if sx[0] == "unsupported":
        return {"model": {}, "spec": {}, "in_domain": False, "skip": True}
    _, fi, fa, spec, wf, afi, afa, std, ext = sx[:9]
    nps = [x for x in sx[9:] if x[0] == "normpaths"][0]
    model = {"text": render(case)}
    if fi[0] == "ok":
        model["matches"] = [{"path": m[1], "parts": m[0]} for m in decode_matches(fi[1])]
    else:
        model["matches"] = ["err", fi[1]]
    nodes = [[p if isinstance(p, int) else ["k", p] for p in sx_to_loc(n[0])] for n in spec[1]]
    paths = [SX.sx2s(x[0]) for x in nps[1]]
    valid = [x[1] == "true" for x in nps[1]]
    spec_ = {"matches": [{"path": p, "parts": l, "parts_resolve": True, "path_roundtrip": True, "pointer_resolves": True,
                          "pointer_text_resolves": True, "parent_ok": True, **({"parent_holds_child": True} if l else {})}
                         for p, l in zip(paths, nodes)],
             "paths_injective": True, "spec_paths_valid": all(valid)}
    return {"model": model, "spec": spec_, "in_domain": ext[1] == "true" and wf[1] == "true"}


def project(case, res, dec=None):
    if "compile" in res:
        return {"unexpected": res["compile"]}
    if isinstance(res.get("matches"), list) and res["matches"] and res["matches"][0] == "err":
        return {"unexpected": res["matches"]}
    ms = []
    for o in res["matches"]:
        o = dict(o)
        o.pop("pointer_text", None)
        ms.append(o)
    return {"matches": ms, "paths_injective": res["paths_injective"], "spec_paths_valid": True}


def for_model(case, res):
    if "matches" in res and isinstance(res["matches"], list) and not (res["matches"] and res["matches"][0] == "err"):
        return {"text": res["text"], "matches": [{"path": o["path"], "parts": o["parts"]} for o in res["matches"]]}
    return {k: v for k, v in res.items() if k != "paths_injective"}


def nontrivial(case, res):
    return isinstance(res.get("matches"), list) and any(isinstance(o, dict) and o.get("parts") for o in res["matches"])


def classify(case, res):
    tags = []
    if isinstance(res.get("matches"), list):
        n = len(res["matches"])
        tags.append("nmatches=" + ("0" if n == 0 else ("1" if n == 1 else "many")))
        for o in res["matches"][:50]:
            if isinstance(o, dict):
                for p in o["parts"]:
                    if isinstance(p, list):
                        k = p[1]
                        if "\\" in k:
                            tags.append("name:backslash")
                        if "'" in k or '"' in k:
                            tags.append("name:quote")
                        if any(ord(c) < 32 for c in k):
                            tags.append("name:control")
                        if any(ord(c) > 0xFFFF for c in k):
                            tags.append("name:non-bmp")
                        if k.isdigit():
                            tags.append("name:digits")
                        if k == "":
                            tags.append("name:empty")
    return sorted(set(tags))
