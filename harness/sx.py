"""S-expression wire format shared with ocaml/driver.ml, and JSON <-> sx encoding.

JSON values on the wire:
  null | true | false | (i <int>) | (f <num> <den>) | (s cp cp ...) | (a v ...) | (o ((s ..) v) ...)
Strings are lists of code points so that quotes, blanks, surrogates and non-BMP
characters need no escaping.
"""
from fractions import Fraction


def tokenize(s):
    out = []
    i, n = 0, len(s)
    while i < n:
        c = s[i]
        if c in "()":
            out.append(c)
            i += 1
        elif c in " \t\r\n":
            i += 1
        else:
            j = i
            while j < n and s[j] not in "() \t\r\n":
                j += 1
            out.append(s[i:j])
            i = j
    return out


def parse(s):
    toks = tokenize(s)
    pos = 0

    def rec():
        nonlocal pos
        t = toks[pos]
        pos += 1
        if t == "(":
            items = []
            while toks[pos] != ")":
                items.append(rec())
            pos += 1
            return items
        if t == ")":
            raise ValueError("unexpected )")
        return t

    return rec()


BIG = 10 ** 4000


def big_int(s):
    """int(s) without the interpreter's digit limit (which is left at its default: the implementation under test runs in
    this process and its behaviour at that limit is part of what is checked)"""
    s = s.strip()
    if len(s) <= 4000:
        return int(s)
    neg = s.startswith("-")
    ds = s.lstrip("+-")
    v = 0
    for i in range(0, len(ds), 4000):
        chunk = ds[i:i + 4000]
        v = v * 10 ** len(chunk) + int(chunk)
    return -v if neg else v


def big_str(n):
    """str(n) for an int of any size"""
    if -BIG < n < BIG:
        return str(n)
    neg, n = n < 0, abs(n)
    out = []
    base = BIG
    while n:
        n, r = divmod(n, base)
        out.append(str(r).rjust(4000, "0") if n else str(r))
    return ("-" if neg else "") + "".join(reversed(out))


def dump(x):
    if isinstance(x, (list, tuple)):
        return "(" + " ".join(dump(y) for y in x) + ")"
    if isinstance(x, bool):
        return "true" if x else "false"
    if isinstance(x, int):
        return big_str(x)
    return str(x)


# ---- strings ---------------------------------------------------------------
def s2sx(s):
    return ["s"] + [ord(c) for c in s]


def sx2s(x):
    assert x[0] == "s", x
    return "".join(chr(int(c)) for c in x[1:])


# ---- JSON values -------------------------------------------------------------
def j2sx(v):
    if v is None:
        return "null"
    if v is True:
        return "true"
    if v is False:
        return "false"
    if isinstance(v, int):
        return ["i", v]
    if isinstance(v, float):
        n, d = v.as_integer_ratio()
        return ["f", n, d]
    if isinstance(v, str):
        return s2sx(v)
    if isinstance(v, (list, tuple)):
        return ["a"] + [j2sx(x) for x in v]
    if isinstance(v, dict):
        return ["o"] + [[s2sx(k), j2sx(x)] for k, x in v.items()]
    raise TypeError(f"not JSON: {type(v)}")


def sx2j(x):
    """Decode to a canonical, comparable Python form (see canon())."""
    if x == "null":
        return None
    if x == "true":
        return True
    if x == "false":
        return False
    tag = x[0]
    if tag == "i":
        return big_int(x[1])
    if tag == "f":
        fr = Fraction(big_int(x[1]), big_int(x[2]))
        return float(fr)
    if tag == "s":
        return sx2s(x)
    if tag == "a":
        return [sx2j(y) for y in x[1:]]
    if tag == "o":
        return {sx2s(kv[0]): sx2j(kv[1]) for kv in x[1:]}
    raise ValueError(f"bad json sx: {x!r}")


def canon(v):
    """Canonical form of a Python JSON-like value that keeps what Python's == hides:
    the bool/int/float distinction, key types and member order."""
    if v is None:
        return ["null"]
    if v is True:
        return ["true"]
    if v is False:
        return ["false"]
    if isinstance(v, int):
        return ["i", v]
    if isinstance(v, float):
        n, d = v.as_integer_ratio()
        return ["f", n, d]
    if isinstance(v, str):
        return ["s", v]
    if isinstance(v, (list, tuple)):
        return ["a"] + [canon(x) for x in v]
    if isinstance(v, dict):
        return ["o"] + [[canon(k), canon(x)] for k, x in v.items()]
    return ["?", type(v).__name__, repr(v)]
