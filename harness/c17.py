"""C17 — renaming the environment's identifier tokens never changes what a query means."""
import random

import jsonpath

from . import sx as SX
from . import qgen as Q
from . import c10 as RT
from . import c06 as FUZZ
from .common import exc_name, gen_container, sx_to_loc, deep
from .evalbase import show_matches, decode_matches

ID = "C17"
PROP_FILE = "props/C17.v"
RULE = ("assignments of pairwise distinct spellings to the eight configurable identifiers (root, fake root, current node, "
        "current key, union, intersection, filter context, keys selector) drawn from a pool of 1-3 character spellings "
        "over the ASCII signs that belong to no fixed syntax ($ ^ @ # ~ % ; ` { } _ | &, not beginning with && or ||: "
        "spec/TokensOk.v; non-ASCII signs are name characters), prefix-related pairs included "
        "(e.g. $ and $$, @ and @#) x generated queries that use every identifier (extended, compound) x 2 documents: the "
        "query rendered with those spellings and compiled in that environment must select the specification's nodes for "
        "the query (i.e. what the default spelling selects in the default environment), and its str() must recompile in "
        "that environment to a query with the same results and the same str(). non-trivial = at least one identifier is "
        "re-spelled; distinct = distinct (assignment, query text, documents)")
TRUSTED = ["repr(float) as in C10"]
ASSUMPTIONS = ["a keys-selector spelling beginning with '_' (a name character) overlaps with the name syntax after a dot and is not generated",
               "'non-overlapping' is read as: pairwise distinct, none equal to or containing fixed syntax (&&, ||, brackets, "
               "quotes, operators, letters, digits, blanks); one spelling may be a prefix of another"]

SYMS = ["$", "^", "@", "#", "~", "%", ";", "`", "{", "}", "_", "|", "&"]
NAMES = ["a", "b", "c", "d", "0", "1", "k", "s"]
KEYS = ["root", "fake", "self", "key", "union", "inter", "fctx", "keys"]


def pool():
    out = list(SYMS)
    for a in SYMS:
        for b in SYMS:
            out.append(a + b)
    for a in SYMS[:5] + ["_", "|", "&"]:
        for b in SYMS[:4] + ["_", "|", "&"]:
            for c in SYMS[:3] + ["_", "|"]:
                out.append(a + b + c)
    # spec/TokensOk.v: not beginning with the fixed operators && and ||
    return [t for t in dict.fromkeys(out) if not t.startswith("&&") and not t.startswith("||")]


def gen_assignment(rng, P):
    while True:
        if rng.random() < 0.5:
            # prefix-related family
            base = rng.choice(SYMS)
            fam = [base, base + rng.choice(SYMS), base + base, base + rng.choice(SYMS) + rng.choice(SYMS)]
            fam = [t for t in fam if t in P]
            rest = rng.sample(P, 8)
            cand = list(dict.fromkeys(fam + rest))[:8]
        else:
            cand = rng.sample(P, 8)
        if len(set(cand)) == 8:
            rng.shuffle(cand)
            a = dict(zip(KEYS, cand))
            if a["keys"].startswith("_"):
                # `._x` is the member named _x (name syntax): a keys spelling that begins with a name character
                # overlaps with it in dot shorthand
                continue
            return a


def gen(rng, tier):
    P = pool()
    # each re-spelled identifier in EVERY syntactic position the grammar gives it - in particular as a function argument
    # (ValueType parameters of match / search / length / value, NodesType of count), a comparison operand, a test
    kdoc = {"ab": 1, "abc": 2, "x": [10, 20], "": 0, "k": {"ab": 1, "z": 2}}
    ctx = dict(Q.CTX, ab="ab", pat="a.")
    exprs = [["fn", "match", "key", ["lit", "ab."]], ["fn", "search", "key", ["lit", "^a"]], ["op", "==", ["fn", "length", "key"], ["lit", 2]],
             ["op", "==", ["fn", "value", ["self"]], "key"], ["fn", "match", "key", ["ctx", ["sel", ["name", "pat"]]]],
             ["op", ">", ["fn", "count", ["root", False, ["sel", "wild"]]], ["fn", "length", "key"]],
             ["op", "==", ["fn", "length", ["ctx", ["sel", ["name", "ab"]]]], ["fn", "length", "key"]],
             ["op", "in", "key", ["list", ["lit", "ab"], ["lit", 0]]], ["fn", "search", ["self", ["sel", ["name", "ab"]]], ["lit", "1"]],
             ["op", "&&", ["not", ["fn", "match", "key", ["lit", "x"]]], ["op", "!=", "key", ["lit", 0]]]]
    for j, e in enumerate(exprs):
        for pre in ([], ["desc"], [["list", ["name", "k"]]]):
            q = {"first": {"fake": False, "segs": pre + [["list", ["filter", e]]]}, "rest": []}
            for tok in (None, gen_assignment(rng, P), gen_assignment(rng, P), {"root": "$$", "fake": "^", "self": "@@", "key": "%", "union": "|", "inter": "&", "fctx": "__", "keys": "~~"},
                        {"root": "$", "fake": "^", "self": "@", "key": "##", "union": "|", "inter": "&", "fctx": "_", "keys": "~"}):
                yield {"query": q, "docs": [kdoc, [kdoc, "ab"]], "ctx": ctx, "env": tok, "seed": 100 + j}
    n = 6000 if tier == "thorough" else 600
    for i in range(n):
        docs = [gen_container(rng, 3, 3, NAMES) for _ in range(2)]
        q = Q.gen_ext_query(rng, docs[0])
        if rng.random() < 0.5:
            e = RT.gen_rich_logical(rng, 2)
            q["first"]["segs"] = q["first"]["segs"] + [["list", ["filter", e]]]
        tok = gen_assignment(rng, P) if i % 10 else None
        seed = rng.randrange(1 << 30)
        yield {"query": q, "docs": docs, "ctx": Q.CTX, "env": tok, "seed": seed}
        if i % 4 == 1:
            # another environment made of the SAME spellings with two roles swapped (a longer spelling changes owner):
            # nothing an environment builds may be shared through what the spellings look like
            base = dict(tok) if tok else {"root": "$", "fake": "^", "self": "@", "key": "#", "union": "|", "inter": "&", "fctx": "_", "keys": "~"}
            if not tok:
                base["root"] = "$$"
                yield {"query": q, "docs": docs, "ctx": Q.CTX, "env": dict(base), "seed": seed}
            ks = sorted(KEYS, key=lambda k: -len(base[k]))
            a, b = ks[0], rng.choice(ks[1:])
            swapped = dict(base)
            swapped[a], swapped[b] = base[b], base[a]
            if not swapped["keys"].startswith("_"):
                yield {"query": q, "docs": docs, "ctx": Q.CTX, "env": swapped, "seed": seed}


def text_of(case):
    sp = Q.Speller(random.Random(case["seed"]), blanks=0.1, std=False, tok=case["env"])
    return Q.render_query(case["query"], sp)


def to_sx(case):
    return ["roundtrip", RT.env_sx(case["env"]), SX.s2sx(text_of(case)), SX.j2sx(case["ctx"]), [SX.j2sx(d) for d in case["docs"]],
            Q.query_sx(case["query"])]


def impl(case):
    c = dict(case, text=text_of(case))
    out = RT.impl(c)
    out["text"] = c["text"]
    return out


def decode(sx, case):
    if sx[0] == "unsupported":
        return {"model": {}, "spec": {}, "in_domain": False, "skip": True}
    _, base, nodes, ext = sx
    d = RT.decode(base, dict(case, text=text_of(case)))
    if d.get("skip") or d.get("spec_if_accepted"):
        return {"model": {}, "spec": {}, "in_domain": False, "skip": True}
    d["model"]["text"] = text_of(case)
    keys = (case["env"] or {}).get("keys", "~")

    def node(n):
        return [[p if isinstance(p, int) else ["k", p] for p in sx_to_loc(n[0])], SX.canon(SX.sx2j(n[1]))]
    spec_nodes = [[node(n) for n in doc_nodes] for doc_nodes in nodes]
    d["spec"] = {"recompiles": True, "fixed_point": True, "same_results": True, "same_regexes": True, "nodes": spec_nodes}
    d["in_domain"] = ext == "true"
    return d


def for_model(case, res):
    return RT.for_model(case, res)


def project(case, res, dec=None):
    p = RT.project(case, res, dec)
    if "eval1" in res:
        p["nodes"] = [[[m[0], m[2]] for m in r[1]] if r[0] == "ok" else r for r in res["eval1"]]
    return p


def nontrivial(case, res):
    return case["env"] is not None


def classify(case, res):
    tags = []
    if case["env"]:
        vals = list(case["env"].values())
        if any(a != b and b.startswith(a) for a in vals for b in vals):
            tags.append("prefix-related")
        tags.append("maxlen=%d" % max(len(v) for v in vals))
    else:
        tags.append("default-tokens")
    tags.append("accepted" if res.get("compile", ["err"])[0] == "ok" else "rejected=" + str(res["compile"][1]))
    return tags
