"""C08 — the async API returns exactly what the sync API returns."""
import asyncio
import collections.abc

import jsonpath

from . import sx as SX
from . import qgen as Q
from . import c13 as EXT
from .common import exc_name, gen_container, deep
from .evalbase import show_matches, decode_matches, attempt

ID = "C08"
PROP_FILE = "props/C08.v"
RULE = ("queries of the C01/C02/C13 generators (standard and extended, simple and compound; strings and scalars reached "
        "by wildcard, slice, descendant and filter selectors) x random documents: findall / finditer / findall_async / "
        "finditer_async at compiled and package level; the same on documents wrapped in custom Mapping/Sequence classes "
        "with an async item getter; 2..6 evaluations awaited concurrently with asyncio.gather on one loop; ONE compiled "
        "query evaluated on three different (document, filter context) pairs whose async getters suspend, awaited together "
        "and as finditer_async iterators advanced in turn, each compared with the sync result for that pair. "
        "non-trivial = at least one segment; distinct = distinct (query text, document)")
TRUSTED = ["the asyncio event loop and scheduler are not modelled (partial on schedules): the model shows evaluation is a "
           "function of its arguments; the gathered runs test that no state is shared"]
ASSUMPTIONS = ["custom containers' async getter returns the same items as the sync getter"]

NAMES = EXT.NAMES + ["str", "é"]


class AMap(collections.abc.Mapping):
    def __init__(self, d):
        self._d = d

    def __getitem__(self, k):
        return wrap(self._d[k])

    async def __getitem_async__(self, k):
        await asyncio.sleep(0)
        return wrap(self._d[k])

    def __iter__(self):
        return iter(self._d)

    def __len__(self):
        return len(self._d)


class ASeq(collections.abc.Sequence):
    def __init__(self, lst):
        self._l = lst

    def __getitem__(self, i):
        if isinstance(i, slice):
            return [wrap(x) for x in self._l[i]]
        return wrap(self._l[i])

    async def __getitem_async__(self, i):
        await asyncio.sleep(0)
        return self.__getitem__(i)

    def __len__(self):
        return len(self._l)

    def __eq__(self, other):
        return unwrap(self) == unwrap(other)

    __hash__ = None


def wrap(v):
    if isinstance(v, dict):
        return AMap(v)
    if isinstance(v, list):
        return ASeq(v)
    return v


def unwrap(v):
    if isinstance(v, AMap):
        return {k: unwrap(v._d[k]) for k in v._d}
    if isinstance(v, ASeq):
        return [unwrap(x) for x in v._l]
    if isinstance(v, dict):
        return {k: unwrap(x) for k, x in v.items()}
    if isinstance(v, list):
        return [unwrap(x) for x in v]
    return v


def gen(rng, tier):
    n = 6000 if tier == "thorough" else 700
    for i in range(n):
        doc = gen_container(rng, 4, 3, NAMES)
        # make sure strings are reachable by wildcard / slice / descendant selectors
        if isinstance(doc, dict) and rng.random() < 0.5:
            doc = dict(doc, str="xyz")
        elif isinstance(doc, list) and rng.random() < 0.5:
            doc = doc + ["xyz"]
        q = Q.gen_ext_query(rng, doc)
        if rng.random() < 0.3:
            from . import c09 as PURE
            q = {"first": {"fake": False, "segs": [["list", ["filter", PURE.gen_cacheable_logical(rng, rng.randint(1, 2))]]]}, "rest": []}
        other = gen_container(rng, 3, 3, NAMES)
        yield {"query": q, "doc": doc, "other": other, "ctx": Q.CTX, "seed": rng.randrange(1 << 30), "std": rng.random() < 0.5,
               "implicit_root": False, "gather": rng.choice([0, 0, 2, 3, 6]), "custom": rng.random() < 0.3}
    for v in ["xyz", 5, None, True, 1.5]:
        for segs in ([["sel", "wild"]], [["list", ["slice", None, None, None]]], ["desc", ["sel", "wild"]],
                     [["list", ["filter", ["self"]]]], [["list", ["idx", 0]]], ["desc", ["list", ["slice", 0, 2, 1]]]):
            q = {"first": {"fake": False, "segs": [["sel", ["name", "a"]]] + segs}, "rest": []}
            yield {"query": q, "doc": {"a": v, "b": [v, [v]]}, "ctx": {}, "seed": 1, "std": True, "implicit_root": False,
                   "gather": 2, "custom": True}


render = EXT.render
to_sx = EXT.to_sx


async def _run_async(c, doc, ctx, gather):
    out = {}
    try:
        out["async_values"] = [SX.canon(unwrap(v)) for v in await c.findall_async(doc, filter_context=ctx)]
    except Exception as e:  # noqa: BLE001
        out["async_values"] = ["err", exc_name(e)]
    try:
        it = await c.finditer_async(doc, filter_context=ctx)
        ms = [m async for m in it]
        out["async_matches"] = [[[p if isinstance(p, int) else ["k", p] for p in m.parts], m.path, SX.canon(unwrap(m.obj))] for m in ms]
    except Exception as e:  # noqa: BLE001
        out["async_matches"] = ["err", exc_name(e)]
    if gather:
        async def one():
            try:
                return [SX.canon(unwrap(v)) for v in await c.findall_async(deep(unwrap(doc)), filter_context=deep(ctx))]
            except Exception as e:  # noqa: BLE001
                return ["err", exc_name(e)]
        rs = await asyncio.gather(*[one() for _ in range(gather)])
        out["gathered_all_equal"] = all(r == rs[0] for r in rs)
        out["gathered_first"] = rs[0]
    return out


async def _run_concurrent(c, docs, ctxs):
    """evaluations of ONE compiled query on DIFFERENT documents / contexts overlapping on one loop (the containers'
    async getters really suspend): awaited together, and as result iterators advanced in turn"""
    async def one(d, cx):
        try:
            return [SX.canon(unwrap(v)) for v in await c.findall_async(wrap(deep(d)), filter_context=deep(cx))]
        except Exception as e:  # noqa: BLE001
            return ["err", exc_name(e)]
    gathered = await asyncio.gather(*[one(d, cx) for d, cx in zip(docs, ctxs)])
    turns = []
    try:
        its = [await c.finditer_async(wrap(deep(d)), filter_context=deep(cx)) for d, cx in zip(docs, ctxs)]
        got = [[] for _ in its]
        live = list(range(len(its)))
        while live:
            for i in list(live):
                try:
                    m = await its[i].__anext__()
                    got[i].append([[p if isinstance(p, int) else ["k", p] for p in m.parts], m.path, SX.canon(unwrap(m.obj))])
                except StopAsyncIteration:
                    live.remove(i)
                except Exception as e:  # noqa: BLE001
                    got[i] = ["err", exc_name(e)]
                    live.remove(i)
        turns = got
    except Exception as e:  # noqa: BLE001
        turns = ["err", exc_name(e)]
    return list(gathered), turns


def impl(case):
    text = render(case)
    doc = deep(case["doc"])
    ctx = deep(case["ctx"])
    out = {"text": text}
    try:
        c = jsonpath.compile(text)
    except Exception as e:  # noqa: BLE001
        out["compile"] = ["err", exc_name(e)]
        return out
    out["matches"] = attempt(lambda: show_matches(list(c.finditer(doc, filter_context=ctx))))
    out["values"] = attempt(lambda: [SX.canon(v) for v in c.findall(doc, filter_context=ctx)])
    adoc = wrap(doc) if case["custom"] else doc
    out.update(asyncio.run(_run_async(c, adoc, ctx, case["gather"])))
    if "other" in case:
        docs = [case["doc"], case["other"], case["doc"]]
        ctx2 = dict(deep(case["ctx"]), k=2, s="zz", names=["c"]) if case["ctx"] else {}
        ctxs = [case["ctx"], case["ctx"], ctx2]
        want_v = [attempt(lambda d=d, cx=cx: [SX.canon(v) for v in c.findall(deep(d), filter_context=deep(cx))]) for d, cx in zip(docs, ctxs)]
        want_m = [attempt(lambda d=d, cx=cx: show_matches(list(c.finditer(deep(d), filter_context=deep(cx))))) for d, cx in zip(docs, ctxs)]
        gathered, turns = asyncio.run(_run_concurrent(c, docs, ctxs))
        out["concurrent_ok"] = gathered == want_v and turns == want_m
        if not out["concurrent_ok"]:
            out["concurrent_counterexample"] = {"gathered": gathered, "want_values": want_v, "in_turns": turns, "want_matches": want_m}
    import io
    import json as _json
    jtxt = _json.dumps(case["doc"])

    def _file_forms():
        r = {}
        for name, mk in (("stringio", lambda: io.StringIO(jtxt)), ("bytesio", lambda: io.BytesIO(jtxt.encode("utf-8"))), ("text", lambda: jtxt)):
            if not isinstance(case["doc"], (dict, list)):
                continue
            sv = attempt(lambda: [SX.canon(v) for v in c.findall(mk(), filter_context=deep(ctx))])
            av = attempt(lambda: [SX.canon(v) for v in asyncio.run(c.findall_async(mk(), filter_context=deep(ctx)))])

            async def _it():
                it = await c.finditer_async(mk(), filter_context=deep(ctx))
                return [SX.canon(m.obj) async for m in it]
            ai = attempt(lambda: asyncio.run(_it()))
            r[name] = sv == av == ai == out["values"]
            if not r[name]:
                r[name + "_detail"] = {"sync": sv, "async": av, "async_iter": ai}
        return r
    ff = _file_forms()
    out["file_forms_ok"] = all(v for k, v in ff.items() if not k.endswith("_detail"))
    if not out["file_forms_ok"]:
        out["file_forms_counterexample"] = ff
    out["pkg_async_values"] = attempt(lambda: [SX.canon(v) for v in asyncio.run(jsonpath.findall_async(text, deep(case["doc"]), filter_context=ctx))])
    if isinstance(case["doc"], (dict, list)):
        from .evalbase import custom_functions_agree
        out["custom_functions"] = custom_functions_agree(case["doc"], case["ctx"])
    return out


def decode(sx, case):
    if sx[0] == "unsupported":
        return {"model": {}, "spec": {}, "in_domain": False, "skip": True}
    _, fi, fa, spec, wf, afi, afa, std, ext = sx[:9]
    model = {"text": render(case)}
    sync_m = decode_matches(fi[1]) if fi[0] == "ok" else ["err", fi[1]]
    sync_v = [SX.canon(SX.sx2j(v)) for v in fa[1]] if fa[0] == "ok" else ["err", fa[1]]
    model["matches"] = sync_m
    model["values"] = sync_v
    model["async_values"] = [SX.canon(SX.sx2j(v)) for v in afa[1]] if afa[0] == "ok" else ["err", afa[1]]
    model["async_matches"] = decode_matches(afi[1]) if afi[0] == "ok" else ["err", afi[1]]
    if case["gather"]:
        model["gathered_all_equal"] = True
        model["gathered_first"] = model["async_values"]
    model["pkg_async_values"] = model["async_values"]
    model["file_forms_ok"] = True
    if isinstance(case["doc"], (dict, list)):
        model["custom_functions"] = "same"
    if "other" in case:
        model["concurrent_ok"] = True
    # the property is an equivalence: the specification of the async results is the sync result
    spec_ = {"async_values": sync_v, "async_matches": sync_m, "pkg_async_values": sync_v, "file_forms_ok": True}
    if case["gather"]:
        spec_["gathered_all_equal"] = True
        spec_["gathered_first"] = sync_v
    if "other" in case:
        spec_["concurrent_ok"] = True
    if isinstance(case["doc"], (dict, list)):
        spec_["custom_functions"] = "same"
    return {"model": model, "spec": spec_, "in_domain": wf[1] == "true"}


def project(case, res, dec=None):
    if "compile" in res:
        return {"unexpected": res["compile"]}
    # compare the implementation's async results with ITS OWN sync results (the property), and
    # through the spec with the model's sync results
    out = {k: res[k] for k in ("async_values", "async_matches", "pkg_async_values", "file_forms_ok") if k in res}
    if case["gather"]:
        out["gathered_all_equal"] = res.get("gathered_all_equal")
        out["gathered_first"] = res.get("gathered_first")
    if "other" in case:
        out["concurrent_ok"] = res.get("concurrent_ok")
    if "custom_functions" in res:
        out["custom_functions"] = res["custom_functions"]
    if res.get("async_values") != res.get("values") or res.get("async_matches") != res.get("matches"):
        out["sync_async_differ_in_impl"] = {"values": res.get("values"), "matches": res.get("matches")}
    return out


def nontrivial(case, res):
    return len(case["query"]["first"]["segs"]) > 0


def classify(case, res):
    tags = ["custom-containers" if case["custom"] else "plain", "gather=%d" % case["gather"]]
    if case["query"]["rest"]:
        tags.append("compound")
    if "values" in res and isinstance(res["values"], list) and not (res["values"] and res["values"][0] == "err"):
        tags.append("n=" + ("0" if not res["values"] else "some"))
    elif "compile" in res:
        tags.append("compile-error=" + res["compile"][1])
    return tags
