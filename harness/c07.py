"""C07 — compile-time gate: valid RFC queries accepted, ill-typed or out-of-range refused."""
import random

import jsonpath

from . import sx as SX
from . import qgen as Q
from . import c06 as FUZZ
from .common import exc_name

ID = "C07"
PROP_FILE = "props/C07.v"
RULE = ("(a) expression trees to depth 3 over the five standard functions, generated well-typed and rendered in random "
        "spellings: must compile (classified by the independent RFC typing checker std_query); (b) the same trees with ONE "
        "offending construct planted at a random position (under !, inside && / ||, inside parentheses, as a function "
        "argument, in a nested filter): non-singular query or Logical-typed function as comparison operand, Value-typed "
        "function or literal as a test, wrong arity, wrong argument kind, unknown function: must be refused (classified by "
        "the gate predicate gate_query = false); (c) index and slice bounds at, just inside and just outside the limits "
        "under default and narrowed limits, leading-zero indices, empty and comma-terminated lists. Compile results and "
        "error kinds are also compared with the parser model; two unrelated environments of the same process have the 'unknown' function names registered beforehand. non-trivial = the query has a filter or a bound; distinct = "
        "distinct (limits, query text)")
TRUSTED = []
ASSUMPTIONS = ["type checks enabled (well_typed=True)"]

NAMES = ["a", "b", "c"]


def singular_seg(rng):
    s = ["name", rng.choice(NAMES)] if rng.random() < 0.6 else ["idx", rng.choice([0, 1, -1])]
    return ["sel", s] if s[0] == "name" and rng.random() < 0.5 else ["list", s]


def nonsingular_seg(rng):
    """every way a segment can select more than one node"""
    def atom():
        return ["name", rng.choice(NAMES)] if rng.random() < 0.5 else ["idx", rng.choice([0, 1, -1])]
    k = rng.choice(["wild", "bracket-wild", "desc", "slice", "filter", "two", "three", "mixed-wild"])
    if k == "wild":
        return [["sel", "wild"]]
    if k == "bracket-wild":
        return [["list", "wild"]]
    if k == "desc":
        return ["desc", singular_seg(rng)]
    if k == "slice":
        return [["list", ["slice", rng.choice([None, 0, 1]), rng.choice([None, 1, 2]), rng.choice([None, 1])]]]
    if k == "filter":
        return [["list", ["filter", ["self", ["sel", ["name", "a"]]]]]]
    if k == "two":
        return [["list", atom(), atom()]]
    if k == "three":
        return [["list", atom(), atom(), atom()]]
    return [["list", atom(), "wild"]]


def nonsingular_query(rng):
    head = ["self"] if rng.random() < 0.7 else ["root", False]
    segs = [singular_seg(rng) for _ in range(rng.choice([0, 0, 1, 2]))] + nonsingular_seg(rng) + \
           [singular_seg(rng) for _ in range(rng.choice([0, 0, 1]))]
    return head + segs


def offending(rng):
    """an ill-typed logical expression (one offence), by construction"""
    q = ["self", ["sel", ["name", "a"]]]
    nonsing = ["self", ["sel", "wild"]] if rng.random() < 0.3 else nonsingular_query(rng)
    kind = rng.choice(["nonsingular-cmp", "logical-fn-cmp", "value-fn-test", "literal-test", "arity", "argkind", "unknown-fn"])
    if kind == "nonsingular-cmp":
        return kind, ["op", rng.choice(Q.CMP_OPS), nonsing, ["lit", 1]] if rng.random() < 0.5 else ["op", "==", ["lit", 1], ["root", False, "desc", ["sel", ["name", "a"]]]]
    if kind == "logical-fn-cmp":
        return kind, ["op", "==", ["fn", "match", q, ["lit", "a"]], ["lit", True]]
    if kind == "value-fn-test":
        return kind, rng.choice([["fn", "length", q], ["fn", "count", nonsing], ["fn", "value", nonsing]])
    if kind == "literal-test":
        return kind, ["lit", rng.choice([True, 1, "x", None])]
    if kind == "arity":
        return kind, rng.choice([["op", "==", ["fn", "length", q, q], ["lit", 1]], ["fn", "match", q], ["op", ">", ["fn", "count"], ["lit", 0]]])
    if kind == "argkind" and rng.random() < 0.4:
        # every argument is checked, also the ones after a nested function call
        nested = rng.choice([["fn", "value", ["self", "desc", ["sel", ["name", "a"]]]], ["fn", "length", q], ["fn", "count", ["self", ["sel", "wild"]]]])
        bad2 = rng.choice([nonsing, ["fn", "match", q, ["lit", "a"]], ["op", "==", q, ["lit", 1]], ["self", ["list", ["idx", 0], ["idx", 1]]]])
        return kind, ["fn", rng.choice(["match", "search"]), nested, bad2]
    if kind == "argkind":
        return kind, rng.choice([["op", "==", ["fn", "length", nonsing], ["lit", 1]], ["op", "==", ["fn", "count", ["lit", 1]], ["lit", 1]],
                                 ["fn", "match", nonsing, ["lit", "a"]], ["op", "==", ["fn", "value", ["lit", "x"]], ["lit", 1]]])
    return kind, rng.choice([["fn", "foo", q], ["op", "==", ["fn", "len", q], ["lit", 1]]])


def plant(rng, e, bad):
    """replace one test-position sub-expression of e by bad"""
    if not isinstance(e, list) or rng.random() < 0.3:
        return bad
    if e[0] == "not":
        return ["not", plant(rng, e[1], bad)]
    if e[0] == "op" and e[1] in ("&&", "||"):
        if rng.random() < 0.5:
            return ["op", e[1], plant(rng, e[2], bad), e[3]]
        return ["op", e[1], e[2], plant(rng, e[3], bad)]
    return bad


def gen(rng, tier):
    n = 8000 if tier == "thorough" else 900
    for i in range(n):
        e = Q.gen_logical(rng, rng.randint(0, 3))
        planted = None
        if i % 2:
            planted, bad = offending(rng)
            if rng.random() < 0.2:
                bad = ["op", "&&", ["self"], bad] if planted in ("value-fn-test", "literal-test") else bad
            e = plant(rng, e, bad)
            if rng.random() < 0.15:      # inside a nested filter
                e = ["self", ["list", ["filter", e]]]
        segs = [["list", ["filter", e]]]
        if rng.random() < 0.3:
            segs = [["sel", ["name", "a"]]] + segs
        q = {"first": {"fake": False, "segs": segs}, "rest": []}
        yield {"query": q, "lo": None, "hi": None, "seed": rng.randrange(1 << 30), "planted": planted, "raw": None}
    # integer bounds
    D = 2 ** 53 - 1
    for lo, hi in ((None, None), (-10, 10), (0, 0), (-1, 5)):
        L, H = (lo if lo is not None else -D), (hi if hi is not None else D)
        for v in sorted({L - 1, L, L + 1, -1, 0, 1, H - 1, H, H + 1}):
            for segs in ([["list", ["idx", v]]], [["list", ["slice", v, None, None]]], [["list", ["slice", None, v, None]]],
                         [["list", ["slice", None, None, v]]], [["list", ["name", "a"], ["idx", v]]],
                         [["list", ["filter", ["self", ["list", ["idx", v]]]]]]):
                yield {"query": {"first": {"fake": False, "segs": segs}, "rest": []}, "lo": lo, "hi": hi, "seed": 1, "planted": None, "raw": None}
    # list shape and leading zeros: raw texts (no AST)
    for raw in ["$[]", "$[ ]", "$[1,]", "$['a',]", "$[,1]", "$[01]", "$[-01]", "$[00]", "$[-0]", "$[0]", "$[1,2]", "$[?@.a,]", "$[?@.a][]",
                "$..[]", "$[?@[]]", "$[?@[01]]", "$[?@.a == 1,]"]:
        yield {"query": None, "lo": None, "hi": None, "seed": 1, "planted": "shape", "raw": raw}


def text_of(case):
    if case["raw"] is not None:
        return case["raw"]
    sp = Q.Speller(random.Random(case["seed"]), blanks=0.1, std=True)
    return Q.render_query(case["query"], sp)


D = 2 ** 53 - 1


def to_sx(case):
    q = case["query"] or {"first": {"fake": False, "segs": []}, "rest": []}
    return ["gate", "default", case["lo"] if case["lo"] is not None else -D, case["hi"] if case["hi"] is not None else D,
            SX.s2sx(text_of(case)), Q.query_sx(q)]


_OTHER = []


def _other_environment():
    """history: an UNRELATED environment of the same process registers functions under the very names the planted
    'unknown function' cases use - a function known to one environment stays unknown to every other"""
    if _OTHER:
        return
    from jsonpath.function_extensions import ExpressionType, FilterFunction

    class _Fn(FilterFunction):
        arg_types = [ExpressionType.VALUE]
        return_type = ExpressionType.VALUE

        def __call__(self, obj):
            return obj

    class _Sub(jsonpath.JSONPathEnvironment):
        pass
    for env in (jsonpath.JSONPathEnvironment(), _Sub()):
        env.function_extensions["foo"] = _Fn()
        env.function_extensions["len"] = _Fn()
        env.compile("$[?foo(@.a) == 1]")
        _OTHER.append(env)


def _rebound_env(attrs):
    """the documented way to narrow an environment to the RFC's functions: a subclass whose setup_function_extensions()
    ASSIGNS a registry of its own (same five standard functions, fresh instances, under the standard names)"""
    from jsonpath import function_extensions as FE

    def setup(self):
        self.function_extensions = {"length": FE.Length(), "count": FE.Count(), "match": FE.Match(), "search": FE.Search(), "value": FE.Value()}
    return type("RfcOnly", (jsonpath.JSONPathEnvironment,), dict(attrs, setup_function_extensions=setup))()


def _uses_only_std_functions(text):
    import re as _re
    return all(n in ("length", "count", "match", "search", "value") for n in _re.findall(r"([a-z][a-z_0-9]*)\(", text))


def impl(case):
    _other_environment()
    out = _impl(case)
    if _uses_only_std_functions(out["text"]):
        # the acceptance gate is the same in an environment that rebinds its registry / replaces it after construction
        a = {}
        if case["lo"] is not None:
            a["min_int_index"] = case["lo"]
        if case["hi"] is not None:
            a["max_int_index"] = case["hi"]
        outs = []
        for mk in (lambda: _rebound_env(a), lambda: _replaced_after(a)):
            try:
                c = mk().compile(out["text"])
                outs.append(["ok", Q.canon_ast(Q.dump_query(c))])
            except Exception as e:  # noqa: BLE001
                outs.append(["err", exc_name(e)])
        # ONE environment instance that accepted the text under a laxer configuration (type checks off, default limits) and
        # is then reconfigured: the gate is applied again, to what the configuration is now
        def reconfigured():
            env = jsonpath.JSONPathEnvironment(well_typed=False)
            try:
                env.compile(out["text"])
            except Exception:  # noqa: BLE001
                pass
            env.well_typed = True
            if case["lo"] is not None:
                env.min_int_index = case["lo"]
            if case["hi"] is not None:
                env.max_int_index = case["hi"]
            return env
        try:
            c = reconfigured().compile(out["text"])
            outs.append(["ok", Q.canon_ast(Q.dump_query(c))])
        except Exception as e:  # noqa: BLE001
            outs.append(["err", exc_name(e)])
        out["rebound_env_same"] = all(o == out["compile"] for o in outs)
        if not out["rebound_env_same"]:
            out["rebound_env_counterexample"] = outs
    return out


def _replaced_after(attrs):
    from jsonpath import function_extensions as FE
    env = (type("E2", (jsonpath.JSONPathEnvironment,), attrs) if attrs else jsonpath.JSONPathEnvironment)()
    env.function_extensions = {"length": FE.Length(), "count": FE.Count(), "match": FE.Match(), "search": FE.Search(), "value": FE.Value(),
                               "size": FE.Length(), "like": FE.Match()}
    return env


def _impl(case):
    attrs = {}
    if case["lo"] is not None:
        attrs["min_int_index"] = case["lo"]
    if case["hi"] is not None:
        attrs["max_int_index"] = case["hi"]
    env = (type("E", (jsonpath.JSONPathEnvironment,), attrs) if attrs else jsonpath.JSONPathEnvironment)()
    text = text_of(case)
    try:
        c = env.compile(text)
        return {"text": text, "compile": ["ok", Q.canon_ast(Q.dump_query(c))]}
    except Exception as e:  # noqa: BLE001
        return {"text": text, "compile": ["err", exc_name(e)]}


def decode(sx, case):
    d = _decode(sx, case)
    if _uses_only_std_functions(text_of(case)):
        d["model"]["rebound_env_same"] = True
        if d["spec"]:
            d["spec"] = dict(d["spec"], rebound_env_same=True)
    return d


def _decode(sx, case):
    _, comp, std, gate = sx
    model = {"text": text_of(case)}
    if comp[0] == "ok":
        model["compile"] = ["ok", Q.canon_ast(FUZZ.sx_query_to_ast(comp[1]))]
    else:
        model["compile"] = ["err", comp[1]]
    unsupported = comp[0] == "err" and comp[1] in ("unsupported", "fuel")
    if case["raw"] is not None:
        ok_raws = {"$[0]", "$[1,2]", "$[-0]"}
        spec = {"accepted": case["raw"] in ok_raws} if case["raw"] != "$[-0]" else {"accepted": False}
        return {"model": model, "spec": spec, "in_domain": True, "model_unsupported": unsupported}
    is_std = std[1] == "true"
    gate_ok = gate[1] == "true"
    if is_std and gate_ok:
        return {"model": model, "spec": {"accepted": True}, "in_domain": True, "model_unsupported": unsupported}
    if not gate_ok:
        return {"model": model, "spec": {"accepted": False}, "in_domain": True, "model_unsupported": unsupported}
    return {"model": model, "spec": {}, "in_domain": False, "model_unsupported": unsupported}


def project(case, res, dec=None):
    p = _project(case, res, dec)
    if "rebound_env_same" in res:
        p["rebound_env_same"] = res["rebound_env_same"]
    return p


def _project(case, res, dec=None):
    c = res["compile"]
    if c[0] == "ok":
        return {"accepted": True}
    if c[1].startswith("jp-"):
        return {"accepted": False}
    return {"accepted": False, "wrong-error-family": c[1]}


def nontrivial(case, res):
    return True


def classify(case, res):
    tags = ["planted=" + str(case["planted"]), "limits=" + ("default" if case["lo"] is None and case["hi"] is None else "narrowed")]
    tags.append("impl=" + ("accepted" if res["compile"][0] == "ok" else res["compile"][1]))
    return tags
