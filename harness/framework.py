"""Check framework: build, hygiene, proof bookkeeping, differential run, verdict, evidence.

Per property a module harness/cNN.py provides:
  ID, TITLE, PROP_FILE, RULE
  gen(rng, tier)        -> iterable of case dicts (JSON-serialisable; the replay format)
  to_sx(case)           -> s-expression (python lists) for the driver
  impl(case)            -> canonical implementation result (JSON-serialisable)
  decode(sx, case)      -> {"model":..., "spec":..., "in_domain": bool}   (canonical results)
  nontrivial(case, res) -> bool
  known(case, impl_res, dec) -> finding id or None   (optional; defaults to None)
Verdict per case (DESIGN section 5.3):
  in_domain and impl != spec                 -> VIOLATION with replay (unless a listed known finding)
  in_domain and impl == spec and impl != model -> correspondence broken -> VIOLATION ... no-failing-input-found
  not in_domain and impl != model            -> information only (model drift outside the proved domain)
"""
import hashlib
import importlib
import json
import os
import random
import re
import subprocess
import sys
import time

from . import sx as SX

VERIF = os.path.dirname(os.path.dirname(os.path.abspath(__file__)))
COQ = os.path.join(VERIF, "coq")
REPO = os.environ.get("VERIF_REPO", "/repo")

FORBIDDEN = [
    r"\bAdmitted\b", r"\badmit\b", r"\bAxiom\b", r"\bAxioms\b", r"\bParameter\b", r"\bParameters\b",
    r"\bConjecture\b", r"Unset\s+Guard", r"bypass_check", r"type-in-type", r"impredicative-set",
    r"Admit\s+Obligations", r"Unset\s+Positivity", r"Unset\s+Universe",
]




def _big(x):
    """ints beyond the interpreter's str() digit limit are written as 'bigint:<digits>' (the limit itself is left alone)"""
    if isinstance(x, bool) or x is None or isinstance(x, (str, float)):
        return x
    if isinstance(x, int):
        return x if -SX.BIG < x < SX.BIG else "bigint:" + SX.big_str(x)
    if isinstance(x, (list, tuple)):
        return [_big(y) for y in x]
    if isinstance(x, dict):
        return {(k if isinstance(k, str) else _big(k)): _big(v) for k, v in x.items()}
    return x


def jdumps(x, **kw):
    kw.setdefault("default", str)
    return json.dumps(_big(x), **kw)

def strip_comments(src):
    out = []
    depth = 0
    i = 0
    n = len(src)
    while i < n:
        if src.startswith("(*", i):
            depth += 1
            i += 2
        elif src.startswith("*)", i) and depth > 0:
            depth -= 1
            i += 2
        else:
            if depth == 0:
                out.append(src[i])
            elif src[i] == "\n":
                out.append("\n")
            i += 1
    return "".join(out)


def coq_files():
    files = []
    for root, _, names in os.walk(COQ):
        for nm in names:
            if nm.endswith(".v"):
                files.append(os.path.join(root, nm))
    return sorted(files)


def hygiene():
    """Return a list of 'file:line: text' for forbidden constructs (comments ignored)."""
    bad = []
    pats = [re.compile(p) for p in FORBIDDEN]
    sec_re = re.compile(r"^\s*(Section|End)\b")
    var_re = re.compile(r"^\s*(Variable|Variables|Hypothesis|Hypotheses|Context)\b")
    for f in coq_files():
        text = strip_comments(open(f, encoding="utf-8").read())
        depth = 0
        for ln, line in enumerate(text.split("\n"), 1):
            for p in pats:
                if p.search(line):
                    bad.append(f"{os.path.relpath(f, VERIF)}:{ln}: {line.strip()}")
            if re.match(r"^\s*Section\b", line):
                depth += 1
            elif re.match(r"^\s*End\b", line) and depth > 0:
                depth -= 1
            elif var_re.match(line) and depth == 0:
                bad.append(f"{os.path.relpath(f, VERIF)}:{ln}: top-level {line.strip()}")
    proj = open(os.path.join(COQ, "_CoqProject")).read()
    for w in ("type-in-type", "impredicative-set", "-vos", "-vok"):
        if w in proj:
            bad.append(f"coq/_CoqProject: {w}")
    return bad


def build(pid=None):
    """returns (ok, log, seconds, props_only_failure): exit 3 of build.sh means that only the property's
    own proof closure failed to compile (models, specs, extraction and driver are fine)"""
    t0 = time.time()
    p = subprocess.run([os.path.join(VERIF, "build.sh")] + ([pid] if pid else []), capture_output=True, text=True)
    return p.returncode == 0, (p.stdout + p.stderr)[-4000:], time.time() - t0, p.returncode == 3


def dep_closure(prop_file):
    """.v files the property file depends on (transitively), from coq_makefile's dependency file."""
    dfile = os.path.join(COQ, ".Makefile.d")
    deps = {}
    if os.path.exists(dfile):
        for line in open(dfile):
            if ":" not in line:
                continue
            lhs, rhs = line.split(":", 1)
            targets = [t for t in lhs.split() if t.endswith(".vo")]
            srcs = [t[:-1] if t.endswith(".vo") else t for t in rhs.split()]
            srcs = [s for s in srcs if s.endswith(".v")]
            for t in targets:
                deps.setdefault(t[:-1], set()).update(srcs)
    seen = set()
    todo = [prop_file]
    while todo:
        f = todo.pop()
        if f in seen:
            continue
        seen.add(f)
        for d in deps.get(f, ()):
            if d not in seen and not d.startswith("/"):
                todo.append(d)
    return sorted(seen)


LEMMA_RE = re.compile(r"^\s*(Theorem|Lemma|Corollary|Example|Proposition|Fact|Remark)\s+([A-Za-z0-9_']+)", re.M)


def proof_stats(prop_file):
    files = dep_closure(prop_file)
    n = 0
    for f in files:
        path = os.path.join(COQ, f)
        if os.path.exists(path):
            n += len(LEMMA_RE.findall(strip_comments(open(path, encoding="utf-8").read())))
    thms = []
    path = os.path.join(COQ, prop_file)
    if os.path.exists(path):
        thms = [m[1] for m in LEMMA_RE.findall(strip_comments(open(path, encoding="utf-8").read()))]
    return files, n, thms


def print_assumptions(prop_file, workdir):
    """Re-run coqc on the property file alone and parse the Print Assumptions output."""
    args = []
    for line in open(os.path.join(COQ, "_CoqProject")):
        line = line.strip()
        if line.startswith("-Q") or line.startswith("-R"):
            args += line.split()
    out_vo = os.path.join(workdir, os.path.basename(prop_file) + "o")
    p = subprocess.run(["timeout", "600", "coqc", "-w", "-all"] + args + ["-o", out_vo, prop_file],
                       cwd=COQ, capture_output=True, text=True)
    text = p.stdout + p.stderr
    closed = text.count("Closed under the global context")
    axioms = []
    if "Axioms:" in text:
        for blk in text.split("Axioms:")[1:]:
            for line in blk.split("\n"):
                m = re.match(r"^([A-Za-z0-9_.']+)\s*:", line)
                if m:
                    axioms.append(m.group(1))
    return p.returncode == 0, closed, sorted(set(axioms)), text[-3000:]


def run_driver(lines, timeout=3000):
    exe = os.path.join(VERIF, "ocaml", "driver")
    env = dict(os.environ)
    p = subprocess.run(["bash", "-c", f"ulimit -s unlimited 2>/dev/null; exec timeout {timeout} '{exe}'"],
                       input="\n".join(lines) + "\n", capture_output=True, text=True, env=env)
    out = p.stdout.split("\n")
    if out and out[-1] == "":
        out.pop()
    if len(out) != len(lines):
        raise RuntimeError(f"driver returned {len(out)} lines for {len(lines)} cases; rc={p.returncode}; "
                           f"stderr={p.stderr[-500:]}")
    return out


def load_known():
    path = os.path.join(VERIF, "known_findings.json")
    if os.path.exists(path):
        return json.load(open(path))
    return {"findings": [], "fixed": []}


def case_hash(case):
    return hashlib.sha1(jdumps(case, sort_keys=True, default=str).encode()).hexdigest()[:12]


def write_replay(pid, case, info):
    d = os.path.join(VERIF, "evidence", "replay")
    os.makedirs(d, exist_ok=True)
    path = os.path.join(d, f"{pid}-{case_hash(case) if case is not None else 'tie'}.json")
    body = {"property": pid, "case": case, "replay_cmd": f"./check {pid} --replay {path}"}
    body.update(info)
    open(path, "w").write(jdumps(body, indent=1))
    return path


def load_corpus(pid):
    path = os.path.join(VERIF, "corpus", f"{pid}.jsonl")
    out = []
    if os.path.exists(path):
        for line in open(path):
            line = line.strip()
            if line:
                out.append(json.loads(line))
    return out


def evaluate(mod, cases):
    """Run implementation, model and spec on the cases. Returns list of records."""
    lines = [SX.dump(mod.to_sx(c)) for c in cases]
    outs = run_driver(lines) if lines else []
    recs = []
    for c, o in zip(cases, outs):
        try:
            impl = mod.impl(c)
        except Exception as e:  # the impl wrapper maps expected exceptions itself
            impl = {"harness_exception": f"{type(e).__name__}: {e}"}
        impl = json.loads(jdumps(impl, default=str))
        if o.startswith("(driver-error"):
            dec = {"model": {"driver_error": o}, "spec": {"driver_error": o}, "in_domain": False,
                   "driver_error": True}
        else:
            dec = mod.decode(SX.parse(o), c)
            dec = json.loads(jdumps(dec, default=str))
        recs.append({"case": c, "impl": impl, "dec": dec})
    return recs


def main(argv):
    import argparse
    ap = argparse.ArgumentParser()
    ap.add_argument("prop")
    ap.add_argument("--tier", default=os.environ.get("VERIF_TIER", "quick"))
    ap.add_argument("--replay")
    ap.add_argument("--no-build", action="store_true")
    args = ap.parse_args(argv)
    pid = args.prop.upper()
    tier = args.tier if args.tier in ("quick", "thorough") else "quick"
    seed = int(os.environ.get("VERIF_SEED", "0") or 0)
    t0 = time.time()
    sys.path.insert(0, REPO)
    mod = importlib.import_module(f"harness.{pid.lower()}")

    workdir = os.path.join(VERIF, ".work", f"{pid}-{os.getpid()}")
    os.makedirs(workdir, exist_ok=True)
    try:
        return run_check(mod, pid, tier, seed, args, workdir, t0)
    finally:
        subprocess.run(["rm", "-rf", workdir])


def run_check(mod, pid, tier, seed, args, workdir, t0):
    violations = []      # (kind, replay path, extra)
    notes = []
    build_ok, build_log, build_s = (True, "", 0.0)
    if not args.no_build:
        build_ok, build_log, build_s, _props_only = build(pid)
    bad = hygiene()
    files, n_lemmas, thms = proof_stats(mod.PROP_FILE)
    pa_ok, closed, axioms, pa_text = (False, 0, [], "")
    if build_ok:
        pa_ok, closed, axioms, pa_text = print_assumptions(mod.PROP_FILE, workdir)

    if args.replay:
        rep = json.load(open(args.replay))
        case = rep["case"]
        if case is None:
            print("replay names a broken tie, not an input:", rep.get("broken"))
            return 1
        rec = evaluate(mod, [case])[0]
        print("case :", jdumps(case, default=str))
        print("impl :", jdumps(rec["impl"], default=str))
        print("model:", jdumps(rec["dec"].get("model"), default=str))
        print("spec :", jdumps(rec["dec"].get("spec"), default=str))
        project = getattr(mod, "project", lambda c, res, dec: res)
        pim = json.loads(jdumps(project(case, rec["impl"], rec["dec"]), default=str))
        print("impl (projected to the specification's observables):", jdumps(pim, default=str))
        ok = pim == rec["dec"].get("spec") or not rec["dec"].get("in_domain", True)
        print("agree" if ok else f"VIOLATION property={pid} replay={args.replay}")
        return 0 if ok else 1

    tie_broken = []
    if bad:
        tie_broken.append({"what": "forbidden construct in the development", "where": bad[:20]})
    if not build_ok:
        tie_broken.append({"what": "build failed (a proof obligation or the extraction no longer checks)",
                           "log": build_log[-2500:]})
    elif not pa_ok:
        tie_broken.append({"what": f"{mod.PROP_FILE} no longer compiles", "log": pa_text[-2500:]})
    declared_axioms = set(getattr(mod, "ALLOWED_AXIOMS", []))
    extra_axioms = [a for a in axioms if a not in declared_axioms]
    if extra_axioms:
        tie_broken.append({"what": "theorem depends on axioms not named in the trusted base", "axioms": extra_axioms})

    # ---- differential run ------------------------------------------------
    rng = random.Random(seed * 1000003 + 17)
    corpus = load_corpus(pid)
    cases = list(corpus)
    gen_cases = list(mod.gen(rng, tier))
    if tier == "thorough":
        # several independent random streams (the fixed / exhaustive parts of a generator repeat: de-duplicated)
        rounds = int(os.environ.get("VERIF_THOROUGH_ROUNDS", getattr(mod, "THOROUGH_ROUNDS", 4)))
        seen = {case_hash(c) for c in gen_cases}
        for r in range(1, rounds):
            for c in mod.gen(random.Random((seed + r) * 1000003 + 17 + 7919 * r), tier):
                h = case_hash(c)
                if h not in seen:
                    seen.add(h)
                    gen_cases.append(c)
    cases += gen_cases
    have_driver = os.path.exists(os.path.join(VERIF, "ocaml", "driver"))
    recs = []
    if have_driver:
        B = 4000
        for i in range(0, len(cases), B):
            recs += evaluate(mod, cases[i:i + B])
    known = load_known()
    known_for = [k for k in known.get("findings", []) if k.get("property") == pid]
    known_hit = {}
    n_in = n_out = 0
    drift = 0
    distinct = set()
    samples = []
    dist = {}
    first_viol = None
    first_corr = None
    n_viol = n_corr = 0
    n_skip = 0
    project = getattr(mod, "project", lambda c, res, dec: res)
    _fm = getattr(mod, "for_model", None)

    def for_model(c, impl):
        return json.loads(jdumps(_fm(c, impl), default=str)) if _fm else impl

    def model_differs(c, impl, dec):
        """observations a harness module could not make through the library's public surface are listed by it under
        'unobservable' (e.g. the layout of an internal cache tree after an internal rename): they are left out of the
        comparison with the model (and counted), never guessed"""
        fm = for_model(c, impl)
        model = dec.get("model")
        skip = fm.pop("unobservable", None) if isinstance(fm, dict) else None
        if skip and isinstance(model, dict):
            model = {k: v for k, v in model.items() if k not in skip}
            fm = {k: v for k, v in fm.items() if k not in skip}
            dist["unobservable=" + ",".join(sorted(skip))] = dist.get("unobservable=" + ",".join(sorted(skip)), 0) + 1
        return fm != model
    for r in recs:
        c, impl, dec = r["case"], r["impl"], r["dec"]
        h = case_hash(c)
        if isinstance(impl, dict) and "harness_exception" in impl:
            # the harness itself failed on this case (e.g. an internal name it walks was renamed): the tie is broken for
            # this input, but nothing is known about the property - never reported as a failing input
            n_corr += 1
            if first_corr is None:
                first_corr = (c, impl, dec)
            continue
        try:
            pimpl = json.loads(jdumps(project(c, impl, dec), default=str))
        except Exception as e:
            pimpl = {"project_failed": str(e)}
        if hasattr(mod, "classify"):
            for tag in mod.classify(c, impl):
                dist[tag] = dist.get(tag, 0) + 1
        if dec.get("driver_error"):
            n_corr += 1
            if first_corr is None:
                first_corr = (c, impl, dec)
            continue
        if dec.get("skip"):
            n_skip += 1
            continue
        if mod.nontrivial(c, impl):
            distinct.add(h)
        if len(samples) < 6 and mod.nontrivial(c, impl) and int(h, 16) % 211 == len(samples):
            samples.append({"case": c, "impl": impl})
        kid = None
        if hasattr(mod, "known"):
            kid = mod.known(c, impl, dec)
        if kid is not None:
            listed = [k for k in known_for if k.get("id") == kid]
            if pimpl != dec.get("spec"):
                if listed:
                    known_hit.setdefault(kid, c)
                    continue
                # an unlisted class: fall through and treat like any other case
            else:
                continue
        if dec.get("in_domain", True):
            n_in += 1
            if pimpl != dec.get("spec"):
                n_viol += 1
                if first_viol is None:
                    first_viol = (c, impl, dec)
            elif not dec.get("model_unsupported") and model_differs(c, impl, dec):
                n_corr += 1
                if first_corr is None:
                    first_corr = (c, impl, dec)
        else:
            n_out += 1
            if model_differs(c, impl, dec):
                drift += 1
                if len(notes) < 3:
                    notes.append({"model_drift_outside_domain": c, "impl": impl, "model": dec.get("model")})

    # ---- verdict ---------------------------------------------------------
    out_lines = []
    rc = 0
    for kid, c in sorted(known_hit.items()):
        k = [k for k in known_for if k.get("id") == kid][0]
        out_lines.append(f"KNOWN-FINDING: property={pid} {kid}: {k.get('what', '')}")
    if first_viol is not None:
        c, impl, dec = first_viol
        if hasattr(mod, "shrink"):
            try:
                c2 = mod.shrink(c, lambda cc: (lambda r: r["dec"].get("in_domain", True) and not r["dec"].get("driver_error")
                                                and json.loads(jdumps(project(cc, r["impl"], r["dec"]), default=str)) != r["dec"].get("spec"))(evaluate(mod, [cc])[0]))
                if c2 is not None:
                    r2 = evaluate(mod, [c2])[0]
                    c, impl, dec = c2, r2["impl"], r2["dec"]
            except Exception as e:  # shrinking is best effort
                notes.append({"shrink_failed": str(e)})
        path = write_replay(pid, c, {"impl": impl, "spec": dec.get("spec"), "model": dec.get("model"),
                                     "what": "implementation differs from the specification on an in-domain input",
                                     "count_in_this_run": n_viol})
        out_lines.append(f"VIOLATION property={pid} replay={path}")
        rc = 1
    elif first_corr is not None or tie_broken:
        if first_corr is not None:
            c, impl, dec = first_corr
            tie_broken.append({"what": "correspondence: implementation agrees with the specification but not with the model "
                                       "(or the driver failed) on this input", "case": c, "impl": impl,
                               "model": dec.get("model"), "spec": dec.get("spec")})
        path = write_replay(pid, None, {"broken": tie_broken, "theorems": thms,
                                        "searched": {"cases": len(recs), "in_domain": n_in,
                                                     "rule": "corpus, generated cases of this tier"}})
        out_lines.append(f"VIOLATION property={pid} replay={path} no-failing-input-found")
        rc = 1

    wall = time.time() - t0
    ev = {
        "property_id": pid,
        "tier": tier,
        "seed": seed,
        "level": "proof",
        "coverage": {
            "obligations": max(n_lemmas, 1),
            "discharged": n_lemmas if (build_ok and pa_ok and not bad) else 0,
            "checker_cmd": "cd /verif && ./build.sh   # coq_makefile + make (coqc 8.16.1, full .vo); then "
                           f"coqc {mod.PROP_FILE} (Print Assumptions under every theorem)",
            "trusted_base": [
                "Coq 8.16.1 kernel (coqc); vm_compute used for Examples/finite lemmas; no native_compute",
                f"Print Assumptions: {closed} theorem(s) 'Closed under the global context'; axioms: {axioms or 'none'}",
                "extraction: ExtrOcamlBasic only (bool, option, unit, list, prod, sumbool); no Extract Constant; nat/positive/N/Z inductive",
                "ocaml/driver.ml (wire format), harness/*.py (generators, canonicalisers, implementation wrappers)",
            ] + list(getattr(mod, "TRUSTED", [])),
            "theorems": thms,
            "files_in_closure": files,
            "evaluations": len(recs),
            "distinct_nontrivial": len(distinct),
            "rule": mod.RULE,
            "samples": samples or [{"note": "no case generated"}],
            "traces_validated_against_impl": len(recs),
            "in_domain": n_in,
            "outside_domain": n_out,
            "outside_model_skipped": n_skip,
            "model_drift_outside_domain": drift,
            "corpus_cases": len(corpus),
            "input_distribution": dist,
            "exhaustive": bool(getattr(mod, "EXHAUSTIVE", {}).get(tier, False)),
            "build_s": round(build_s, 1),
            "notes": notes,
            "known_findings_reproduced": sorted(known_hit),
        },
        "assumptions": list(getattr(mod, "ASSUMPTIONS", [])),
        "wall_s": round(wall, 2),
        "violations": 1 if rc else 0,
    }
    os.makedirs(os.path.join(VERIF, "evidence"), exist_ok=True)
    json.dump(ev, open(os.path.join(VERIF, "evidence", f"{pid}.json"), "w"), indent=1, default=str)
    for l in out_lines:
        print(l)
    print(f"{pid} {tier}: build_ok={build_ok} lemmas={n_lemmas} closed={closed} cases={len(recs)} "
          f"in_domain={n_in} distinct_nontrivial={len(distinct)} violations={n_viol} corr_breaks={n_corr} "
          f"drift={drift} wall={wall:.1f}s -> {'FAIL' if rc else 'OK'}")
    return rc
