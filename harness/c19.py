"""C19 — projection returns exactly the selected values, nothing more, in place."""
import random

import jsonpath
from jsonpath import Projection

from . import sx as SX
from . import qgen as Q
from .common import all_locs, exc_name, gen_container, deep
from .c05 import canon_unordered

ID = "C19"
PROP_FILE = "props/C19.v"
RULE = ("documents x match queries x lists of 1..3 relative queries (names, indices, slices, wildcards, nested; chosen "
        "from the matched value's own structure so that they select below the match; per-array selections ascending) x "
        "the three projection styles; falsy selected values, integer-looking keys, nested arrays (rank renumbering), "
        "non-container matches, empty selections; overlapping / nested selections are generated too (outside the clause: "
        "only 'the document is not modified' and model correspondence are checked). Results compared as JSON values. "
        "non-trivial = at least one projection produced; distinct = distinct (style, queries, document)")
TRUSTED = ["copy.deepcopy is the identity on JSON values"]
ASSUMPTIONS = ["selections that are nested in one another or select the match itself are outside the property's clause"]

NAMES = ["a", "b", "c", "0", "1", "x y", "é", ""]
STYLES = ["relative", "root", "flat"]
PROJ = {"relative": Projection.RELATIVE, "root": Projection.ROOT, "flat": Projection.FLAT}


def rel_query_for(rng, v, depth=3):
    """a relative query (segments) selecting strictly below v, following v's structure"""
    segs = []
    cur = v
    for _ in range(rng.randint(1, depth)):
        if isinstance(cur, dict) and cur:
            k = rng.choice(list(cur.keys()))
            r = rng.random()
            if r < 0.7:
                segs.append(["sel", ["name", k]] if Q.shorthand_ok(k) and rng.random() < 0.5 else ["list", ["name", k]])
                cur = cur[k]
            elif r < 0.85:
                ks = rng.sample(list(cur.keys()), min(len(cur), 2))
                segs.append(["list"] + [["name", x] for x in ks])
                cur = cur[ks[0]]
            else:
                segs.append(["sel", "wild"])
                cur = cur[k]
        elif isinstance(cur, list) and cur:
            r = rng.random()
            i = rng.randrange(len(cur))
            if r < 0.5:
                segs.append(["list", ["idx", i]])
                cur = cur[i]
            elif r < 0.7:
                idx = sorted(rng.sample(range(len(cur)), min(len(cur), 2)))
                segs.append(["list"] + [["idx", x] for x in idx])
                cur = cur[idx[0]]
            elif r < 0.85:
                segs.append(["list", ["slice", rng.choice([None, 0, 1]), rng.choice([None, 2, 3]), rng.choice([None, 1, 2])]])
                cur = cur[0]
            else:
                segs.append(["sel", "wild"])
                cur = cur[i]
        else:
            break
    return segs


def gen(rng, tier):
    n = 6000 if tier == "thorough" else 700
    for _ in range(n):
        doc = gen_container(rng, 4, 3, NAMES)
        r = rng.random()
        if r < 0.4:
            msegs = []
        elif r < 0.8:
            msegs = Q.gen_segs_for_doc(rng, doc, 2)
        else:
            msegs = ["desc", ["sel", "wild"]]
        # pick one reached value to derive relative queries from
        try:
            reached = jsonpath.findall(Q.render_path({"fake": False, "segs": msegs}, Q.Speller(random.Random(1), 0.0)), doc)
        except Exception:  # noqa: BLE001
            reached = []
        conts = [v for v in reached if isinstance(v, (dict, list)) and v]
        base = rng.choice(conts) if conts else doc
        rels = []
        for _ in range(rng.randint(1, 3)):
            segs = rel_query_for(rng, base)
            if segs:
                rels.append({"first": {"fake": False, "segs": segs}, "rest": []})
        if not rels or rng.random() < 0.05:
            rels.append({"first": {"fake": False, "segs": [["list", ["name", "nope"]]]}, "rest": []})
        yield {"style": rng.choice(STYLES), "match": {"first": {"fake": False, "segs": msegs}, "rest": []}, "rels": rels, "doc": doc,
               "seed": rng.randrange(1 << 30)}


def gen_obj(rng, depth):
    """objects all the way down (arrays only as leaves), so that selections pass through no index"""
    if depth <= 0 or rng.random() < 0.25:
        return rng.choice([1, "s", None, True, 0, "", [1, 2], [], 1.5, {}])
    ks = rng.sample(NAMES, rng.randint(1, 3))
    return {k: gen_obj(rng, depth - 1) for k in ks}


def key_paths(v, loc=()):
    out = []
    if isinstance(v, dict):
        for k, c in v.items():
            out.append(loc + (k,))
            out += key_paths(c, loc + (k,))
    return out


def gen_keys_only(rng, tier):
    """selections through member names only - nested in one another, repeated, in either order"""
    for _ in range(1500 if tier == "thorough" else 200):
        doc = gen_obj(rng, 4)
        if not isinstance(doc, dict):
            continue
        paths = key_paths(doc)
        if not paths:
            continue
        deepest = rng.choice(paths)
        chosen = [deepest]
        if len(deepest) > 1 and rng.random() < 0.8:
            chosen.append(deepest[:rng.randint(1, len(deepest) - 1)])          # an ancestor of it
        if rng.random() < 0.5:
            chosen.append(rng.choice(paths))
        if rng.random() < 0.2:
            chosen.append(rng.choice(chosen))
        rng.shuffle(chosen)
        rels = [{"first": {"fake": False, "segs": [(["sel", ["name", k]] if Q.shorthand_ok(k) and rng.random() < 0.5 else ["list", ["name", k]])
                                                   for k in p]}, "rest": []} for p in chosen]
        yield {"style": rng.choice(STYLES), "match": {"first": {"fake": False, "segs": []}, "rest": []}, "rels": rels, "doc": doc,
               "seed": rng.randrange(1 << 30)}


def gen_whole_then_deeper(rng, tier):
    """a container selected whole, then a descendant several levels below it, through arrays: whatever the projection
    is there, the DOCUMENT must stay as it was"""
    for _ in range(600 if tier == "thorough" else 80):
        doc = {"a": {"b": [{"c": 1, "d": 0}, {"c": 2, "d": 3}], "e": 5}, "z": 1, "k": {"a": {"b": [{"d": 0}, {"c": 2, "d": 3}], "e": [[1, 9], [2]]}}}
        if rng.random() < 0.5:
            doc = gen_container(rng, 4, 3, NAMES)
        locs = [l for l, v in all_locs(doc) if l and isinstance(v, (dict, list)) and v]
        if not locs:
            continue
        whole = rng.choice(locs)
        below = [l for l, _ in all_locs(doc) if len(l) >= len(whole) + 2 and l[:len(whole)] == whole]
        if not below:
            continue
        deeper = rng.choice(below)

        def q_of(loc):
            return {"first": {"fake": False, "segs": [["list", ["name", p]] if isinstance(p, str) else ["list", ["idx", p]] for p in loc]}, "rest": []}
        rels = [q_of(whole), q_of(deeper)]
        if rng.random() < 0.3:
            rels.reverse()
        yield {"style": rng.choice(["relative", "root"]), "match": {"first": {"fake": False, "segs": []}, "rest": []}, "rels": rels, "doc": doc,
               "seed": rng.randrange(1 << 30)}


def gen_long_arrays(rng, tier):
    """arrays of ten and more elements: ranks among two-digit indices (selected singly, by slice, by wildcard, nested)"""
    def q(*segs):
        return {"first": {"fake": False, "segs": list(segs)}, "rest": []}
    cells = ["c%d" % i for i in range(12)]
    rows = [[i, [i * 10 + j for j in range(11)]] for i in range(13)]
    for style in STYLES:
        for doc, sels in (
            ({"cells": cells}, [[q(["list", ["name", "cells"]], ["list", ["idx", 2]]), q(["list", ["name", "cells"]], ["list", ["idx", 10]])],
                                [q(["list", ["name", "cells"]], ["list", ["slice", 8, None, None]])],
                                [q(["list", ["name", "cells"]], ["sel", "wild"])],
                                [q(["list", ["name", "cells"]], ["list", ["idx", 1], ["idx", 9], ["idx", -1]])],
                                [q(["list", ["name", "cells"]], ["list", ["slice", 9, 11, None]])],
                                [q(["list", ["name", "cells"]], ["list", ["slice", None, None, 5]])]]),
            (cells, [[q(["list", ["idx", 3]]), q(["list", ["idx", 11]])], [q(["list", ["slice", 7, None, 2]])], [q(["sel", "wild"])]]),
            ({"rows": rows}, [[q(["list", ["name", "rows"]], ["list", ["idx", 2], ["idx", 10], ["idx", 12]], ["list", ["idx", 1]], ["list", ["idx", 9], ["idx", 10]])],
                              [q(["list", ["name", "rows"]], ["list", ["slice", 9, None, None]], ["list", ["idx", 0]])],
                              [q(["list", ["name", "rows"]], ["sel", "wild"], ["list", ["idx", 1]], ["list", ["slice", 8, None, None]])]]),
        ):
            for rels in sels:
                yield {"style": style, "match": q(), "rels": rels, "doc": doc, "seed": 17}


def gen_json_text_strings(rng, tier):
    """matches that are STRINGS holding JSON text (or bracket-looking text): strings are not containers, nothing is projected"""
    def q(*segs):
        return {"first": {"fake": False, "segs": list(segs)}, "rest": []}
    doc = {"note": "[1, 2, 3]", "p": '{"user": "sue", "ok": true}', "bad": "a[0]", "brace": "{", "n": 5, "t": True, "z": None, "s": "plain",
           "events": [{"payload": '{"user": "sue"}'}, {"payload": {"user": "bob"}}, {"payload": "[[1], [2]]"}]}
    for style in STYLES:
        for m in (q(["list", ["name", "note"]]), q(["sel", "wild"]), q("desc", ["sel", "wild"]), q(["list", ["name", "events"]], ["sel", "wild"], ["list", ["name", "payload"]]),
                  q(["list", ["name", "bad"], ["name", "brace"], ["name", "p"]])):
            for rels in ([q(["list", ["idx", 0]])], [q(["list", ["name", "user"]])], [q(["sel", "wild"])], [q(["list", ["idx", 0]]), q(["list", ["name", "user"]])],
                         [q("desc", ["sel", "wild"])]):
                yield {"style": style, "match": m, "rels": rels, "doc": doc, "seed": 19}


def gen_negative_indices(rng, tier):
    """one element reached through a negative and through a non-negative index (also exactly -len): one position"""
    def q(*segs):
        return {"first": {"fake": False, "segs": list(segs)}, "rest": []}

    def ix(i):
        return ["list", ["idx", i]]

    def nm(n):
        return ["list", ["name", n]]
    doc = {"rows": [{"a": 1, "b": 2, "c": 3}, {"a": 4, "b": 5, "c": 6}], "one": [{"a": 7, "b": 8}]}
    for style in STYLES:
        for m, rels in ((q(nm("rows")), [q(ix(-2), nm("a")), q(ix(0), nm("b"))]), (q(nm("rows")), [q(ix(0), nm("a")), q(ix(-2), nm("c")), q(ix(-1), nm("a")), q(ix(1), nm("b"))]),
                        (q(), [q(nm("rows"), ix(-2), nm("a")), q(nm("rows"), ix(0), nm("c"))]), (q(nm("rows")), [q(ix(-2)), q(ix(0))]),
                        (q(nm("one")), [q(ix(-1), nm("a")), q(ix(0), nm("b"))]), (q(nm("rows")), [q(ix(-2), nm("a")), q(["list", ["slice", 0, 1, None]], nm("b"))]),
                        (q(nm("rows")), [q(["sel", "wild"], nm("a")), q(ix(-2), nm("b"))])):
            yield {"style": style, "match": m, "rels": rels, "doc": doc, "seed": 23}


_gen_main = gen


def gen(rng, tier):      # noqa: F811
    yield from gen_negative_indices(rng, tier)
    yield from gen_json_text_strings(rng, tier)
    yield from gen_long_arrays(rng, tier)
    yield from _gen_main(rng, tier)
    yield from gen_keys_only(rng, tier)
    yield from gen_whole_then_deeper(rng, tier)


def texts(case):
    sp = Q.Speller(random.Random(case["seed"]), blanks=0.05)
    return Q.render_query(case["match"], sp), [Q.render_query(r, sp) for r in case["rels"]]


def to_sx(case):
    return ["project", case["style"], Q.query_sx(case["match"]), [Q.query_sx(r) for r in case["rels"]], SX.j2sx(case["doc"])]


def impl(case):
    mt, rts = texts(case)
    doc = deep(case["doc"])
    out = {"texts": [mt] + rts}
    try:
        res = list(jsonpath.query(mt, doc).select(*rts, projection=PROJ[case["style"]]))
        out["result"] = ["ok", [SX.canon(x) for x in res]]
    except Exception as e:  # noqa: BLE001
        out["result"] = ["err", exc_name(e)]
    out["doc_unchanged"] = SX.canon(doc) == SX.canon(case["doc"])
    return out


def decode(sx, case):
    if sx[0] == "unsupported":
        return {"model": {}, "spec": {}, "in_domain": False, "skip": True}
    _, m, spec, dom, wf = sx[:5]
    search_dom = any(x[0] == "search-domain" and x[1] == "true" for x in sx[5:])
    unsupported = "unsupported" in SX.dump(m)
    mt, rts = texts(case)
    model = {"texts": [mt] + rts, "doc_unchanged": True}
    model["result"] = ["ok", [SX.canon(SX.sx2j(x)) for x in m[1]]] if m[0] == "ok" else ["err", m[1]]
    spec_ = {"result": ["ok", [canon_unordered(SX.canon(SX.sx2j(x))) for x in spec]], "doc_unchanged": True}
    if dom[1] != "true" and search_dom:
        # keys-only selections (nested / repeated): outside the theorems' hypothesis but inside the property's
        # statement with one reading; used to find failing inputs
        return {"model": model, "spec": spec_, "in_domain": wf[1] == "true" and not unsupported, "skip": unsupported}
    if dom[1] != "true":
        # outside the clause only the read-only part of the property is claimed
        return {"model": model, "spec": {"doc_unchanged": True}, "in_domain": wf[1] == "true", "skip": False,
                "partial_domain": True, "model_unsupported": unsupported}
    return {"model": model, "spec": spec_, "in_domain": wf[1] == "true" and not unsupported, "skip": unsupported}


def project(case, res, dec=None):
    if dec and dec.get("partial_domain"):
        return {"doc_unchanged": res["doc_unchanged"]}
    r = res["result"]
    return {"result": ["ok", [canon_unordered(x) for x in r[1]]] if r[0] == "ok" else r, "doc_unchanged": res["doc_unchanged"]}


def for_model(case, res):
    return res


def nontrivial(case, res):
    return res["result"][0] == "ok" and len(res["result"][1]) > 0


def classify(case, res):
    tags = ["style=" + case["style"], "nrels=%d" % len(case["rels"])]
    if res["result"][0] == "ok":
        tags.append("nproj=" + ("0" if not res["result"][1] else "some"))
    else:
        tags.append("error=" + res["result"][1])
    return tags
