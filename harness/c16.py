"""C16 — Relative JSON Pointers are parsed, printed and applied per the draft."""
from jsonpath import JSONPointer, RelativeJSONPointer

from . import sx as SX
from .common import pointer_of_typed_parts, exc_name, parts_typed, parts_to_sx, sx_parts_typed

ID = "C16"
PROP_FILE = "props/C16.v"
RULE = ("the property's grid, exhaustively: base pointers of depth 0..4 over tokens {a, 0, 3, 12, é, ~, /, -, 'x y', 007} "
        "(indices carried as int and as str) x steps 0..depth+1 x offsets {none, +-1, +-2, +-10, +-12} x suffix "
        "{'', '#', '/b', '/~0~1', '/é/0', '/ a', '/a ', '/0/1'}; plus malformed relatives (leading zeros, zero offset, "
        "lone sign, junk) for model correspondence. non-trivial = draft-syntax relative applied to a non-root base; "
        "distinct = distinct (mode, relative text, base parts)")
EXHAUSTIVE = {"quick": False, "thorough": True}
TRUSTED = ["\\d of the grammar regex is modelled for ASCII digits (non-ASCII digits answer EUnsupported and are skipped)"]
ASSUMPTIONS = []

BASE_TOKENS = ["a", 0, 3, 12, "0", "3", "é", "~", "/", "-", "x y", "007", "C:\\temp", "\\u0041", "a\\", "\\n"]
OFFSETS = ["", "+1", "-1", "+2", "-2", "+10", "-10", "+12", "-12"]
SUFFIXES = ["", "#", "/b", "/~01", "/x~01y/~10", "/k%7E0/caf%C3%A9", "/%41/%2F", "/a\\u0041", "/~0~1", "/é/0", "/ a", "/a ", "/0/1"]
MALFORMED = ["", "a", "#", "/a", "01", "00#", "0+0", "0-0", "0+01", "0+", "0-", "1+#", "0+1x", "0 #", " 0#", "0# ", "1e3", "-1",
             "+1", "0++1", "0+1+1", "٣", "0/a\\u0041", "0/\\x", "99999999999999999999", "0+99999999999999999999", "2/a~", "1#/a"]


def bases(rng, tier):
    # member names that begin with the key marker itself, at and above the position a `#` suffix refers to
    out = [[], ["tags", "#urgent"], ["#meta", "x"], ["#meta", "x", 1], ["##", "#"], ["a", "#0", 2], ["#"], [0, "#1"]]
    import itertools
    for d in range(1, 5):
        combos = list(itertools.product(BASE_TOKENS, repeat=d))
        if d <= 1 or (d == 2 and tier == "thorough"):
            out += [list(c) for c in combos]
        else:
            k = 200 if tier == "thorough" else 12
            out += [list(c) for c in rng.sample(combos, min(k, len(combos)))]
    return out


def gen(rng, tier):
    for base in bases(rng, tier):
        depth = len(base)
        for steps in range(0, depth + 2):
            for off in OFFSETS:
                for suf in SUFFIXES:
                    if tier != "thorough" and rng.random() < 0.6 and depth > 1:
                        continue
                    yield {"mode": (steps + len(suf)) % 2 == 0, "rel": f"{steps}{off}{suf}", "base": parts_typed(base)}
    for text in MALFORMED:
        for base in ([], ["a", 1], [2], ["x", "y", "z"]):
            yield {"mode": True, "rel": text, "base": parts_typed(base)}


def to_sx(case):
    return ["rel", case["mode"], SX.s2sx(case["rel"]), parts_to_sx([p[1] for p in case["base"]])]


def impl(case):
    parts = tuple(p[1] for p in case["base"])
    base = pointer_of_typed_parts(parts)
    try:
        r = RelativeJSONPointer(case["rel"], unicode_escape=case["mode"])
    except Exception as e:  # noqa: BLE001
        return {"parse": ["err", exc_name(e)]}
    ptr = "hash" if r.pointer == "#" else parts_typed(r.pointer.parts)
    out = {"parse": ["ok", r.origin, r.index, ptr], "text": str(r)}
    try:
        q = r.to(base)
        out["to"] = ["ok", parts_typed(q.parts), str(q)]
    except Exception as e:  # noqa: BLE001
        out["to"] = ["err", exc_name(e)]
    # the same relative text was applied before under the other decoding options (also to another base)
    for kw in ({"uri_decode": True}, {"unicode_escape": not case["mode"]}, {"uri_decode": True, "unicode_escape": not case["mode"]}):
        for b in (base, JSONPointer("/zz/3/y")):
            try:
                b.to(case["rel"], **kw)
            except Exception:  # noqa: BLE001
                pass
    try:
        q2 = base.to(case["rel"], unicode_escape=case["mode"])
        out["to_via_pointer"] = ["ok", parts_typed(q2.parts), str(q2)]
    except Exception as e:  # noqa: BLE001
        out["to_via_pointer"] = ["err", exc_name(e)]
    return out


def decode(sx, case):
    _, m, s = sx
    unsupported = "unsupported" in SX.dump(m)
    if m[0] == "parse-err":
        model = {"parse": ["err", m[1]]}
    else:
        origin, index, ptr = m[1]
        model = {"parse": ["ok", SX.big_int(origin), SX.big_int(index), "hash" if ptr == "hash" else sx_parts_typed(ptr)],
                 "text": SX.sx2s(m[2])}
        t = m[3]
        model["to"] = ["ok", sx_parts_typed(t[1][0]), SX.sx2s(t[1][1])] if t[0] == "ok" else ["err", t[1]]
        model["to_via_pointer"] = model["to"]
    if s[0] == "not-draft-syntax":
        return {"model": model, "spec": {}, "in_domain": False, "skip": unsupported}
    _, rel, app, oa, nb, wl = s
    in_domain = oa[1] == "true" and nb[1] == "true" and wl[1] == "true" and not unsupported
    spec = {"text": case["rel"]}
    if app == "none":
        spec["to"] = "forbidden"
    else:
        spec["to"] = ["ok", [SX.sx2s(t) for t in app[1][0]], SX.sx2s(app[1][1])]
    spec["to_via_pointer"] = spec["to"]
    return {"model": model, "spec": spec, "in_domain": in_domain, "skip": unsupported}


def project(case, res, dec=None):
    if res["parse"][0] != "ok":
        return {"unexpected-parse-error": res["parse"]}
    out = {"text": res["text"]}
    for k in ("to", "to_via_pointer"):
        t = res[k]
        if t[0] == "ok":
            out[k] = ["ok", [str(p[1]) for p in t[1]], t[2]]
        else:
            out[k] = "forbidden" if t[1] in ("rel-index",) else t
    return out


def nontrivial(case, res):
    return res["parse"][0] == "ok" and len(case["base"]) > 0


def classify(case, res):
    tags = ["depth=%d" % len(case["base"])]
    if res["parse"][0] != "ok":
        tags.append("parse=" + res["parse"][1])
    else:
        tags.append("offset=" + ("0" if res["parse"][2] == 0 else ("+" if res["parse"][2] > 0 else "-")))
        tags.append("suffix=" + ("hash" if res["parse"][3] == "hash" else "ptr%d" % len(res["parse"][3])))
        tags.append("to=" + (res["to"][1] if res["to"][0] == "err" else "ok"))
    return tags
