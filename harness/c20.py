"""C20 — match -> pointer -> patch edits exactly the matched node."""
import json
import re
import jsonpath
from jsonpath import JSONPatch

from . import sx as SX
from . import qgen as Q
from .common import exc_name, gen_container, all_locs, loc_to_sx, deep
from .c05 import canon_unordered

ID = "C20"
PROP_FILE = "props/C20.v"
RULE = ("documents whose member names are digits-only, signed-number look-alikes, '~', '/', '-', '#x', '~x', empty, "
        "blank-padded and non-ASCII x queries ($..*, $, doc-guided standard queries) x EVERY match: the match's "
        "JSONPointer as the target of test (matched value and a different value), replace, remove, each compared with an "
        "independently specified edit (replace_at / delete_at on the location) as JSON values; the root match included. "
        "non-trivial = the match is below the root; distinct = distinct (document, location, new value)")
TRUSTED = ["the link 'a match's parts are the node's location' is C03 (checked there and again here by resolving the parts)"]
ASSUMPTIONS = []

NAMES = ["a", "0", "1", "2", "10", "01", "-1", "+1", "-0", "-", "~", "/", "~0", "~1", "a/b", "#", "#0", "#a", "~a", "", " ", " 1", "1٣", "13", "7٧", "77", "-1٣", "1０",
         "1 ", "é", "中", "\U0001F600", "1_0", "9007199254740993", "x.y", "\\", "a\\"]
NEWVALS = [None, 7, "new", [1], {"k": True}, True]


def gen(rng, tier):
    # slices whose bounds lie beyond the array in either direction, with steps of either sign: the matched elements'
    # locations are the NORMALIZED indices
    for arr in ([10, 20, 30, 40, 50], [[1], [2]], ["a"]):
        for doc, pre in ((arr, []), ({"0": arr, "k": 1}, [["list", ["name", "0"]]]), (json.loads(json.dumps([arr, arr])), [["list", ["idx", -1]]])):
            for a, b, c in [(-7, 2, None), (7, None, -2), (-9, None, None), (9, None, -1), (None, -9, -1), (-1, -9, -2), (5, None, -1), (-5, 9, 3),
                            (None, None, -1), (-6, -3, 1), (1, 99, 2), (99, 0, -3)]:
                yield {"segs": pre + [["list", ["slice", a, b, c]]], "doc": doc, "new": rng.choice(NEWVALS), "seed": 7}
                yield {"segs": pre + [["list", ["idx", 0], ["slice", a, b, c]]], "doc": doc, "new": rng.choice(NEWVALS), "seed": 7}
    n = 2500 if tier == "thorough" else 220
    for _ in range(n):
        doc = gen_container(rng, 3, 4, NAMES)
        r = rng.random()
        if r < 0.5:
            segs = ["desc", ["sel", "wild"]]
        elif r < 0.6:
            segs = []
        else:
            segs = Q.gen_segs_for_doc(rng, doc, 3)
        yield {"segs": segs, "doc": doc, "new": rng.choice(NEWVALS), "seed": rng.randrange(1 << 30)}


def _query_text(case):
    import random
    return Q.render_path({"fake": False, "segs": case["segs"]}, Q.Speller(random.Random(case["seed"]), 0.05))


def expand(case):
    """one sub-case per match (the framework works on flat cases); done at generation time in gen_flat"""
    doc = case["doc"]
    text = _query_text(case)
    out = []
    try:
        ms = list(jsonpath.finditer(text, deep(doc)))
    except Exception:  # noqa: BLE001
        return out
    seen = set()
    for m in ms[:12]:
        key = tuple((type(p).__name__, p) for p in m.parts)
        if key in seen:
            continue
        seen.add(key)
        out.append({"doc": doc, "query": text, "loc": list(m.parts), "new": case["new"]})
    return out


_gen_outer = gen


def gen(rng, tier):  # noqa: F811
    for c in _gen_outer(rng, tier):
        yield from expand(c)


def to_sx(case):
    return ["compose", SX.j2sx(case["doc"]), loc_to_sx(case["loc"]), SX.j2sx(case["new"])]


def _apply(patch, doc):
    try:
        return ["ok", SX.canon(patch.apply(doc))]
    except Exception as e:  # noqa: BLE001
        return ["err", exc_name(e)]


def text_route_ok(text):
    """the pointer's string form denotes the same pointer when parsed again: no backslash (escape decoding is on by default)
    and no digits-only member name beyond the index limit (recorded finding C04-member-name-beyond-index-limit)"""
    if "\\" in text:
        return False
    for t in text.split("/")[1:]:
        if re.fullmatch(r"-?[1-9][0-9]{15,}", t) and abs(int(t)) > 2 ** 53 - 1:
            return False
    return True


def impl(case):
    doc = deep(case["doc"])
    ms = [m for m in jsonpath.finditer(case["query"], doc) if list(m.parts) == case["loc"]]
    if not ms:
        return {"no_such_match": True}
    m = ms[0]
    ptr = m.pointer()
    out = {"pointer": str(ptr)}
    out["test"] = _apply(JSONPatch().test(ptr, deep(m.obj)), deep(case["doc"]))
    out["replace"] = _apply(JSONPatch().replace(ptr, deep(case["new"])), deep(case["doc"]))
    out["remove"] = _apply(JSONPatch().remove(ptr), deep(case["doc"]))
    out["test_other"] = _apply(JSONPatch().test(ptr, deep(case["new"])), deep(case["doc"]))
    # the same through the pointer's STRING form (a patch document carries text), where the text is unambiguous
    text = str(ptr)
    if text_route_ok(text):
        out["replace_text"] = _apply(JSONPatch([{"op": "replace", "path": text, "value": deep(case["new"])}]), deep(case["doc"]))
        out["remove_text"] = _apply(JSONPatch().remove(text), deep(case["doc"]))
        out["test_text"] = _apply(JSONPatch([{"op": "test", "path": text, "value": deep(m.obj)}]), deep(case["doc"]))
    # the document given as JSON TEXT, patched several times in a row: every application starts from what the text says
    if isinstance(case["doc"], (dict, list)):
        jtxt = json.dumps(case["doc"])
        m2 = [x for x in jsonpath.finditer(case["query"], jtxt) if list(x.parts) == case["loc"]]
        out["text_document_same"] = bool(m2)
        if m2:
            p2 = m2[0].pointer()
            got = [_apply(JSONPatch().remove(p2), jtxt), _apply(JSONPatch().replace(p2, deep(case["new"])), jtxt), _apply(JSONPatch().test(p2, deep(m.obj)), jtxt),
                   _apply(JSONPatch().remove(p2), jtxt)]
            out["text_document_same"] = got == [out["remove"], out["replace"], out["test"], out["remove"]]
            if not out["text_document_same"]:
                out["text_document_counterexample"] = got
    return out


def _r(x):
    return ["ok", SX.canon(SX.sx2j(x[1]))] if x[0] == "ok" else ["err", x[1]]


def decode(sx, case):
    if sx[0] != "ok":
        return {"model": {"not-a-location": True}, "spec": {}, "in_domain": False}
    _, m, s, wf = sx
    model = {"pointer": SX.sx2s(m[0]), "test": _r(m[1]), "replace": _r(m[2]), "remove": _r(m[3]), "test_other": _r(m[4])}
    d = canon_unordered(SX.canon(SX.sx2j(s[1])))
    rep = s[2]
    rem = s[3]
    spec = {"pointer": SX.sx2s(s[0]), "test": ["ok", d],
            "replace": ["ok", canon_unordered(SX.canon(SX.sx2j(rep[1])))] if rep != "none" else "error",
            "remove": ["ok", canon_unordered(SX.canon(SX.sx2j(rem[1])))] if rem != "none" else "error",
            "test_other": ["ok", d] if s[4] == "true" else "test-failed"}
    if text_route_ok(model["pointer"]):
        for a, b in (("replace_text", "replace"), ("remove_text", "remove"), ("test_text", "test")):
            model[a] = model[b]
            spec[a] = spec[b]
    if isinstance(case["doc"], (dict, list)):
        model["text_document_same"] = True
        spec["text_document_same"] = True
    return {"model": model, "spec": spec, "in_domain": wf[1] == "true"}


def project(case, res, dec=None):
    if res.get("no_such_match"):
        return res
    out = {"pointer": res["pointer"]}
    if "text_document_same" in res:
        out["text_document_same"] = res["text_document_same"]
    for k in ("test", "replace", "remove", "test_other", "replace_text", "remove_text", "test_text"):
        if k not in res:
            continue
        r = res[k]
        if r[0] == "ok":
            out[k] = ["ok", canon_unordered(r[1])]
        elif r[1] == "patch-test":
            out[k] = "test-failed"
        elif r[1] == "patch":
            out[k] = "error"
        else:
            out[k] = r
    return out


def nontrivial(case, res):
    return len(case["loc"]) > 0


def classify(case, res):
    tags = ["depth=%d" % len(case["loc"])]
    for p in case["loc"]:
        if isinstance(p, str):
            if p.isdigit():
                tags.append("key:digits")
            elif p[:1] in "+-" and p[1:].isdigit():
                tags.append("key:signed")
            elif p[:1] in "#~":
                tags.append("key:#~")
            elif "/" in p or "~" in p:
                tags.append("key:slash-tilde")
    return sorted(set(tags))
