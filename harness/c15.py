"""C15 — a patch is a faithful, reusable value: document, builder and dict forms agree."""
import json

from jsonpath import JSONPatch

from . import sx as SX
from . import c05 as P
from .common import exc_name, gen_container, rfc6901_spell, deep

ID = "C15"
PROP_FILE = "props/C15.v"
RULE = ("operation lists of length 1..4 over the eight operation kinds (six standard + addne + addap) on small documents, "
        "with values that are containers later modified by a subsequent operation of the same patch; each list is built "
        "three ways (JSON document form, chain of builder calls, the patch's own asdicts() output) and as JSON text; the "
        "dict output, the op names, the effect on a document, a second application to an equal document, object identity "
        "between the two results and between results and the patch's stored values, and the patch / caller's list before "
        "and after are compared. non-trivial = at least 2 operations; distinct = distinct (ops, document)")
TRUSTED = ["object identity / in-place mutation are observed on the implementation only (the value model has no aliasing): "
           "the clauses 'applying never changes the patch' and 'results are independent' are harness-checked (partial)"]
ASSUMPTIONS = []

KINDS = ["add", "addne", "addap", "remove", "replace", "move", "copy", "test"]
VALUES = [1, [], {}, [1], {"k": []}, "s", None, True]
NAMES = ["a", "b", "0", "1", "x"]


def gen(rng, tier):
    n = 5000 if tier == "thorough" else 600
    for _ in range(n):
        doc = gen_container(rng, 3, 3, NAMES)
        paths = P.paths_for(doc)
        ops = []
        for _ in range(rng.randint(1, 4)):
            k = rng.choice(KINDS)
            p = rfc6901_spell(rng.choice(paths))
            if k in ("add", "addne", "addap", "replace"):
                ops.append([k, p, deep(rng.choice(VALUES))])
            elif k == "test":
                ops.append([k, p, deep(rng.choice(VALUES + [P.value_at(doc, rng.choice(paths))]))])
            elif k == "remove":
                ops.append([k, p])
            else:
                ops.append([k, rfc6901_spell(rng.choice(paths)), p])
        # a container value modified by a later operation of the same patch
        if rng.random() < 0.4:
            ops = [["add", "/zz", []], ["add", "/zz/-", 1]] + ops[:2] if isinstance(doc, dict) else [["add", "/0", {}], ["add", "/0/k", [1]]] + ops[:2]
        yield {"mode": rng.random() < 0.5, "ops": ops, "doc": doc}


_gen_main = gen


def gen(rng, tier):      # noqa: F811
    yield from _gen_main(rng, tier)
    # add / addne / addap side by side on member names that look like the non-standard key tokens, with and without the
    # sibling those tokens would fall back to
    docs = [{"foo": 1}, {"foo": 1, "#foo": 2}, {"a": 3, "~a": 2, "b": 4, "#b": [1]}, {"arr": [1, 2], "#0": 5, "0": 6}, {"x": {"k": None, "#k": 0}}, [1, {"a": 1}]]
    paths = ["/#foo", "/~0foo", "/foo", "/#b", "/#a", "/~0a", "/~0b", "/arr/#0", "/arr/#5", "/#zz", "/#0", "/0", "/x/#k", "/x/~0k", "/x/k", "/1/#a", "/1/~0a"]
    for doc in docs:
        for p in paths:
            for kind in ("add", "addne", "addap"):
                yield {"mode": True, "ops": [[kind, p, 9]], "doc": doc}
            yield {"mode": True, "ops": [["addne", p, 9], ["addne", p, 8], ["add", p, 7]], "doc": doc}
    # one container value used by two operations, then modified in one of the two places by a later operation
    for empty in ([], {}, [1], {"k": []}):
        inner = "/-" if isinstance(empty, list) else "/n"
        for k1 in ("add", "addne", "addap", "replace"):
            for k2 in ("add", "addne", "addap", "replace"):
                doc = {"a": 0, "b": 0} if "replace" in (k1, k2) else {}
                ops = [[k1, "/a", deep(empty)], [k2, "/b", deep(empty)], ["add", "/a" + inner, 1]]
                yield {"mode": True, "ops": ops, "doc": doc}
                yield {"mode": True, "ops": ops + [["test", "/b", deep(empty)], ["copy", "/b", "/c"], ["add", "/c" + inner, 2]], "doc": doc}
    # escape decoding switched off for the patch: the builder methods, the list-of-dicts form and the JSON text form must
    # all read a path containing a backslash literally
    bs_docs = [{"k\\u0041": 1, "kA": 2}, {"a\\nb": [1], "a\nb": [2]}, {"x": {"\\u00e9": 1, "é": 2}}, {"\\": 1, "\\\\": 2}]
    for doc in bs_docs:
        for loc, _ in P.all_locs(doc) if hasattr(P, "all_locs") else []:
            pass
        from .common import all_locs
        for loc, _ in all_locs(doc):
            if not loc:
                continue
            p = rfc6901_spell(loc)
            for ops in ([["replace", p, 9]], [["test", p, 1], ["remove", p]], [["add", p + "x", 3], ["copy", p, "/zz"]], [["addne", p, 9]],
                        [["move", p, "/moved"]]):
                yield {"mode": False, "ops": ops, "doc": doc}


to_sx = P.to_sx


def _ids(v, acc):
    if isinstance(v, (list, dict)):
        acc.add(id(v))
        for x in (v.values() if isinstance(v, dict) else v):
            _ids(x, acc)
    return acc


def _share(dicts):
    """equal container values of one operation list are ONE Python object (the caller reused a variable): the patch must
    still act as the JSON document form, where every value is its own"""
    seen = {}
    for d in dicts:
        if isinstance(d.get("value"), (list, dict)):
            k = repr(SX.canon(d["value"]))
            if k in seen:
                d["value"] = seen[k]
            else:
                seen[k] = d["value"]
    return dicts


def _build_with_builder(ops, mode, dicts=None):
    p = JSONPatch(unicode_escape=mode)
    for i, o in enumerate(ops):
        k = o[0]
        if k in ("add", "addne", "addap", "replace", "test"):
            getattr(p, k)(o[1], dicts[i]["value"] if dicts else deep(o[2]))
        elif k == "remove":
            p.remove(o[1])
        else:
            getattr(p, k)(o[1], o[2])
    return p


def impl(case):
    dicts = _share([P.op_to_dict(o) for o in case["ops"]])
    caller_before = SX.canon(dicts)
    out = {}
    try:
        p_doc = JSONPatch(dicts, unicode_escape=case["mode"])
        p_text = JSONPatch(json.dumps([P.op_to_dict(o) for o in case["ops"]]), unicode_escape=case["mode"])
        p_bld = _build_with_builder(case["ops"], case["mode"], _share([P.op_to_dict(o) for o in case["ops"]]))
        p_re = JSONPatch(p_doc.asdicts(), unicode_escape=case["mode"])
        # the documented Iterable[Mapping] form given as one-shot iterables and as a tuple
        p_iters = [JSONPatch(iter([P.op_to_dict(o) for o in case["ops"]]), unicode_escape=case["mode"]),
                   JSONPatch((P.op_to_dict(o) for o in case["ops"]), unicode_escape=case["mode"]),
                   JSONPatch(tuple(P.op_to_dict(o) for o in case["ops"]), unicode_escape=case["mode"])]
    except Exception as e:  # noqa: BLE001
        return {"build": ["err", exc_name(e)]}
    out["build"] = ["ok", [P.dict_to_op(d) for d in p_doc.asdicts()]]
    out["forms_same_dicts"] = (SX.canon(p_doc.asdicts()) == SX.canon(p_bld.asdicts()) == SX.canon(p_re.asdicts())
                               == SX.canon(p_text.asdicts())) and all(SX.canon(x.asdicts()) == SX.canon(p_doc.asdicts()) for x in p_iters)
    before = SX.canon(p_doc.asdicts())

    def app(p):
        try:
            return ["ok", SX.canon(p.apply(deep(case["doc"])))]
        except Exception as e:  # noqa: BLE001
            return ["err", exc_name(e)]
    r1 = None
    try:
        r1 = p_doc.apply(deep(case["doc"]))
        out["apply"] = ["ok", SX.canon(r1)]
    except Exception as e:  # noqa: BLE001
        out["apply"] = ["err", exc_name(e)]
    out["patch_unchanged"] = SX.canon(p_doc.asdicts()) == before
    out["caller_list_unchanged"] = SX.canon(dicts) == caller_before
    r2 = None
    try:
        r2 = p_doc.apply(deep(case["doc"]))
        out["apply_again"] = ["ok", SX.canon(r2)]
    except Exception as e:  # noqa: BLE001
        out["apply_again"] = ["err", exc_name(e)]
    if r1 is not None and r2 is not None:
        shared = _ids(r1, set()) & _ids(r2, set())
        stored = set()
        for d in p_doc.asdicts():
            if "value" in d:
                _ids(d["value"], stored)
        out["results_independent"] = not shared and not (_ids(r1, set()) & stored)
    else:
        out["results_independent"] = True
    out["forms_same_effect"] = app(p_bld) == app(p_re) == app(p_text) == out["apply"] and all(app(x) == out["apply"] for x in p_iters)
    if case["mode"]:
        import jsonpath.patch as _JP

        def app_fn():
            try:
                return ["ok", SX.canon(_JP.apply(iter([P.op_to_dict(o) for o in case["ops"]]), deep(case["doc"])))]
            except Exception as e:  # noqa: BLE001
                return ["err", exc_name(e)]
        if app_fn() != out["apply"]:
            out["forms_same_effect"] = False
    # documents given as JSON TEXT: equal texts are equal documents, every application starts from a fresh one
    if isinstance(case["doc"], (dict, list)):
        jtxt = json.dumps(case["doc"])

        def app_text(p):
            try:
                return ["ok", SX.canon(p.apply(jtxt))]
            except Exception as e:  # noqa: BLE001
                return ["err", exc_name(e)]
        t1, t2, t3 = app_text(p_doc), app_text(p_doc), app_text(p_re)
        if not (t1 == t2 == t3 == out["apply"]):
            out["forms_same_effect"] = False
            out["text_document_counterexample"] = {"first": t1, "second": t2, "reloaded": t3, "value": out["apply"]}
    # the same patch object applied again to the very object it has just patched in place, against fresh patch objects
    def twice(make):
        try:
            d0 = deep(case["doc"])
            return ["ok", SX.canon(make().apply(make().apply(d0)))]
        except Exception as e:  # noqa: BLE001
            return ["err", exc_name(e)]
    out["reapply_same_object_ok"] = twice(lambda: p_doc) == twice(lambda: JSONPatch([P.op_to_dict(o) for o in case["ops"]], unicode_escape=case["mode"]))
    ra = rel_applicable(case)
    if ra is not None:
        try:
            as_add = ["ok", SX.canon(JSONPatch([P.op_to_dict(["add"] + case["ops"][0][1:])], unicode_escape=case["mode"]).apply(deep(case["doc"])))]
        except Exception as e:  # noqa: BLE001
            as_add = ["err", exc_name(e)]
        want = ["ok", SX.canon(case["doc"])] if ra else as_add
        out["addne_relation_ok"] = out["apply"] == want
        if not out["addne_relation_ok"]:
            out["addne_relation_counterexample"] = {"addne": out["apply"], "expected": want}
    return out


def rel_applicable(case):
    """single addne whose parent part uses plain member names / indices only: 'addne differs from add only in leaving an
    existing object member untouched' can be read off the implementation alone (RFC 6901 reading of the last token as a
    literal member name), whatever the last token looks like"""
    if len(case["ops"]) != 1 or case["ops"][0][0] != "addne":
        return None
    path = case["ops"][0][1]
    if not path.startswith("/") or "\\" in path:
        return None
    toks = [t.replace("~1", "/").replace("~0", "~") for t in path.split("/")[1:]]
    cur = case["doc"]
    for t in toks[:-1]:
        if t.startswith(("#", "~")):
            return None
        if isinstance(cur, dict) and t in cur:
            cur = cur[t]
        elif isinstance(cur, list) and t.isascii() and t.isdigit() and (t == "0" or not t.startswith("0")) and int(t) < len(cur):
            cur = cur[int(t)]
        else:
            return None
    if not isinstance(cur, dict):
        return None
    return toks[-1] in cur


def decode(sx, case):
    d = P.decode(sx, case)
    d["model"].pop("parts_route_same", None)      # C05's own extra observation
    d["spec"] = {k: v for k, v in d["spec"].items() if k != "parts_route_same"}
    ra = rel_applicable(case)
    if ra is not None and not d.get("skip"):
        d["model"]["addne_relation_ok"] = True
        if not d["in_domain"] or not d["spec"]:
            # outside the theorems' hypothesis (the last token looks like a non-standard key token) but inside the
            # property's statement: used to find failing inputs
            d["in_domain"] = True
            d["spec"] = {"addne_relation_ok": True}
            d["search_domain"] = True
            m = d["model"]
            if m["build"][0] == "ok":
                m.update({"forms_same_dicts": True, "patch_unchanged": True, "caller_list_unchanged": True,
                          "apply_again": m["apply"], "results_independent": True, "forms_same_effect": True, "reapply_same_object_ok": True})
            return d
    m = d["model"]
    if m["build"][0] == "ok":
        m.update({"forms_same_dicts": True, "patch_unchanged": True, "caller_list_unchanged": True,
                  "apply_again": m["apply"], "results_independent": True, "forms_same_effect": True, "reapply_same_object_ok": True})
    sp = dict(d["spec"])
    if sp and ra is not None:
        sp["addne_relation_ok"] = True
    if sp:
        sp.update({"names": [o[0] for o in case["ops"]], "forms_same_dicts": True, "patch_unchanged": True,
                   "caller_list_unchanged": True, "apply_again": sp.get("apply"), "results_independent": True,
                   "forms_same_effect": True, "reapply_same_object_ok": True})
    d["spec"] = sp
    return d


def project(case, res, dec=None):
    if dec and dec.get("search_domain"):
        return {"addne_relation_ok": res.get("addne_relation_ok")}
    if res["build"][0] != "ok":
        return {"unexpected-build-error": res["build"]}
    base = P.project(case, {"build": res["build"], "apply": res["apply"]}, dec)
    again = P.project(case, {"build": res["build"], "apply": res["apply_again"]}, dec)
    out = {"apply": base["apply"], "apply_again": again["apply"], "names": [o[0] for o in res["build"][1]]}
    for k in ("forms_same_dicts", "patch_unchanged", "caller_list_unchanged", "results_independent", "forms_same_effect", "reapply_same_object_ok"):
        out[k] = res[k]
    if "addne_relation_ok" in res:
        out["addne_relation_ok"] = res["addne_relation_ok"]
    return out


def nontrivial(case, res):
    return len(case["ops"]) >= 2


def classify(case, res):
    return P.classify(case, res) if "apply" in res else ["build=" + str(res["build"][1])]
