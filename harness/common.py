"""Shared generators and canonicalisers for the harness modules."""
import copy

from . import sx as SX

# member names chosen to be nasty for paths, pointers and patches
NAME_POOL = [
    "a", "b", "c", "", "'", '"', "a'b", 'a"b', "/", "~", "~0", "~1", "a/b", "m~n", "0", "1", "2", "01", "+1", "-1", "-0", "-",
    " 1", "1 ", "1_0", "１", "#", "#a", "#0", "~a", "é", "中", "\U0001F600", "\n", "\t", " ", "\x01", "\x7f", "and", "or",
    "true", "null", "in", "$", "@", "*", "..", "a.b", "[0]", "a b", "_x", "x-y",
    "9007199254740992", "12345678901234567890",
    # names that BEGIN with a keyword of the filter language, digits-only names mixing ASCII and other decimal digits
    "nilsson", "Nile", "nil_count", "nullable", "nonesuch", "trueish", "falsey", "android", "order", "inner", "notable",
    "containsx", "undefinedx", "missingx", "Nonesuch", "Truest", "1٢", "1０", "-1٢",
    # strings that end in a line feed (where `$` and a full match part ways)
]
SCALARS_NL = ["ab\n", "a\n", "\n", "ab\n\n", "a\nb"]
NAME_POOL_BACKSLASH = ["\\", "a\\", "\\u0041", "\\n", "a\\/b"]

SCALARS = [None, True, False, 0, 1, -1, 2, 1.0, 0.0, 1.5, -2.5, "", "a", "b", "0", "1", "é", "ab", "ab\n", "a\n", "\n"]


def gen_scalar(rng):
    return rng.choice(SCALARS)


def gen_doc(rng, depth=3, width=3, names=None, allow_scalar_root=True):
    names = names or NAME_POOL
    if depth <= 0 or (allow_scalar_root and rng.random() < 0.2):
        return gen_scalar(rng)
    if rng.random() < 0.5:
        n = rng.randint(1, width + 1) if rng.random() < 0.8 else 0
        return [gen_doc(rng, depth - 1, width, names) for _ in range(n)]
    n = rng.randint(1, width) if rng.random() < 0.8 else 0
    ks = []
    for _ in range(n):
        k = rng.choice(names) if rng.random() < 0.7 else rng.choice(["a", "b", "c", "0", "1"])
        if k not in ks:
            ks.append(k)
    return {k: gen_doc(rng, depth - 1, width, names) for k in ks}


def gen_container(rng, depth=3, width=3, names=None):
    while True:
        d = gen_doc(rng, depth, width, names, allow_scalar_root=False)
        if isinstance(d, (list, dict)):
            return d


SMALL_DOCS = [
    None, True, 0, 1.5, "", "ab", [], {}, [1], [1, 2, 3], [[1], [2, [3]]], {"a": 1}, {"a": {"b": [1, 2]}},
    {"1": "one", "a": [10, 20]}, {"-": 1, "-1": 2, "01": 3, "+1": 4}, {"": {"": 0}}, {"~": 1, "/": 2, "~1": 3, "a/b": 4},
    {"#a": 1, "a": 2, "~b": 3, "b": 4}, [{"a": [True, None]}, "str", 2.5], {"a": "xy", "b": ["p", "q"]},
    {"é": [1], "\U0001F600": {"中": 2}}, {" ": 1, " 1": 2, "1 ": 3}, [0, [0, [0, [0]]]],
    {"0": {"0": {"0": 1}}}, {"a": [], "b": {}}, {"x": [1, {"y": [2, {"z": 3}]}]},
]


def all_locs(doc, loc=()):
    """Every (location, node) of a document, pre-order, document member order."""
    out = [(list(loc), doc)]
    if isinstance(doc, dict):
        for k, v in doc.items():
            out += all_locs(v, loc + (k,))
    elif isinstance(doc, list):
        for i, v in enumerate(doc):
            out += all_locs(v, loc + (i,))
    return out


def node_at(doc, loc):
    cur = doc
    for p in loc:
        cur = cur[p]
    return cur


def find_identity(doc, obj):
    """Location of the container object `obj` inside doc (by identity), or None."""
    if not isinstance(obj, (list, dict)):
        return None
    for loc, node in all_locs(doc):
        if node is obj:
            return loc
    return "not-in-document"


def loc_to_sx(loc):
    return [["k", SX.s2sx(p)] if isinstance(p, str) else ["x", p] for p in loc]


def sx_to_loc(x):
    out = []
    for p in x:
        if p[0] == "k":
            out.append(SX.sx2s(p[1]))
        else:
            out.append(SX.big_int(p[1]))
    return out


def rfc6901_spell(tokens):
    return "".join("/" + str(t).replace("~", "~0").replace("/", "~1") for t in tokens)


EXC_MAP = None


def exc_name(e):
    """Map an exception to the wire name used by ocaml/driver.ml (exn_name)."""
    import jsonpath.exceptions as X
    t = type(e)
    table = [
        (X.JSONPatchTestFailure, "patch-test"), (X.JSONPatchError, "patch"),
        (X.RelativeJSONPointerIndexError, "rel-index"), (X.RelativeJSONPointerSyntaxError, "rel-syntax"),
        (X.RelativeJSONPointerError, "rel-other"),
        (X.JSONPointerIndexError, "ptr-index"), (X.JSONPointerKeyError, "ptr-key"), (X.JSONPointerTypeError, "ptr-type"),
        (X.JSONPointerResolutionError, "ptr-resolution"), (X.JSONPointerError, "ptr-syntax"),
        (X.JSONPathSyntaxError, "jp-syntax"), (X.JSONPathTypeError, "jp-type"), (X.JSONPathIndexError, "jp-index"),
        (X.JSONPathNameError, "jp-name"), (X.JSONPathError, "jp-other"),
    ]
    for cls, name in table:
        if isinstance(e, cls):
            try:
                str(e)            # rendering the error as text must succeed too
            except Exception as e2:
                return f"str-failed-{type(e2).__name__}"
            return name
    if t.__name__ == "error" and t.__module__ in ("re", "sre_constants", "re._constants"):
        return "builtin-error"
    return "builtin-" + t.__name__


def parts_typed(parts):
    return [["int", p] if isinstance(p, int) and not isinstance(p, bool) else ["str", p] for p in parts]


def sx_parts_typed(x):
    out = []
    for p in x:
        if p[0] == "int":
            out.append(["int", SX.big_int(p[1])])
        else:
            out.append(["str", SX.sx2s(p[1])])
    return out


def parts_to_sx(parts):
    return [["int", p] if isinstance(p, int) and not isinstance(p, bool) else ["str", SX.s2sx(p)] for p in parts]


def deep(doc):
    return copy.deepcopy(doc)


def pointer_of_typed_parts(parts):
    """a JSONPointer holding exactly these parts (ints stay ints), the way JSONPathMatch.pointer() builds one - through
    the public constructor only (the text is the RFC 6901 spelling of the parts)"""
    from jsonpath import JSONPointer
    text = "".join("/" + str(p).replace("~", "~0").replace("/", "~1") for p in parts)
    return JSONPointer(text, parts=tuple(parts), unicode_escape=False)
