"""C12 — Query iterator operations behave as list slicing on the match sequence."""
import itertools

import jsonpath
from jsonpath.fluent_api import Query

ID = "C12"
PROP_FILE = "props/C12.v"
RULE = ("exhaustive chains of query-iterator operations (limit/head/first, skip/drop, tail/last, take, tee, "
        "first_one/one, last_one) on query 0 with counts {-1,0,1,2,5} over match sequences of length 0..4 "
        "(chain length <=2 quick, <=3 thorough), plus random programs of length <=8 addressing every live query "
        "(including those made by take/tee) over sequences of length 0..9; final drain through a randomly chosen "
        "view (iter/values/locations/items/pointers). non-trivial = at least one operation and a non-empty sequence; "
        "distinct = distinct (program, length, view, alias choice)")
EXHAUSTIVE = {"quick": False, "thorough": False}
TRUSTED = ["rt model of itertools.islice / itertools.tee / collections.deque(maxlen) / list() as documented by CPython "
           "(coq/model/Fluent.v header)"]
ASSUMPTIONS = ["itertools.tee children are independent as long as the teed query is not used again (the API documents "
               "it as unsafe); the model marks the teed query dead"]

COUNTS = [-1, 0, 1, 2, 5]
COUNTED = ["limit", "drop", "tail", "take", "tee"]
ALIASES = {"limit": ["limit", "head", "first"], "drop": ["drop", "skip"], "tail": ["tail", "last"],
           "first": ["first_one", "one", "<for-break>"], "last": ["last_one"], "take": ["take"], "tee": ["tee"]}
VIEWS = ["iter", "values", "locations", "items", "pointers"]


def all_ops_q0():
    ops = [[name, 0, n] for name in COUNTED for n in COUNTS]
    ops += [["first", 0], ["last", 0]]
    return ops


# an OBJECT document whose member names need care in every view (escape-looking, separators, tokens); member i holds i
AWKWARD = ["caf\\u00e9", "dir\\name", "C:\\x", "a/b", "~t", "\u00e9", "0", " ", "%41", "'q\"", "#k", ""]


def _rfc6901(name):
    return "/" + name.replace("~", "~0").replace("/", "~1")


def gen(rng, tier):
    ops0 = all_ops_q0()
    for L in range(0, 2):
        for chain in itertools.product(ops0, repeat=L):
            for n in (0, 1, 3, 12):
                for view in VIEWS:
                    if L == 0 or view in ("pointers", "locations", "items"):
                        yield {"ops": [list(o) for o in chain], "n": n, "view": view, "alias": (L + n) % 3, "shape": "object"}
    yield from _gen_lists(rng, tier)


def _gen_lists(rng, tier):
    maxlen = 3 if tier == "thorough" else 2
    ops0 = all_ops_q0()
    for L in range(0, maxlen + 1):
        for chain in itertools.product(ops0, repeat=L):
            for n in range(0, 5):
                yield {"ops": [list(o) for o in chain], "n": n, "view": VIEWS[(L + n) % 5], "alias": (L + n) % 3}
    nrand = 20000 if tier == "thorough" else 1500
    for _ in range(nrand):
        n = rng.randint(0, 9)
        live = 1
        ops = []
        for _ in range(rng.randint(1, 8)):
            q = rng.randrange(live + 1) if rng.random() < 0.1 else rng.randrange(live)
            kind = rng.choice(COUNTED + ["first", "last"])
            if kind in COUNTED:
                c = rng.choice([-1, 0, 1, 2, 3, 5, n, n + 1, max(n - 1, 0)])
                if kind == "tee":
                    c = rng.choice([-1, 0, 1, 2, 3])
                ops.append([kind, q, c])
                if q < live and c >= 0:
                    if kind == "take":
                        live += 1
                    elif kind == "tee":
                        live += c
            else:
                ops.append([kind, q])
        yield {"ops": ops, "n": n, "view": rng.choice(VIEWS), "alias": rng.randrange(3), "shape": rng.choice(["list", "list", "object"])}


def to_sx(case):
    return ["fluent", [list(o) for o in case["ops"]], list(range(case["n"]))]


def _mid(m):
    return m.obj


def _drain_object(q, view, data):
    """the views over an object document: every location / pointer must lead back to the member it came from"""
    by_ptr = {_rfc6901(k): v for k, v in data.items()}
    if view == "iter":
        return [_mid(m) for m in q]
    if view == "values":
        return list(q.values())
    out = []
    if view == "locations":
        for p in q.locations():
            got = jsonpath.findall(p, data)
            if len(got) != 1:
                return ["view-mismatch", p, got]
            out.append(got[0])
    elif view == "items":
        for p, o in q.items():
            if jsonpath.findall(p, data) != [o]:
                return ["view-mismatch", p, o]
            out.append(o)
    else:
        for ptr in q.pointers():
            s = str(ptr)
            if s not in by_ptr or ptr.resolve(data) != by_ptr[s]:
                return ["view-mismatch", s]
            out.append(by_ptr[s])
    return out


def _drain(q, view):
    if view == "iter":
        return [_mid(m) for m in q]
    if view == "values":
        return list(q.values())
    if view == "locations":
        out = []
        for p in q.locations():
            assert p.startswith("$[") and p.endswith("]"), p
            out.append(int(p[2:-1]))
        return out
    if view == "items":
        out = []
        for p, o in q.items():
            if p != f"$[{o}]":
                return ["view-mismatch", p, o]
            out.append(o)
        return out
    if view == "pointers":
        out = []
        for ptr in q.pointers():
            s = str(ptr)
            assert s.startswith("/"), s
            out.append(int(s[1:]))
        return out
    raise ValueError(view)


def impl(case):
    data = list(range(case["n"]))
    if case.get("shape") == "object":
        data = {AWKWARD[i]: i for i in range(min(case["n"], len(AWKWARD)))}
        if case["n"] > len(AWKWARD):
            return [[["exception", "harness: n too large for the object shape"]], []]
    # the query object comes from one of the wrappers; with a filter that reads the caller's filter context (every element
    # passes it) the sequence is the same one
    route = (case["alias"] + len(case["ops"])) % 4
    if route == 1:
        queries = [jsonpath.query("$[?@ >= _.lo]", data, filter_context={"lo": 0})]
    elif route == 2:
        queries = [jsonpath.JSONPathEnvironment().query("$[?@ >= _.lo && _.on]", data, filter_context={"lo": -1, "on": True})]
    elif route == 3:
        queries = [jsonpath.compile("$[?@ >= _.lo]").query(data, filter_context={"lo": 0})]
    else:
        queries = [jsonpath.query("$[*]" if isinstance(data, list) else "$.*", data)]
    dead = set()
    events = []
    for o in case["ops"]:
        kind, q = o[0], o[1]
        if q >= len(queries):
            continue
        names = ALIASES[kind]
        meth = names[case["alias"] % len(names)]
        Q = queries[q]
        if q in dead:
            Q = Query(iter(()), jsonpath.DEFAULT_ENV)
            queries[q] = Q
            dead.discard(q)
        try:
            if kind in ("limit", "drop", "tail"):
                r = getattr(Q, meth)(o[2])
                if r is not Q:
                    events.append("returned-other-object")
            elif kind == "take":
                new = Q.take(o[2])
                queries.append(new)
                events.append(["new", 1])
            elif kind == "tee":
                news = Q.tee(o[2])
                dead.add(q)
                queries.extend(news)
                events.append(["new", len(news)])
            elif meth == "<for-break>":
                # the caller's own loop, abandoned after the first match: the query goes on from the second
                m = None
                for m in Q:
                    break
                events.append(["item", "none" if m is None else _mid(m)])
            elif kind in ("first", "last"):
                m = getattr(Q, meth)()
                events.append(["item", "none" if m is None else _mid(m)])
        except ValueError:
            events.append("valueerror")
        except Exception as e:  # any other exception is a finding in itself
            events.append(["exception", type(e).__name__])
    finals = []
    for i, Q in enumerate(queries):
        if i in dead:
            finals.append([])
        else:
            try:
                finals.append(_drain(Q, case["view"]) if isinstance(data, list) else _drain_object(Q, case["view"], data))
            except Exception as e:  # noqa: BLE001  (a view that raises while being consumed is a finding)
                finals.append(["view-raised", type(e).__name__])
    return [events, finals]


def _obs(x):
    evs, qs = x
    out_e = []
    for e in evs:
        if e == "valueerror":
            out_e.append("valueerror")
        elif e[0] == "item":
            out_e.append(["item", "none" if e[1] == "none" else int(e[1])])
        elif e[0] == "new":
            out_e.append(["new", int(e[1])])
    return [out_e, [[int(v) for v in q] for q in qs]]


def decode(sx, case):
    assert sx[0] == "ok", sx
    return {"model": _obs(sx[1]), "spec": _obs(sx[2]), "in_domain": True}


def nontrivial(case, res):
    return len(case["ops"]) > 0 and case["n"] > 0


def classify(case, res):
    tags = [f"len={case['n']}", f"chain={len(case['ops'])}", f"view={case['view']}"]
    for o in case["ops"]:
        tags.append(f"op={o[0]}")
        if len(o) > 2:
            tags.append("count<0" if o[2] < 0 else ("count=0" if o[2] == 0 else ("count>len" if o[2] > case["n"] else "count<=len")))
    for e in res[0]:
        if e == "valueerror":
            tags.append("event=valueerror")
    return tags


def shrink(case, still_fails):
    cur = case
    changed = True
    while changed:
        changed = False
        for i in range(len(cur["ops"])):
            cand = dict(cur, ops=cur["ops"][:i] + cur["ops"][i + 1:])
            if still_fails(cand):
                cur = cand
                changed = True
                break
        if not changed and cur["n"] > 0:
            cand = dict(cur, n=cur["n"] - 1)
            if still_fails(cand):
                cur = cand
                changed = True
    return cur
