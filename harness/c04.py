"""C04 — JSON Pointer resolution conforms to RFC 6901 for every document and pointer."""
import jsonpath
from jsonpath import JSONPointer
from jsonpath.exceptions import JSONPointerResolutionError

from . import sx as SX
from .common import (NAME_POOL, NAME_POOL_BACKSLASH, SMALL_DOCS, all_locs, exc_name, find_identity, gen_doc,
                     parts_typed, rfc6901_spell, sx_parts_typed, sx_to_loc, deep)

ID = "C04"
PROP_FILE = "props/C04.v"
RULE = ("every location of every document of a fixed small universe and of random documents (depth<=3, width<=3, nasty "
        "member-name pool) spelled as an RFC 6901 pointer, in both escape-decoding modes; every one-token mutation of "
        "every location with a look-alike pool ('+1',' 1','1_0','01','-0','-','#a','~a', full-width digits, past-the-end "
        "indices, tokens applied to scalars and strings); with and without a default. non-trivial = pointer has >=1 token; "
        "distinct = distinct (mode, pointer text, document, default)")
TRUSTED = ["the 'unicode-escape' codec and urllib unquote are not modelled: pointers with a backslash under "
           "unicode_escape=True are outside the model (EUnsupported) and outside the property's clause"]
ASSUMPTIONS = ["documents are built from dict/list/str/int/float/bool/None with distinct container objects"]

LOOKALIKES = ["+1", " 1", "1 ", "1_0", "01", "00", "-0", "-1", "-", "#", "#0", "#1", "#a", "~a", "~0", "１", "1", "0", "2", "3",
              "a", "", "zz", "é", "9007199254740992", "-9007199254740992", "1e0", "0x1", "٣",
              # an ASCII lead digit followed by other decimal digits (Nd): names, never indices
              "1０", "1٠", "2१", "1٣", "-1０", "1０0", "10", "11", "13"]

# documents in which the look-alikes are members beside their ASCII twins, and arrays long enough for the twin's index
LOOKALIKE_DOCS = [
    {"1０": "fullwidth", "10": "ascii", "1٠": "arabic", "2१": "devanagari", "21": "ascii21", "１": "fw1", "1": "one"},
    {"a": list(range(100, 123)), "b": {"1０": [1, 2], "10": [3]}},
    list(range(14)),
    # index-looking member names holding null and other falsy values (a missing member is not a null member)
    {"a": {"0": None, "7": None, "-1": None, "1": 0, "2": False, "3": "", "4": []}, "5": None, "0": None},
    {"0": {"0": None}, "1": [None, 0, False]},
]


def _cases_for_doc(doc, rng, dense):
    if isinstance(doc, str):
        return      # the API reads a top-level str as JSON text, not as a document value
    locs = all_locs(doc)
    for loc, node in locs:
        for mode in (True, False):
            text = rfc6901_spell(loc)
            yield {"mode": mode, "text": text, "doc": doc, "default": None, "has_default": False}
        if not dense and rng.random() < 0.5:
            continue
        # one-token mutations: replace a token, or append a token
        for tok in (LOOKALIKES if dense else rng.sample(LOOKALIKES, 6)):
            mode = rng.random() < 0.5
            has_default = rng.random() < 0.3
            ext = loc + [tok]
            yield {"mode": mode, "text": rfc6901_spell(ext), "doc": doc, "default": "DFLT" if has_default else None,
                   "has_default": has_default}
            if loc:
                i = rng.randrange(len(loc))
                mut = loc[:i] + [tok] + loc[i + 1:]
                yield {"mode": not mode, "text": rfc6901_spell(mut), "doc": doc, "default": None, "has_default": False}
                # a pointer that fails BEFORE its last token, with a default that is itself a container holding the remaining
                # tokens (or the document itself): the default is returned whole, nothing is looked up inside it
                rest = [str(t) for t in mut[i + 1:]] + [str(t) for t in loc]
                inside = "INSIDE"
                for t in reversed(rest[:3]):
                    inside = {t: inside, "0": inside}
                for dflt in (inside, ["IN0", ["IN00"], {"0": "IN1"}], doc if isinstance(doc, (dict, list)) else [doc]):
                    if rng.random() < (1.0 if dense else 0.4):
                        yield {"mode": not mode, "text": rfc6901_spell(mut + ["0"]), "doc": doc, "default": dflt, "has_default": True}
                        yield {"mode": not mode, "text": rfc6901_spell(mut), "doc": doc, "default": dflt, "has_default": True}
        if isinstance(node, list):
            for tok in (str(len(node)), str(len(node) + 1), str(max(len(node) - 1, 0))):
                yield {"mode": True, "text": rfc6901_spell(loc + [tok]), "doc": doc, "default": None, "has_default": False}


def gen(rng, tier):
    k = 0
    for case in _gen(rng, tier):
        k += 1
        if not isinstance(case["doc"], str):      # the API reads a top-level str ARGUMENT as JSON text ...
            yield case
            if k % 7 == 0:
                yield dict(case, as_text=True)
        else:                                     # ... so a document whose root is a string is given as its JSON text
            yield dict(case, as_text=True)
    # root strings that themselves spell JSON: the root is still a string (no reference token applies to it)
    for doc in ("[10, 20]", '{"a": {"b": 1}}', "42", "null", '"x"', "", "{", "a"):
        for text in ("", "/0", "/1", "/a", "/a/b", "/", "/-"):
            for dflt in (None, {"a": 1}):
                yield {"mode": True, "text": text, "doc": doc, "default": dflt, "has_default": dflt is not None, "as_text": True}


def _gen(rng, tier):
    for doc in SMALL_DOCS + LOOKALIKE_DOCS:
        yield from _cases_for_doc(doc, rng, dense=True)
    n = 1200 if tier == "thorough" else 120
    for _ in range(n):
        doc = gen_doc(rng, 3, 3, NAME_POOL)
        yield from _cases_for_doc(doc, rng, dense=False)
    # names with backslashes: only the escape-free mode is inside the clause
    for _ in range(60 if tier == "thorough" else 15):
        doc = gen_doc(rng, 2, 3, NAME_POOL_BACKSLASH + ["a", "b"])
        for loc, _ in all_locs(doc):
            yield {"mode": False, "text": rfc6901_spell(loc), "doc": doc, "default": None, "has_default": False}
    for doc in ({"\\u0041": 2, "A": 1}, {"arr": [{"\\u00e9": 3, "é": 4}]}, {"\\n": 1, "\n": 2}, {"a\\u0062": 1, "ab": 2}):
        for loc, _ in all_locs(doc):
            yield {"mode": False, "text": rfc6901_spell(loc), "doc": doc, "default": "DFLT", "has_default": True}
        for k in list(doc):
            d2 = {x: v for x, v in doc.items() if x != k}
            yield {"mode": False, "text": rfc6901_spell([k]), "doc": d2, "default": "DFLT", "has_default": True}
    # syntactically invalid pointers (outside the clause; model correspondence only)
    for text in ["a", "a/b", " /a", "  ", "/a~", "/~2", "~", "/a/~"]:
        yield {"mode": True, "text": text, "doc": {"a": 1, "~": 2, "a~": 3}, "default": None, "has_default": False}


def to_sx(case):
    return ["ptr-resolve", case["mode"], SX.s2sx(case["text"]), SX.j2sx(case["doc"]),
            SX.j2sx(case["default"]) if case["has_default"] else "none"]


def _outcome(doc, f):
    try:
        v = f()
    except Exception as e:  # noqa: BLE001
        return ["err", exc_name(e)]
    return ["value", SX.canon(v), find_identity(doc, v)]


def _no_identity(o):
    if isinstance(o, list) and o and o[0] == "value":
        o[2] = None
    return o


def impl(case):
    out = _impl(case)
    if case.get("as_text"):
        for k in ("resolve", "resolve_fn", "default"):
            if k in out:
                _no_identity(out[k])
    return out


def _impl(case):
    doc = deep(case["doc"])
    if case.get("as_text"):
        import json as _json
        doc = _json.dumps(case["doc"])       # a str argument is read as JSON text (every call parses it afresh)
    try:
        # the same text was given before, with the other escape-decoding setting: nothing of that may show
        JSONPointer(case["text"], unicode_escape=not case["mode"]).exists(doc)
    except Exception:  # noqa: BLE001
        pass
    try:
        p = JSONPointer(case["text"], unicode_escape=case["mode"])
    except Exception as e:  # noqa: BLE001
        return {"parse": ["err", exc_name(e)]}
    out = {"parse": ["ok", parts_typed(p.parts), str(p)]}
    out["resolve"] = _outcome(doc, lambda: p.resolve(doc))
    out["resolve_fn"] = _outcome(doc, lambda: jsonpath.pointer.resolve(case["text"], doc, unicode_escape=case["mode"]))
    try:
        out["exists"] = ["ok", p.exists(doc)]
    except Exception as e:  # noqa: BLE001
        out["exists"] = ["err", exc_name(e)]
    if case["has_default"]:
        dflt = deep(case["default"])
        out["default"] = _outcome(doc, lambda: p.resolve(doc, default=dflt))
        if out["default"][0] == "value" and out["default"][2] == "not-in-document" and out["default"][1] == SX.canon(case["default"]):
            out["default"][2] = None          # the default itself came back (a container default is not a node of the document)
        out["default_unchanged"] = SX.canon(dflt) == SX.canon(case["default"])
    out["doc_unchanged"] = True if case.get("as_text") else SX.canon(doc) == SX.canon(case["doc"])
    return out


def _rv(x):
    if x[0] == "node":
        v = SX.sx2j(x[2])
        loc = sx_to_loc(x[1])
        return ["value", SX.canon(v), loc if isinstance(v, (list, dict)) else None]
    return ["value", SX.canon(SX.sx2j(x[1])), None]


def _res(x, f):
    if x[0] == "ok":
        return f(x[1])
    return ["err", x[1]]


def decode(sx, case):
    _, m, s = sx
    if m[0] == "parse-err":
        model = {"parse": ["err", m[1]]}
    else:
        model = {"parse": ["ok", sx_parts_typed(m[1]), SX.sx2s(m[2])]}
        model["resolve"] = _res(m[3], _rv)
        model["resolve_fn"] = model["resolve"]
        model["exists"] = _res(m[4], lambda b: ["ok", b == "true"]) if m[4][0] == "ok" else ["err", m[4][1]]
        if case["has_default"]:
            model["default"] = _res(m[5], _rv)
            model["default_unchanged"] = True
        model["doc_unchanged"] = True
    syntax = s[0] == "true"
    ev = s[1]
    flags = {k[0]: k[1] == "true" for k in s[2:6]}
    unsupported = "unsupported" in SX.dump(m)
    mode_ok = (not case["mode"]) or flags["no-backslash"]
    if ev != "none":
        loc = sx_to_loc(ev[1][0])
        v = SX.sx2j(ev[1][1])
        outcome = ["value", SX.canon(v), loc if isinstance(v, (list, dict)) else None]
        exists = True
    else:
        outcome = "resolution-error"
        exists = False
    spec = {"resolve": outcome, "resolve_fn": outcome, "exists": exists, "doc_unchanged": True}
    if case["has_default"]:
        spec["default_unchanged"] = True
        spec["default"] = outcome if exists else ["value", SX.canon(case["default"]), None]
    in_domain = (syntax and mode_ok and flags["wf"] and flags["within-limits"] and not unsupported
                 and (ev != "none" or flags["outside-ext"]))
    if case.get("as_text"):
        for d_ in (model, spec):
            for k in ("resolve", "resolve_fn", "default"):
                if k in d_:
                    d_[k] = _no_identity(list(d_[k]) if isinstance(d_[k], list) else d_[k])
    return {"model": model, "spec": spec, "in_domain": in_domain, "skip": unsupported,
            "flags": dict(flags, syntax=syntax, found=ev != "none")}


RESOLUTION = {"ptr-index", "ptr-key", "ptr-type", "ptr-resolution"}


def _proj_outcome(o):
    if o[0] == "err":
        return "resolution-error" if o[1] in RESOLUTION else o
    return o


def project(case, res, dec=None):
    if res.get("parse", ["err"])[0] != "ok":
        return {"parse": res.get("parse")}
    out = {"resolve": _proj_outcome(res["resolve"]), "resolve_fn": _proj_outcome(res["resolve_fn"]),
           "exists": res["exists"][1] if res["exists"][0] == "ok" else res["exists"], "doc_unchanged": res["doc_unchanged"]}
    if case["has_default"]:
        out["default_unchanged"] = res.get("default_unchanged")
        out["default"] = _proj_outcome(res["default"])
    return out


def known(case, res, dec):
    # an object member whose name is a canonical integer outside the index limits cannot be addressed
    if dec.get("flags", {}).get("found") and not dec["flags"].get("within-limits", True):
        return "C04-member-name-beyond-index-limit"
    return None


def nontrivial(case, res):
    return case["text"] != ""


def classify(case, res):
    tags = ["mode=" + ("escape" if case["mode"] else "plain"), "default" if case["has_default"] else "nodefault"]
    if res.get("parse", ["err"])[0] != "ok":
        tags.append("parse-error=" + str(res["parse"][1]))
    else:
        r = res["resolve"]
        tags.append("resolve=" + (r[1] if r[0] == "err" else "value"))
    return tags
