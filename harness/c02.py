"""C02 — RFC 9535 filter expressions select exactly the nodes the RFC makes true."""
import itertools

from . import qgen as Q
from . import c01 as BASE
from . import sx as SX
from .common import gen_container, deep, exc_name

ID = "C02"
PROP_FILE = "props/C02.v"
RULE = ("(a) the comparison table, exhaustively: every ordered pair of a value universe (each JSON type, absent, "
        "0/0.0/1/1.0/true/false look-alikes, strings, nested containers with boolean/number twins, objects in both member "
        "orders) x the six comparison operators x operand forms (singular query both sides; literal on either side for "
        "primitive values); (b) existence tests on every value; (c) random well-typed filter expressions (depth<=3: "
        "! && || with and without parentheses, comparisons among literals, singular queries, length/count/value, "
        "match/search with patterns of the common regex dialect, nested filters referring to $ and @) x documents. "
        "non-trivial = the filter is evaluated on at least one candidate; distinct = distinct (query text, document)")
TRUSTED = ["regular expressions: rt/Regex.v implements the common dialect for execution only; patterns outside it are "
           "skipped (outside the model)"]
ASSUMPTIONS = BASE.ASSUMPTIONS

ABSENT = "__absent__"
UNIVERSE = [
    ABSENT, None, True, False, 0, 1, 2, -1, 0.0, 1.0, 1.5, "", "0", "1", "a", "b", "ab", "é", "true",
    [], [1], [True], [1.0], [0], [False], [[1]], [[True]], [1, 2], [2, 1], ["a"],
    {}, {"a": 1}, {"a": True}, {"a": 1.0}, {"a": 1, "b": 2}, {"b": 2, "a": 1}, {"a": [1]}, {"a": [True]}, {"a": None},
    # objects that differ only in WHICH member holds null / in a missing member beside a null one
    {"b": None}, {"a": None, "n": 1}, {"n": 1, "m": None}, {"a": 1, "b": None}, {"a": 1, "c": None}, [{"k": None, "n": 1}], [{"n": 1, "m": None}],
]
OPS = ["==", "!=", "<", "<=", ">", ">="]


def is_prim(v):
    return v is not ABSENT and not isinstance(v, (list, dict))


def table_cases(thorough):
    for a, b in itertools.product(UNIVERSE, repeat=2):
        doc_item = {}
        if a is not ABSENT:
            doc_item["l"] = a
        if b is not ABSENT:
            doc_item["r"] = b
        doc = [doc_item]
        for op in OPS:
            forms = [(["self", ["sel", ["name", "l"]]], ["self", ["sel", ["name", "r"]]])]
            if is_prim(a):
                forms.append((["lit", a], ["self", ["sel", ["name", "r"]]]))
            if is_prim(b):
                forms.append((["self", ["list", ["name", "l"]]], ["lit", b]))
            if is_prim(a) and is_prim(b) and thorough:
                forms.append((["lit", a], ["lit", b]))
            for l, r in forms:
                yield {"segs": [["list", ["filter", ["op", op, l, r]]]], "doc": doc, "seed": 3}


def gen(rng, tier):
    thorough = tier == "thorough"
    tc = list(table_cases(thorough))
    if not thorough:
        tc = [c for i, c in enumerate(tc) if i % 4 == rng.randrange(4) or i < 400]
    yield from tc
    # existence: a bare query is an existence test whatever the value
    for v in UNIVERSE:
        if v is ABSENT:
            continue
        yield {"segs": [["list", ["filter", ["self"]]]], "doc": [v, {"a": v}], "seed": 4}
        yield {"segs": [["list", ["filter", ["self", ["sel", ["name", "a"]]]]]], "doc": [v, {"a": v}, {}], "seed": 5}
        yield {"segs": [["list", ["filter", ["not", ["self", ["sel", ["name", "a"]]]]]]], "doc": [v, {"a": v}, {}], "seed": 6}
    # match / search against strings that end in a line feed (a full match is not "matches up to a final line feed"),
    # contain one, or are empty
    strs = ["ab", "ab\n", "a", "a\n", "\n", "", "b\n", "aab\n\n", "é\n", "a\nb", "\na", "1\n", "ab\r", "ab\r\n", "-", ".", "z", "^", "]", "0", "/",
            "9", "+", ",", "\u212a", "\u017f", "k", "K", "s"]
    # character classes with dashes, escapes and carets at every position (where a range starts and ends)
    CLASSES = ["[\\.-z]", "[a\\--z]", "[-a]", "[a-]", "[a^]", "[^\\.-0]", "[a-z-9]", "[--a]", "[\\]-a]", "[-\\.-z^a-]", "[+--]", "[\\-]", "[^-]", "[.]", "[a.]"]
    for pat in Q.PATTERNS + ["ab", "[a-z]*", "a\\nb", "(a|ab)", ".*", "a.", ".b", "", "a*", "[^b]*"] + CLASSES:
        for fn in ("match", "search"):
            doc = strs + [{"s": x, "p": pat} for x in strs]
            yield {"segs": [["list", ["filter", ["fn", fn, ["self"], ["lit", pat]]]]], "doc": doc, "seed": 7}
            yield {"segs": [["list", ["filter", ["not", ["fn", fn, ["self", ["sel", ["name", "s"]]], ["lit", pat]]]]]], "doc": doc, "seed": 8}
            yield {"segs": [["list", ["filter", ["op", "&&", ["fn", fn, ["self", ["sel", ["name", "s"]]], ["self", ["sel", ["name", "p"]]]],
                                                  ["self", ["sel", ["name", "s"]]]]]]], "doc": doc, "seed": 9}
    # the pattern comes from the node: unusable patterns on consecutive nodes, after usable ones (each is LogicalFalse)
    from . import c09 as C09
    for c in C09.pattern_history_cases():
        yield {"segs": c["query"]["first"]["segs"], "doc": c["doc"], "seed": 12}
    # length() counts characters (Unicode scalar values), also above U+FFFF; of arrays / objects their members
    ldoc = ["a", "\U0001F600", "ab", "\u00e9", "\U0001D11Ex", "", "\U0001F468\u200d\U0001F469", [1, 2], {"k": 1}, [], 5, None,
            {"a": "\U0001F600", "b": "x"}, {"a": "\U0001F600", "b": "xy"}, {"a": "\U0001D11E\U0001D11E", "b": "ab"}]
    for n in (0, 1, 2, 3):
        for op in ("==", "<", ">="):
            yield {"segs": [["list", ["filter", ["op", op, ["fn", "length", ["self"]], ["lit", n]]]]], "doc": ldoc, "seed": 15}
    yield {"segs": [["list", ["filter", ["op", "==", ["fn", "length", ["self", ["sel", ["name", "a"]]]], ["fn", "length", ["self", ["sel", ["name", "b"]]]]]]]], "doc": ldoc, "seed": 15}
    # integer literals written with an exponent, up to where a double no longer holds the power of ten exactly
    big = [int(float("1e23")), int(float("2e23")), int(float("3e25")), 10 ** 22, 100, 1500, -20, int(float("1e300"))]
    for v in big:
        for w in (float(v), v, v + 1 if abs(v) < 2 ** 53 else v * 2, float(v) * 2, str(v), None, True):
            for op in OPS:
                for seed in (21, 22):
                    yield {"segs": [["list", ["filter", ["op", op, ["self"], ["lit", v]]]]], "doc": [w, {"n": w}, [w]], "seed": seed}
                    yield {"segs": [["list", ["filter", ["op", op, ["lit", v], ["self", ["sel", ["name", "n"]]]]]]], "doc": [w, {"n": w}, [w]], "seed": seed}
    # operands in which one container value occurs twice (the shared-parts route makes them one object): equal at the first
    # occurrence, different at the second
    rep = [[{"k": 1}, {"k": 1}], [{"k": 1}, {"k": 2}], [[1], [1]], [[1], [2]], {"x": [1], "y": [1]}, {"x": [1], "y": [2]}, [[], []], [[], [0]], [{}, {}], [{}, {"a": {}}]]
    for l in rep:
        for r in rep:
            for op in OPS:
                yield {"segs": [["list", ["filter", ["op", op, ["self", ["sel", ["name", "l"]]], ["self", ["sel", ["name", "r"]]]]]]],
                       "doc": [{"l": l, "r": r}, {"l": r, "r": l}], "seed": 13}
            yield {"segs": [["list", ["name", "items"]], ["list", ["filter", ["op", "==", ["self"], ["root", False, ["sel", ["name", "ref"]]]]]]],
                   "doc": {"items": [l, r, l], "ref": r}, "seed": 14}
    names = ["a", "b", "c", "d", "0", "1"]
    n = 12000 if thorough else 1200
    for _ in range(n):
        doc = gen_container(rng, 4, 3, names)
        e = Q.gen_logical(rng, rng.randint(0, 3))
        pre = Q.gen_segs_for_doc(rng, doc, 2) if rng.random() < 0.4 else []
        if not BASE.std_ok(pre):
            pre = []
        yield {"segs": pre + [["list", ["filter", e]]], "doc": doc, "seed": rng.randrange(1 << 30)}


text_of = BASE.text_of
to_sx = BASE.to_sx


def impl(case):
    """the compiled query is first used on the same document OBJECT holding other contents (values rotated), the object is
    then given the case's contents in place and the query is applied again: `$` must denote the query argument as it is now"""
    import jsonpath
    text = text_of(case)
    out = {"text": text}
    try:
        c = jsonpath.compile(text)
    except Exception as e:  # noqa: BLE001
        out["compile"] = ["err", exc_name(e)]
        return out
    doc = deep(case["doc"])
    if isinstance(doc, dict) and len(doc) > 0:
        ks = list(doc.keys())
        vs = [deep(doc[k]) for k in ks]
        obj = dict(zip(ks, vs[1:] + vs[:1]))
        obj["zz"] = 1
    elif isinstance(doc, list) and len(doc) > 0:
        obj = [deep(x) for x in reversed(doc)] + [1]
    else:
        obj = doc
    if obj is not doc:
        try:
            list(c.finditer(obj))
        except Exception:  # noqa: BLE001
            pass
        if isinstance(obj, dict):
            obj.clear()
            obj.update(doc)
        else:
            obj[:] = doc
    from .evalbase import used_before
    used_before(c, obj)
    try:
        out["matches"] = BASE.show_matches(list(c.finditer(obj)))
    except Exception as e:  # noqa: BLE001
        out["matches"] = ["err", exc_name(e)]
    out["doc_unchanged"] = SX.canon(obj) == SX.canon(case["doc"])
    if isinstance(out["matches"], list) and out["matches"][:1] != ["err"]:
        from .evalbase import entry_points
        out["entry_points"] = entry_points(text, case["doc"], reference=["ok", [m[2] for m in out["matches"]]])
    return out


decode = BASE.decode
project = BASE.project
classify_base = BASE.classify


def nontrivial(case, res):
    return True


def _walk(e, tags):
    if isinstance(e, list):
        if e and e[0] == "op":
            tags.append("op=" + e[1])
        elif e and e[0] == "fn":
            tags.append("fn=" + e[1])
        elif e and e[0] in ("not", "self", "root", "lit"):
            tags.append("node=" + e[0])
        for x in e:
            _walk(x, tags)


def classify(case, res):
    tags = []
    _walk(case["segs"], tags)
    if "matches" in res and not (res["matches"] and res["matches"][0] == "err"):
        tags.append("selected=" + ("0" if not res["matches"] else "some"))
    elif "compile" in res:
        tags.append("compile-error=" + res["compile"][1])
    else:
        tags.append("eval-error")
    return tags
