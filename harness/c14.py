"""C14 — JSON Pointer text, tokens and navigation operations are mutually consistent."""
import itertools

from jsonpath import JSONPointer

from . import sx as SX
from .common import (pointer_of_typed_parts, SMALL_DOCS, exc_name, find_identity, parts_typed, parts_to_sx, rfc6901_spell, sx_parts_typed,
                     sx_to_loc, deep)

ID = "C14"
PROP_FILE = "props/C14.v"
RULE = ("pointer expressions built from parse / from_parts / parts-as-given (match style: int for indices) / parent / "
        "slash operator / join, over token sequences drawn from the units {~0 ~1 0 1 + - _ SP # é a 9 01 -1 ''}: "
        "exhaustive single tokens of <=2 units and all token pairs of 1 unit, sampled longer sequences and chains of "
        "join/parent up to length 4; each pair of expressions compared for ==, hash, is_relative_to both ways, text, and "
        "resolution on a document. non-trivial = at least one token; distinct = distinct (expr1, expr2, document)")
TRUSTED = ["unicode-escape codec / unquote not modelled (texts with a backslash are outside the clause and the model)"]
ASSUMPTIONS = []

UNITS = ["~0", "~1", "0", "1", "+", "-", "_", " ", "#", "é", "a", "9"]
EXTRA_TOKENS = ["%41", "a%2Fb", "%7E0", "%", "", "01", "-1", "-0", "10", "1_0", "+1", " 1", "1 ", "#0", "#a", "~0a", "a~1b", "\U0001F600", "00", "9007199254740993",
                # an ASCII digit followed by decimal digits of other scripts (what `\\d` and int() accept and [0-9] does not), superscripts
                "1٣", "-1٣", "٣", "1０", "1²", "²"]
DOCS = [{"a": {"b": [1, 2]}, "0": "zero", "1": [10, 20, {"a": 5}], "": {"": 7}, "~": {"/": 8}, "/": 9, "+1": 1, "-1": [3],
         "01": 4, " ": 5, "#": 6, "é": [0], "a/b": {"m~n": 1},
         "1٣": 14, "13": [15], "10": 16, "1０": 17},
        [[0, 1, [2, 3]], {"a": [4]}, "s", 5],
        {"0": [{"0": [1]}]},
        # members named like the non-standard key tokens NEXT TO the members those tokens would name
        {"#a": 1, "a": 2, "~a": {"#a": 3, "a": 4}, "#": 5, "": 7, "~": [8], "#0": 9, "0": {"#0": 10, "0": 11}, "~0a": 12, "0a": 13}]


def unesc(t):
    return t.replace("~1", "/").replace("~0", "~")


def token_pool():
    toks = [""] + UNITS + [a + b for a in UNITS for b in UNITS] + EXTRA_TOKENS
    return list(dict.fromkeys(toks))


def as_given(tokens):
    """parts the way JSONPathMatch carries them: ints for canonical indices, str otherwise (unescaped)."""
    out = []
    for t in tokens:
        u = unesc(t)
        if u.isascii() and u.isdigit() and (u == "0" or not u.startswith("0")) and len(u) < 16:
            out.append(int(u))
        else:
            out.append(u)
    return out


def gen(rng, tier):
    pool = token_pool()
    docs = DOCS + [d for d in SMALL_DOCS if isinstance(d, (dict, list))]
    k = 0

    def doc():
        nonlocal k
        k += 1
        return docs[k % len(docs)]

    # text round trip and construction equivalence, single tokens and pairs
    seqs = [[]] + [[t] for t in pool] + [[a, b] for a in UNITS + ["", "01", "-1"] for b in UNITS + ["", "01", "-1"]]
    seqs += [["", "", "a"], ["", ""], ["", "", ""], ["", "a", ""], ["a", "", ""]]
    nrand = 3000 if tier == "thorough" else 300
    for _ in range(nrand):
        seqs.append([rng.choice(pool) for _ in range(rng.randint(1, 4))])
    for ts in seqs:
        text = "".join("/" + t for t in ts)          # tokens are already in escaped form
        mode = (len(text) % 2 == 0)
        yield {"e1": ["parse", mode, text], "e2": ["parse", not mode, text], "doc": doc()}
        un = [unesc(t) for t in ts]
        yield {"e1": ["parse", mode, text], "e2": ["from-parts", mode, parts_typed(un)], "doc": doc()}
        yield {"e1": ["of-parts", parts_typed(as_given(ts))], "e2": ["from-parts", True, parts_typed(as_given(ts))], "doc": doc()}
        yield {"e1": ["parse", True, text], "e2": ["of-parts", parts_typed(as_given(ts))], "doc": doc()}
        if ts:
            # join the last token onto the rest; parent of the joined pointer
            base = "".join("/" + t for t in ts[:-1])
            yield {"e1": ["div", ["parse", True, base], ts[-1]], "e2": ["parse", True, base], "doc": doc()}
            yield {"e1": ["parent", ["div", ["parse", True, base], ts[-1]]], "e2": ["parse", True, base], "doc": doc()}
            yield {"e1": ["join", ["parse", True, base], ts[-1]], "e2": ["parse", True, text], "doc": doc()}
            yield {"e1": ["div", ["parse", True, base], "/" + ts[-1]], "e2": ["parse", True, "/" + ts[-1]], "doc": doc()}
            yield {"e1": ["parent", ["parse", True, text]], "e2": ["parse", True, base], "doc": doc()}
            # an absolute part (several tokens, empty ones included) replaces the base
            yield {"e1": ["div", ["parse", True, "/" + ts[0]], text], "e2": ["parse", True, text], "doc": doc()}
            yield {"e1": ["join", ["parse", True, "/x"], ts[0], text], "e2": ["parse", True, text], "doc": doc()}
    yield {"e1": ["parent", ["parse", True, ""]], "e2": ["parse", True, ""], "doc": doc()}
    # chains of join/parent
    for _ in range(4000 if tier == "thorough" else 400):
        def abs_part():
            return "".join("/" + (rng.choice(pool) if rng.random() < 0.6 else "") for _ in range(rng.randint(1, 3)))

        def chain():
            e = ["parse", True, "".join("/" + rng.choice(pool) for _ in range(rng.randint(0, 2)))]
            for _ in range(rng.randint(1, 4)):
                r = rng.random()
                if r < 0.3:
                    e = ["parent", e]
                elif r < 0.7:
                    e = ["div", e, rng.choice(pool) if rng.random() < 0.8 else abs_part()]
                else:
                    e = ["join", e] + [rng.choice(pool) if rng.random() < 0.85 else abs_part() for _ in range(rng.randint(1, 2))]
            return e
        e1 = chain()
        e2 = chain() if rng.random() < 0.5 else ["parent", e1]
        yield {"e1": e1, "e2": e2, "doc": doc()}


def _expr_sx(e):
    k = e[0]
    if k == "parse":
        return ["parse", e[1], SX.s2sx(e[2])]
    if k == "from-parts":
        return ["from-parts", e[1], parts_to_sx([p[1] for p in e[2]])]
    if k == "of-parts":
        return ["of-parts", parts_to_sx([p[1] for p in e[1]])]
    if k == "parent":
        return ["parent", _expr_sx(e[1])]
    if k == "div":
        return ["div", _expr_sx(e[1]), SX.s2sx(e[2])]
    if k == "join":
        return ["join", _expr_sx(e[1])] + [SX.s2sx(t) for t in e[2:]]
    raise ValueError(k)


def to_sx(case):
    return ["ptr-alg", _expr_sx(case["e1"]), _expr_sx(case["e2"]), SX.j2sx(case["doc"])]


def _eval(e):
    k = e[0]
    if k == "parse":
        # the same text was parsed before under the other decoding options: nothing of that may show in this parse
        for kw in ({"uri_decode": True}, {"unicode_escape": not e[1]}, {"uri_decode": True, "unicode_escape": not e[1]}):
            try:
                JSONPointer(e[2], **kw).parts
            except Exception:  # noqa: BLE001
                pass
        return JSONPointer(e[2], unicode_escape=e[1])
    if k == "from-parts":
        return JSONPointer.from_parts([p[1] for p in e[2]], unicode_escape=e[1])
    if k == "of-parts":
        parts = tuple(p[1] for p in e[1])
        return pointer_of_typed_parts(parts)
    if k == "parent":
        return _eval(e[1]).parent()
    if k == "div":
        return _eval(e[1]) / e[2]
    if k == "join":
        return _eval(e[1]).join(*e[2:])
    raise ValueError(k)


def _show(e):
    try:
        p = _eval(e)
    except Exception as ex:  # noqa: BLE001
        return None, ["err", exc_name(ex)]
    return p, ["ok", parts_typed(p.parts), str(p), [str(x) for x in p.parts]]


def _resolve(p, doc):
    if p is None:
        return "na"
    try:
        v = p.resolve(doc)
    except Exception as e:  # noqa: BLE001
        return ["err", exc_name(e)]
    return ["value", SX.canon(v), find_identity(doc, v)]


def impl(case):
    doc = deep(case["doc"])
    p1, s1 = _show(case["e1"])
    p2, s2 = _show(case["e2"])
    if p1 is not None and p2 is not None:
        eq = p1 == p2
        if eq and hash(p1) != hash(p2):
            eq = "equal-but-different-hash"
        r12, r21 = p1.is_relative_to(p2), p2.is_relative_to(p1)
    else:
        eq = r12 = r21 = "na"
    return {"p1": s1, "p2": s2, "eq": eq, "rel12": r12, "rel21": r21, "res1": _resolve(p1, doc), "res2": _resolve(p2, doc)}


def _dshow(x):
    if x[0] == "err":
        return ["err", x[1]]
    parts, text, toks = x[1]
    return ["ok", sx_parts_typed(parts), SX.sx2s(text), [SX.sx2s(t) for t in toks]]


def _b(x):
    return "na" if x == "na" else x == "true"


def _drv(x):
    if x == "na":
        return "na"
    if x[0] == "err":
        return ["err", x[1]]
    r = x[1]
    if r[0] == "node":
        v = SX.sx2j(r[2])
        return ["value", SX.canon(v), sx_to_loc(r[1]) if isinstance(v, (list, dict)) else None]
    return ["value", SX.canon(SX.sx2j(r[1])), None]


RESOLUTION = {"ptr-index", "ptr-key", "ptr-type", "ptr-resolution"}


def decode(sx, case):
    _, m1, m2, eq, r12, r21, res1, res2, spec = sx
    model = {"p1": _dshow(m1), "p2": _dshow(m2), "eq": _b(eq), "rel12": _b(r12), "rel21": _b(r21),
             "res1": _drv(res1), "res2": _drv(res2)}
    _, t1, t2, rels, nb, nlb, wl = spec
    flags = {"nb": nb[1] == "true", "nlb": nlb[1] == "true", "wl": wl[1] == "true"}
    unsupported = "unsupported" in SX.dump(sx[1:8])
    in_domain = t1 != "none" and t2 != "none" and all(flags.values()) and not unsupported
    sp = {}
    if in_domain:
        for name, t in (("1", t1), ("2", t2)):
            toks, text, ev, outside = t[1]
            sp["text" + name] = SX.sx2s(text)
            sp["tokens" + name] = [SX.sx2s(x) for x in toks]
            if ev != "none":
                v = SX.sx2j(ev[1][1])
                sp["res" + name] = ["value", SX.canon(v), sx_to_loc(ev[1][0]) if isinstance(v, (list, dict)) else None]
            elif outside == "true":
                sp["res" + name] = "resolution-error"
            else:
                sp["res" + name] = "unspecified"
        sp["eq"] = rels[0] == "true"
        sp["rel12"] = rels[1] == "true"
        sp["rel21"] = rels[2] == "true"
    return {"model": model, "spec": sp, "in_domain": in_domain, "skip": unsupported}


def project(case, res, dec=None):
    out = {}
    for name in ("1", "2"):
        s = res["p" + name]
        if s[0] != "ok":
            return {"unexpected-error": s}
        out["text" + name] = s[2]
        out["tokens" + name] = s[3]
    for name in ("1", "2"):
        r = res["res" + name]
        if isinstance(r, list) and r[0] == "err":
            r = "resolution-error" if r[1] in RESOLUTION else r
        if dec and dec.get("spec", {}).get("res" + name) == "unspecified":
            r = "unspecified"
        out["res" + name] = r
    out["eq"], out["rel12"], out["rel21"] = res["eq"], res["rel12"], res["rel21"]
    return out


def _fix_unspecified(spec, proj):
    return spec


def nontrivial(case, res):
    return res["p1"][0] == "ok" and len(res["p1"][1]) > 0


def classify(case, res):
    def kinds(e):
        out = [e[0]]
        for x in e[1:]:
            if isinstance(x, list) and x and isinstance(x[0], str) and x[0] in ("parse", "from-parts", "of-parts", "parent", "div", "join"):
                out += kinds(x)
        return out
    return ["op=" + k for k in set(kinds(case["e1"]) + kinds(case["e2"]))] + ["eq=" + str(res["eq"])]
