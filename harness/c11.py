"""C11 — all query entry points agree with one another on every input."""
import io
import json

import jsonpath

from . import sx as SX
from . import qgen as Q
from . import c13 as EXT
from .common import exc_name, gen_container, deep
from .evalbase import attempt

ID = "C11"
PROP_FILE = "props/C11.v"
RULE = ("queries (simple, and compound with 1..4 operands mixing | and &; standard and extended) x random array/object "
        "documents x {parsed value, JSON text, StringIO, BytesIO} x every entry point: package-level, environment-level "
        "and compiled-query forms of findall, finditer, match, query (values / first_one). Every result is compared with "
        "the specification's node values (and so with each other). non-trivial = at least one segment; distinct = "
        "distinct (query text, document)")
TRUSTED = ["json.loads/json.dumps round-trip documents (documents are generated with finite floats that survive the round "
           "trip); file objects are read once (runtime glue, observed not modelled)"]
ASSUMPTIONS = []

NAMES = EXT.NAMES


def gen(rng, tier):
    # intersections / unions of operands that yield EQUAL values spelled differently: objects with their members in another
    # order (also nested in arrays), look-alike scalars, repeated values
    sdoc = {"a": [{"x": 1, "y": 2}, [5, {"p": 1, "q": 2}], 7, 1, True, "1", [], {}, None, 1.0, [1, 2], {"k": {"u": 1, "v": [2, {"m": 1, "n": 2}]}}],
            "b": [[5, {"q": 2, "p": 1}], {"y": 2, "x": 1}, 7, True, 1, [], {}, 0, False, [2, 1], {"k": {"v": [2, {"n": 2, "m": 1}], "u": 1}}, "1"]}

    def w(name):
        return {"fake": False, "segs": [["list", ["name", name]], ["sel", "wild"]]}
    for first, rest in ((w("a"), [["inter", w("b")]]), (w("b"), [["inter", w("a")]]), (w("a"), [["union", w("b")], ["inter", w("b")]]),
                        (w("a"), [["inter", w("a")]]), (w("a"), [["inter", w("b")], ["inter", w("a")]]),
                        ({"fake": False, "segs": ["desc", ["sel", "wild"]]}, [["inter", w("b")]])):
        for std in (True, False):
            yield {"query": {"first": first, "rest": rest}, "doc": sdoc, "ctx": Q.CTX, "seed": 5, "std": std, "implicit_root": False}
    n = 5000 if tier == "thorough" else 600
    for _ in range(n):
        doc = gen_container(rng, 3, 3, NAMES)
        q = Q.gen_ext_query(rng, doc)
        if rng.random() < 0.3:
            from . import c09 as PURE
            q = {"first": {"fake": False, "segs": [["list", ["filter", PURE.gen_cacheable_logical(rng, rng.randint(1, 2))]]]}, "rest": []}
            doc = rng.choice([
                {"a": 1, "c": True, "x": {"a": 5, "b": [1, 2], "c": [3]}, "y": {"b": [], "a": 0}, "z": {"b": [7], "c": {"k": 1}, "a": 1}},
                {"a": 2, "b": [1, 2, 3], "x": {"a": 1, "b": [1]}, "y": {"a": 2, "b": [2, 3], "c": 1}, "c": None},
                {"a": 1, "b": [0, 1], "k1": {"a": 1}, "k2": {"a": 1, "b": 2}, "k3": {"a": 2}, "k4": 1},
                doc])
        if rng.random() < 0.5:
            q["rest"] = q["rest"] + [[rng.choice(["union", "inter"]), {"fake": False, "segs": Q.gen_ext_segs_for_doc(rng, doc, 2)}]
                                     for _ in range(rng.randint(1, 3))]
        yield {"query": q, "doc": doc, "ctx": Q.CTX, "seed": rng.randrange(1 << 30), "std": rng.random() < 0.5,
               "implicit_root": False}


render = EXT.render
to_sx = EXT.to_sx


def _vals(f):
    def run():
        return [SX.canon(v) for v in f()]
    return attempt(run)


def impl(case):
    text = render(case)
    doc = case["doc"]
    ctx = case["ctx"]
    out = {"text": text}
    try:
        c = jsonpath.compile(text)
    except Exception as e:  # noqa: BLE001
        out["compile"] = ["err", exc_name(e)]
        return out
    env = jsonpath.JSONPathEnvironment()
    js = json.dumps(doc)
    forms = {
        "value": lambda: deep(doc),
        "text": lambda: js,
        "stringio": lambda: io.StringIO(js),
        "bytesio": lambda: io.BytesIO(js.encode("utf-8")),
    }
    res = {}
    for fname, mk in forms.items():
        res["compiled.findall/" + fname] = _vals(lambda: c.findall(mk(), filter_context=ctx))
        res["compiled.finditer/" + fname] = _vals(lambda: [m.obj for m in c.finditer(mk(), filter_context=ctx)])
        res["compiled.query/" + fname] = _vals(lambda: list(c.query(mk(), filter_context=ctx).values()))
        res["env.findall/" + fname] = _vals(lambda: env.findall(text, mk(), filter_context=ctx))
        res["pkg.finditer/" + fname] = _vals(lambda: [m.obj for m in jsonpath.finditer(text, mk(), filter_context=ctx)])

        def first():
            m = c.match(mk(), filter_context=ctx)
            return ["none"] if m is None else ["some", SX.canon(m.obj)]
        res["compiled.match/" + fname] = attempt(first)

        def first_pkg():
            m = jsonpath.match(text, mk(), filter_context=ctx)
            return ["none"] if m is None else ["some", SX.canon(m.obj)]
        res["pkg.match/" + fname] = attempt(first_pkg)
    def interleaved():
        # a result iterator is lazy: the same compiled query is used on another document (values rotated) while it is
        # half consumed; the values it yields afterwards are still those of ITS document
        d = deep(doc)

        def twist(v, depth=0):
            # the same shape with every scalar changed (what the constant parts of a filter read is different)
            if isinstance(v, bool):
                return not v
            if isinstance(v, (int, float)):
                return v + 1
            if isinstance(v, str):
                return v + "x"
            if v is None:
                return 0
            if isinstance(v, list):
                return [twist(x, depth + 1) for x in v] if depth < 2 else deep(v)
            return {k: twist(x, depth + 1) for k, x in v.items()} if depth < 2 else deep(v)
        other = twist(d)
        it = iter(c.finditer(d, filter_context=ctx))
        got = []
        for m in it:
            got.append(m.obj)
            break
        c.findall(other, filter_context=ctx)
        c.match(other, filter_context=ctx)
        list(c.query(other, filter_context=ctx).limit(1).values())
        got += [m.obj for m in it]
        return got
    def text_edited():
        # what earlier evaluations of the TEXT form returned is edited by the caller; the same text is the same document
        for v in jsonpath.findall("$..*", js) + jsonpath.findall("$", js) + c.findall(js, filter_context=ctx):
            if isinstance(v, (dict, list)):
                v.clear()
        return c.findall(js, filter_context=ctx)
    res["compiled.findall.after-results-edited/text"] = _vals(text_edited)
    res["compiled.finditer.interleaved/value"] = _vals(interleaved)
    res["pkg.findall/value"] = _vals(lambda: jsonpath.findall(text, deep(doc), filter_context=ctx))
    res["env.query/value"] = _vals(lambda: list(env.query(text, deep(doc), filter_context=ctx).values()))
    res["pkg.query.first_one/value"] = attempt(lambda: (lambda m: ["none"] if m is None else ["some", SX.canon(m.obj)])(
        jsonpath.query(text, deep(doc), filter_context=ctx).first_one()))
    out["results"] = res
    return out


def decode(sx, case):
    if sx[0] == "unsupported":
        return {"model": {}, "spec": {}, "in_domain": False, "skip": True}
    _, fi, fa, spec, wf, afi, afa, std, ext = sx[:9]
    nodes = [SX.canon(SX.sx2j(n[1])) for n in spec[1]]
    fa_v = [SX.canon(SX.sx2j(v)) for v in fa[1]] if fa[0] == "ok" else ["err", fa[1]]
    fi_v = [SX.canon(SX.sx2j(m[2])) for m in fi[1]] if fi[0] == "ok" else ["err", fi[1]]
    first = (["none"] if not nodes else ["some", nodes[0]])

    def expect(values, firstv):
        r = {}
        for fname in ("value", "text", "stringio", "bytesio"):
            for ep in ("compiled.findall", "env.findall"):
                r[ep + "/" + fname] = values
            for ep in ("compiled.finditer", "compiled.query", "pkg.finditer"):
                r[ep + "/" + fname] = values
            r["compiled.match/" + fname] = firstv
            r["pkg.match/" + fname] = firstv
        r["pkg.findall/value"] = values
        r["compiled.finditer.interleaved/value"] = values
        r["compiled.findall.after-results-edited/text"] = values
        r["env.query/value"] = values
        r["pkg.query.first_one/value"] = firstv
        return r

    spec_ = {"results": expect(nodes, first)}
    m_first = ["none"] if (isinstance(fi_v, list) and not fi_v) else (["some", fi_v[0]] if fi_v and fi_v[0] != "err" else fi_v)
    model_r = expect(fi_v, m_first)
    for k in list(model_r):
        if k.startswith(("compiled.findall", "env.findall", "pkg.findall")):
            model_r[k] = fa_v
    model = {"text": render(case), "results": model_r}
    return {"model": model, "spec": spec_, "in_domain": ext[1] == "true" and wf[1] == "true"}


def project(case, res, dec=None):
    if "compile" in res:
        return {"unexpected": res["compile"]}
    return {"results": res["results"]}


def nontrivial(case, res):
    return len(case["query"]["first"]["segs"]) > 0


def classify(case, res):
    tags = ["operands=%d" % (1 + len(case["query"]["rest"]))]
    for op, _ in case["query"]["rest"]:
        tags.append("op=" + op)
    return tags
