"""C13 — documented non-standard syntax means what the documentation says."""
import random

import jsonpath

from . import sx as SX
from . import qgen as Q
from .common import exc_name, gen_container, sx_to_loc, deep
from .evalbase import used_before, show_matches, decode_matches, text_of, to_sx, attempt  # noqa: F401

ID = "C13"
PROP_FILE = "props/C13.v"
RULE = ("queries using every documented extension - keys selector (shorthand and bracketed, inside lists, after '..'), "
        "fake root, current key #, filter context _ (at nesting depth 0..2), in / contains on arrays, strings and object "
        "keys with list literals and queries, =~ with flags, <>, and/or/not, undefined/missing, nil/none and capitalised "
        "literals, implicit root, bare names in brackets, compound | and & - in every syntactic position the generator can "
        "place them, x random documents and a fixed filter-context mapping; plus each alias spelling compared against its "
        "standard spelling on the same query. non-trivial = the query contains at least one extension construct; "
        "distinct = distinct (query text, document)")
TRUSTED = ["regular expressions: rt/Regex.v (common dialect) for execution only"]
ASSUMPTIONS = ["membership (in/contains) on arrays uses the host language's list membership, as the documentation does not "
               "define the element equality"]

NAMES = ["a", "b", "c", "d", "0", "1", "k", "s"]
# member names that BEGIN with a keyword of the filter language: written bare (shorthand, in brackets, after `..`, as the
# first segment of a root-less query) they are names, not the keyword followed by something
KEYWORDISH = ["nilsson", "Nile", "nil_count", "nullable", "nonesuch", "Nonesuch", "trueish", "Truest", "falsey", "android", "order",
              "inner", "notable", "containsx", "undefinedx", "missingx", "nil", "null", "and", "or", "in", "true"]


def gen(rng, tier):
    n = 15000 if tier == "thorough" else 1500
    for _ in range(n):
        doc = gen_container(rng, 4, 3, NAMES)
        q = Q.gen_ext_query(rng, doc)
        yield {"query": q, "doc": doc, "ctx": Q.CTX, "seed": rng.randrange(1 << 30), "std": False,
               "implicit_root": rng.random() < 0.15}
    for _ in range(n // 5):
        names = NAMES[:3] + rng.sample(KEYWORDISH, 4)
        doc = gen_container(rng, 3, 3, names)
        segs = Q.gen_segs_for_doc(rng, doc, 3)
        q = {"first": {"fake": False, "segs": segs}, "rest": []}
        yield {"query": q, "doc": doc, "ctx": Q.CTX, "seed": rng.randrange(1 << 30), "std": False, "implicit_root": rng.random() < 0.4,
               "bare": True}
    # regex literals with the i flag against subjects that case-fold onto ASCII letters from outside ASCII (KELVIN SIGN,
    # LONG S, dotted / dotless i) and classes with dashes at every position
    for pat in ["k", "s", "i", "I", "[k-l]", "[\\.-z]", "[a\\--z]", "[-a]", "[a-]", "[^\\.-0]"]:
        for fl in ("", "i"):
            doc = [{"a": x} for x in ["k", "K", "\u212a", "s", "S", "\u017f", "i", "I", "\u0130", "\u0131", "-", ".", "a", "z", "0", "/"]]
            q = {"first": {"fake": False, "segs": [["list", ["filter", ["op", "=~", ["self", ["sel", ["name", "a"]]], ["re", pat, fl]]]]]}, "rest": []}
            yield {"query": q, "doc": doc, "ctx": Q.CTX, "seed": 11, "std": False, "implicit_root": False}
    # one pattern text under different flags: twice in one query, and in consecutive queries of the same environment
    fdoc = [{"a": x, "b": y} for x in ("ab", "AB", "abb", "a\nb", "A\nB", "x") for y in ("ab", "AB", "a\nb")]
    for pat in ("ab+", "a.b", "a.B", "[a-b]+"):
        for f1, f2 in (("i", ""), ("", "i"), ("s", ""), ("", "s"), ("is", "i"), ("i", "s"), ("", "")):
            def rx(name, fl):
                return ["op", "=~", ["self", ["sel", ["name", name]]], ["re", pat, fl]]
            for e in (["op", "&&", rx("a", f1), rx("b", f2)], ["op", "||", ["not", rx("a", f1)], rx("a", f2)], rx("a", f1), rx("a", f2)):
                yield {"query": {"first": {"fake": False, "segs": [["list", ["filter", e]]]}, "rest": []}, "doc": fdoc, "ctx": Q.CTX, "seed": 14, "std": False,
                       "implicit_root": False}
    # =~ is a match of the WHOLE string: alternations whose earlier alternative is a proper prefix of a later one
    for pat, fl in [("a|ab", ""), ("a|ab|abc", ""), ("(a|ab)(c|bcd)?", ""), ("js|json", "i"), ("(a|ab)*", ""), ("ab|a", ""), ("a*|a*b", "")]:
        doc = [{"a": x} for x in ["a", "ab", "abc", "abcd", "abab", "json", "JSON", "js", "b", ""]]
        for lhs in (["self", ["sel", ["name", "a"]]],):
            for neg in (False, True):
                e = ["op", "=~", lhs, ["re", pat, fl]]
                q = {"first": {"fake": False, "segs": [["list", ["filter", ["not", e] if neg else e]]]}, "rest": []}
                yield {"query": q, "doc": doc, "ctx": Q.CTX, "seed": 12, "std": False, "implicit_root": False}
        q = {"first": {"fake": False, "segs": ["desc", ["list", ["filter", ["op", "=~", ["self"], ["re", pat, fl]]]]]}, "rest": []}
        yield {"query": q, "doc": {"k": ["ab", "a", "abc", {"m": "ab"}]}, "ctx": Q.CTX, "seed": 13, "std": False, "implicit_root": False}
    # alias pairs: the same AST rendered with alias spellings and with standard spellings must agree;
    # the AST is the same, so the specification result is the same: rendering twice covers it
    for _ in range(n // 3):
        doc = gen_container(rng, 3, 3, NAMES)
        segs = [["list", ["filter", Q.gen_ext_logical(rng, 2)]]]
        q = {"first": {"fake": False, "segs": segs}, "rest": []}
        seed = rng.randrange(1 << 30)
        yield {"query": q, "doc": doc, "ctx": Q.CTX, "seed": seed, "std": False, "implicit_root": False}
        yield {"query": q, "doc": doc, "ctx": Q.CTX, "seed": seed, "std": True, "implicit_root": False}


def render(case):
    sp = Q.Speller(random.Random(case["seed"]), blanks=0.1, std=case["std"])
    if case.get("bare") and not case["std"]:
        sp.bare = 0.4
    q = case["query"]
    first = q["first"]["segs"][0] if q["first"]["segs"] else None
    text = Q.render_path(q["first"], sp, implicit_root=case.get("implicit_root", False) and not q["first"]["fake"]
                         and first is not None and first != "desc" and isinstance(first, list)
                         and (first[0] == "list" or (case.get("bare") and first[0] == "sel" and isinstance(first[1], list))))
    for op, p in q["rest"]:
        text += " " + ("|" if op == "union" else "&") + " " + Q.render_path(p, sp)
    return text


def impl(case):
    text = render(case)
    doc = deep(case["doc"])
    out = {"text": text}
    try:
        c = jsonpath.compile(text)
    except Exception as e:  # noqa: BLE001
        out["compile"] = ["err", exc_name(e)]
        return out
    other_ctx = dict(deep(case["ctx"]), k=2, s="zz", names=["c"], t=False) if isinstance(case["ctx"], dict) else None
    used_before(c, doc, deep(case["ctx"]), other_ctx)
    out["matches"] = attempt(lambda: show_matches(list(c.finditer(doc, filter_context=deep(case["ctx"])))))
    out["values"] = attempt(lambda: [SX.canon(v) for v in c.findall(doc, filter_context=deep(case["ctx"]))])
    out["doc_unchanged"] = SX.canon(doc) == SX.canon(case["doc"])
    if isinstance(out["values"], list) and out["values"][:1] != ["err"] and isinstance(case["doc"], (dict, list)):
        from .evalbase import entry_points
        out["entry_points"] = entry_points(text, case["doc"], case["ctx"], reference=["ok", out["values"]])
    return out


def decode(sx, case):
    if sx[0] == "unsupported":
        return {"model": {}, "spec": {}, "in_domain": False, "skip": True}
    _, fi, fa, spec, wf, afi, afa, std, ext = sx[:9]
    model = {"text": render(case)}
    model["matches"] = decode_matches(fi[1]) if fi[0] == "ok" else ["err", fi[1]]
    model["values"] = [SX.canon(SX.sx2j(v)) for v in fa[1]] if fa[0] == "ok" else ["err", fa[1]]
    model["doc_unchanged"] = True
    if fa[0] == "ok" and isinstance(case["doc"], (dict, list)):
        model["entry_points"] = "same"
    nodes = [[[p if isinstance(p, int) else ["k", p] for p in sx_to_loc(n[0])], SX.canon(SX.sx2j(n[1]))] for n in spec[1]]
    sp = {"nodes": nodes, "values": [n[1] for n in nodes], "entry_points": "same"}
    return {"model": model, "spec": sp, "in_domain": ext[1] == "true" and wf[1] == "true"}


def project(case, res, dec=None):
    if "matches" not in res or (res["matches"] and res["matches"][0] == "err"):
        return {"unexpected": res.get("compile") or res.get("matches")}
    return {"nodes": [[m[0], m[2]] for m in res["matches"]], "values": res["values"], "entry_points": res.get("entry_points", "same")}


def _has_ext(x):
    s = SX.dump(x) if not isinstance(x, str) else x
    return any(t in s for t in ("keys", "ctx", "key", "undef", " in ", "contains", "=~", "<>", "True", "nil"))


def nontrivial(case, res):
    return _has_ext(str(case["query"])) or not case["std"]


def classify(case, res):
    s = str(case["query"])
    tags = [t for t in ("keys", "ctx", "key", "undef", "'in'", "contains", "=~", "<>", "union", "inter", "'nil'") if t in s]
    if case["query"]["first"]["fake"]:
        tags.append("fake-root")
    if "matches" in res and not (res["matches"] and res["matches"][0] == "err"):
        tags.append("nmatches=" + ("0" if not res["matches"] else "some"))
    elif "compile" in res:
        tags.append("compile-error=" + res["compile"][1])
    return tags
