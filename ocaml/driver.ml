(* driver.ml — runs the extracted model and specification on cases.
   Input : one case per line, an s-expression  (kind arg ...)
   Output: one s-expression per line with the results.
   Integers are OCaml ints on the wire; Z/N/nat/positive are the extracted
   inductive types inside. *)
open Model

type sx = A of string | L of sx list

(* ---------- s-expression reader / printer ------------------------------ *)
let tokenize (s : string) : string list =
  let n = String.length s in
  let toks = ref [] in
  let i = ref 0 in
  while !i < n do
    let c = s.[!i] in
    if c = '(' || c = ')' then (toks := String.make 1 c :: !toks; incr i)
    else if c = ' ' || c = '\t' || c = '\n' || c = '\r' then incr i
    else begin
      let j = ref !i in
      while !j < n && (let d = s.[!j] in d <> '(' && d <> ')' && d <> ' ' && d <> '\t' && d <> '\n' && d <> '\r') do incr j done;
      toks := String.sub s !i (!j - !i) :: !toks;
      i := !j
    end
  done;
  List.rev !toks

let rec parse_sx (toks : string list) : sx * string list =
  match toks with
  | [] -> failwith "unexpected end"
  | "(" :: rest ->
      let rec items acc ts =
        match ts with
        | ")" :: rest' -> (L (List.rev acc), rest')
        | [] -> failwith "unclosed"
        | _ -> let (x, ts') = parse_sx ts in items (x :: acc) ts'
      in items [] rest
  | ")" :: _ -> failwith "unexpected )"
  | a :: rest -> (A a, rest)

let rec print_sx (b : Buffer.t) (x : sx) : unit =
  match x with
  | A a -> Buffer.add_string b a
  | L l ->
      Buffer.add_char b '(';
      List.iteri (fun i y -> if i > 0 then Buffer.add_char b ' '; print_sx b y) l;
      Buffer.add_char b ')'

(* ---------- number conversions ----------------------------------------- *)
let rec pos_of_int (n : int) : positive =
  if n <= 1 then XH
  else if n land 1 = 1 then XI (pos_of_int (n lsr 1)) else XO (pos_of_int (n lsr 1))
let rec int_of_pos (p : positive) : int =
  match p with XH -> 1 | XO q -> 2 * int_of_pos q | XI q -> 2 * int_of_pos q + 1
let z_of_int (n : int) : z = if n = 0 then Z0 else if n > 0 then Zpos (pos_of_int n) else Zneg (pos_of_int (-n))
let int_of_z (x : z) : int = match x with Z0 -> 0 | Zpos p -> int_of_pos p | Zneg p -> - (int_of_pos p)
(*N let n_of_int (n : int) : n = if n = 0 then N0 else Npos (pos_of_int n)
let int_of_n (x : n) : int = match x with N0 -> 0 | Npos p -> int_of_pos p N*)
let rec nat_of_int (n : int) : nat = if n <= 0 then O else S (nat_of_int (n - 1))
let rec int_of_nat (x : nat) : int = match x with O -> 0 | S y -> 1 + int_of_nat y

let atom_int (x : sx) : int = match x with A a -> int_of_string a | _ -> failwith "int expected"
let sx_int (n : int) : sx = A (string_of_int n)
let sx_bool (b : bool) : sx = A (if b then "true" else "false")
let atom_bool (x : sx) : bool = match x with A "true" -> true | A "false" -> false | _ -> failwith "bool expected"

(* ---------- C12: fluent ------------------------------------------------- *)
let op_of_sx (x : sx) : op =
  match x with
  | L [A "limit"; q; n] -> OLimit (nat_of_int (atom_int q), z_of_int (atom_int n))
  | L [A "drop"; q; n] -> ODrop (nat_of_int (atom_int q), z_of_int (atom_int n))
  | L [A "tail"; q; n] -> OTail (nat_of_int (atom_int q), z_of_int (atom_int n))
  | L [A "take"; q; n] -> OTake (nat_of_int (atom_int q), z_of_int (atom_int n))
  | L [A "tee"; q; n] -> OTee (nat_of_int (atom_int q), z_of_int (atom_int n))
  | L [A "first"; q] -> OFirst (nat_of_int (atom_int q))
  | L [A "last"; q] -> OLast (nat_of_int (atom_int q))
  | _ -> failwith "bad op"

let sx_event (e : nat event) : sx =
  match e with
  | EvItem None -> L [A "item"; A "none"]
  | EvItem (Some x) -> L [A "item"; sx_int (int_of_nat x)]
  | EvValueError -> A "valueerror"
  | EvNew k -> L [A "new"; sx_int (int_of_nat k)]

let sx_obs ((ev, qs) : nat event list * nat list list) : sx =
  L [L (List.map sx_event ev); L (List.map (fun q -> L (List.map (fun x -> sx_int (int_of_nat x)) q)) qs)]

let run_fluent (args : sx list) : sx =
  match args with
  | [L ops; L xs] ->
      let ops = List.map op_of_sx ops in
      let xs = List.map (fun x -> nat_of_int (atom_int x)) xs in
      L [A "ok"; sx_obs (observe ops xs); sx_obs (sobserve ops xs)]
  | _ -> failwith "fluent: bad args"

(* ---------- dispatch ---------------------------------------------------- *)
let dispatch (x : sx) : sx =
  match x with
  | L (A "fluent" :: args) -> run_fluent args
  | _ -> failwith "unknown case kind"

let () =
  let b = Buffer.create 4096 in
  (try
     while true do
       let line = input_line stdin in
       if String.length line > 0 then begin
         Buffer.clear b;
         (try
            let (x, _) = parse_sx (tokenize line) in
            print_sx b (dispatch x)
          with
          | Failure m -> Buffer.clear b; Buffer.add_string b ("(driver-error " ^ String.escaped m ^ ")")
          | Stack_overflow -> Buffer.clear b; Buffer.add_string b "(driver-error stack-overflow)"
          | Not_found -> Buffer.clear b; Buffer.add_string b "(driver-error not-found)");
         print_string (Buffer.contents b);
         print_newline ()
       end
     done
   with End_of_file -> ())
