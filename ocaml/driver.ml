(* driver.ml — runs the extracted model and specification on cases.
   Input : one case per line, an s-expression  (kind arg ...)
   Output: one s-expression per line with the results.
   Integers are OCaml ints on the wire; Z/N/nat/positive are the extracted
   inductive types inside. *)
open Model

type sx = A of string | L of sx list

(* ---------- s-expression reader / printer ------------------------------ *)
let sx_tokenize (s : string) : string list =
  let n = String.length s in
  let toks = ref [] in
  let i = ref 0 in
  while !i < n do
    let c = s.[!i] in
    if c = '(' || c = ')' then (toks := String.make 1 c :: !toks; incr i)
    else if c = ' ' || c = '\t' || c = '\n' || c = '\r' then incr i
    else begin
      let j = ref !i in
      while !j < n && (let d = s.[!j] in d <> '(' && d <> ')' && d <> ' ' && d <> '\t' && d <> '\n' && d <> '\r') do incr j done;
      toks := String.sub s !i (!j - !i) :: !toks;
      i := !j
    end
  done;
  List.rev !toks

let rec parse_sx (toks : string list) : sx * string list =
  match toks with
  | [] -> failwith "unexpected end"
  | "(" :: rest ->
      let rec items acc ts =
        match ts with
        | ")" :: rest' -> (L (List.rev acc), rest')
        | [] -> failwith "unclosed"
        | _ -> let (x, ts') = parse_sx ts in items (x :: acc) ts'
      in items [] rest
  | ")" :: _ -> failwith "unexpected )"
  | a :: rest -> (A a, rest)

let rec print_sx (b : Buffer.t) (x : sx) : unit =
  match x with
  | A a -> Buffer.add_string b a
  | L l ->
      Buffer.add_char b '(';
      List.iteri (fun i y -> if i > 0 then Buffer.add_char b ' '; print_sx b y) l;
      Buffer.add_char b ')'

(* ---------- number conversions ----------------------------------------- *)
let rec pos_of_int (n : int) : positive =
  if n <= 1 then XH
  else if n land 1 = 1 then XI (pos_of_int (n lsr 1)) else XO (pos_of_int (n lsr 1))
let rec int_of_pos (p : positive) : int =
  match p with XH -> 1 | XO q -> 2 * int_of_pos q | XI q -> 2 * int_of_pos q + 1
let z_of_int (n : int) : z = if n = 0 then Z0 else if n > 0 then Zpos (pos_of_int n) else Zneg (pos_of_int (-n))
let int_of_z (x : z) : int = match x with Z0 -> 0 | Zpos p -> int_of_pos p | Zneg p -> - (int_of_pos p)
let n_of_int (n : int) : n = if n = 0 then N0 else Npos (pos_of_int n)
let int_of_n (x : n) : int = match x with N0 -> 0 | Npos p -> int_of_pos p
let rec nat_of_int (n : int) : nat = if n <= 0 then O else S (nat_of_int (n - 1))
let rec int_of_nat (x : nat) : int = match x with O -> 0 | S y -> 1 + int_of_nat y

let atom_int (x : sx) : int = match x with A a -> int_of_string a | _ -> failwith "int expected"
let sx_int (n : int) : sx = A (string_of_int n)
let sx_bool (b : bool) : sx = A (if b then "true" else "false")
let atom_bool (x : sx) : bool = match x with A "true" -> true | A "false" -> false | _ -> failwith "bool expected"

(* ---------- C12: fluent ------------------------------------------------- *)
let op_of_sx (x : sx) : op =
  match x with
  | L [A "limit"; q; n] -> OLimit (nat_of_int (atom_int q), z_of_int (atom_int n))
  | L [A "drop"; q; n] -> ODrop (nat_of_int (atom_int q), z_of_int (atom_int n))
  | L [A "tail"; q; n] -> OTail (nat_of_int (atom_int q), z_of_int (atom_int n))
  | L [A "take"; q; n] -> OTake (nat_of_int (atom_int q), z_of_int (atom_int n))
  | L [A "tee"; q; n] -> OTee (nat_of_int (atom_int q), z_of_int (atom_int n))
  | L [A "first"; q] -> OFirst (nat_of_int (atom_int q))
  | L [A "last"; q] -> OLast (nat_of_int (atom_int q))
  | _ -> failwith "bad op"

let sx_event (e : nat event) : sx =
  match e with
  | EvItem None -> L [A "item"; A "none"]
  | EvItem (Some x) -> L [A "item"; sx_int (int_of_nat x)]
  | EvValueError -> A "valueerror"
  | EvNew k -> L [A "new"; sx_int (int_of_nat k)]

let sx_obs ((ev, qs) : nat event list * nat list list) : sx =
  L [L (List.map sx_event ev); L (List.map (fun q -> L (List.map (fun x -> sx_int (int_of_nat x)) q)) qs)]

let run_fluent (args : sx list) : sx =
  match args with
  | [L ops; L xs] ->
      let ops = List.map op_of_sx ops in
      let xs = List.map (fun x -> nat_of_int (atom_int x)) xs in
      L [A "ok"; sx_obs (observe ops xs); sx_obs (sobserve ops xs)]
  | _ -> failwith "fluent: bad args"

(* arbitrary-precision integers on the wire, through the extracted decimal functions *)
let string_of_z (x : z) : string =
  String.concat "" (List.map (fun c -> String.make 1 (Char.chr (int_of_n c))) (str_of_Z x))
let z_of_string (s : string) : z =
  let neg = String.length s > 0 && s.[0] = '-' in
  let digits = if neg then String.sub s 1 (String.length s - 1) else s in
  let cps = List.init (String.length digits) (fun i -> n_of_int (Char.code digits.[i])) in
  let v = dec_value cps in
  if neg then Z.opp v else v
let sx_z (x : z) : sx = A (string_of_z x)
let atom_z (x : sx) : z = match x with A a -> z_of_string a | _ -> failwith "int expected"

(* ---------- strings, JSON, errors ---------------------------------------- *)
let ustr_of_sx (x : sx) : ustr =
  match x with
  | L (A "s" :: cps) -> List.map (fun c -> n_of_int (atom_int c)) cps
  | _ -> failwith "string expected"
let sx_ustr (s : ustr) : sx = L (A "s" :: List.map (fun c -> sx_int (int_of_n c)) s)

let rec json_of_sx (x : sx) : json =
  match x with
  | A "null" -> JNull
  | A "true" -> JBool true
  | A "false" -> JBool false
  | L [A "i"; v] -> JNum { n_float = false; n_num = atom_z v; n_den = XH }
  | L [A "f"; n; d] -> JNum { n_float = true; n_num = atom_z n; n_den = (match atom_z d with Zpos p -> p | _ -> XH) }
  | L (A "s" :: _) -> JStr (ustr_of_sx x)
  | L (A "a" :: items) -> JArr (List.map json_of_sx items)
  | L (A "o" :: members) ->
      JObj (List.map (fun m -> match m with L [k; v] -> (ustr_of_sx k, json_of_sx v) | _ -> failwith "member") members)
  | _ -> failwith "json expected"

let rec sx_json (j : json) : sx =
  match j with
  | JNull -> A "null"
  | JBool true -> A "true"
  | JBool false -> A "false"
  | JNum n ->
      if n.n_float then L [A "f"; sx_z n.n_num; sx_z (Zpos n.n_den)]
      else if n.n_den = XH then L [A "i"; sx_z n.n_num]
      else L [A "q"; sx_z n.n_num; sx_z (Zpos n.n_den)]
  | JStr s -> sx_ustr s
  | JArr l -> L (A "a" :: List.map sx_json l)
  | JObj l -> L (A "o" :: List.map (fun (k, v) -> L [sx_ustr k; sx_json v]) l)

let sx_part (p : part) : sx =
  match p with PKey k -> L [A "k"; sx_ustr k] | PIdx i -> L [A "x"; sx_int (int_of_nat i)]
let sx_loc (l : loc) : sx = L (List.map sx_part l)

let exn_name (e : exn) : string =
  match e with
  | EJsonPath KSyntax -> "jp-syntax" | EJsonPath KType -> "jp-type" | EJsonPath KIndex -> "jp-index"
  | EJsonPath KName -> "jp-name" | EJsonPath KRecursion -> "jp-recursion"
  | EPointer KPtrSyntax -> "ptr-syntax" | EPointer KPtrIndex -> "ptr-index"
  | EPointer KPtrKey -> "ptr-key" | EPointer KPtrType -> "ptr-type"
  | ERelPointer KRelSyntax -> "rel-syntax" | ERelPointer KRelIndex -> "rel-index"
  | EPatch KPatch -> "patch" | EPatch KPatchTest -> "patch-test"
  | EBuiltin BValueError -> "builtin-ValueError" | EBuiltin BTypeError -> "builtin-TypeError"
  | EBuiltin BKeyError -> "builtin-KeyError" | EBuiltin BIndexError -> "builtin-IndexError"
  | EBuiltin BAttributeError -> "builtin-AttributeError" | EBuiltin BOverflowError -> "builtin-OverflowError"
  | EBuiltin BReError -> "builtin-error" | EBuiltin BUnicodeDecodeError -> "builtin-UnicodeDecodeError"
  | EBuiltin BAssertionError -> "builtin-AssertionError" | EBuiltin BJSONDecodeError -> "builtin-JSONDecodeError"
  | EOutOfFuel -> "fuel" | EUnsupported -> "unsupported"

let sx_result (f : 'a -> sx) (r : 'a result) : sx =
  match r with Ok a -> L [A "ok"; f a] | Err e -> L [A "err"; A (exn_name e)]
let sx_option (f : 'a -> sx) (o : 'a option) : sx =
  match o with Some a -> L [A "some"; f a] | None -> A "none"

(* ---------- pointers ----------------------------------------------------- *)
let sx_ppart (p : ppart) : sx =
  match p with PInt z -> L [A "int"; sx_z z] | PStr s -> L [A "str"; sx_ustr s]
let ppart_of_sx (x : sx) : ppart =
  match x with
  | L [A "int"; z] -> PInt (atom_z z)
  | L [A "str"; s] -> PStr (ustr_of_sx s)
  | _ -> failwith "ppart expected"
let sx_pointer (p : pointer) : sx = L (List.map sx_ppart p)
let sx_rv (r : rv) : sx =
  match r with
  | RNode (l, v) -> L [A "node"; sx_loc l; sx_json v]
  | RVal v -> L [A "val"; sx_json v]

(* (ptr-resolve <mode> <text> <doc> <default|none>) *)
let run_ptr_resolve (args : sx list) : sx =
  match args with
  | [mode; text; doc; dflt] ->
      let mode = atom_bool mode in
      let s = ustr_of_sx text in
      let d = json_of_sx doc in
      let parsed = parse mode s in
      let model =
        match parsed with
        | Err e -> L [A "parse-err"; A (exn_name e)]
        | Ok p ->
            L [A "parsed"; sx_pointer p; sx_ustr (encode p);
               sx_result sx_rv (resolve p d);
               sx_result sx_bool (exists_ p d);
               (match dflt with A "none" -> A "none" | dj -> sx_result sx_rv (resolve_default p d (json_of_sx dj)))] in
      let syntax = rfc6901_syntax s in
      let ts = rfc_tokens s in
      let spec =
        L [sx_bool syntax;
           sx_option (fun (l, v) -> L [sx_loc l; sx_json v]) (if syntax then rfc_eval ts d else None);
           L [A "outside-ext"; sx_bool (outside_extensions ts)];
           L [A "no-backslash"; sx_bool (no_backslash s)];
           L [A "within-limits"; sx_bool (tokens_within_limits ts)];
           L [A "wf"; sx_bool (wf_json d)];
           L [A "tokens"; L (List.map sx_ustr ts)];
           L [A "spell"; sx_ustr (rfc_spell ts)]] in
      L [A "ok"; model; spec]
  | _ -> failwith "ptr-resolve: bad args"

(* (ptr-loc <mode> <doc> <loc as list of (k s)/(x i)>) : the pointer spelled from a location *)
let part_of_sx (x : sx) : part =
  match x with
  | L [A "k"; s] -> PKey (ustr_of_sx s)
  | L [A "x"; i] -> PIdx (nat_of_int (atom_int i))
  | _ -> failwith "part expected"

let run_ptr_spell (args : sx list) : sx =
  match args with
  | [L parts] -> L [A "ok"; sx_ustr (spell_loc (List.map part_of_sx parts))]
  | _ -> failwith "ptr-spell: bad args"

(* pointer algebra: a tiny expression language evaluated in the model
     (parse mode s) (from-parts mode (parts)) (parent e) (div e s) (join e s...) (of-parts (parts)) *)
let rec eval_pexpr (x : sx) : pointer result =
  match x with
  | L [A "parse"; mode; s] -> parse (atom_bool mode) (ustr_of_sx s)
  | L [A "from-parts"; mode; L ps] -> from_parts (atom_bool mode) (List.map ppart_of_sx ps)
  | L [A "of-parts"; L ps] -> Ok (List.map ppart_of_sx ps)
  | L [A "parent"; e] -> (match eval_pexpr e with Ok p -> Ok (parent p) | Err e -> Err e)
  | L [A "div"; e; s] -> (match eval_pexpr e with Ok p -> truediv p (ustr_of_sx s) | Err e -> Err e)
  | L (A "join" :: e :: ss) -> (match eval_pexpr e with Ok p -> join p (List.map ustr_of_sx ss) | Err e -> Err e)
  | _ -> failwith "pexpr expected"

(* the same expressions evaluated on RFC 6901 reference tokens with the specification functions;
   None when some text is outside RFC 6901 syntax *)
let rec removelast_l (l : 'a list) : 'a list =
  match l with [] -> [] | [_] -> [] | x :: r -> x :: removelast_l r

let tilde_ok_b (s : ustr) : bool = rfc6901_syntax (ch_slash :: s)

let rec spec_pexpr (x : sx) : (ustr list) option =
  match x with
  | L [A "parse"; _; s] -> let s = ustr_of_sx s in if rfc6901_syntax s then Some (rfc_tokens s) else None
  | L [A "from-parts"; _; L ps] -> Some (List.map (fun p -> part_text (ppart_of_sx p)) ps)
  | L [A "of-parts"; L ps] -> Some (List.map (fun p -> part_text (ppart_of_sx p)) ps)
  | L [A "parent"; e] -> (match spec_pexpr e with Some ts -> Some (removelast_l ts) | None -> None)
  | L [A "div"; e; s] -> spec_div (spec_pexpr e) (ustr_of_sx s)
  | L (A "join" :: e :: ss) -> List.fold_left (fun acc t -> spec_div acc (ustr_of_sx t)) (spec_pexpr e) ss
  | _ -> failwith "pexpr expected"
and spec_div (base : (ustr list) option) (t : ustr) : (ustr list) option =
  match base with
  | None -> None
  | Some ts ->
      if starts_with_ch ch_slash t then (if rfc6901_syntax t then Some (rfc_tokens t) else None)
      else if tilde_ok_b t then Some (ts @ rfc_tokens (ch_slash :: t)) else None

let rec pexpr_texts (x : sx) : ustr list =
  match x with
  | L [A "parse"; _; s] -> [ustr_of_sx s]
  | L [A "from-parts"; _; L ps] -> List.map (fun p -> part_text (ppart_of_sx p)) ps
  | L [A "of-parts"; L ps] -> List.map (fun p -> part_text (ppart_of_sx p)) ps
  | L [A "parent"; e] -> pexpr_texts e
  | L [A "div"; e; s] -> ustr_of_sx s :: pexpr_texts e
  | L (A "join" :: e :: ss) -> List.map ustr_of_sx ss @ pexpr_texts e
  | _ -> []

let rec is_prefix (a : ustr list) (b : ustr list) : bool =
  match a, b with
  | [], _ -> true
  | x :: a', y :: b' -> ustr_eqb x y && is_prefix a' b'
  | _ :: _, [] -> false

(* (ptr-alg <expr1> <expr2> <doc>) -> for each: parts, text, tokens; then eq, rel12, rel21, resolve1 *)
let run_ptr_alg (args : sx list) : sx =
  match args with
  | [e1; e2; doc] ->
      let d = json_of_sx doc in
      let r1 = eval_pexpr e1 and r2 = eval_pexpr e2 in
      let show r = sx_result (fun p -> L [sx_pointer p; sx_ustr (encode p); L (List.map sx_ustr (tokens p))]) r in
      let both f = match r1, r2 with Ok a, Ok b -> f a b | _ -> A "na" in
      L [A "ok"; show r1; show r2;
         both (fun a b -> sx_bool (ptr_eqb a b));
         both (fun a b -> sx_bool (is_relative_to a b));
         both (fun a b -> sx_bool (is_relative_to b a));
         (match r1 with Ok a -> sx_result sx_rv (resolve a d) | Err _ -> A "na");
         (match r2 with Ok a -> sx_result sx_rv (resolve a d) | Err _ -> A "na");
         (let t1 = spec_pexpr e1 and t2 = spec_pexpr e2 in
          let texts = pexpr_texts e1 @ pexpr_texts e2 in
          let showt t = sx_option (fun ts -> L [L (List.map sx_ustr ts); sx_ustr (rfc_spell ts);
                                               sx_option (fun (l, v) -> L [sx_loc l; sx_json v]) (rfc_eval ts d);
                                               sx_bool (outside_extensions ts)]) t in
          L [A "spec"; showt t1; showt t2;
             (match t1, t2 with
              | Some a, Some b ->
                  L [sx_bool (List.length a = List.length b && is_prefix a b);
                     sx_bool (List.length b < List.length a && is_prefix b a);
                     sx_bool (List.length a < List.length b && is_prefix a b)]
              | _ -> A "na");
             L [A "no-backslash"; sx_bool (List.for_all no_backslash texts)];
             L [A "no-leading-blank"; sx_bool (List.for_all no_leading_blank texts)];
             L [A "within-limits"; sx_bool (List.for_all (fun t -> tokens_within_limits (rfc_tokens (ch_slash :: t))) texts)]])]
  | _ -> failwith "ptr-alg: bad args"

(* (rel <mode> <rel text> <base parts>) *)
let sx_relptr (r : relptr) : sx =
  L [sx_z r.r_origin; sx_z r.r_index;
     (match r.r_pointer with SHash -> A "hash" | SPtr p -> sx_pointer p)]

let run_rel (args : sx list) : sx =
  match args with
  | [mode; text; L base] ->
      let mode = atom_bool mode in
      let s = ustr_of_sx text in
      let base = List.map ppart_of_sx base in
      let model =
        match rel_parse mode s with
        | Err e -> L [A "parse-err"; A (exn_name e)]
        | Ok r -> L [A "parsed"; sx_relptr r; sx_ustr (to_text r);
                     sx_result (fun p -> L [sx_pointer p; sx_ustr (encode p)]) (to_ r base)] in
      let base_tokens = tokens base in
      let spec =
        match draft_parse s with
        | None -> L [A "not-draft-syntax"]
        | Some rel ->
            L [A "draft";
               L [sx_z rel.d_steps; sx_z rel.d_offset;
                  (match rel.d_suffix with DHash -> A "hash" | DPtr ts -> L (List.map sx_ustr ts))];
               sx_option (fun ts -> L [L (List.map sx_ustr ts); sx_ustr (rfc_spell ts)]) (draft_apply rel base_tokens);
               L [A "offset-applicable"; sx_bool (offset_applicable rel base_tokens)];
               L [A "no-backslash"; sx_bool (no_backslash s)];
               L [A "within-limits"; sx_bool (tokens_within_limits base_tokens &&
                                              (match rel.d_suffix with DHash -> true | DPtr ts -> tokens_within_limits ts))]] in
      L [A "ok"; model; spec]
  | _ -> failwith "rel: bad args"

(* ---------- patches ------------------------------------------------------ *)
let opname_of (a : string) : opname =
  match a with
  | "add" -> NAdd | "addne" -> NAddNe | "addap" -> NAddAp | "remove" -> NRemove
  | "replace" -> NReplace | "move" -> NMove | "copy" -> NCopy | "test" -> NTest
  | _ -> failwith "bad op name"
let opname_str (n : opname) : string =
  match n with
  | NAdd -> "add" | NAddNe -> "addne" | NAddAp -> "addap" | NRemove -> "remove"
  | NReplace -> "replace" | NMove -> "move" | NCopy -> "copy" | NTest -> "test"

(* wire: (add path value) (addne path value) (addap path value) (remove path) (replace path value)
         (move from path) (copy from path) (test path value) *)
let opdoc_of_sx (x : sx) : opdoc =
  match x with
  | L [A ("add" | "addne" | "addap" | "replace" | "test" as n); p; v] ->
      { od_op = opname_of n; od_path = ustr_of_sx p; od_from = []; od_value = json_of_sx v }
  | L [A "remove"; p] -> { od_op = NRemove; od_path = ustr_of_sx p; od_from = []; od_value = JNull }
  | L [A ("move" | "copy" as n); f; p] ->
      { od_op = opname_of n; od_path = ustr_of_sx p; od_from = ustr_of_sx f; od_value = JNull }
  | _ -> failwith "bad op"

let sx_opdoc (o : opdoc) : sx =
  match o.od_op with
  | NAdd | NAddNe | NAddAp | NReplace | NTest -> L [A (opname_str o.od_op); sx_ustr o.od_path; sx_json o.od_value]
  | NRemove -> L [A "remove"; sx_ustr o.od_path]
  | NMove | NCopy -> L [A (opname_str o.od_op); sx_ustr o.od_from; sx_ustr o.od_path]

let rop_of_opdoc (o : opdoc) : rop option =
  let tk s = if rfc6901_syntax s then Some (rfc_tokens s) else None in
  match o.od_op with
  | NAdd -> (match tk o.od_path with Some p -> Some (RAdd (p, o.od_value)) | None -> None)
  | NRemove -> (match tk o.od_path with Some p -> Some (RRemove p) | None -> None)
  | NReplace -> (match tk o.od_path with Some p -> Some (RReplace (p, o.od_value)) | None -> None)
  | NTest -> (match tk o.od_path with Some p -> Some (RTest (p, o.od_value)) | None -> None)
  | NMove -> (match tk o.od_from, tk o.od_path with Some f, Some p -> Some (RMove (f, p)) | _ -> None)
  | NCopy -> (match tk o.od_from, tk o.od_path with Some f, Some p -> Some (RCopy (f, p)) | _ -> None)
  | NAddNe | NAddAp -> None

let sx_outcome (o : outcome) : sx =
  match o with OOk d -> L [A "ok"; sx_json d] | OError -> A "error" | OTestFailed -> A "test-failed"

(* (patch <mode> (ops) <doc>) *)
let run_patch (args : sx list) : sx =
  match args with
  | [mode; L ops; doc] ->
      let mode = atom_bool mode in
      let ods = List.map opdoc_of_sx ops in
      let d = json_of_sx doc in
      let texts = List.concat (List.map (fun o -> [o.od_path; o.od_from]) ods) in
      let model =
        match build mode ods with
        | Err e -> L [A "build-err"; A (exn_name e)]
        | Ok pops ->
            L [A "built"; L (List.map sx_opdoc (asdicts pops)); sx_result sx_json (apply pops d);
               (* the document after each prefix of the patch, for history diagnostics *)
               sx_result sx_json (apply pops d)] in
      let all_syntax = List.for_all rfc6901_syntax texts in
      let all_some = all_syntax in
      let spec_one (o : opdoc) (d : json) : outcome =
        match o.od_op with
        | NAddNe -> doc_addne (rfc_tokens o.od_path) o.od_value d
        | NAddAp -> doc_addap (rfc_tokens o.od_path) o.od_value d
        | _ -> (match rop_of_opdoc o with Some r -> rfc_op r d | None -> failwith "rop") in
      let rec spec_all (os : opdoc list) (d : json) : outcome =
        match os with
        | [] -> OOk d
        | o :: rest -> (match spec_one o d with OOk d' -> spec_all rest d' | e -> e) in
      let spec = if all_syntax then sx_outcome (spec_all ods d) else A "na" in
      let toks = List.concat (List.map (fun t -> if rfc6901_syntax t then rfc_tokens t else []) texts) in
      L [A "ok"; model; spec;
         L [A "std-ops"; sx_bool all_some];
         L [A "outside-ext"; sx_bool (outside_extensions toks)];
         L [A "within-limits"; sx_bool (tokens_within_limits toks)];
         L [A "no-backslash"; sx_bool (List.for_all no_backslash texts)];
         L [A "wf"; sx_bool (wf_json d)]]
  | _ -> failwith "patch: bad args"

(* ---------- JSONPath queries ---------------------------------------------- *)
exception Unsupported_case of string

let re_full_oracle (p : ustr) (fl : reflags) (s : ustr) : bool option =
  match regex_fullmatch p fl.f_i fl.f_s s with
  | Some r -> r
  | None -> raise (Unsupported_case "regex")
let re_search_oracle (p : ustr) (s : ustr) : bool option =
  match regex_search p s with
  | Some r -> r
  | None -> raise (Unsupported_case "regex")

let binop_of (a : string) : binop =
  match a with
  | "&&" -> BAnd | "||" -> BOr | "==" -> BEq | "!=" -> BNe | "<>" -> BLg | "<" -> BLt | ">" -> BGt
  | "<=" -> BLe | ">=" -> BGe | "in" -> BIn | "contains" -> BContains | "=~" -> BRe
  | _ -> failwith ("bad operator " ^ a)

let optz_of_sx (x : sx) : z option = match x with A "none" -> None | v -> Some (atom_z v)

let rec fexpr_of_sx (x : sx) : fexpr =
  match x with
  | A "nil" -> FNil
  | A "undef" -> FUndefined
  | A "key" -> FKey
  | L [A "lit"; j] ->
      (match json_of_sx j with
       | JNull -> FNil
       | JBool b -> FBool b
       | JNum n -> if n.n_float then FFloat n else FInt n.n_num
       | JStr s -> FStr s
       | _ -> failwith "bad literal")
  | L [A "re"; p; A fl] ->
      let has c = String.contains fl c in
      FRegex (ustr_of_sx p, { f_a = has 'a'; f_i = has 'i'; f_m = has 'm'; f_s = has 's' })
  | L [A "re"; p] -> FRegex (ustr_of_sx p, { f_a = false; f_i = false; f_m = false; f_s = false })
  | L (A "list" :: items) -> FList (fexprs_of (List.map fexpr_of_sx items))
  | L [A "not"; e] -> FNot (fexpr_of_sx e)
  | L [A "op"; A o; l; r] -> FInfix (fexpr_of_sx l, binop_of o, fexpr_of_sx r)
  | L (A "self" :: segs) -> FSelf (segs_of (List.map segment_of_sx segs))
  | L (A "root" :: fake :: segs) -> FRoot (atom_bool fake, segs_of (List.map segment_of_sx segs))
  | L (A "ctx" :: segs) -> FCtx (segs_of (List.map segment_of_sx segs))
  | L (A "fn" :: name :: args) -> FFunc (ustr_of_sx name, fexprs_of (List.map fexpr_of_sx args))
  | _ -> failwith "bad filter expression"
and selector_of_sx (x : sx) : selector =
  match x with
  | L [A "name"; s] -> SName (ustr_of_sx s)
  | L [A "idx"; i] -> SIndex (atom_z i)
  | L [A "slice"; a; b; c] -> SSlice (optz_of_sx a, optz_of_sx b, optz_of_sx c)
  | A "wild" -> SWild
  | A "keys" -> SKeys
  | L [A "filter"; e] -> SFilter (fexpr_of_sx e)
  | _ -> failwith "bad selector"
and segment_of_sx (x : sx) : segment =
  match x with
  | L [A "sel"; s] -> GSel (selector_of_sx s)
  | A "desc" -> GDescent
  | L (A "list" :: items) -> GList (sels_of (List.map selector_of_sx items))
  | _ -> failwith "bad segment"

let jpath_of_sx (x : sx) : jpath =
  match x with
  | L (A "path" :: fake :: segs) -> { p_fake = atom_bool fake; p_segs = segs_of (List.map segment_of_sx segs) }
  | _ -> failwith "bad path"

let query_of_sx (x : sx) : query =
  match x with
  | L (A "query" :: first :: rest) ->
      { q_first = jpath_of_sx first;
        q_rest = List.map (fun r -> match r with
                                    | L [A "union"; p] -> (OpUnion, jpath_of_sx p)
                                    | L [A "inter"; p] -> (OpIntersect, jpath_of_sx p)
                                    | _ -> failwith "bad compound") rest }
  | _ -> failwith "bad query"

let rec sels_to_list0 (l : sels) : selector list = match l with LNil -> [] | LCons (s, r) -> s :: sels_to_list0 r
let rec segs_to_list0 (l : segs) : segment list = match l with PNil -> [] | PCons (g, r) -> g :: segs_to_list0 r
let sx_jmatch (m : jmatch) : sx = L [sx_loc m.m_parts; sx_ustr m.m_path; sx_json m.m_val]
let sx_node ((l, v) : loc * json) : sx = L [sx_loc l; sx_json v]

let env_with (keys : ustr) : env = { default_env with e_keys = keys }

(* (eval <query> <doc> <ctx>) : every entry point of the model, and the RFC nodelist for a simple query *)
let run_eval (args : sx list) : sx =
  match args with
  | [q; doc; ctx] ->
      let q = query_of_sx q in
      let d = json_of_sx doc and c = json_of_sx ctx in
      let e = default_env in
      (try
         let fi = compound_finditer e re_full_oracle re_search_oracle q d c in
         let fa = compound_findall e re_full_oracle re_search_oracle q d c in
         let spec = L [A "nodes"; L (List.map sx_node (query_nodes re_full_oracle re_search_oracle e.e_keys q d c))] in
         let afi = compound_finditer_async e re_full_oracle re_search_oracle q d c in
         let afa = compound_findall_async e re_full_oracle re_search_oracle q d c in
         L [A "ok"; sx_result (fun ms -> L (List.map sx_jmatch ms)) fi;
            sx_result (fun vs -> L (List.map sx_json vs)) fa; spec;
            L [A "wf"; sx_bool (wf_json d && wf_json c)];
            sx_result (fun ms -> L (List.map sx_jmatch ms)) afi;
            sx_result (fun vs -> L (List.map sx_json vs)) afa;
            L [A "std"; sx_bool (std_query q)]; L [A "ext"; sx_bool (ext_query q)];
            L [A "cache"; L (List.concat (List.map (fun g -> match g with
                 | GList items -> List.concat (List.map (fun sl -> match sl with
                      | SFilter fe -> [L [sx_bool (any_cacheable fe);
                                          L (List.map (fun pos -> L (List.map (fun i -> sx_int (int_of_nat i)) pos)) (cache_positions fe []))]]
                      | _ -> []) (sels_to_list0 items))
                 | _ -> []) (segs_to_list0 q.q_first.p_segs)))];
            L [A "cached-run-equal"; sx_bool (finditer_c e re_full_oracle re_search_oracle q.q_first d c
                                              = finditer e re_full_oracle re_search_oracle q.q_first d c)];
            L [A "normpaths"; L (List.map (fun (l, _) -> let np = normpath l in L [sx_ustr np; sx_bool (valid_normpath np)])
                                   (query_nodes re_full_oracle re_search_oracle e.e_keys q d c))]]
       with Unsupported_case w -> L [A "unsupported"; A w])
  | _ -> failwith "eval: bad args"

(* (compare <left> <op> <right>) with operands: nothing | (val json) ; model on every run-time form *)
let run_compare (args : sx list) : sx =
  match args with
  | [l; A o; r] ->
      let op = binop_of o in
      let sv x = match x with A "nothing" -> None | L [A "val"; j] -> Some (json_of_sx j) | _ -> failwith "operand" in
      let forms x =
        match sv x with
        | None -> [VUndef; VNodes []]
        | Some j -> [VVal j] in
      let results =
        List.concat (List.map (fun a -> List.map (fun b ->
          filter_compare re_full_oracle a op b) (forms r)) (forms l)) in
      L [A "ok"; L (List.map sx_bool results); sx_bool (rfc_compare (sv l) op (sv r))]
  | _ -> failwith "compare: bad args"

(* ---------- projection ----------------------------------------------------- *)
(* (project <relative|root|flat> <match query> (<relative query> ...) <doc>) *)
let run_project (args : sx list) : sx =
  match args with
  | [A style; mq; L rqs; doc] ->
      let st = (match style with "relative" -> ProjRelative | "root" -> ProjRoot | "flat" -> ProjFlat | _ -> failwith "style") in
      let mq = query_of_sx mq in
      let rqs = List.map query_of_sx rqs in
      let d = json_of_sx doc in
      let e = default_env in
      (try
         let model =
           match compound_finditer e re_full_oracle re_search_oracle mq d (JObj []) with
           | Err x -> L [A "err"; A (exn_name x)]
           | Ok ms -> sx_result (fun js -> L (List.map sx_json js)) (select e re_full_oracle re_search_oracle st rqs ms) in
         let mnodes = query_nodes re_full_oracle re_search_oracle e.e_keys mq d (JObj []) in
         let ok = ref (ext_query mq && List.for_all ext_query rqs) in
         let ok2 = ref !ok in
         let spec =
           List.concat (List.map (fun (ml, mv) ->
             match mv with
             | JArr _ | JObj _ ->
                 let sel_nodes = List.concat (List.map (fun rq -> query_nodes re_full_oracle re_search_oracle e.e_keys rq mv (JObj [])) rqs) in
                 let locs = List.map fst sel_nodes in
                 if not (selections_deep_ok locs) then ok := false;
                 if not (keys_only locs && (st <> ProjRoot || ml = [] || keys_only [ml])) then ok2 := false;
                 let r = (match st with
                          | ProjFlat -> project_flat (List.map snd sel_nodes)
                          | ProjRelative -> project_tree mv locs
                          | ProjRoot -> project_root d ml locs) in
                 (match r with Some j -> [j] | None -> [])
             | _ -> []) mnodes) in
         L [A "ok"; model; L (List.map sx_json spec); L [A "domain"; sx_bool !ok]; L [A "wf"; sx_bool (wf_json d)];
            L [A "search-domain"; sx_bool !ok2]]
       with Unsupported_case w -> L [A "unsupported"; A w])
  | _ -> failwith "project: bad args"

(* ---------- match -> pointer -> patch (C20) --------------------------------- *)
(* (compose <doc> <loc> <new value>) *)
let run_compose (args : sx list) : sx =
  match args with
  | [doc; L parts; nv] ->
      let d = json_of_sx doc in
      let l = List.map part_of_sx parts in
      let x = json_of_sx nv in
      let p = of_loc l in
      (match node_at d l with
       | None -> L [A "not-a-location"]
       | Some v ->
           L [A "ok";
              L [sx_ustr (encode p);
                 sx_result sx_json (apply [OpTest (p, v)] d);
                 sx_result sx_json (apply [OpReplace (p, x)] d);
                 sx_result sx_json (apply [OpRemove p] d);
                 sx_result sx_json (apply [OpTest (p, x)] d)];
              L [sx_ustr (spell_loc l);
                 sx_json d;
                 sx_option sx_json (replace_at d l x);
                 sx_option sx_json (delete_at d l);
                 sx_bool (json_eq v x)];
              L [A "wf"; sx_bool (wf_json d)]])
  | _ -> failwith "compose: bad args"

(* ---------- lexer / parser ------------------------------------------------------ *)
let binop_str (o : binop) : string =
  match o with
  | BAnd -> "&&" | BOr -> "||" | BEq -> "==" | BNe -> "!=" | BLg -> "<>" | BLt -> "<" | BGt -> ">"
  | BLe -> "<=" | BGe -> ">=" | BIn -> "in" | BContains -> "contains" | BRe -> "=~"

let sx_optz (o : z option) : sx = match o with None -> A "none" | Some v -> sx_z v

let rec fexprs_to_list (l : fexprs) : fexpr list = match l with ENil -> [] | ECons (e, r) -> e :: fexprs_to_list r
let rec sels_to_list (l : sels) : selector list = match l with LNil -> [] | LCons (s, r) -> s :: sels_to_list r
let rec segs_to_list (l : segs) : segment list = match l with PNil -> [] | PCons (g, r) -> g :: segs_to_list r

let rec sx_fexpr (e : fexpr) : sx =
  match e with
  | FNil -> A "nil"
  | FUndefined -> A "undef"
  | FKey -> A "key"
  | FBool b -> L [A "lit"; sx_bool b]
  | FInt v -> L [A "lit"; L [A "i"; sx_z v]]
  | FFloat n -> L [A "lit"; sx_json (JNum n)]
  | FStr s -> L [A "lit"; sx_ustr s]
  | FRegex (p, fl) ->
      let f = (if fl.f_a then "a" else "") ^ (if fl.f_i then "i" else "") ^ (if fl.f_m then "m" else "") ^ (if fl.f_s then "s" else "") in
      if f = "" then L [A "re"; sx_ustr p] else L [A "re"; sx_ustr p; A f]
  | FList items -> L (A "list" :: List.map sx_fexpr (fexprs_to_list items))
  | FNot r -> L [A "not"; sx_fexpr r]
  | FInfix (l, o, r) -> L [A "op"; A (binop_str o); sx_fexpr l; sx_fexpr r]
  | FSelf p -> L (A "self" :: List.map sx_segment (segs_to_list p))
  | FRoot (fake, p) -> L (A "root" :: sx_bool fake :: List.map sx_segment (segs_to_list p))
  | FCtx p -> L (A "ctx" :: List.map sx_segment (segs_to_list p))
  | FFunc (name, args) -> L (A "fn" :: sx_ustr name :: List.map sx_fexpr (fexprs_to_list args))
and sx_selector (s : selector) : sx =
  match s with
  | SName k -> L [A "name"; sx_ustr k]
  | SIndex i -> L [A "idx"; sx_z i]
  | SSlice (a, b, c) -> L [A "slice"; sx_optz a; sx_optz b; sx_optz c]
  | SWild -> A "wild"
  | SKeys -> A "keys"
  | SFilter e -> L [A "filter"; sx_fexpr e]
and sx_segment (g : segment) : sx =
  match g with
  | GSel s -> L [A "sel"; sx_selector s]
  | GDescent -> A "desc"
  | GList items -> L (A "list" :: List.map sx_selector (sels_to_list items))

let sx_jpath (p : jpath) : sx = L (A "path" :: sx_bool p.p_fake :: List.map sx_segment (segs_to_list p.p_segs))
let sx_query (q : query) : sx =
  L (A "query" :: sx_jpath q.q_first ::
     List.map (fun (o, p) -> L [A (match o with OpUnion -> "union" | OpIntersect -> "inter"); sx_jpath p]) q.q_rest)

let re_ok_oracle (p : ustr) : bool option =
  match regex_fullmatch p false false [] with
  | Some (Some _) -> Some true
  | Some None -> Some false
  | None -> None

let tkind_name (k : tkind) : string =
  match k with
  | TRoot -> "ROOT" | TFakeRoot -> "FAKE_ROOT" | TSelf -> "SELF" | TKey -> "KEY" | TUnion -> "UNION" | TIntersect -> "INTERSECT"
  | TFilterCtx -> "FILTER_CONTEXT" | TKeys -> "KEYS" | TDQ -> "DOUBLE_QUOTE_STRING" | TSQ -> "SINGLE_QUOTE_STRING"
  | TRePattern -> "RE_PATTERN" | TReFlags -> "RE_FLAGS" | TSliceStart -> "SLICE_START" | TSliceStop -> "SLICE_STOP"
  | TSliceStep -> "SLICE_STEP" | TFunction -> "FUNCTION" | TProperty -> "PROP" | TBare -> "BARE_PROPERTY" | TFloat -> "FLOAT"
  | TInt -> "INT" | TDDot -> "DDOT" | TAnd -> "AND" | TOr -> "OR" | TWild -> "WILD" | TFilter -> "FILTER" | TIn -> "IN"
  | TTrue -> "TRUE" | TFalse -> "FALSE" | TNil -> "NIL" | TContains -> "CONTAINS" | TUndefined -> "UNDEFINED"
  | TMissing -> "MISSING" | TLBracket -> "LBRACKET" | TRBracket -> "RBRACKET" | TComma -> "COMMA" | TEq -> "EQ" | TNe -> "NE"
  | TLg -> "LG" | TLe -> "LE" | TGe -> "GE" | TRe -> "RE" | TLt -> "LT" | TGt -> "GT" | TNot -> "NOT" | TLParen -> "LPAREN"
  | TRParen -> "RPAREN" | TEof -> "EOF" | TIllegal -> "ILLEGAL"

let env_of_sx (x : sx) : env =
  match x with
  | A "default" -> default_env
  | L [A "env"; root; fake; self; key; union; inter; fctx; keys; ue; wt] ->
      { default_env with e_root = ustr_of_sx root; e_fake_root = ustr_of_sx fake; e_self = ustr_of_sx self;
        e_key = ustr_of_sx key; e_union = ustr_of_sx union; e_intersection = ustr_of_sx inter;
        e_filter_context = ustr_of_sx fctx; e_keys = ustr_of_sx keys;
        e_unicode_escape = atom_bool ue; e_well_typed = atom_bool wt }
  | _ -> failwith "env expected"

(* (compile <env> <text>) *)
let run_compile (args : sx list) : sx =
  match args with
  | [ev; text] ->
      let e = env_of_sx ev in
      let s = ustr_of_sx text in
      let toks = tokenize e s in
      L [A "ok";
         L (List.map (fun t -> L [A (tkind_name t.tk); sx_ustr t.tv]) toks);
         sx_result sx_query (compile e re_ok_oracle s)]
  | _ -> failwith "compile: bad args"

(* ---------- string forms (C10, C17) ---------------------------------------------- *)
(* (roundtrip <env> <text> <ctx> (<doc> ...)) *)
let rec run_roundtrip (args : sx list) : sx =
  match args with
  | [ev; text; ctx; L docs; ast] ->
      (* with the intended AST: also the specification's nodes for it (keys token of this environment) *)
      let e = env_of_sx ev in
      let c = json_of_sx ctx in
      let q = query_of_sx ast in
      (try
         let base = run_roundtrip [ev; text; ctx; L docs] in
         let nodes = L (List.map (fun d -> L (List.map sx_node (query_nodes re_full_oracle re_search_oracle e.e_keys q (json_of_sx d) c))) docs) in
         L [A "with-ast"; base; nodes; sx_bool (ext_query q)]
       with Unsupported_case w -> L [A "unsupported"; A w])
  | [ev; text; ctx; L docs] ->
      let e = env_of_sx ev in
      let s = ustr_of_sx text in
      let c = json_of_sx ctx in
      let docs = List.map json_of_sx docs in
      (try
         match compile e re_ok_oracle s with
         | Err x -> L [A "compile-err"; A (exn_name x)]
         | Ok q ->
             let ev_on q = L (List.map (fun d -> sx_result (fun ms -> L (List.map sx_jmatch ms))
                                                 (compound_finditer e re_full_oracle re_search_oracle q d c)) docs) in
             (match query_text e q with
              | Err x -> L [A "text-err"; A (exn_name x); sx_query q]
              | Ok t1 ->
                  (match compile e re_ok_oracle t1 with
                   | Err x -> L [A "recompile-err"; A (exn_name x); sx_ustr t1; sx_query q]
                   | Ok q2 ->
                       L [A "ok"; sx_query q; sx_ustr t1; sx_query q2;
                          sx_result sx_ustr (query_text e q2); ev_on q; ev_on q2;
                          L [A "gate"; sx_bool (gate_query e.e_min_index e.e_max_index q)];
                          L [A "ext"; sx_bool (ext_query q)];
                          (* bridge statements tested before they are proved *)
                          L [A "lex-bridge"; (match query_toks e q with
                                              | Ok ts -> sx_bool (tokenize e t1 = ts)
                                              | Err x -> A (exn_name x))];
                          L [A "parse-bridge"; (match query_toks e q with
                                                | Ok ts -> sx_bool (compile_tokens e re_ok_oracle ts = Ok (norm_query q))
                                                | Err x -> A (exn_name x))];
                          L [A "norm-is-reparse"; sx_bool (q2 = norm_query q)];
                          (* the hypotheses of the C10 theorems, evaluated on the compiled query *)
                          L [A "tokens-ok"; sx_bool (tokens_ok e)];
                          L [A "in-domain"; sx_bool (c10_domain e re_ok_oracle q)];
                          L [A "floats-ok"; sx_bool (floats_ok q)];
                          L [A "floats-stable"; sx_bool (floats_stable q)]]))
       with Unsupported_case w -> L [A "unsupported"; A w])
  | _ -> failwith "roundtrip: bad args"

(* ---------- compile-time gate (C07) --------------------------------------------- *)
(* (gate <env> <min> <max> <text> <ast>) *)
let run_gate (args : sx list) : sx =
  match args with
  | [ev; lo; hi; text; ast] ->
      let e0 = env_of_sx ev in
      let e = { e0 with e_min_index = atom_z lo; e_max_index = atom_z hi } in
      let q = query_of_sx ast in
      L [A "ok"; sx_result sx_query (compile e re_ok_oracle (ustr_of_sx text));
         L [A "std"; sx_bool (std_query q)];
         L [A "gate"; sx_bool (gate_query e.e_min_index e.e_max_index q)]]
  | _ -> failwith "gate: bad args"

(* ---------- command line tool (C18) ---------------------------------------------- *)
let sx_observed (o : observed) : sx =
  L [sx_int (int_of_nat o.o_status); sx_bool o.o_stdout; sx_int (int_of_nat o.o_stderr_lines); sx_bool o.o_traceback]

(* (cli <path|pointer|patch> <debug> success | (raises <stage> (s ...))) *)
let run_cli (args : sx list) : sx =
  match args with
  | [A c; dbg; o] ->
      let cmd = (match c with "path" -> CmdPath | "pointer" -> CmdPointer | "patch" -> CmdPatch | _ -> failwith "cmd") in
      let debug = atom_bool dbg in
      let out = (match o with
                 | A "success" -> Success
                 | L [A "raises"; st; cls] -> Raises (nat_of_int (atom_int st), ustr_of_sx cls)
                 | _ -> failwith "outcome") in
      let listed = (match out with
                    | Success -> true
                    | Raises (st, cls) ->
                        List.exists (fun r -> match r with
                                              | Raises (st2, cls2) -> st2 = st && cls2 = cls
                                              | Success -> false) (rejections cmd)) in
      L [A "ok"; sx_observed (cli_run cmd debug out); sx_observed (demanded debug out); sx_bool listed; sx_bool (attrs_defined cmd)]
  | _ -> failwith "cli: bad args"

(* ---------- dispatch ---------------------------------------------------- *)
let dispatch (x : sx) : sx =
  match x with
  | L (A "fluent" :: args) -> run_fluent args
  | L (A "ptr-resolve" :: args) -> run_ptr_resolve args
  | L (A "ptr-spell" :: args) -> run_ptr_spell args
  | L (A "ptr-alg" :: args) -> run_ptr_alg args
  | L (A "rel" :: args) -> run_rel args
  | L (A "patch" :: args) -> run_patch args
  | L (A "eval" :: args) -> run_eval args
  | L (A "compare" :: args) -> run_compare args
  | L (A "project" :: args) -> run_project args
  | L (A "compose" :: args) -> run_compose args
  | L (A "compile" :: args) -> run_compile args
  | L (A "roundtrip" :: args) -> run_roundtrip args
  | L (A "gate" :: args) -> run_gate args
  | L (A "cli" :: args) -> run_cli args
  | _ -> failwith "unknown case kind"

let () =
  let b = Buffer.create 4096 in
  (try
     while true do
       let line = input_line stdin in
       if String.length line > 0 then begin
         Buffer.clear b;
         (try
            let (x, _) = parse_sx (sx_tokenize line) in
            print_sx b (dispatch x)
          with
          | Failure m -> Buffer.clear b; Buffer.add_string b ("(driver-error " ^ String.escaped m ^ ")")
          | Stack_overflow -> Buffer.clear b; Buffer.add_string b "(driver-error stack-overflow)"
          | Not_found -> Buffer.clear b; Buffer.add_string b "(driver-error not-found)");
         print_string (Buffer.contents b);
         print_newline ()
       end
     done
   with End_of_file -> ())
