#!/usr/bin/env python3
"""tools/refactor_matrix.py [names...] — false-alarm experiment: apply each behaviour-preserving refactoring kept under
refactors/<name>/patch.diff to /repo, run the pinned test suite and ALL registered quick checks, record what they said in
refactors/<name>/meta.json and refactors/RESULTS.md, and undo the change.  A check that prints VIOLATION here raises an
alarm on code for which the property still holds (expected only in the form 'no-failing-input-found' when a translated
table or the correspondence itself is what broke)."""
import json, os, re, shutil, subprocess, sys, tempfile
ROOT = "/verif"
names = sys.argv[1:] or sorted(n for n in os.listdir(ROOT + "/refactors") if os.path.isdir(f"{ROOT}/refactors/{n}"))
props = [c["property_id"] for c in json.load(open(ROOT + "/MANIFEST.json"))["checks"]]
if subprocess.run(["git", "-C", "/repo", "diff", "--quiet"]).returncode != 0:
    sys.exit("/repo is not clean")
keep = tempfile.mkdtemp(prefix="evidence_keep_", dir="/var/tmp")
shutil.copytree(ROOT + "/evidence", keep + "/evidence")
for n in names:
    d = f"{ROOT}/refactors/{n}"
    meta = json.load(open(d + "/meta.json"))
    if subprocess.run(["git", "-C", "/repo", "apply", d + "/patch.diff"]).returncode != 0:
        meta["checks_run"] = {"error": "patch does not apply to the current /repo"}
        json.dump(meta, open(d + "/meta.json", "w"), indent=1, ensure_ascii=False)
        print(n, "patch does not apply", flush=True)
        continue
    res = {}
    try:
        t = subprocess.run("cd /repo && /venv/bin/python -m pytest -q -p no:cacheprovider --continue-on-collection-errors 2>&1 | tail -1",
                           shell=True, capture_output=True, text=True).stdout.strip()
        for p in props:
            r = subprocess.run([ROOT + "/check", p, "--tier", "quick"], capture_output=True, text=True, cwd=ROOT)
            out = r.stdout + r.stderr
            viol = [l for l in out.splitlines() if l.startswith("VIOLATION")]
            summ = [l for l in out.splitlines() if re.match(r"^C\d\d quick:", l)]
            res[p] = {"exit": r.returncode, "violation_line": viol[0] if viol else None, "summary": summ[-1] if summ else out[-400:]}
    finally:
        subprocess.run(["git", "-C", "/repo", "checkout", "--", "."], check=True)
    meta["checks_run"] = {"tests": t, "results": res}
    json.dump(meta, open(d + "/meta.json", "w"), indent=1, ensure_ascii=False)
    alarms = {p: v["violation_line"] or ("exit %s" % v["exit"]) for p, v in res.items() if v["violation_line"] or v["exit"] not in (0,)}
    print(n, "tests:", t, "alarms:", alarms or "none", flush=True)
shutil.rmtree(ROOT + "/evidence"); shutil.copytree(keep + "/evidence", ROOT + "/evidence"); shutil.rmtree(keep)
with open(ROOT + "/refactors/RESULTS.md", "w") as f:
    f.write("# Behaviour-preserving refactorings against all registered quick checks\n\n| refactoring | tests | alarms |\n|---|---|---|\n")
    for n in sorted(os.listdir(ROOT + "/refactors")):
        mp = f"{ROOT}/refactors/{n}/meta.json"
        if not os.path.exists(mp):
            continue
        m = json.load(open(mp)).get("checks_run", {})
        if "results" not in m:
            f.write(f"| {n} | - | {m.get('error', 'not run')} |\n"); continue
        al = ["%s: %s" % (p, "no-failing-input-found" if "no-failing-input-found" in (v["violation_line"] or "") else ("VIOLATION with replay" if v["violation_line"] else "exit %s" % v["exit"]))
              for p, v in m["results"].items() if v["violation_line"] or v["exit"] != 0]
        f.write(f"| {n} | {m['tests']} | {'; '.join(al) or 'none'} |\n")
