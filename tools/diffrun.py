#!/usr/bin/env python3
"""Ad-hoc differential run of one harness module without the proof bookkeeping (development aid)."""
import sys, os, json, random, collections
sys.path.insert(0, "/verif"); sys.path.insert(0, os.environ.get("VERIF_REPO", "/repo"))
import importlib
from harness import framework as F
mod = importlib.import_module("harness." + sys.argv[1].lower())
tier = sys.argv[2] if len(sys.argv) > 2 else "quick"
rng = random.Random(17)
cases = list(mod.gen(rng, tier))
print("cases", len(cases))
recs = []
for i in range(0, len(cases), 4000):
    recs += F.evaluate(mod, cases[i:i+4000])
project = getattr(mod, "project", lambda c, r, d: r)
nv = nc = nd = nin = 0
shown = collections.Counter()
for r in recs:
    c, impl, dec = r["case"], r["impl"], r["dec"]
    if dec.get("driver_error"):
        print("DRIVER ERROR", json.dumps(c, ensure_ascii=False)[:300], dec["model"]); nc += 1; continue
    if dec.get("skip"): continue
    p = json.loads(json.dumps(project(c, impl, dec), default=str))
    kid = mod.known(c, impl, dec) if hasattr(mod, "known") else None
    if dec["in_domain"]:
        nin += 1
        if p != dec["spec"]:
            nv += 1
            key = "V"+str(kid)
            if shown[key] < 4:
                shown[key] += 1
                print("IMPL!=SPEC", kid, json.dumps(c, ensure_ascii=False)[:400]); print("   impl", json.dumps(p, ensure_ascii=False)[:600]); print("   spec", json.dumps(dec["spec"], ensure_ascii=False)[:600])
    fm = getattr(mod, "for_model", None)
    if dec.get("model_unsupported"): continue
    if (json.loads(json.dumps(fm(c, impl), default=str)) if fm else impl) != dec["model"]:
        nd += 1
        if shown["M"] < 6:
            shown["M"] += 1
            print("IMPL!=MODEL", "in" if dec["in_domain"] else "out", json.dumps(c, ensure_ascii=False)[:400]); print("   impl ", json.dumps(impl, ensure_ascii=False)[:700]); print("   model", json.dumps(dec["model"], ensure_ascii=False)[:700])
print(f"in_domain={nin} impl!=spec={nv} impl!=model={nd} driver_err={nc}")
