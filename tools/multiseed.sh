#!/bin/bash
# tools/multiseed.sh [seeds...] — run every registered quick check with several seeds on the unchanged tree; prints the
# runs that are not OK (a false alarm hunts here before it is committed).  Evidence is restored afterwards.
cd /verif
SEEDS=${@:-1 2 3 4 5}
tmp=$(mktemp -d /var/tmp/ev_keep.XXXX); cp -r evidence $tmp/
for s in $SEEDS; do
  for i in 01 02 03 04 05 06 07 08 09 10 11 12 13 14 15 16 17 18 19 20; do
    out=$(VERIF_SEED=$s ./check C$i --tier quick --no-build 2>&1 | grep -v "KNOWN-FINDING" | tail -2)
    case "$out" in *"-> OK"*) ;; *) echo "seed=$s C$i: $out";; esac
  done
done
rm -rf evidence; cp -r $tmp/evidence evidence; rm -rf $tmp
echo "multiseed done: seeds $SEEDS"
