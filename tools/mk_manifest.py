#!/usr/bin/env python3
"""Regenerate MANIFEST.json from the table below (one entry per claimed property)."""
import json, os
HERE = os.path.dirname(os.path.dirname(os.path.abspath(__file__)))
props = [json.loads(l) for l in open(os.path.join(HERE, "properties.jsonl"))]
CLAIMS = json.load(open(os.path.join(HERE, "tools", "claims.json")))
checks = []
na = []
for p in props:
    pid = p["id"]
    c = CLAIMS.get(pid)
    if c is None or c.get("not_applicable"):
        na.append({"property_id": pid, "reason": (c or {}).get("not_applicable", "check not built yet in this round; no claim is made")})
        continue
    checks.append({
        "property_id": pid,
        "quick_cmd": f"./check {pid} --tier quick",
        "thorough_cmd": f"./check {pid} --tier thorough",
        "evidence_file": f"/verif/evidence/{pid}.json",
        "replay_cmd_template": f"./check {pid} --replay {{path}}",
        "engine": "rocq-proof+correspondence",
        "level_claimed": {"category": "proof", "text": c["text"], "design_ref": c.get("design_ref", "DESIGN.md section 7")},
        "level_note": c["note"],
        "technique": c.get("technique", "Rocq (Coq 8.16.1) theorem about a hand-written Gallina model; model tied to /repo by differential "
                                        "execution of the extracted model and specification against the implementation"),
    })
m = {
    "version": 1,
    "setup_cmd": "./build.sh",
    "hooks": {
        "guard": "PYTHON_JSONPATH_VERIF",
        "enable": "no hooks are needed: every observation goes through the public API; ./check exports PYTHON_JSONPATH_VERIF=1 for completeness",
        "baseline_off_cmd": "cd /repo && /venv/bin/python -m pytest -ra -q -p no:cacheprovider --timeout=900 --continue-on-collection-errors",
        "source_commits": json.load(open(os.path.join(HERE, "tools", "source_commits.json"))) if os.path.exists(os.path.join(HERE, "tools", "source_commits.json")) else [],
        "add_only": True,
    },
    "engines": [{
        "name": "rocq-proof+correspondence",
        "path": "/verif/check",
        "serves_properties": [c["property_id"] for c in checks],
        "kind_free_text": "Coq 8.16.1 development under coq/ (model, spec, proofs, props); extraction to OCaml (ocaml/driver); "
                          "Python harness (harness/) runs implementation, extracted model and extracted specification on the same "
                          "generated cases and decides per DESIGN.md section 5.3",
    }],
    "checks": checks,
    "notes": "See DESIGN.md. known_findings.json lists genuine defects recorded or fixed.",
    "not_applicable": na,
}
json.dump(m, open(os.path.join(HERE, "MANIFEST.json"), "w"), indent=1)
print("claimed:", [c["property_id"] for c in checks])
