#!/bin/bash
# tools/try_seed.sh <dir with patch.diff demo.py meta.json> [property ids to check ...]
# Confirms a seeded change (demo passes on the clean tree, fails with the change; the pinned test suite
# still passes with the change), then runs the quick checks against it and undoes it.
set -u
D=$1; shift
PROPS=${@:-}
cd /repo || exit 2
git diff --quiet || { echo "repo not clean"; exit 2; }
echo "== demo on clean tree";  PYTHONPATH=/repo /venv/bin/python "$D/demo.py" >/dev/null 2>&1; echo "exit $?"
git apply "$D/patch.diff" || { echo "patch does not apply"; exit 2; }
echo "== demo with change";    PYTHONPATH=/repo /venv/bin/python "$D/demo.py" >/dev/null 2>&1; echo "exit $?"
echo "== test suite with change"; /venv/bin/python -m pytest -q -p no:cacheprovider --continue-on-collection-errors 2>&1 | tail -1
cd /verif
for p in $PROPS; do
  out=$(./check $p --tier quick 2>&1 | grep -v KNOWN-FINDING | tail -2 | tr '\n' ' ')
  echo "== $p: $out"
done
git -C /repo checkout -- .
git -C /repo status --short | head -3
