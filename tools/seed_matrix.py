#!/usr/bin/env python3
"""tools/seed_matrix.py [--tier quick] [ids...] — apply each kept seeded change (seeded/<id>/patch.diff) to /repo, run the
registered check of its property (plus the related ones listed below), record what the checks said in seeded/<id>/meta.json
and seeded/RESULTS.md, and undo the change (git -C /repo checkout -- .).  /repo must be clean; nothing is committed there."""
import json, os, subprocess, sys, re
ROOT = "/verif"
RELATED = {"C01": ["C09"], "C05": ["C15"], "C13": ["C09"], "C02": ["C09"], "C03": ["C04"], "C04": ["C03"], "C08": ["C09"], "C09": ["C08", "C02"],  "C20": ["C05"], "C10": ["C17"], "C17": ["C10"]}
tier = "quick"
args = sys.argv[1:]
own_only = False
if args[:1] == ["--own-only"]:            # only the seeded change's own property (the related checks are informative, and slow)
    own_only = True; args = args[1:]
if args[:1] == ["--tier"]:
    tier = args[1]; args = args[2:]
ids = args or sorted(os.listdir(ROOT + "/seeded"))
ids = [i for i in ids if os.path.isdir(f"{ROOT}/seeded/{i}")]
claimed = {c["property_id"] for c in json.load(open(ROOT + "/MANIFEST.json"))["checks"]}
if subprocess.run(["git", "-C", "/repo", "diff", "--quiet"]).returncode != 0:
    sys.exit("/repo is not clean")
import shutil, tempfile
_keep = tempfile.mkdtemp(prefix="evidence_keep_", dir="/var/tmp")
shutil.copytree(ROOT + "/evidence", _keep + "/evidence")      # the evidence of the unchanged tree is put back at the end
rows = []
for sid in ids:
    d = f"{ROOT}/seeded/{sid}"
    prop = sid[:3]
    meta = json.load(open(d + "/meta.json"))
    subprocess.run(["git", "-C", "/repo", "apply", d + "/patch.diff"], check=True)
    res = {}
    try:
        for p in [prop] + ([] if own_only else RELATED.get(prop, [])):
            if p not in claimed:
                res[p] = {"exit": None, "violation_line": None, "concrete_input": False, "summary": "property not claimed in MANIFEST.json"}
                continue
            r = subprocess.run([ROOT + "/check", p, "--tier", tier], capture_output=True, text=True, cwd=ROOT)
            out = r.stdout + r.stderr
            viol = [l for l in out.splitlines() if l.startswith("VIOLATION")]
            summ = [l for l in out.splitlines() if re.match(r"^C\d\d (quick|thorough):", l)]
            res[p] = {"exit": r.returncode, "violation_line": viol[0] if viol else None,
                      "concrete_input": bool(viol) and "no-failing-input-found" not in viol[0], "summary": summ[-1] if summ else out[-300:]}
    finally:
        subprocess.run(["git", "-C", "/repo", "checkout", "--", "."], check=True)
    meta["checks_run"] = {"tier": tier, "results": res}
    meta["detected"] = bool(res[prop]["violation_line"])
    json.dump(meta, open(d + "/meta.json", "w"), indent=1, ensure_ascii=False)
    rows.append((sid, res))
    print(sid, {p: ("VIOLATION" + ("" if v["concrete_input"] else " (no input)") if v["violation_line"] else "missed") for p, v in res.items()}, flush=True)
shutil.rmtree(ROOT + "/evidence")
shutil.copytree(_keep + "/evidence", ROOT + "/evidence")
shutil.rmtree(_keep)
allrows = []
for sid in sorted(os.listdir(ROOT + "/seeded")):
    mp = f"{ROOT}/seeded/{sid}/meta.json"
    if os.path.exists(mp):
        mm = json.load(open(mp))
        if "checks_run" in mm:
            allrows.append((sid, mm["checks_run"]["results"]))
rows = allrows
with open(ROOT + "/seeded/RESULTS.md", "w") as f:
    f.write(f"# Seeded changes against the registered checks ({tier} tier)\n\n| seeded change | own check | related checks |\n|---|---|---|\n")
    for sid, res in rows:
        def cell(p):
            v = res[p]
            return f"{p}: " + (("VIOLATION with replay" if v["concrete_input"] else "VIOLATION no-failing-input-found") if v["violation_line"] else "not detected")
        f.write(f"| {sid} | {cell(sid[:3])} | {'; '.join(cell(p) for p in res if p != sid[:3])} |\n")
