(* SelProofs.v — each selector of the implementation model, applied to one match, yields the
   nodes the specification's selector yields on the node the match denotes; the error monad's
   concatenation; the descendant segment (container descendants suffice). *)
From Coq Require Import ZArith List Bool Lia ZifyBool.
From JP Require Import Base Json PyStr PySlice PyJsonStr Syntax Eval Rfc9535 Rfc9535Typing EvalCorr.
From JP Require Import SliceProofs EvalBasics.
Import ListNotations.

(* ---- lists ------------------------------------------------------------------------- *)

Lemma map_flat_map {A B C} (g : B -> C) (f : A -> list B) (l : list A) :
  map g (flat_map f l) = flat_map (fun x => map g (f x)) l.
Proof.
  induction l as [|x l IH]; [reflexivity|]. cbn [flat_map]. rewrite map_app, IH. reflexivity.
Qed.

Lemma flat_map_map {A B C} (f : B -> list C) (g : A -> B) (l : list A) :
  flat_map f (map g l) = flat_map (fun x => f (g x)) l.
Proof.
  induction l as [|x l IH]; [reflexivity|]. cbn [map flat_map]. rewrite IH. reflexivity.
Qed.

Lemma flat_map_ext' {A B} (f g : A -> list B) (l : list A) :
  (forall x, f x = g x) -> flat_map f l = flat_map g l.
Proof.
  intros H. induction l as [|x l IH]; [reflexivity|]. cbn [flat_map]. rewrite H, IH. reflexivity.
Qed.

Lemma Forall2_map_same {A B C} (R : B -> C -> Prop) (f : A -> B) (g : A -> C) (l : list A) :
  (forall x, R (f x) (g x)) -> Forall2 R (map f l) (map g l).
Proof. intros H. induction l as [|x l IH]; cbn [map]; constructor; auto. Qed.

Lemma length_flat_map_le1 {A B} (f : A -> list B) (l : list A) :
  (forall x, length (f x) <= 1) -> length (flat_map f l) <= length l.
Proof.
  intros H. induction l as [|x l IH]; [apply le_n|].
  cbn [flat_map length]. rewrite app_length. specialize (H x). lia.
Qed.

(* ---- the error monad ----------------------------------------------------------------- *)

Lemma concat_results_corr {A B} (F : A -> result (list jmatch)) (G : B -> list node)
      (la : list A) (lb : list B) :
  Forall2 (fun a b => exists ms, F a = Ok ms /\ map node_of ms = G b) la lb ->
  exists ms, concat_results (map F la) = Ok ms /\ map node_of ms = flat_map G lb.
Proof.
  intros H. induction H as [|a b la lb (ms & HF & HG) _ (ms' & HF' & HG')].
  - exists []. split; reflexivity.
  - exists (ms ++ ms'). cbn [map concat_results flat_map]. rewrite HF. cbn [bind].
    rewrite HF'. cbn [bind]. split; [reflexivity|]. rewrite map_app, HG, HG'. reflexivity.
Qed.

Lemma concat_results_map_corr (F : jmatch -> result (list jmatch)) (G : node -> list node)
      (ms : list jmatch) :
  (forall m, exists ms', F m = Ok ms' /\ map node_of ms' = G (node_of m)) ->
  exists ms', concat_results (map F ms) = Ok ms' /\ map node_of ms' = flat_map G (map node_of ms).
Proof.
  intros H. apply concat_results_corr.
  rewrite <- (map_id ms) at 1. apply Forall2_map_same. intros m. apply H.
Qed.

(* ---- selectors ------------------------------------------------------------------------ *)

Lemma name_corr k m : map node_of (resolve_name k m) = sel_name k (node_of m).
Proof.
  unfold resolve_name, sel_name, node_of. cbn [fst snd].
  destruct (m_val m); try reflexivity. destruct (lookup k l); reflexivity.
Qed.

Lemma index_corr i m : map node_of (resolve_index i m) = sel_index i (node_of m).
Proof.
  unfold resolve_index, sel_index, node_of. cbn [fst snd].
  destruct (m_val m) as [| | | |xs|ms]; try reflexivity.
  - set (len := Z.of_nat (length xs)).
    assert (Hj : (if (0 <=? i)%Z then i else (len + i)%Z) = (if (i <? 0)%Z then (len + i)%Z else i)).
    { destruct (0 <=? i)%Z eqn:H1, (i <? 0)%Z eqn:H2; lia. }
    rewrite Hj. set (j := if (i <? 0)%Z then (len + i)%Z else i) in *.
    destruct ((j <? 0)%Z || (len <=? j)%Z) eqn:Hout.
    + replace ((0 <=? j)%Z && (j <? len)%Z) with false by lia. reflexivity.
    + replace ((0 <=? j)%Z && (j <? len)%Z) with true by lia.
      destruct (nth_opt xs (Z.to_nat j)) as [v|]; [|reflexivity].
      cbn [map child_idx m_parts m_val]. repeat f_equal.
      unfold normalized_index. fold len. subst j.
      destruct (i <? 0)%Z eqn:H1; cbn [andb]; [|reflexivity].
      destruct (Z.abs i <=? len)%Z eqn:H2; [reflexivity|lia].
  - destruct (lookup (str_of_Z i) ms); reflexivity.
Qed.

Lemma slice_corr a b c m : map node_of (resolve_slice a b c m) = sel_slice a b c (node_of m).
Proof.
  unfold resolve_slice, sel_slice, node_of. cbn [fst snd].
  destruct (m_val m) as [| | | |xs|ms]; try reflexivity.
  rewrite slice_agrees, flat_map_map, map_flat_map. apply flat_map_ext'. intros z.
  destruct (nth_opt xs (Z.to_nat z)); reflexivity.
Qed.

Lemma wild_corr m : map node_of (resolve_wild m) = sel_wild (node_of m).
Proof.
  unfold resolve_wild, sel_wild, node_of, children. cbn [fst snd].
  destruct (m_val m) as [| | | |xs|ms]; try reflexivity; rewrite !map_map; apply map_ext; reflexivity.
Qed.

Lemma map_snd_enumerate_from {A B} (g : A -> B) (l : list A) : forall n,
  map (fun ix => g (snd ix)) (enumerate_from n l) = map g l.
Proof. induction l as [|x l IH]; intros n; [reflexivity|]. cbn [enumerate_from map snd]. rewrite IH. reflexivity. Qed.

Lemma keys_corr E m : map node_of (resolve_keys E m) = sel_keys (e_keys E) (node_of m).
Proof.
  unfold resolve_keys, sel_keys, node_of. cbn [fst snd].
  destruct (m_val m) as [| | | |xs|ms]; try reflexivity.
  rewrite map_map. unfold enumerate.
  etransitivity;
    [|apply (map_snd_enumerate_from
               (fun kv : ustr * json => (m_parts m ++ [PKey (e_keys E ++ fst kv)], JStr (fst kv))) ms 0)].
  apply map_ext. intros [i [k v]]. reflexivity.
Qed.

(* the candidates of a filter selector are the children, in order *)
Lemma candidates_children m :
  Forall2 (fun c pc => fst (fst c) = snd pc /\ snd (fst c) = part_value (fst pc) /\
                       node_of (snd c) = (m_parts m ++ [fst pc], snd pc))
          (filter_candidates m) (children (m_val m)).
Proof.
  unfold filter_candidates, children.
  destruct (m_val m) as [| | | |xs|ms]; try constructor.
  - apply Forall2_map_same. intros [i v]. repeat split.
  - apply Forall2_map_same. intros [k v]. repeat split.
Qed.

(* ---- spec selectors select nothing from a primitive value --------------------------- *)

Section SpecPrim.
  Variable rf : ustr -> reflags -> ustr -> option bool.
  Variable rs : ustr -> ustr -> option bool.
  Variable keys : ustr.

  Lemma sel_nodes_prim s root ctx n :
    is_container (snd n) = false -> sel_nodes rf rs keys s root ctx n = [].
  Proof.
    intros H. destruct s; cbn [sel_nodes];
      unfold sel_name, sel_index, sel_slice, sel_wild, sel_keys, children;
      destruct (snd n); try discriminate H; reflexivity.
  Qed.

  Lemma sels_nodes_prim l root ctx n :
    is_container (snd n) = false -> sels_nodes rf rs keys l root ctx n = [].
  Proof.
    intros H. induction l as [|s r IH]; cbn [sels_nodes]; [reflexivity|].
    rewrite sel_nodes_prim by exact H. exact IH.
  Qed.
End SpecPrim.

(* ---- descendants ---------------------------------------------------------------------- *)

Fixpoint expand_obj (m : jmatch) (ms : list (ustr * json)) : list jmatch :=
  match ms with
  | [] => []
  | (k, c) :: ms' =>
      (if is_container c then let cm := child_key m k c in cm :: expand_val c cm else [])
      ++ expand_obj m ms'
  end.

Fixpoint expand_arr (m : jmatch) (xs : list json) (i : nat) : list jmatch :=
  match xs with
  | [] => []
  | c :: xs' =>
      (if is_container c then let cm := child_idx m i c in cm :: expand_val c cm else [])
      ++ expand_arr m xs' (S i)
  end.

Lemma expand_val_obj m ms : expand_val (JObj ms) m = expand_obj m ms.
Proof.
  cbn [expand_val]. induction ms as [|[k c] ms IH]; [reflexivity|].
  cbn [expand_obj]. rewrite <- IH. reflexivity.
Qed.

Lemma expand_val_arr m xs : expand_val (JArr xs) m = expand_arr m xs 0.
Proof.
  cbn [expand_val]. generalize 0. induction xs as [|c xs IH]; intros i; [reflexivity|].
  cbn [expand_arr]. rewrite <- IH. reflexivity.
Qed.

Lemma expand_val_prim v m : is_container v = false -> expand_val v m = [].
Proof. destruct v; intros H; try discriminate H; reflexivity. Qed.

Section Descent.
  Context {X : Type}.
  Variable G : node -> list X.
  Hypothesis G_prim : forall n, is_container (snd n) = false -> G n = [].

  Lemma G_here l v : flat_map G (if is_container v then [(l, v)] else []) = G (l, v).
  Proof.
    destruct (is_container v) eqn:H; cbn [flat_map].
    - apply app_nil_r.
    - symmetry. apply G_prim. exact H.
  Qed.

  Lemma descent_val v : forall m,
    flat_map G (descendants_val (m_parts m) v) =
    G (m_parts m, v) ++ flat_map G (map node_of (expand_val v m)).
  Proof.
    induction v as [| b | n | s | xs IH | ms IH] using json_ind'; intros m;
      try (cbn [descendants_val expand_val flat_map map]; reflexivity).
    - rewrite descendants_val_arr, expand_val_arr. cbn [flat_map]. f_equal.
      generalize 0. induction IH as [|c xs Hc _ IHxs]; intros i; [reflexivity|].
      cbn [desc_arr expand_arr]. rewrite flat_map_app, map_app, flat_map_app, IHxs. f_equal.
      change (m_parts m ++ [PIdx i]) with (m_parts (child_idx m i c)).
      rewrite Hc. destruct (is_container c) eqn:Hcont.
      + reflexivity.
      + rewrite G_prim by exact Hcont. rewrite expand_val_prim by exact Hcont. reflexivity.
    - rewrite descendants_val_obj, expand_val_obj. cbn [flat_map]. f_equal.
      induction IH as [|[k c] ms Hc _ IHms]; [reflexivity|]. cbn [snd] in Hc.
      cbn [desc_obj expand_obj]. rewrite flat_map_app, map_app, flat_map_app, IHms. f_equal.
      change (m_parts m ++ [PKey k]) with (m_parts (child_key m k c)).
      rewrite Hc. destruct (is_container c) eqn:Hcont.
      + reflexivity.
      + rewrite G_prim by exact Hcont. rewrite expand_val_prim by exact Hcont. reflexivity.
  Qed.

  Lemma descent_corr ms :
    flat_map G (flat_map descendants (map node_of ms)) =
    flat_map G (map node_of (flat_map resolve_descent ms)).
  Proof.
    induction ms as [|m ms IH]; [reflexivity|].
    cbn [map flat_map]. rewrite flat_map_app, map_app, flat_map_app, IH. f_equal.
    unfold descendants, resolve_descent, node_of at 1 2. cbn [fst snd].
    rewrite descent_val. reflexivity.
  Qed.
End Descent.
