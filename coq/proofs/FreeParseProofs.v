(* FreeParseProofs.v — Stages 2 and 3 for the free spellings of spec/FreeSpell.v: the parser maps
   the tokens of every spelling of q to a query with the normal form of q. *)
From Coq Require Import ZArith List Bool Lia.
From JP Require Import Base Json PyStr PyJsonStr Syntax Lex Parse Eval Serialize TokPrint Printable Gate Reparsable
                       NormDomain TokensOk FreeSpell.
From JP Require Import ParseEqns GateLemmas ParseSpec ReparseLemmas StringRoundTrip NormProofs
                       ShParseDefs ShParseProofs.
Import ListNotations.

(* ---------------------------------------------------------------------- *)
(* [bracketed] changes nothing the checks, the domain conditions or the normal form see *)

Lemma singular_brk p : g_singular (brk_segs p) = g_singular p.
Proof.
  induction p as [|g r IH]; [reflexivity|]. cbn [brk_segs].
  destruct g as [[]| |[|[] []]]; cbn [brk_seg brk_sel brk_sels short_form g_singular]; try reflexivity; exact IH.
Qed.

Lemma is_query_brk e : g_is_query (brk_expr e) = g_is_query e.
Proof. destruct e; reflexivity. Qed.
Lemma query_segs_brk e : g_query_segs (brk_expr e) = brk_segs (g_query_segs e).
Proof. destruct e; reflexivity. Qed.
Lemma returns_brk e : g_returns (brk_expr e) = g_returns e.
Proof. destruct e; reflexivity. Qed.
Lemma is_literal_brk e : g_is_literal (brk_expr e) = g_is_literal e.
Proof. destruct e; reflexivity. Qed.
Lemma is_lit_brk e : is_lit (brk_expr e) = is_lit e.
Proof. destruct e; reflexivity. Qed.
Lemma comparable_brk e : g_comparable (brk_expr e) = g_comparable e.
Proof. unfold g_comparable. rewrite is_query_brk, query_segs_brk, singular_brk, returns_brk. reflexivity. Qed.
Lemma testable_brk e : g_testable (brk_expr e) = g_testable e.
Proof. unfold g_testable. rewrite returns_brk, is_literal_brk. reflexivity. Qed.
Lemma arg_ok_brk t e : g_arg_ok t (brk_expr e) = g_arg_ok t e.
Proof.
  unfold g_arg_ok. rewrite is_query_brk, query_segs_brk, singular_brk, returns_brk.
  destruct t; try reflexivity.
  - f_equal. f_equal. destruct e; reflexivity.
  - f_equal. destruct e; reflexivity.
Qed.
Lemma fexprs_list_brk es : fexprs_list (brk_exprs es) = map brk_expr (fexprs_list es).
Proof. induction es as [|e r IH]; [reflexivity|]. cbn [brk_exprs fexprs_list map]. rewrite IH. reflexivity. Qed.
Lemma args_ok_brk ts l : g_args_ok ts (map brk_expr l) = g_args_ok ts l.
Proof.
  revert l. induction ts as [|t ts IH]; intros [|a l]; try reflexivity.
  cbn [map g_args_ok]. rewrite arg_ok_brk, IH. reflexivity.
Qed.
Lemma arg_form_brk e : arg_form (brk_expr e) = arg_form e.
Proof. destruct e; reflexivity. Qed.

Section BrkGate.
  Variable lo hi : Z.

  Lemma gate_brk_mut :
    (forall e, gate_expr lo hi (brk_expr e) = gate_expr lo hi e) /\
    (forall es, gate_exprs lo hi (brk_exprs es) = gate_exprs lo hi es) /\
    (forall s, gate_sel lo hi (brk_sel s) = gate_sel lo hi s) /\
    (forall l, gate_sels lo hi (brk_sels l) = gate_sels lo hi l) /\
    (forall g, gate_seg lo hi (brk_seg g) = gate_seg lo hi g) /\
    (forall p, gate_segs lo hi (brk_segs p) = gate_segs lo hi p).
  Proof.
    apply syntax_mutind; try reflexivity.
    - intros items IH. exact IH.
    - intros r IH. cbn [brk_expr]. rewrite !gate_expr_not, testable_brk, IH. reflexivity.
    - intros l IHl o r IHr. cbn [brk_expr].
      rewrite !gate_expr_infix, IHl, IHr, !comparable_brk, !testable_brk. reflexivity.
    - intros p IH. exact IH.
    - intros fake p IH. exact IH.
    - intros p IH. exact IH.
    - intros name args IH. cbn [brk_expr].
      rewrite !gate_expr_func, IH. destruct (gate_sig name) as [[ts rt]|]; [|reflexivity].
      rewrite fexprs_list_brk, args_ok_brk. reflexivity.
    - intros e IHe r IHr. cbn [brk_exprs]. rewrite !gate_exprs_cons, IHe, IHr. reflexivity.
    - intros e IH. cbn [brk_sel]. rewrite !gate_sel_filter, testable_brk, IH. reflexivity.
    - intros s IHs r IHr. cbn [brk_sels]. rewrite !gate_sels_cons, IHs, IHr. reflexivity.
    - intros s IH. cbn [brk_seg]. destruct (short_form s) eqn:Hs.
      + rewrite gate_seg_list1, gate_sels_cons, gate_seg_sel. apply andb_true_r.
      + rewrite !gate_seg_sel. exact IH.
    - intros items IH. cbn [brk_seg]. destruct items as [|s r]; [reflexivity|].
      cbn [brk_sels] in *. exact IH.
    - intros g IHg r IHr. cbn [brk_segs]. rewrite !gate_segs_cons, IHg, IHr. reflexivity.
  Qed.
End BrkGate.

Section BrkPrintable.
  Variable re_ok : ustr -> option bool.

  Lemma pr_brk_mut :
    (forall e, pr_expr re_ok (brk_expr e) = pr_expr re_ok e) /\
    (forall es, pr_exprs re_ok (brk_exprs es) = pr_exprs re_ok es /\ pr_lits re_ok (brk_exprs es) = pr_lits re_ok es) /\
    (forall s, pr_sel re_ok (brk_sel s) = pr_sel re_ok s) /\
    (forall l, pr_sels re_ok (brk_sels l) = pr_sels re_ok l) /\
    (forall g, pr_seg re_ok (brk_seg g) = pr_seg re_ok g) /\
    (forall p, pr_segs re_ok (brk_segs p) = pr_segs re_ok p).
  Proof.
    apply syntax_mutind; try reflexivity.
    - intros items IH. exact (proj2 IH).
    - intros r IH. exact IH.
    - intros l IHl o r IHr. cbn [brk_expr].
      change (pr_expr re_ok (FInfix (brk_expr l) o (brk_expr r))) with (pr_expr re_ok (brk_expr l) && pr_expr re_ok (brk_expr r)).
      rewrite IHl, IHr. reflexivity.
    - intros p IH. exact IH.
    - intros fake p IH. exact IH.
    - intros p IH. exact IH.
    - intros name args IH. cbn [brk_expr].
      change (pr_expr re_ok (FFunc name (brk_exprs args))) with (fname_ok name && pr_exprs re_ok (brk_exprs args)).
      rewrite (proj1 IH). reflexivity.
    - split; reflexivity.
    - intros e IHe r [IHr1 IHr2]. cbn [brk_exprs].
      change (pr_exprs re_ok (ECons (brk_expr e) (brk_exprs r))) with (pr_expr re_ok (brk_expr e) && pr_exprs re_ok (brk_exprs r)).
      change (pr_lits re_ok (ECons (brk_expr e) (brk_exprs r)))
        with (is_lit (brk_expr e) && pr_expr re_ok (brk_expr e) && pr_lits re_ok (brk_exprs r)).
      rewrite IHe, IHr1, IHr2, is_lit_brk. split; reflexivity.
    - intros e IH. exact IH.
    - intros s IHs r IHr. cbn [brk_sels].
      change (pr_sels re_ok (LCons (brk_sel s) (brk_sels r))) with (pr_sel re_ok (brk_sel s) && pr_sels re_ok (brk_sels r)).
      rewrite IHs, IHr. reflexivity.
    - intros s IH. cbn [brk_seg]. destruct (short_form s) eqn:Hs.
      + change (pr_seg re_ok (GList (LCons s LNil))) with (pr_sel re_ok s && true). apply andb_true_r.
      + exact IH.
    - intros items IH. exact IH.
    - intros g IHg r IHr. cbn [brk_segs].
      change (pr_segs re_ok (PCons (brk_seg g) (brk_segs r))) with (pr_seg re_ok (brk_seg g) && pr_segs re_ok (brk_segs r)).
      rewrite IHg, IHr. reflexivity.
  Qed.
End BrkPrintable.

Section BrkReparsable.
  Variable E : env.

  Lemma short_bare s : short_form s = true -> bare_form s = true.
  Proof. destruct s; try discriminate; reflexivity. Qed.

  Lemma rp_brk_mut :
    (forall e, rp_expr E (brk_expr e) = rp_expr E e) /\
    (forall es, rp_args E (brk_exprs es) = rp_args E es) /\
    (forall s, rp_sel E (brk_sel s) = rp_sel E s) /\
    (forall l, rp_sels E (brk_sels l) = rp_sels E l) /\
    (forall g, rp_seg E (brk_seg g) = rp_seg E g) /\
    (forall p, rp_segs E (brk_segs p) = rp_segs E p).
  Proof.
    apply syntax_mutind; try reflexivity.
    - intros r IH. exact IH.
    - intros l IHl o r IHr. cbn [brk_expr].
      change (rp_expr E (FInfix (brk_expr l) o (brk_expr r))) with (rp_expr E (brk_expr l) && rp_expr E (brk_expr r)).
      rewrite IHl, IHr. reflexivity.
    - intros p IH. exact IH.
    - intros fake p IH. exact IH.
    - intros p IH. exact IH.
    - intros name args IH. exact IH.
    - intros e IHe r IHr. cbn [brk_exprs].
      change (rp_args E (ECons (brk_expr e) (brk_exprs r)))
        with (arg_form (brk_expr e) && rp_expr E (brk_expr e) && rp_args E (brk_exprs r)).
      rewrite arg_form_brk, IHe, IHr. reflexivity.
    - intros e IH. exact IH.
    - intros s IHs r IHr. cbn [brk_sels].
      change (rp_sels E (LCons (brk_sel s) (brk_sels r))) with (rp_sel E (brk_sel s) && rp_sels E (brk_sels r)).
      rewrite IHs, IHr. reflexivity.
    - intros s IH. cbn [brk_seg]. destruct (short_form s) eqn:Hs.
      + change (rp_seg E (GList (LCons s LNil))) with (rp_sel E s && true).
        change (rp_seg E (GSel s)) with (bare_form s && rp_sel E s).
        rewrite (short_bare s Hs). cbn [andb]. apply andb_true_r.
      + change (rp_seg E (GSel (brk_sel s))) with (bare_form (brk_sel s) && rp_sel E (brk_sel s)).
        change (rp_seg E (GSel s)) with (bare_form s && rp_sel E s).
        rewrite IH. f_equal. destruct s; reflexivity.
    - intros items IH. exact IH.
    - intros g IHg r IHr. cbn [brk_segs].
      change (rp_segs E (PCons (brk_seg g) (brk_segs r))) with (rp_seg E (brk_seg g) && rp_segs E (brk_segs r)).
      rewrite IHg, IHr. reflexivity.
  Qed.
End BrkReparsable.

Lemma fl_brk_mut :
  (forall e, fl_expr (brk_expr e) = fl_expr e) /\
  (forall es, fl_exprs (brk_exprs es) = fl_exprs es) /\
  (forall s, fl_sel (brk_sel s) = fl_sel s) /\
  (forall l, fl_sels (brk_sels l) = fl_sels l) /\
  (forall g, fl_seg (brk_seg g) = fl_seg g) /\
  (forall p, fl_segs (brk_segs p) = fl_segs p).
Proof.
  apply syntax_mutind; try reflexivity.
  - intros items IH. exact IH.
  - intros r IH. exact IH.
  - intros l IHl o r IHr. cbn [brk_expr fl_expr]. rewrite IHl, IHr. reflexivity.
  - intros p IH. exact IH.
  - intros fake p IH. exact IH.
  - intros p IH. exact IH.
  - intros name args IH. exact IH.
  - intros e IHe r IHr. cbn [brk_exprs fl_exprs]. rewrite IHe, IHr. reflexivity.
  - intros e IH. exact IH.
  - intros s IHs r IHr. cbn [brk_sels fl_sels]. rewrite IHs, IHr. reflexivity.
  - intros s IH. cbn [brk_seg]. destruct (short_form s) eqn:Hs.
    + cbn [fl_seg fl_sels]. apply andb_true_r.
    + cbn [fl_seg]. exact IH.
  - intros items IH. exact IH.
  - intros g IHg r IHr. cbn [brk_segs fl_segs]. rewrite IHg, IHr. reflexivity.
Qed.

Lemma norm_brk_mut :
  (forall e, norm_expr (brk_expr e) = norm_expr e) /\
  (forall es, norm_exprs (brk_exprs es) = norm_exprs es) /\
  (forall s, norm_sel (brk_sel s) = norm_sel s) /\
  (forall l, norm_sels (brk_sels l) = norm_sels l) /\
  (forall g, norm_seg (brk_seg g) = norm_seg g) /\
  (forall p, norm_segs (brk_segs p) = norm_segs p).
Proof.
  apply syntax_mutind; try reflexivity.
  - intros items IH. cbn [brk_expr norm_expr]. rewrite IH. reflexivity.
  - intros r IH. cbn [brk_expr norm_expr]. rewrite IH. reflexivity.
  - intros l IHl o r IHr. cbn [brk_expr norm_expr]. rewrite IHl, IHr. reflexivity.
  - intros p IH. cbn [brk_expr norm_expr]. rewrite IH. reflexivity.
  - intros fake p IH. cbn [brk_expr norm_expr]. rewrite IH. reflexivity.
  - intros p IH. cbn [brk_expr norm_expr]. rewrite IH. reflexivity.
  - intros name args IH. cbn [brk_expr norm_expr]. rewrite IH. reflexivity.
  - intros e IHe r IHr. cbn [brk_exprs norm_exprs]. rewrite IHe, IHr. reflexivity.
  - intros e IH. cbn [brk_sel norm_sel]. rewrite IH. reflexivity.
  - intros s IHs r IHr. cbn [brk_sels norm_sels]. rewrite IHs, IHr. reflexivity.
  - intros s IH. cbn [brk_seg]. destruct (short_form s) eqn:Hs; [reflexivity|].
    cbn [norm_seg]. rewrite IH. reflexivity.
  - intros items IH. cbn [brk_seg norm_seg]. rewrite IH. reflexivity.
  - intros g IHg r IHr. cbn [brk_segs norm_segs]. rewrite IHg, IHr. reflexivity.
Qed.

(* the parser's normal form for the shorthand printer has the normal form of the query *)
Lemma norm_snorm_mut :
  (forall e, fl_expr e = true -> norm_expr (snorm_expr e) = norm_expr e) /\
  (forall es, fl_exprs es = true -> norm_exprs (snorm_exprs es) = norm_exprs es) /\
  (forall s, fl_sel s = true -> norm_sel (snorm_sel s) = norm_sel s) /\
  (forall l, fl_sels l = true -> norm_sels (snorm_sels l) = norm_sels l) /\
  (forall g, fl_seg g = true -> norm_seg (snorm_seg g) = norm_seg g) /\
  (forall p, fl_segs p = true -> norm_segs (snorm_segs p) = norm_segs p).
Proof.
  apply syntax_mutind; try reflexivity.
  - intros n Hf. cbn [fl_expr] in Hf. destruct (float_stable_reread n Hf) as [n' [E1 [E2 _]]].
    change (snorm_expr (FFloat n)) with (norm_expr (FFloat n)). rewrite E1. exact E2.
  - intros items IH Hf. cbn [snorm_expr norm_expr]. rewrite (IH Hf). reflexivity.
  - intros r IH Hf. cbn [snorm_expr norm_expr]. rewrite (IH Hf). reflexivity.
  - intros l IHl o r IHr Hf. cbn [fl_expr] in Hf. apply andb_true_iff in Hf as [Hl Hr].
    cbn [snorm_expr norm_expr]. rewrite (IHl Hl), (IHr Hr). reflexivity.
  - intros p IH Hf. cbn [snorm_expr norm_expr]. rewrite (IH Hf). reflexivity.
  - intros fake p IH Hf. cbn [snorm_expr norm_expr]. rewrite (IH Hf). reflexivity.
  - intros p IH Hf. cbn [snorm_expr norm_expr]. rewrite (IH Hf). reflexivity.
  - intros name args IH Hf. cbn [snorm_expr norm_expr]. rewrite (IH Hf). reflexivity.
  - intros e IHe r IHr Hf. cbn [fl_exprs] in Hf. apply andb_true_iff in Hf as [He Hr].
    cbn [snorm_exprs norm_exprs]. rewrite (IHe He), (IHr Hr). reflexivity.
  - intros a b c _. destruct c; reflexivity.
  - intros e IH Hf. cbn [snorm_sel norm_sel]. rewrite (IH Hf). reflexivity.
  - intros s IHs r IHr Hf. cbn [fl_sels] in Hf. apply andb_true_iff in Hf as [Hs Hr].
    cbn [snorm_sels norm_sels]. rewrite (IHs Hs), (IHr Hr). reflexivity.
  - intros s IH Hf. cbn [snorm_seg]. destruct (short_form s) eqn:Hs; [reflexivity|].
    cbn [norm_seg norm_sels]. rewrite (IH Hf). reflexivity.
  - intros items IH Hf. cbn [snorm_seg norm_seg]. rewrite (IH Hf). reflexivity.
  - intros g IHg r IHr Hf. cbn [fl_segs] in Hf. apply andb_true_iff in Hf as [Hg Hr].
    cbn [snorm_segs norm_segs]. rewrite (IHg Hg), (IHr Hr). reflexivity.
Qed.

(* ---------------------------------------------------------------------- *)
(* whole queries *)

Lemma forallb_map_snd {A B} (f : B -> bool) (h : B -> B) (l : list (A * B)) :
  (forall b, f (h b) = f b) ->
  forallb (fun op => f (snd op)) (map (fun op => (fst op, h (snd op))) l) = forallb (fun op => f (snd op)) l.
Proof.
  intros H. induction l as [|[a b] l IH]; [reflexivity|]. cbn [map forallb fst snd]. rewrite H, IH. reflexivity.
Qed.

Lemma gate_query_brk lo hi q : gate_query lo hi (bracketed q) = gate_query lo hi q.
Proof.
  destruct (gate_brk_mut lo hi) as (_ & _ & _ & _ & _ & G).
  unfold gate_query, bracketed. cbn [q_first q_rest brk_path p_segs]. rewrite G. f_equal.
  apply (forallb_map_snd (fun p => gate_segs lo hi (p_segs p)) brk_path). intros p. apply G.
Qed.

Lemma printable_brk ro q : printable ro (bracketed q) = printable ro q.
Proof.
  destruct (pr_brk_mut ro) as (_ & _ & _ & _ & _ & G).
  unfold printable, bracketed. cbn [q_first q_rest brk_path p_segs]. rewrite G. f_equal.
  apply (forallb_map_snd (fun p => pr_segs ro (p_segs p)) brk_path). intros p. apply G.
Qed.

Lemma reparsable_brk E q : reparsable E (bracketed q) = reparsable E q.
Proof.
  destruct (rp_brk_mut E) as (_ & _ & _ & _ & _ & G).
  unfold reparsable, bracketed. cbn [q_first q_rest brk_path p_segs]. rewrite G. f_equal.
  apply (forallb_map_snd (fun p => rp_segs E (p_segs p)) brk_path). intros p. apply G.
Qed.

Lemma floats_stable_brk q : floats_stable (bracketed q) = floats_stable q.
Proof.
  destruct fl_brk_mut as (_ & _ & _ & _ & _ & G).
  unfold floats_stable, bracketed. cbn [q_first q_rest brk_path p_segs]. rewrite G. f_equal.
  apply (forallb_map_snd (fun p => fl_segs (p_segs p)) brk_path). intros p. apply G.
Qed.

Lemma norm_query_brk q : norm_query (bracketed q) = norm_query q.
Proof.
  destruct norm_brk_mut as (_ & _ & _ & _ & _ & G).
  unfold norm_query, bracketed, norm_path, brk_path. cbn [q_first q_rest p_fake p_segs]. rewrite G. f_equal.
  rewrite map_map. apply map_ext. intros [o p]. cbn [fst snd p_fake p_segs]. rewrite G. reflexivity.
Qed.

Lemma norm_snorm_query q : floats_stable q = true -> norm_query (snorm_query q) = norm_query q.
Proof.
  intros Hf. unfold floats_stable in Hf. apply andb_true_iff in Hf as [H1 H2]. rewrite forallb_forall in H2.
  destruct norm_snorm_mut as (_ & _ & _ & _ & _ & G).
  unfold norm_query, snorm_query, norm_path, snorm_path. cbn [q_first q_rest p_fake p_segs].
  rewrite (G _ H1). f_equal. rewrite map_map. apply map_ext_in. intros [o p] Hin. cbn [fst snd p_fake p_segs].
  pose proof (G _ (H2 _ Hin)) as Hg. cbn [snd] in Hg. rewrite Hg. reflexivity.
Qed.

(* a query that differs from q only in the shorthand choice is in the domain with q, with the same
   normal form *)
Lemma same_brackets_domain E ro q qs :
  bracketed qs = bracketed q -> c10_domain E ro q = true ->
  gate_query (e_min_index E) (e_max_index E) qs = true /\ printable ro qs = true /\
  reparsable E qs = true /\ floats_stable qs = true /\ norm_query qs = norm_query q.
Proof.
  intros Hb HD. unfold c10_domain in HD.
  apply andb_true_iff in HD as [HD Hf]. apply andb_true_iff in HD as [HD Hr]. apply andb_true_iff in HD as [Hg Hp].
  repeat split.
  - rewrite <- gate_query_brk, Hb, gate_query_brk. exact Hg.
  - rewrite <- printable_brk, Hb, printable_brk. exact Hp.
  - rewrite <- reparsable_brk, Hb, reparsable_brk. exact Hr.
  - rewrite <- floats_stable_brk, Hb, floats_stable_brk. exact Hf.
  - rewrite <- norm_query_brk, Hb, norm_query_brk. reflexivity.
Qed.

(* ---------------------------------------------------------------------- *)
(* the lexemes denote the shorthand printer's tokens, up to what the parser cannot tell apart *)

From JP Require Import PrintParseAtoms TokenSimProofs FreeSpellProofs.

Lemma lexemes_tsim E ts0 ls :
  e_unicode_escape E = true -> lexemes_of ts0 ls -> Forall2 (tsim E) ts0 (flat_map lex_toks ls).
Proof.
  intros UE H. induction H as [|ts ls _ IH|s dq body ts ls Hs _ IH|k ts ls _ IH|k ts ls _ IH
                               |a b c w1 w2 w3 w4 ts ls _ IH|p fl ts ls _ IH|name wp ts ls _ IH|t ts ls _ IH];
    cbn [flat_map lex_toks app].
  - constructor.
  - exact IH.
  - constructor; [|exact IH]. destruct Hs as [_ [Hc Hl]]. right. left.
    split; [reflexivity|]. split; [destruct dq; auto|].
    split; [unfold ctl; cbn [tv]; change (canonical_body s) with (canon_body s); apply canon_body_no_control|].
    split; [unfold ctl; cbn [tv]; exact Hc|]. exists s. split; [apply (decode_canonical E UE)|].
    unfold decode_string. rewrite UE. destruct dq; cbn [tk tv].
    + rewrite Hl. reflexivity.
    + unfold requote in Hl. rewrite Hl. reflexivity.
  - constructor; [apply tsim_refl|exact IH].
  - constructor; [|exact IH]. right. right. split; reflexivity.
  - repeat (constructor; [apply tsim_refl|]). exact IH.
  - repeat (constructor; [apply tsim_refl|]). exact IH.
  - constructor; [apply tsim_refl|exact IH].
  - constructor; [apply tsim_refl|exact IH].
Qed.

Lemma chain_toks_map items : chain_toks items = flat_map lex_toks (map snd items).
Proof. unfold chain_toks. induction items as [|[w l] r IH]; [reflexivity|]. cbn [flat_map map snd]. rewrite IH. reflexivity. Qed.

(* ---------------------------------------------------------------------- *)
(* Stage 2: the parser on the tokens of a spelling *)

Theorem parse_free :
  forall (E : env) re_ok (q : query) (t : ustr) (ts : list token),
    e_well_typed E = true -> e_unicode_escape E = true ->
    c10_domain E re_ok q = true -> spells_as E q t ts ->
    exists q', compile_tokens E re_ok ts = Ok q' /\ norm_query q' = norm_query q.
Proof.
  intros E ro q t ts WT UE HD (qs & ts0 & items & wf & Hb & Hts0 & Hlex & _ & _ & ->).
  destruct (same_brackets_domain E ro q qs Hb HD) as (Hg & Hp & Hr & Hf & Hn).
  exists (snorm_query qs). split.
  - apply (compile_tokens_transfer E ro ts0).
    + rewrite chain_toks_map. apply lexemes_tsim; assumption.
    + apply sh_parse_print; assumption.
  - rewrite (norm_snorm_query qs Hf). exact Hn.
Qed.

(* Stage 3: every spelling compiles to the query, up to the normal form *)
Theorem free_spelling :
  forall (E : env) re_ok (q : query) (t : ustr),
    tokens_ok E = true -> e_well_typed E = true -> e_unicode_escape E = true ->
    c10_domain E re_ok q = true -> spells E q t ->
    exists q', compile E re_ok t = Ok q' /\ norm_query q' = norm_query q.
Proof.
  intros E ro q t HT WT UE HD [ts Hs]. unfold compile. rewrite (lex_free E q t ts HT Hs).
  apply (parse_free E ro q t ts WT UE HD Hs).
Qed.

(* ... and returns what the query returns, on every document *)
Corollary free_spelling_results :
  forall (E : env) re_ok rf rs (q : query) (t : ustr) (d ctx : json),
    tokens_ok E = true -> e_well_typed E = true -> e_unicode_escape E = true ->
    c10_domain E re_ok q = true -> spells E q t ->
    exists q', compile E re_ok t = Ok q' /\
               compound_finditer E rf rs q' d ctx = compound_finditer E rf rs q d ctx.
Proof.
  intros E ro rf rs q t d ctx HT WT UE HD Hs.
  destruct (free_spelling E ro q t HT WT UE HD Hs) as [q' [Hc Hn]]. exists q'. split; [exact Hc|].
  rewrite <- (norm_equiv E rf rs q' d ctx), <- (norm_equiv E rf rs q d ctx). rewrite Hn. reflexivity.
Qed.

(* ---------------------------------------------------------------------- *)
(* an instance: shorthand, double quotes, blanks, a slice with blanks around its colons *)

(* $['a']['b', 1]..['c'][1:2:1] *)
Definition example_query : query :=
  mkQuery (mkPath false
    (PCons (GSel (SName [97%N]))
    (PCons (GList (LCons (SName [98%N]) (LCons (SIndex 1%Z) LNil)))
    (PCons GDescent
    (PCons (GList (LCons (SName [99%N]) LNil))
    (PCons (GSel (SSlice (Some 1%Z) (Some 2%Z) None)) PNil)))))) [].

(* the same query with the shorthand choice: .a and c are written in shorthand *)
Definition example_marked : query :=
  mkQuery (mkPath false
    (PCons (GSel (SName [97%N]))
    (PCons (GList (LCons (SName [98%N]) (LCons (SIndex 1%Z) LNil)))
    (PCons GDescent
    (PCons (GSel (SName [99%N]))
    (PCons (GSel (SSlice (Some 1%Z) (Some 2%Z) None)) PNil)))))) [].

(* "$ .a [ "b" , 1 ] ..c[ 1 : 2 :1]" and a final newline *)
Definition example_items : list item :=
  [([], X TRoot [36%N]); ([32%N], XProp [97%N]); ([32%N], X TLBracket [91%N]);
   ([32%N], XStr true [98%N]); ([32%N], X TComma [44%N]); ([32%N], X TInt [49%N]);
   ([32%N], X TRBracket [93%N]); ([32%N], X TDDot [46; 46]%N); ([], XBare [99%N]);
   ([], X TLBracket [91%N]); ([32%N], XSlice [49%N] [32%N] [32%N] [50%N] [32%N] [] [49%N]);
   ([], X TRBracket [93%N])].

Local Ltac lok :=
  cbn; first [ reflexivity | left; tauto | right; left; tauto
             | right; right; left; split; [reflexivity|first [exists 1%Z; reflexivity | exists 2%Z; reflexivity]]
             | repeat split; try reflexivity;
               try (right; first [exists 1%Z; reflexivity | exists 2%Z; reflexivity]);
               try (first [exists 1%Z; reflexivity | exists 2%Z; reflexivity]); try discriminate ].

Example example_spelled :
  spells_as default_env example_query (render example_items [10%N]) (chain_toks example_items).
Proof.
  exists example_marked. eexists. exists example_items, [10%N].
  split; [reflexivity|]. split; [reflexivity|]. split; [|split; [|split; reflexivity]].
  - cbn [map snd example_items]. unfold X.
    apply lo_tok. apply lo_prop. apply lo_tok.
    apply (lo_str [98%N] true [98%N]); [repeat split; reflexivity|].
    apply lo_tok. apply lo_tok. apply lo_tok. apply lo_tok. apply lo_bare. apply lo_tok.
    apply lo_slice. apply lo_tok. apply lo_nil.
  - cbn [chain_ok example_items]. repeat match goal with |- _ /\ _ => split end; try reflexivity; lok.
Qed.

Example example_compiled :
  exists q', compile default_env (fun _ => Some true) (render example_items [10%N]) = Ok q' /\
             norm_query q' = norm_query example_query.
Proof.
  apply (free_spelling default_env (fun _ => Some true) example_query);
    [reflexivity|reflexivity|reflexivity|vm_compute; reflexivity|].
  eexists. exact example_spelled.
Qed.
