(* LexSteps.v — one scanner step on each token spelling the printer produces
   (leaf lemmas for proofs/PrintLexProofs.v). *)
From JP Require Import Base Json PyStr PyJsonStr Syntax Gen_unicode Lex Parse Printable TokensOk NormPath PyStrLemmas
                       LocationProofs LexProofs.

(* ---------------------------------------------------------------------- *)
(* fuel *)

Lemma tokenize_fuel_irrel E : forall f1 f2 s,
  (length s < f1)%nat -> (length s < f2)%nat -> tokenize_fuel f1 E s = tokenize_fuel f2 E s.
Proof.
  induction f1 as [|f1 IH]; intros f2 s H1 H2; [lia|].
  destruct f2 as [|f2]; [lia|].
  cbn [tokenize_fuel]. destruct s as [|c s]; [reflexivity|].
  destruct (step1 E (c :: s)) as [ts rest|c']; [|reflexivity].
  destruct (Nat.ltb (length rest) (length (c :: s))) eqn:El; [|reflexivity].
  apply Nat.ltb_lt in El. f_equal. apply IH; cbn [length] in *; lia.
Qed.

Lemma tokenize_nil E : tokenize E [] = [].
Proof. reflexivity. Qed.

Lemma tokenize_fuel_S f E c s :
  tokenize_fuel (S f) E (c :: s) =
  match step1 E (c :: s) with
  | LTok ts rest =>
      if Nat.ltb (length rest) (length (c :: s)) then ts ++ tokenize_fuel f E rest
      else [mkTok TIllegal []]
  | LIllegal c' => [mkTok TIllegal [c']]
  end.
Proof. reflexivity. Qed.

Lemma tok_step E s ts rest :
  s <> [] -> step1 E s = LTok ts rest -> (length rest < length s)%nat ->
  tokenize E s = ts ++ tokenize E rest.
Proof.
  intros Hne Hs Hl. unfold tokenize.
  destruct s as [|c s]; [contradiction|]. rewrite tokenize_fuel_S. rewrite Hs.
  replace (Nat.ltb (length rest) (length (c :: s))) with true by (symmetry; apply Nat.ltb_lt; exact Hl).
  f_equal. apply tokenize_fuel_irrel; lia.
Qed.

(* ---------------------------------------------------------------------- *)
(* the ordered alternatives, as a list *)

Definition alt_simple (s : ustr) (k : tkind) (lit : ustr) : option lex_step :=
  match match_lit lit s with Some r => Some (LTok [mkTok k lit] r) | None => None end.
Definition alt_word (s : ustr) (k : tkind) (lit : ustr) : option lex_step :=
  match match_word lit s with Some r => Some (LTok [mkTok k lit] r) | None => None end.
Definition alt_cap (s : ustr) (k : tkind) (up lo : N) (tail : ustr) : option lex_step :=
  match match_cap up lo tail s with Some (v, r) => Some (LTok [mkTok k v] r) | None => None end.

Definition alt_dq (c : N) (s' : ustr) : option lex_step :=
  if N.eqb c 34 then match scan_quoted 34 (S (length s')) s' with
                     | Some (v, r) => Some (LTok [mkTok TDQ v] r) | None => None end else None.
Definition alt_sq (c : N) (s' : ustr) : option lex_step :=
  if N.eqb c 39 then match scan_quoted 39 (S (length s')) s' with
                     | Some (v, r) => Some (LTok [mkTok TSQ v] r) | None => None end else None.
Definition alt_re (s : ustr) : option lex_step :=
  match match_regex s with
  | Some (p, fl, r) => Some (LTok [mkTok TRePattern p; mkTok TReFlags fl] r)
  | None => None end.
Definition alt_slice (s : ustr) : option lex_step :=
  match match_slice s with
  | Some (a, b, st, r) => Some (LTok [mkTok TSliceStart a; mkTok TSliceStop b; mkTok TSliceStep st] r)
  | None => None end.
Definition alt_fn (s : ustr) : option lex_step :=
  match match_function s with Some (n, r) => Some (LTok [mkTok TFunction n] r) | None => None end.
Definition alt_dotprop (c : N) (s' : ustr) : option lex_step :=
  if N.eqb c 46 then match match_key s' with
                     | Some (k, r) => Some (LTok [mkTok TProperty k] r) | None => None end else None.
Definition alt_float (s : ustr) : option lex_step :=
  match match_float s with Some (v, r) => Some (LTok [mkTok TFloat v] r) | None => None end.
Definition alt_int (s : ustr) : option lex_step :=
  match match_int s with
  | Some (v, negexp, r) => Some (LTok [mkTok (if negexp then TFloat else TInt) v] r)
  | None => None end.
Definition alt_env (E : env) (s : ustr) : option lex_step :=
  match match_env (env_tokens E) s with
  | Some (k, t, r) => Some (LTok [mkTok k t] r) | None => None end.
Definition alt_bare (s : ustr) : option lex_step :=
  match match_key s with Some (k, r) => Some (LTok [mkTok TBare k] r) | None => None end.
Definition alt_skip (c : N) (s' : ustr) : option lex_step :=
  if N.eqb c 32 || N.eqb c 10 || N.eqb c 9 || N.eqb c 13 then
    Some (LTok [] (snd (span (fun x => N.eqb x 32 || N.eqb x 10 || N.eqb x 9 || N.eqb x 13) (c :: s'))))
  else if N.eqb c 46 then
    (match s' with 46%N :: _ => None | _ => Some (LTok [] s') end)
  else None.

Definition alt_list (E : env) (c : N) (s' : ustr) : list (option lex_step) :=
  let s := c :: s' in
  [ alt_dq c s'; alt_sq c s'; alt_re s; alt_slice s; alt_fn s; alt_dotprop c s'; alt_float s; alt_int s;
    alt_simple s TDDot [46; 46]%N;
    alt_simple s TAnd [38; 38]%N; alt_word s TAnd s_and;
    alt_simple s TOr [124; 124]%N; alt_word s TOr s_or;
    alt_env E s;
    alt_simple s TWild [42%N]; alt_simple s TFilter [63%N];
    alt_word s TIn s_in;
    alt_cap s TTrue 84 116 s_rue; alt_cap s TFalse 70 102 s_alse;
    alt_cap s TNil 78 110 s_il; alt_cap s TNil 78 110 s_ull; alt_cap s TNil 78 110 s_one;
    alt_word s TContains s_contains; alt_word s TUndefined s_undefined; alt_word s TMissing s_missing;
    alt_simple s TLBracket [91%N]; alt_simple s TRBracket [93%N]; alt_simple s TComma [44%N];
    alt_simple s TEq [61; 61]%N; alt_simple s TNe [33; 61]%N; alt_simple s TLg [60; 62]%N;
    alt_simple s TLe [60; 61]%N;
    alt_simple s TGe [62; 61]%N; alt_simple s TRe [61; 126]%N; alt_simple s TLt [60%N]; alt_simple s TGt [62%N];
    alt_word s TNot s_not; alt_simple s TNot [33%N];
    alt_bare s;
    alt_simple s TLParen [40%N]; alt_simple s TRParen [41%N];
    alt_skip c s' ].

Lemma step1_cons E c s' :
  step1 E (c :: s') =
  match first_some (alt_list E c s') with Some st => st | None => LIllegal c end.
Proof. reflexivity. Qed.

Lemma first_some_none {A} (l : list (option A)) : first_some (None :: l) = first_some l.
Proof. reflexivity. Qed.

Lemma first_some_some {A} (x : A) (l : list (option A)) : first_some (Some x :: l) = Some x.
Proof. reflexivity. Qed.

Definition default_env_tokens : list (tkind * ustr) :=
  [(TRoot, [36%N]); (TFakeRoot, [94%N]); (TSelf, [64%N]); (TKey, [35%N]);
   (TUnion, [124%N]); (TIntersect, [38%N]); (TFilterCtx, [95%N]); (TKeys, [126%N])].

Lemma env_tokens_default E : default_tokens E -> env_tokens E = default_env_tokens.
Proof.
  intros [H1 [H2 [H3 [H4 [H5 [H6 [H7 H8]]]]]]]. unfold env_tokens.
  rewrite H1, H2, H3, H4, H5, H6, H7, H8. reflexivity.
Qed.


(* ---------------------------------------------------------------------- *)
(* literal code points in patterns: case analysis on the bits of an abstract character *)

Ltac bits c :=
  destruct c as [|c];
  [|repeat match goal with
           | |- context [match c with xI _ => _ | xO _ => _ | xH => _ end] => destruct c as [c|c|]
           end].

Lemma match_regex_not47 c t : c <> 47%N -> match_regex (c :: t) = None.
Proof.
  intros H. unfold match_regex. bits c; try reflexivity. exfalso. apply H. reflexivity.
Qed.

Lemma opt_int_not45 c t : c <> 45%N -> opt_int (c :: t) = span is_udigit (c :: t).
Proof.
  intros H. unfold opt_int. bits c; try reflexivity. exfalso. apply H. reflexivity.
Qed.

(* ---------------------------------------------------------------------- *)
(* what may follow a token *)

Definition nud (rest : ustr) : Prop :=
  match rest with [] => True | c :: _ => is_udigit c = false end.

Definition nospace_head (rest : ustr) : Prop :=
  match rest with [] => True | c :: _ => py_isspace c = false end.

Lemma ascii_nondigit_udigit c : N.ltb c 128 = true -> is_ascii_digit c = false -> is_udigit c = false.
Proof.
  intros Ha Hd. destruct (is_udigit c) eqn:E; [|reflexivity].
  rewrite (udigit_ascii c Ha E) in Hd. discriminate.
Qed.

Lemma digit_udigit c : is_ascii_digit c = true -> is_udigit c = true.
Proof. intros H. unfold is_udigit. rewrite H. reflexivity. Qed.

Lemma span_udigit_digits ds rest :
  forallb is_ascii_digit ds = true -> nud rest -> span is_udigit (ds ++ rest) = (ds, rest).
Proof.
  intros Hd Hr. induction ds as [|c ds IH].
  - destruct rest as [|c r]; [reflexivity|]. cbn [app span]. cbn [nud] in Hr. rewrite Hr. reflexivity.
  - cbn [forallb] in Hd. apply andb_true_iff in Hd as [Hc Hd].
    cbn [app span]. rewrite (digit_udigit c Hc). rewrite (IH Hd). reflexivity.
Qed.

Lemma skip_ws_id r : nospace_head r -> skip_ws r = r.
Proof.
  intros H. unfold skip_ws. destruct r as [|c r]; [reflexivity|].
  cbn [span]. cbn [nospace_head] in H. rewrite H. reflexivity.
Qed.

Lemma skip_ws_32 r : skip_ws (32%N :: r) = skip_ws r.
Proof.
  unfold skip_ws. cbn [span]. change (py_isspace 32) with true. cbv iota.
  destruct (span py_isspace r). reflexivity.
Qed.

(* decimal text *)
Definition dec_shape (t : ustr) : Prop :=
  exists sg ds, t = sg ++ ds /\ (sg = [] \/ sg = [45%N]) /\ ds <> [] /\ forallb is_ascii_digit ds = true.

Lemma dec_of_nonneg_shape n : (0 <= n)%Z ->
  dec_of_nonneg n <> [] /\ forallb is_ascii_digit (dec_of_nonneg n) = true.
Proof.
  intros H. split.
  - pose proof (canonical_dec_of_nonneg n H) as Hc. intros E. rewrite E in Hc. discriminate.
  - apply dec_of_nonneg_digits. exact H.
Qed.

Lemma str_of_Z_shape z : dec_shape (str_of_Z z).
Proof.
  destruct (Z_lt_le_dec z 0) as [Hlt|Hge].
  - rewrite str_of_Z_neg by assumption.
    destruct (dec_of_nonneg_shape (- z)%Z) as [H1 H2]; [lia|].
    exists [45%N], (dec_of_nonneg (- z)). auto.
  - rewrite str_of_Z_nonneg by assumption.
    destruct (dec_of_nonneg_shape z Hge) as [H1 H2].
    exists [], (dec_of_nonneg z). auto.
Qed.

Lemma digits_head ds :
  ds <> [] -> forallb is_ascii_digit ds = true ->
  exists c t, ds = c :: t /\ is_ascii_digit c = true /\ forallb is_ascii_digit t = true.
Proof.
  intros Hne Hd. destruct ds as [|c t]; [contradiction|]. cbn [forallb] in Hd.
  apply andb_true_iff in Hd as [Hc Ht]. exists c, t. auto.
Qed.

(* ---------------------------------------------------------------------- *)
(* opt_int, the slice matcher *)

Lemma opt_int_45 t :
  opt_int (45%N :: t) =
  let '(d, r) := span is_udigit t in match d with [] => ([], 45%N :: t) | _ => (45%N :: d, r) end.
Proof. reflexivity. Qed.

Lemma opt_int_none c t : c <> 45%N -> is_udigit c = false -> opt_int (c :: t) = ([], c :: t).
Proof. intros H1 H2. rewrite opt_int_not45 by assumption. cbn [span]. rewrite H2. reflexivity. Qed.

Lemma opt_int_num sg ds tail :
  (sg = [] \/ sg = [45%N]) -> ds <> [] -> forallb is_ascii_digit ds = true -> nud tail ->
  opt_int (sg ++ ds ++ tail) = (sg ++ ds, tail).
Proof.
  intros Hsg Hne Hd Ht. destruct Hsg as [-> | ->].
  - destruct (digits_head ds Hne Hd) as [c [t [-> [Hc Hdt]]]].
    cbn [app]. rewrite opt_int_not45.
    + change (c :: t ++ tail) with ((c :: t) ++ tail). apply span_udigit_digits; assumption.
    + apply digit_bounds in Hc. lia.
  - cbn [app]. rewrite opt_int_45. rewrite (span_udigit_digits ds tail Hd Ht).
    destruct ds; [contradiction|reflexivity].
Qed.

Lemma try_colon_58 start r : try_colon start (58%N :: r) = after_colon start r.
Proof. reflexivity. Qed.

Lemma try_colon_nil start : try_colon start [] = None.
Proof. reflexivity. Qed.

Lemma try_colon_not start c r : py_isspace c = false -> c <> 58%N -> try_colon start (c :: r) = None.
Proof.
  intros Hs Hc. unfold try_colon. rewrite skip_ws_id by exact Hs.
  bits c; try reflexivity. exfalso. apply Hc. reflexivity.
Qed.

Lemma try_colon_32 start r : try_colon start (32%N :: r) = try_colon start r.
Proof. unfold try_colon. rewrite skip_ws_32. reflexivity. Qed.

(* no slice starts here: a number followed by something that is not a colon *)
Lemma match_slice_num sg ds tail :
  (sg = [] \/ sg = [45%N]) -> ds <> [] -> forallb is_ascii_digit ds = true -> nud tail ->
  (forall st, try_colon st tail = None) ->
  match_slice (sg ++ ds ++ tail) = None.
Proof.
  intros Hsg Hne Hd Ht Htc. rewrite match_slice_eq.
  rewrite (opt_int_num sg ds tail Hsg Hne Hd Ht). rewrite Htc.
  destruct (digits_head ds Hne Hd) as [c [t [-> [Hc Hdt]]]].
  assert (Hsp : py_isspace c = false) by (apply isspace_digit; exact Hc).
  apply digit_bounds in Hc.
  destruct Hsg as [-> | ->]; cbn [app].
  - apply try_colon_not; [exact Hsp|lia].
  - apply try_colon_not; [reflexivity|discriminate].
Qed.

Lemma match_slice_other c t :
  c <> 45%N -> is_udigit c = false -> py_isspace c = false -> c <> 58%N ->
  match_slice (c :: t) = None.
Proof.
  intros H1 H2 H3 H4. rewrite match_slice_eq. rewrite opt_int_none by assumption.
  rewrite try_colon_not by assumption. reflexivity.
Qed.

Lemma match_slice_space c t :
  py_isspace c = false -> c <> 58%N -> match_slice (32%N :: c :: t) = None.
Proof.
  intros H3 H4. rewrite match_slice_eq. rewrite opt_int_none; [|discriminate|reflexivity].
  rewrite try_colon_32. rewrite try_colon_not by assumption. reflexivity.
Qed.

(* the printed slice  a:b:c  *)
Definition opt_dec (t : ustr) : Prop := t = [] \/ dec_shape t.

Lemma opt_int_opt t tail :
  opt_dec t -> nud tail -> (t = [] -> match tail with c :: _ => c <> 45%N | [] => True end) ->
  opt_int (t ++ tail) = (t, tail).
Proof.
  intros [-> | [sg [ds [-> [Hsg [Hne Hd]]]]]] Ht H45.
  - cbn [app]. destruct tail as [|c r]; [reflexivity|].
    apply opt_int_none; [apply H45; reflexivity|exact Ht].
  - rewrite <- app_assoc. apply opt_int_num; assumption.
Qed.

Lemma dec_nospace t tail : dec_shape t -> nospace_head (t ++ tail).
Proof.
  intros [sg [ds [-> [Hsg [Hne Hd]]]]].
  destruct (digits_head ds Hne Hd) as [c [r [-> [Hc _]]]].
  destruct Hsg as [-> | ->]; cbn [app nospace_head]; [apply isspace_digit; exact Hc|reflexivity].
Qed.

Lemma after_colon_print start b c rest :
  opt_dec b -> dec_shape c -> nud rest ->
  after_colon start (b ++ 58%N :: c ++ rest) = Some (start, b, c, rest).
Proof.
  intros Hb Hc Hr. unfold after_colon.
  assert (Hn1 : nospace_head (b ++ 58%N :: c ++ rest)).
  { destruct Hb as [-> | Hb]; [reflexivity|apply dec_nospace; exact Hb]. }
  rewrite (skip_ws_id _ Hn1). cbv zeta.
  rewrite (opt_int_opt b (58%N :: c ++ rest) Hb); [|reflexivity|intros _; discriminate].
  rewrite (skip_ws_id (58%N :: c ++ rest)) by reflexivity.
  rewrite (skip_ws_id (c ++ rest)) by (apply dec_nospace; exact Hc).
  rewrite (opt_int_opt c rest (or_intror Hc) Hr).
  - reflexivity.
  - intros ->. destruct Hc as [sg [ds [E [_ [Hne _]]]]]. destruct sg; destruct ds; try discriminate.
    contradiction.
Qed.

Lemma match_slice_print a b c rest :
  opt_dec a -> opt_dec b -> dec_shape c -> nud rest ->
  match_slice (a ++ 58%N :: b ++ 58%N :: c ++ rest) = Some (a, b, c, rest).
Proof.
  intros Ha Hb Hc Hr. rewrite match_slice_eq.
  rewrite (opt_int_opt a (58%N :: b ++ 58%N :: c ++ rest) Ha); [|reflexivity|intros _; discriminate].
  rewrite try_colon_58. rewrite (after_colon_print a b c rest Hb Hc Hr). reflexivity.
Qed.

Lemma match_slice_print_space b c rest :
  opt_dec b -> dec_shape c -> nud rest ->
  match_slice (32%N :: 58%N :: b ++ 58%N :: c ++ rest) = Some ([], b, c, rest).
Proof.
  intros Hb Hc Hr. rewrite match_slice_eq.
  rewrite opt_int_none; [|discriminate|reflexivity].
  rewrite try_colon_32, try_colon_58. rewrite (after_colon_print [] b c rest Hb Hc Hr). reflexivity.
Qed.

(* ---------------------------------------------------------------------- *)
(* numbers *)

Definition no_dot (rest : ustr) : Prop := match rest with c :: _ => c <> 46%N | [] => True end.

Lemma match_float_45 t :
  match_float (45%N :: t) =
  let '(d, s2) := span is_udigit t in
  match d, s2 with
  | _ :: _, 46%N :: s3 =>
      let '(frac, s4) := span is_udigit s3 in
      let '(ex, s5) := opt_exponent s4 in
      Some ([45%N] ++ d ++ 46%N :: frac ++ ex, s5)
  | _, _ => None
  end.
Proof. reflexivity. Qed.

Lemma match_float_not45 c t :
  c <> 45%N ->
  match_float (c :: t) =
  let '(d, s2) := span is_udigit (c :: t) in
  match d, s2 with
  | _ :: _, 46%N :: s3 =>
      let '(frac, s4) := span is_udigit s3 in
      let '(ex, s5) := opt_exponent s4 in
      Some ([] ++ d ++ 46%N :: frac ++ ex, s5)
  | _, _ => None
  end.
Proof. intros H. unfold match_float. bits c; try reflexivity. exfalso. apply H. reflexivity. Qed.

Lemma no_dot_match {A} (tail : ustr) (f : ustr -> A) (g : A) :
  no_dot tail -> match tail with 46%N :: s3 => f s3 | _ => g end = g.
Proof.
  intros H. destruct tail as [|c r]; [reflexivity|].
  cbn [no_dot] in H. bits c; try reflexivity. exfalso. apply H. reflexivity.
Qed.

Lemma match_float_num sg ds tail :
  (sg = [] \/ sg = [45%N]) -> ds <> [] -> forallb is_ascii_digit ds = true -> nud tail -> no_dot tail ->
  match_float (sg ++ ds ++ tail) = None.
Proof.
  intros Hsg Hne Hd Ht Hdot. destruct Hsg as [-> | ->].
  - destruct (digits_head ds Hne Hd) as [c [t [-> [Hc Hdt]]]]. cbn [app].
    rewrite match_float_not45 by (apply digit_bounds in Hc; lia).
    change (c :: t ++ tail) with ((c :: t) ++ tail).
    rewrite (span_udigit_digits (c :: t) tail Hd Ht). cbv iota beta. apply no_dot_match. exact Hdot.
  - cbn [app]. rewrite match_float_45. rewrite (span_udigit_digits ds tail Hd Ht).
    destruct ds as [|c t]; [contradiction|]. cbv iota beta. apply no_dot_match. exact Hdot.
Qed.

(* exponent part of a printed float: empty, or e, a sign, digits *)
Definition exp_shape (ex : ustr) : Prop :=
  ex = [] \/ exists sg ed, ex = 101%N :: sg :: ed /\ (sg = 43%N \/ sg = 45%N) /\ ed <> [] /\
                           forallb is_ascii_digit ed = true.

Definition no_exp (rest : ustr) : Prop :=
  match rest with c :: _ => c <> 101%N /\ c <> 69%N | [] => True end.

Lemma opt_exponent_none rest : no_exp rest -> opt_exponent rest = ([], rest).
Proof.
  intros H. destruct rest as [|c r]; [reflexivity|]. cbn [no_exp] in H. destruct H as [H1 H2].
  unfold opt_exponent.
  replace (N.eqb c 101) with false by (symmetry; apply N.eqb_neq; exact H1).
  replace (N.eqb c 69) with false by (symmetry; apply N.eqb_neq; exact H2). reflexivity.
Qed.

Lemma opt_exponent_print ex rest :
  exp_shape ex -> nud rest -> no_exp rest -> opt_exponent (ex ++ rest) = (ex, rest).
Proof.
  intros [-> | [sg [ed [-> [Hsg [Hne Hd]]]]]] Hr He.
  - apply opt_exponent_none. exact He.
  - cbn [app]. unfold opt_exponent. rewrite N.eqb_refl. cbn [orb].
    assert (Es : (N.eqb sg 43 || N.eqb sg 45) = true).
    { destruct Hsg as [-> | ->]; reflexivity. }
    rewrite Es. rewrite (span_udigit_digits ed rest Hd Hr).
    destruct ed; [contradiction|reflexivity].
Qed.

Definition float_shape (t : ustr) : Prop :=
  exists sg d frac ex,
    t = sg ++ d ++ 46%N :: frac ++ ex /\ (sg = [] \/ sg = [45%N]) /\
    d <> [] /\ forallb is_ascii_digit d = true /\ forallb is_ascii_digit frac = true /\ exp_shape ex.

Lemma exp_nud ex rest : exp_shape ex -> nud rest -> nud (ex ++ rest).
Proof.
  intros [-> | [sg [ed [-> _]]]] Hr; [exact Hr|reflexivity].
Qed.

Lemma match_float_print t rest :
  float_shape t -> nud rest -> no_exp rest -> match_float (t ++ rest) = Some (t, rest).
Proof.
  intros [sg [d [frac [ex [-> [Hsg [Hne [Hd [Hf Hex]]]]]]]]] Hr He.
  assert (Hfr : span is_udigit (frac ++ ex ++ rest) = (frac, ex ++ rest)).
  { apply span_udigit_digits; [exact Hf|apply exp_nud; assumption]. }
  assert (Hd1 : span is_udigit (d ++ 46%N :: frac ++ ex ++ rest) = (d, 46%N :: frac ++ ex ++ rest)).
  { apply span_udigit_digits; [exact Hd|reflexivity]. }
  replace ((sg ++ d ++ 46%N :: frac ++ ex) ++ rest) with (sg ++ d ++ 46%N :: frac ++ ex ++ rest)
    by (rewrite <- !app_assoc; cbn [app]; rewrite <- !app_assoc; reflexivity).
  destruct Hsg as [-> | ->].
  - destruct (digits_head d Hne Hd) as [c [t [Ed [Hc Hdt]]]]. subst d. cbn [app].
    rewrite match_float_not45 by (apply digit_bounds in Hc; lia).
    change (c :: t ++ 46%N :: frac ++ ex ++ rest) with ((c :: t) ++ 46%N :: frac ++ ex ++ rest).
    rewrite Hd1. cbv iota beta. rewrite Hfr. rewrite (opt_exponent_print ex rest Hex Hr He). reflexivity.
  - cbn [app]. rewrite match_float_45. rewrite Hd1.
    destruct d as [|c t]; [contradiction|]. cbv iota beta. rewrite Hfr.
    rewrite (opt_exponent_print ex rest Hex Hr He). reflexivity.
Qed.

Lemma match_int_45 t :
  match_int (45%N :: t) =
  let '(d, s2) := span is_udigit t in
  match d with
  | [] => None
  | _ =>
      let '(ex, s3) := opt_exponent s2 in
      if at_boundary s3 then
        Some ([45%N] ++ d ++ ex, match ex with _ :: 45%N :: _ => true | _ => false end, s3)
      else None
  end.
Proof. reflexivity. Qed.

Lemma match_int_not45 c t :
  c <> 45%N ->
  match_int (c :: t) =
  let '(d, s2) := span is_udigit (c :: t) in
  match d with
  | [] => None
  | _ =>
      let '(ex, s3) := opt_exponent s2 in
      if at_boundary s3 then
        Some ([] ++ d ++ ex, match ex with _ :: 45%N :: _ => true | _ => false end, s3)
      else None
  end.
Proof. intros H. unfold match_int. bits c; try reflexivity. exfalso. apply H. reflexivity. Qed.

Lemma match_int_num sg ds tail :
  (sg = [] \/ sg = [45%N]) -> ds <> [] -> forallb is_ascii_digit ds = true ->
  nud tail -> no_exp tail -> at_boundary tail = true ->
  match_int (sg ++ ds ++ tail) = Some (sg ++ ds, false, tail).
Proof.
  intros Hsg Hne Hd Ht He Hb. destruct Hsg as [-> | ->].
  - destruct (digits_head ds Hne Hd) as [c [t [Ed [Hc Hdt]]]]. subst ds. cbn [app].
    rewrite match_int_not45 by (apply digit_bounds in Hc; lia).
    change (c :: t ++ tail) with ((c :: t) ++ tail).
    rewrite (span_udigit_digits (c :: t) tail Hd Ht). cbv iota beta.
    rewrite (opt_exponent_none tail He). rewrite Hb. rewrite app_nil_r. reflexivity.
  - cbn [app]. rewrite match_int_45. rewrite (span_udigit_digits ds tail Hd Ht).
    destruct ds as [|c t]; [contradiction|]. cbv iota beta.
    rewrite (opt_exponent_none tail He). rewrite Hb. rewrite app_nil_r. reflexivity.
Qed.

(* ---------------------------------------------------------------------- *)
(* function names, regex literals, quoted strings *)

Lemma span_all p a c r : forallb p a = true -> p c = false -> span p (a ++ c :: r) = (a, c :: r).
Proof.
  intros Ha Hc. induction a as [|x a IH].
  - cbn [app span]. rewrite Hc. reflexivity.
  - cbn [forallb] in Ha. apply andb_true_iff in Ha as [Hx Ha].
    cbn [app span]. rewrite Hx. rewrite (IH Ha). reflexivity.
Qed.

Lemma match_function_print name r :
  fname_ok name = true -> nospace_head r ->
  match_function (name ++ 40%N :: r) = Some (name, r).
Proof.
  intros Hn Hr. unfold fname_ok in Hn. destruct name as [|c [|x a]]; try discriminate.
  apply andb_true_iff in Hn as [Hc Ha].
  cbn [app]. unfold match_function. rewrite Hc.
  change (x :: a ++ 40%N :: r) with ((x :: a) ++ 40%N :: r).
  rewrite (span_all fn_rest (x :: a) 40%N r Ha eq_refl).
  cbv iota beta. rewrite (skip_ws_id r Hr). reflexivity.
Qed.

Lemma match_function_not c t : is_lower c = false -> match_function (c :: t) = None.
Proof. intros H. unfold match_function. rewrite H. reflexivity. Qed.

Lemma until_slash_print r rest :
  contains_ch 47 r = false -> until_slash (r ++ 47%N :: rest) = Some (r, rest).
Proof.
  induction r as [|c r IH]; intros H.
  - reflexivity.
  - rewrite contains_ch_cons in H. apply orb_false_iff in H as [H1 H2].
    cbn [app until_slash]. rewrite N.eqb_sym, H1. rewrite (IH H2). reflexivity.
Qed.

Definition no_flag (rest : ustr) : Prop := match rest with c :: _ => is_flag c = false | [] => True end.

Lemma span_flags fl rest : forallb is_flag fl = true -> no_flag rest -> span is_flag (fl ++ rest) = (fl, rest).
Proof.
  intros Hf Hr. induction fl as [|c fl IH].
  - destruct rest as [|c r]; [reflexivity|]. cbn [app span]. cbn [no_flag] in Hr. rewrite Hr. reflexivity.
  - cbn [forallb] in Hf. apply andb_true_iff in Hf as [Hc Hf].
    cbn [app span]. rewrite Hc. rewrite (IH Hf). reflexivity.
Qed.

Lemma flags_text_flags fl : forallb is_flag (Serialize.flags_text fl) = true.
Proof. destruct fl as [[] [] [] []]; reflexivity. Qed.

Lemma match_regex_print p fl rest :
  regex_ok p = true -> forallb is_flag fl = true -> no_flag rest ->
  match_regex (47%N :: p ++ 47%N :: fl ++ rest) = Some (p, fl, rest).
Proof.
  intros Hp Hf Hr. unfold regex_ok in Hp. destruct p as [|c r]; [discriminate|].
  apply negb_true_iff in Hp. cbn [app].
  change (match_regex (47%N :: c :: r ++ 47%N :: fl ++ rest))
    with (match until_slash (r ++ 47%N :: fl ++ rest) with
          | Some (p, r0) => let '(fl0, r') := span is_flag r0 in Some (c :: p, fl0, r')
          | None => None
          end).
  rewrite (until_slash_print r _ Hp). rewrite (span_flags fl rest Hf Hr). reflexivity.
Qed.

Lemma scan_quoted_S q f c s' :
  scan_quoted q (S f) (c :: s') =
  if N.eqb c q then Some ([], s')
  else if N.eqb c 92 then
    match s' with
    | e :: s'' => match scan_quoted q f s'' with
                  | Some (v, r) => Some (c :: e :: v, r)
                  | None => None
                  end
    | [] => None
    end
  else match scan_quoted q f s' with
       | Some (v, r) => Some (c :: v, r)
       | None => None
       end.
Proof. reflexivity. Qed.

Lemma scan_plain f c s' v r :
  c <> 39%N -> c <> 92%N -> scan_quoted 39 f s' = Some (v, r) ->
  scan_quoted 39 (S f) (c :: s') = Some (c :: v, r).
Proof.
  intros H1 H2 H. rewrite scan_quoted_S.
  replace (N.eqb c 39) with false by (symmetry; apply N.eqb_neq; exact H1).
  replace (N.eqb c 92) with false by (symmetry; apply N.eqb_neq; exact H2).
  rewrite H. reflexivity.
Qed.

Lemma scan_esc f e s' v r :
  scan_quoted 39 f s' = Some (v, r) ->
  scan_quoted 39 (S f) (92%N :: e :: s') = Some (92%N :: e :: v, r).
Proof. intros H. rewrite scan_quoted_S. cbn [N.eqb Pos.eqb]. rewrite H. reflexivity. Qed.

Lemma scan_quoted_norm k : forall f rest,
  (length (flat_map norm_char k) < f)%nat ->
  scan_quoted 39 f (flat_map norm_char k ++ 39%N :: rest) = Some (flat_map norm_char k, rest).
Proof.
  induction k as [|c k IH]; intros f rest Hf.
  - destruct f; [cbn in Hf; lia|]. reflexivity.
  - cbn [flat_map] in *. rewrite app_length in Hf. rewrite <- app_assoc.
    revert Hf. revert c. apply (char_split (fun c =>
      (length (norm_char c) + length (flat_map norm_char k) < f)%nat ->
      scan_quoted 39 f (norm_char c ++ flat_map norm_char k ++ 39%N :: rest) =
      Some (norm_char c ++ flat_map norm_char k, rest)));
      try (intros Hf; cbn [norm_char N.eqb Pos.eqb app length] in *;
           destruct f as [|f]; [lia|]; apply scan_esc; apply IH; lia).
    + (* 34 *) intros Hf. change (norm_char 34) with [34%N] in *. cbn [app length] in *.
      destruct f as [|f]; [lia|]. apply scan_plain; [discriminate|discriminate|apply IH; lia].
    + intros c Hlt N8 N9 N10 N12 N13 Hf. rewrite norm_char_ctl in * by assumption.
      cbn [app length] in *.
      pose proof (nhex_range (c / 16)) as H1. pose proof (nhex_range (c mod 16)) as H2.
      destruct f as [|f]; [lia|]. apply scan_esc.
      do 4 (destruct f as [|f]; [lia|]).
      apply scan_plain; [discriminate|discriminate|].
      apply scan_plain; [discriminate|discriminate|].
      apply scan_plain; [lia|lia|].
      apply scan_plain; [lia|lia|].
      apply IH. lia.
    + intros c Hge N34 N39 N92 Hf. rewrite norm_char_plain in * by assumption.
      cbn [app length] in *. destruct f as [|f]; [lia|].
      apply scan_plain; [assumption|assumption|apply IH; lia].
Qed.

(* ---------------------------------------------------------------------- *)
(* what follows an expression in printed text *)

Definition opstart (c : N) : bool :=
  N.eqb c 38 || N.eqb c 124 || N.eqb c 61 || N.eqb c 33 || N.eqb c 60 || N.eqb c 62 || N.eqb c 105 || N.eqb c 99.

Inductive DE : ustr -> Prop :=
| DE_nil : DE []
| DE_rb r : DE (93%N :: r)
| DE_comma r : DE (44%N :: r)
| DE_rp r : DE (41%N :: r)
| DE_sp c r : opstart c = true -> DE (32%N :: c :: r).

Lemma opstart_cases c :
  opstart c = true ->
  c = 38%N \/ c = 124%N \/ c = 61%N \/ c = 33%N \/ c = 60%N \/ c = 62%N \/ c = 105%N \/ c = 99%N.
Proof.
  unfold opstart. intros H.
  repeat (apply orb_true_iff in H as [H|H]); apply N.eqb_eq in H; subst c; tauto.
Qed.

Lemma DE_nud rest : DE rest -> nud rest.
Proof. intros H. destruct H; reflexivity. Qed.

Lemma DE_no_colon rest : DE rest -> forall st, try_colon st rest = None.
Proof.
  intros H st. destruct H as [|r|r|r|c r Hc]; try reflexivity.
  rewrite try_colon_32. apply opstart_cases in Hc.
  repeat (destruct Hc as [Hc|Hc]; [subst c; reflexivity|]). subst c. reflexivity.
Qed.

Lemma DE_no_dot rest : DE rest -> no_dot rest.
Proof. intros H. destruct H; cbn; try exact I; discriminate. Qed.

Lemma DE_no_exp rest : DE rest -> no_exp rest.
Proof. intros H. destruct H; cbn; try exact I; split; discriminate. Qed.

Lemma DE_boundary rest : DE rest -> at_boundary rest = true.
Proof. intros H. destruct H; reflexivity. Qed.

Lemma DE_no_flag rest : DE rest -> no_flag rest.
Proof. intros H. destruct H; reflexivity. Qed.

(* ---------------------------------------------------------------------- *)
(* alternatives that cannot fire *)

Lemma alt_dq_none c s' : c <> 34%N -> alt_dq c s' = None.
Proof. intros H. unfold alt_dq. replace (N.eqb c 34) with false by (symmetry; apply N.eqb_neq; exact H). reflexivity. Qed.

Lemma alt_sq_none c s' : c <> 39%N -> alt_sq c s' = None.
Proof. intros H. unfold alt_sq. replace (N.eqb c 39) with false by (symmetry; apply N.eqb_neq; exact H). reflexivity. Qed.

Lemma alt_re_none c s' : c <> 47%N -> alt_re (c :: s') = None.
Proof. intros H. unfold alt_re. rewrite match_regex_not47 by exact H. reflexivity. Qed.

Lemma alt_slice_none s : match_slice s = None -> alt_slice s = None.
Proof. intros H. unfold alt_slice. rewrite H. reflexivity. Qed.

Lemma alt_fn_none c s' : is_lower c = false -> alt_fn (c :: s') = None.
Proof. intros H. unfold alt_fn. rewrite match_function_not by exact H. reflexivity. Qed.

Lemma alt_dotprop_none c s' : c <> 46%N -> alt_dotprop c s' = None.
Proof. intros H. unfold alt_dotprop. replace (N.eqb c 46) with false by (symmetry; apply N.eqb_neq; exact H). reflexivity. Qed.

Lemma alt_float_none s : match_float s = None -> alt_float s = None.
Proof. intros H. unfold alt_float. rewrite H. reflexivity. Qed.

Definition num_head (c : N) : Prop := is_ascii_digit c = true \/ c = 45%N.

Lemma num_head_facts c :
  num_head c -> c <> 34%N /\ c <> 39%N /\ c <> 47%N /\ c <> 46%N /\ is_lower c = false.
Proof.
  intros [H| ->].
  - apply digit_bounds in H. repeat split; try lia.
    unfold is_lower. apply andb_false_iff. left. apply N.leb_gt. lia.
  - repeat split; try discriminate.
Qed.

Lemma num_text_head sg ds tail :
  (sg = [] \/ sg = [45%N]) -> ds <> [] -> forallb is_ascii_digit ds = true ->
  exists c s', sg ++ ds ++ tail = c :: s' /\ num_head c.
Proof.
  intros Hsg Hne Hd. destruct (digits_head ds Hne Hd) as [c [t [-> [Hc _]]]].
  destruct Hsg as [-> | ->]; cbn [app].
  - exists c, (t ++ tail). split; [reflexivity|left; exact Hc].
  - exists 45%N, (c :: t ++ tail). split; [reflexivity|right; reflexivity].
Qed.

(* ---------------------------------------------------------------------- *)
(* steps on numbers *)

Lemma step_int E t rest :
  dec_shape t -> DE rest -> step1 E (t ++ rest) = LTok [mkTok TInt t] rest.
Proof.
  intros [sg [ds [-> [Hsg [Hne Hd]]]]] HD. rewrite <- app_assoc.
  destruct (num_text_head sg ds rest Hsg Hne Hd) as [c [s' [Hs Hc]]].
  destruct (num_head_facts c Hc) as [N34 [N39 [N47 [N46 Hlow]]]].
  pose proof (match_slice_num sg ds rest Hsg Hne Hd (DE_nud _ HD) (DE_no_colon _ HD)) as Hsl.
  pose proof (match_float_num sg ds rest Hsg Hne Hd (DE_nud _ HD) (DE_no_dot _ HD)) as Hfl.
  pose proof (match_int_num sg ds rest Hsg Hne Hd (DE_nud _ HD) (DE_no_exp _ HD) (DE_boundary _ HD)) as Hint.
  rewrite Hs in *. rewrite step1_cons. unfold alt_list. cbv zeta.
  rewrite (alt_dq_none c s' N34), first_some_none.
  rewrite (alt_sq_none c s' N39), first_some_none.
  rewrite (alt_re_none c s' N47), first_some_none.
  rewrite (alt_slice_none _ Hsl), first_some_none.
  rewrite (alt_fn_none c s' Hlow), first_some_none.
  rewrite (alt_dotprop_none c s' N46), first_some_none.
  rewrite (alt_float_none _ Hfl), first_some_none.
  unfold alt_int. rewrite Hint. rewrite first_some_some. reflexivity.
Qed.

Lemma float_text_head t tail : float_shape t ->
  exists c s', t ++ tail = c :: s' /\ num_head c.
Proof.
  intros [sg [d [frac [ex [-> [Hsg [Hne [Hd _]]]]]]]].
  destruct (num_text_head sg d (46%N :: frac ++ ex ++ tail) Hsg Hne Hd) as [c [s' [Hs Hc]]].
  exists c, s'. split; [|exact Hc]. rewrite <- Hs.
  rewrite <- !app_assoc. cbn [app]. rewrite <- !app_assoc. reflexivity.
Qed.

Lemma match_slice_float t rest : float_shape t -> match_slice (t ++ rest) = None.
Proof.
  intros [sg [d [frac [ex [-> [Hsg [Hne [Hd _]]]]]]]].
  replace ((sg ++ d ++ 46%N :: frac ++ ex) ++ rest) with (sg ++ d ++ 46%N :: frac ++ ex ++ rest)
    by (rewrite <- !app_assoc; cbn [app]; rewrite <- !app_assoc; reflexivity).
  apply match_slice_num; try assumption; [reflexivity|].
  intros st. apply try_colon_not; [reflexivity|discriminate].
Qed.

Lemma step_float E t rest :
  float_shape t -> DE rest -> step1 E (t ++ rest) = LTok [mkTok TFloat t] rest.
Proof.
  intros Ht HD.
  destruct (float_text_head t rest Ht) as [c [s' [Hs Hc]]].
  destruct (num_head_facts c Hc) as [N34 [N39 [N47 [N46 Hlow]]]].
  pose proof (match_slice_float t rest Ht) as Hsl.
  pose proof (match_float_print t rest Ht (DE_nud _ HD) (DE_no_exp _ HD)) as Hfl.
  rewrite Hs in *. rewrite step1_cons. unfold alt_list. cbv zeta.
  rewrite (alt_dq_none c s' N34), first_some_none.
  rewrite (alt_sq_none c s' N39), first_some_none.
  rewrite (alt_re_none c s' N47), first_some_none.
  rewrite (alt_slice_none _ Hsl), first_some_none.
  rewrite (alt_fn_none c s' Hlow), first_some_none.
  rewrite (alt_dotprop_none c s' N46), first_some_none.
  unfold alt_float. rewrite Hfl. rewrite first_some_some. reflexivity.
Qed.

(* slices *)
Lemma slice_text_head a b c rest :
  opt_dec a -> exists x s', a ++ 58%N :: b ++ 58%N :: c ++ rest = x :: s' /\ (num_head x \/ x = 58%N).
Proof.
  intros [-> | [sg [ds [-> [Hsg [Hne Hd]]]]]].
  - exists 58%N, (b ++ 58%N :: c ++ rest). split; [reflexivity|right; reflexivity].
  - rewrite <- app_assoc.
    destruct (num_text_head sg ds (58%N :: b ++ 58%N :: c ++ rest) Hsg Hne Hd) as [x [s' [Hs Hx]]].
    exists x, s'. split; [exact Hs|left; exact Hx].
Qed.

Lemma step_slice E a b c rest :
  opt_dec a -> opt_dec b -> dec_shape c -> nud rest ->
  step1 E (a ++ 58%N :: b ++ 58%N :: c ++ rest) =
  LTok [mkTok TSliceStart a; mkTok TSliceStop b; mkTok TSliceStep c] rest.
Proof.
  intros Ha Hb Hc Hr.
  pose proof (match_slice_print a b c rest Ha Hb Hc Hr) as Hsl.
  destruct (slice_text_head a b c rest Ha) as [x [s' [Hs Hx]]].
  assert (Hf : x <> 34%N /\ x <> 39%N /\ x <> 47%N).
  { destruct Hx as [Hx| ->]; [|repeat split; discriminate].
    destruct (num_head_facts x Hx) as [N34 [N39 [N47 _]]]. auto. }
  destruct Hf as [N34 [N39 N47]].
  rewrite Hs in *. rewrite step1_cons. unfold alt_list. cbv zeta.
  rewrite (alt_dq_none x s' N34), first_some_none.
  rewrite (alt_sq_none x s' N39), first_some_none.
  rewrite (alt_re_none x s' N47), first_some_none.
  unfold alt_slice. rewrite Hsl. rewrite first_some_some. reflexivity.
Qed.

Lemma step_slice_space E b c rest :
  opt_dec b -> dec_shape c -> nud rest ->
  step1 E (32%N :: 58%N :: b ++ 58%N :: c ++ rest) =
  LTok [mkTok TSliceStart []; mkTok TSliceStop b; mkTok TSliceStep c] rest.
Proof.
  intros Hb Hc Hr.
  pose proof (match_slice_print_space b c rest Hb Hc Hr) as Hsl.
  rewrite step1_cons. unfold alt_list. cbv zeta.
  rewrite (alt_dq_none 32%N _ ltac:(discriminate)), first_some_none.
  rewrite (alt_sq_none 32%N _ ltac:(discriminate)), first_some_none.
  rewrite (alt_re_none 32%N _ ltac:(discriminate)), first_some_none.
  unfold alt_slice. rewrite Hsl. rewrite first_some_some. reflexivity.
Qed.

(* strings, regex literals, function names *)
Lemma step_string E k rest :
  step1 E (39%N :: flat_map norm_char k ++ 39%N :: rest) = LTok [mkTok TSQ (flat_map norm_char k)] rest.
Proof.
  rewrite step1_cons. unfold alt_list. cbv zeta.
  rewrite (alt_dq_none 39%N _ ltac:(discriminate)), first_some_none.
  unfold alt_sq. rewrite N.eqb_refl. rewrite scan_quoted_norm.
  - rewrite first_some_some. reflexivity.
  - rewrite app_length. cbn [length]. lia.
Qed.

Lemma step_regex E p fl rest :
  regex_ok p = true -> forallb is_flag fl = true -> no_flag rest ->
  step1 E (47%N :: p ++ 47%N :: fl ++ rest) = LTok [mkTok TRePattern p; mkTok TReFlags fl] rest.
Proof.
  intros Hp Hf Hr. rewrite step1_cons. unfold alt_list. cbv zeta.
  rewrite (alt_dq_none 47%N _ ltac:(discriminate)), first_some_none.
  rewrite (alt_sq_none 47%N _ ltac:(discriminate)), first_some_none.
  unfold alt_re. rewrite (match_regex_print p fl rest Hp Hf Hr). rewrite first_some_some. reflexivity.
Qed.

Lemma lower_facts c :
  is_lower c = true ->
  c <> 34%N /\ c <> 39%N /\ c <> 47%N /\ c <> 45%N /\ c <> 58%N /\ is_udigit c = false /\ py_isspace c = false.
Proof.
  unfold is_lower. intros H. apply andb_true_iff in H as [H1 H2].
  apply N.leb_le in H1. apply N.leb_le in H2.
  repeat split; try lia.
  - apply ascii_nondigit_udigit; [apply N.ltb_lt; lia|].
    unfold is_ascii_digit. apply andb_false_iff. right. apply N.leb_gt. lia.
  - assert (Hc : (c = 97 \/ c = 98 \/ c = 99 \/ c = 100 \/ c = 101 \/ c = 102 \/ c = 103 \/ c = 104 \/ c = 105 \/ c = 106 \/ c = 107 \/ c = 108 \/ c = 109 \/ c = 110 \/ c = 111 \/ c = 112 \/ c = 113 \/ c = 114 \/ c = 115 \/ c = 116 \/ c = 117 \/ c = 118 \/ c = 119 \/ c = 120 \/ c = 121 \/ c = 122)%N) by lia.
    repeat (destruct Hc as [Hc|Hc]; [subst c; reflexivity|]). subst c. reflexivity.
Qed.

Lemma step_function E name r :
  fname_ok name = true -> nospace_head r ->
  step1 E (name ++ 40%N :: r) = LTok [mkTok TFunction name] r.
Proof.
  intros Hn Hr. pose proof (match_function_print name r Hn Hr) as Hm.
  assert (Hh : exists c t, name = c :: t /\ is_lower c = true).
  { unfold fname_ok in Hn. destruct name as [|c [|x a]]; try discriminate.
    apply andb_true_iff in Hn as [Hc _]. exists c, (x :: a). auto. }
  destruct Hh as [c [t [-> Hc]]].
  destruct (lower_facts c Hc) as [N34 [N39 [N47 [N45 [N58 [Hud Hsp]]]]]].
  cbn [app] in *. rewrite step1_cons. unfold alt_list. cbv zeta.
  rewrite (alt_dq_none c _ N34), first_some_none.
  rewrite (alt_sq_none c _ N39), first_some_none.
  rewrite (alt_re_none c _ N47), first_some_none.
  rewrite (alt_slice_none _ (match_slice_other c _ N45 Hud Hsp N58)), first_some_none.
  unfold alt_fn. rewrite Hm. rewrite first_some_some. reflexivity.
Qed.

(* ---------------------------------------------------------------------- *)
(* the environment's identifier tokens, for every admissible assignment of spellings *)

Lemma sign_cases c :
  sign_char c = true ->
  c = 36%N \/ c = 94%N \/ c = 64%N \/ c = 35%N \/ c = 126%N \/ c = 37%N \/ c = 59%N \/ c = 96%N \/
  c = 123%N \/ c = 125%N \/ c = 95%N \/ c = 124%N \/ c = 38%N.
Proof.
  unfold sign_char. cbn [existsb]. intros H.
  repeat (apply orb_true_iff in H as [H|H]; [apply N.eqb_eq in H; subst c; tauto|]).
  discriminate H.
Qed.

Ltac sign_split H :=
  apply sign_cases in H;
  repeat (destruct H as [H|H]; [subst|]); [..|subst].

Lemma sign_facts c :
  sign_char c = true ->
  c <> 34%N /\ c <> 39%N /\ c <> 47%N /\ c <> 45%N /\ c <> 58%N /\ c <> 46%N /\ c <> 61%N /\
  c <> 97%N /\ c <> 111%N /\
  is_udigit c = false /\ is_lower c = false /\ py_isspace c = false.
Proof.
  intros H. sign_split H; (repeat split; try discriminate; reflexivity).
Qed.

Definition nonsign_head (rest : ustr) : Prop :=
  match rest with [] => True | c :: _ => sign_char c = false end.

Definition env_base (E : env) : list (tkind * ustr) :=
  [(TRoot, e_root E); (TFakeRoot, e_fake_root E); (TSelf, e_self E); (TKey, e_key E);
   (TUnion, e_union E); (TIntersect, e_intersection E); (TFilterCtx, e_filter_context E);
   (TKeys, e_keys E)].

Lemma spellings_base E : spellings E = map snd (env_base E).
Proof. reflexivity. Qed.

Lemma pd_NoDup l : pairwise_distinct l = true -> NoDup l.
Proof.
  induction l as [|x l IH]; intros H; [constructor|].
  cbn [pairwise_distinct] in H. apply andb_true_iff in H as [H1 H2]. apply negb_true_iff in H1.
  constructor; [|apply IH; exact H2].
  intros Hin. assert (Hex : existsb (ustr_eqb x) l = true).
  { apply existsb_exists. exists x. split; [exact Hin|apply ustr_eqb_refl]. }
  congruence.
Qed.

Lemma tokens_ok_base E :
  tokens_ok E = true ->
  (forall k t, In (k, t) (env_base E) -> spelling_ok t = true) /\ NoDup (map snd (env_base E)).
Proof.
  unfold tokens_ok. rewrite spellings_base. intros H. apply andb_true_iff in H as [H1 H2]. split.
  - intros k t Hin. rewrite forallb_forall in H1. apply H1. apply in_map_iff. exists (k, t). auto.
  - apply pd_NoDup. exact H2.
Qed.

Lemma nodup_snd_unique {A} (B : list (A * ustr)) k1 k2 t :
  NoDup (map snd B) -> In (k1, t) B -> In (k2, t) B -> k1 = k2.
Proof.
  induction B as [|[k0 t0] B IH]; intros Hnd H1 H2; [contradiction|].
  cbn [map snd] in Hnd. inversion Hnd as [|? ? Hnot Hnd']; subst.
  destruct H1 as [H1|H1]; destruct H2 as [H2|H2].
  - congruence.
  - injection H1 as -> ->. exfalso. apply Hnot. apply in_map_iff. exists (k2, t). auto.
  - injection H2 as -> ->. exfalso. apply Hnot. apply in_map_iff. exists (k1, t). auto.
  - apply IH; assumption.
Qed.

(* insertion sort: elements and order *)
Lemma ins_tok_in kt l x : In x (ins_tok kt l) <-> x = kt \/ In x l.
Proof.
  induction l as [|y l IH]; [cbn; intuition congruence|].
  rewrite ins_tok_cons. destruct (Nat.ltb (length (snd kt)) (length (snd y))).
  - cbn [In]. rewrite IH. tauto.
  - cbn [In]. intuition congruence.
Qed.

Fixpoint sdesc (l : list (tkind * ustr)) : Prop :=
  match l with
  | [] => True
  | x :: r => Forall (fun y => (length (snd y) <= length (snd x))%nat) r /\ sdesc r
  end.

Lemma ins_tok_sdesc kt l : sdesc l -> sdesc (ins_tok kt l).
Proof.
  induction l as [|y l IH]; intros H; [cbn; auto|].
  cbn [sdesc] in H. destruct H as [Hy Hl].
  rewrite ins_tok_cons. destruct (Nat.ltb (length (snd kt)) (length (snd y))) eqn:El.
  - apply Nat.ltb_lt in El. cbn [sdesc]. split; [|apply IH; exact Hl].
    apply Forall_forall. intros x Hx. apply ins_tok_in in Hx as [->|Hx]; [cbv beta; apply Nat.lt_le_incl; exact El|].
    rewrite Forall_forall in Hy. apply Hy. exact Hx.
  - apply Nat.ltb_ge in El. cbn [sdesc]. split; [|split; assumption].
    constructor; [exact El|]. apply Forall_forall. intros x Hx.
    rewrite Forall_forall in Hy. specialize (Hy x Hx). cbv beta in *. eapply Nat.le_trans; [exact Hy|exact El].
Qed.

Lemma sort_in B x : In x (fold_right ins_tok [] B) <-> In x B.
Proof.
  induction B as [|kt B IH]; [tauto|]. cbn [fold_right In]. rewrite ins_tok_in, IH. intuition congruence.
Qed.

Lemma sort_sdesc B : sdesc (fold_right ins_tok [] B).
Proof. induction B as [|kt B IH]; [exact I|]. cbn [fold_right]. apply ins_tok_sdesc. exact IH. Qed.

Lemma spelling_nonempty t : spelling_ok t = true -> t <> [].
Proof. intros H ->. discriminate H. Qed.

Lemma env_tokens_in E x : tokens_ok E = true -> (In x (env_tokens E) <-> In x (env_base E)).
Proof.
  intros HT. destruct (tokens_ok_base E HT) as [Hsp _].
  rewrite env_tokens_eq. rewrite sort_in. fold (env_base E). rewrite filter_In.
  split; [tauto|]. intros Hin. split; [exact Hin|]. destruct x as [k t]. cbn [snd].
  specialize (Hsp k t Hin). destruct t; [discriminate Hsp|reflexivity].
Qed.

Lemma env_tokens_sdesc E : sdesc (env_tokens E).
Proof. rewrite env_tokens_eq. apply sort_sdesc. Qed.

(* match_lit *)
Lemma starts_with_split p s : starts_with p s = true -> s = p ++ skipn (length p) s.
Proof.
  revert s. induction p as [|x p IH]; intros s H; [reflexivity|].
  destruct s as [|y s]; [discriminate H|]. cbn [starts_with] in H.
  apply andb_true_iff in H as [H1 H2]. apply N.eqb_eq in H1. subst y.
  cbn [length skipn app]. f_equal. apply IH. exact H2.
Qed.

Lemma starts_with_app p r : starts_with p (p ++ r) = true.
Proof. induction p as [|x p IH]; [reflexivity|]. cbn [app starts_with]. rewrite N.eqb_refl. exact IH. Qed.

Lemma skipn_app_exact {A} (p r : list A) : skipn (length p) (p ++ r) = r.
Proof. induction p as [|x p IH]; [reflexivity|]. exact IH. Qed.

Lemma match_lit_app p r : match_lit p (p ++ r) = Some r.
Proof. unfold match_lit. rewrite starts_with_app, skipn_app_exact. reflexivity. Qed.

Lemma match_lit_some p s r : match_lit p s = Some r -> s = p ++ r.
Proof.
  unfold match_lit. destruct (starts_with p s) eqn:E; [|discriminate].
  intros H. injection H as <-. apply starts_with_split. exact E.
Qed.

Lemma app_eq_prefix {A} (t t0 rest r : list A) :
  t ++ rest = t0 ++ r -> (length t <= length t0)%nat -> exists m, t0 = t ++ m /\ rest = m ++ r.
Proof.
  revert t0. induction t as [|x t IH]; intros t0 H Hl.
  - exists t0. split; [reflexivity|exact H].
  - destruct t0 as [|y t0]; [cbn in Hl; lia|]. cbn [app] in H. injection H as -> H.
    destruct (IH t0 H) as [m [-> ->]]; [cbn in Hl; lia|]. exists m. split; reflexivity.
Qed.

Lemma spelling_signs t : spelling_ok t = true -> forallb sign_char t = true.
Proof.
  unfold spelling_ok. destruct t; [discriminate|]. intros H.
  apply andb_true_iff in H as [H _]. apply andb_true_iff in H as [H _]. exact H.
Qed.

Lemma match_env_sorted L : forall k t rest,
  sdesc L ->
  (forall k' t', In (k', t') L -> spelling_ok t' = true) ->
  (forall k1 k2 t', In (k1, t') L -> In (k2, t') L -> k1 = k2) ->
  In (k, t) L -> nonsign_head rest ->
  match_env L (t ++ rest) = Some (k, t, rest).
Proof.
  induction L as [|[k0 t0] L IH]; intros k t rest Hs Hsp Hun Hin Hr; [contradiction|].
  cbn [match_env]. cbn [sdesc] in Hs. destruct Hs as [Hhd Hs].
  destruct (match_lit t0 (t ++ rest)) as [r|] eqn:Em.
  - apply match_lit_some in Em.
    assert (Hlen : (length t <= length t0)%nat).
    { destruct Hin as [Hin|Hin]; [injection Hin as _ ->; lia|].
      rewrite Forall_forall in Hhd. apply (Hhd (k, t) Hin). }
    destruct (app_eq_prefix t t0 rest r Em Hlen) as [m [Et0 Erest]].
    destruct m as [|c m].
    + rewrite app_nil_r in Et0. subst t0. cbn [app] in Erest. subst r.
      rewrite (Hun k0 k t (or_introl eq_refl) Hin). reflexivity.
    + exfalso. subst rest. cbn [nonsign_head app] in Hr.
      pose proof (spelling_signs t0 (Hsp k0 t0 (or_introl eq_refl))) as Hsg.
      rewrite Et0 in Hsg. rewrite forallb_app in Hsg. apply andb_true_iff in Hsg as [_ Hsg].
      cbn [forallb] in Hsg. apply andb_true_iff in Hsg as [Hc _]. congruence.
  - destruct Hin as [Hin|Hin].
    + injection Hin as -> ->. rewrite match_lit_app in Em. discriminate Em.
    + apply IH; try assumption.
      * intros k' t' H'. apply (Hsp k' t'). right. exact H'.
      * intros k1 k2 t' H1 H2. apply (Hun k1 k2 t'); right; assumption.
Qed.

Lemma match_env_ident E k t rest :
  tokens_ok E = true -> In (k, t) (env_base E) -> nonsign_head rest ->
  match_env (env_tokens E) (t ++ rest) = Some (k, t, rest).
Proof.
  intros HT Hin Hr. destruct (tokens_ok_base E HT) as [Hsp Hnd].
  apply match_env_sorted.
  - apply env_tokens_sdesc.
  - intros k' t' H'. apply (Hsp k' t'). apply (env_tokens_in E _ HT). exact H'.
  - intros k1 k2 t' H1 H2. apply (nodup_snd_unique (env_base E) k1 k2 t' Hnd);
      apply (env_tokens_in E _ HT); assumption.
  - apply (env_tokens_in E _ HT). exact Hin.
  - exact Hr.
Qed.

Lemma match_lit_head_ne t c s :
  match t with x :: _ => x <> c | [] => False end -> match_lit t (c :: s) = None.
Proof.
  destruct t as [|x t]; [contradiction|]. intros H. unfold match_lit. cbn [starts_with].
  replace (N.eqb x c) with false by (symmetry; apply N.eqb_neq; exact H). reflexivity.
Qed.

Lemma match_env_nonsign L c s :
  (forall k' t', In (k', t') L -> spelling_ok t' = true) -> sign_char c = false ->
  match_env L (c :: s) = None.
Proof.
  induction L as [|[k0 t0] L IH]; intros Hsp Hc; [reflexivity|].
  cbn [match_env]. rewrite match_lit_head_ne.
  - apply IH; [|exact Hc]. intros k' t' H'. apply (Hsp k' t'). right. exact H'.
  - pose proof (Hsp k0 t0 (or_introl eq_refl)) as H0. pose proof (spelling_signs t0 H0) as Hsg.
    destruct t0 as [|x t0]; [discriminate H0|]. cbn [forallb] in Hsg.
    apply andb_true_iff in Hsg as [Hx _]. intros ->. congruence.
Qed.

Lemma alt_env_nonsign E :
  tokens_ok E = true -> forall c s, sign_char c = false -> alt_env E (c :: s) = None.
Proof.
  intros HT c s Hc. unfold alt_env. rewrite match_env_nonsign; [reflexivity| |exact Hc].
  destruct (tokens_ok_base E HT) as [Hsp _].
  intros k' t' H'. apply (Hsp k' t'). apply (env_tokens_in E _ HT). exact H'.
Qed.

(* an identifier token *)
Lemma alt_int_none s : match_int s = None -> alt_int s = None.
Proof. intros H. unfold alt_int. rewrite H. reflexivity. Qed.

Lemma match_float_other c t : c <> 45%N -> is_udigit c = false -> match_float (c :: t) = None.
Proof. intros H1 H2. rewrite match_float_not45 by exact H1. cbn [span]. rewrite H2. reflexivity. Qed.

Lemma match_int_other c t : c <> 45%N -> is_udigit c = false -> match_int (c :: t) = None.
Proof. intros H1 H2. rewrite match_int_not45 by exact H1. cbn [span]. rewrite H2. reflexivity. Qed.

Lemma alt_simple_none s k lit : match_lit lit s = None -> alt_simple s k lit = None.
Proof. intros H. unfold alt_simple. rewrite H. reflexivity. Qed.

Lemma alt_word_none c s k lit :
  match lit with x :: _ => x <> c | [] => False end -> alt_word (c :: s) k lit = None.
Proof.
  destruct lit as [|x lit]; [contradiction|]. intros H. unfold alt_word, match_word. cbn [starts_with].
  replace (N.eqb x c) with false by (symmetry; apply N.eqb_neq; exact H). reflexivity.
Qed.

Lemma double_none d t rest :
  (d = 38%N \/ d = 124%N) -> spelling_ok t = true -> nonsign_head rest ->
  match_lit [d; d] (t ++ rest) = None.
Proof.
  intros Hd Ht Hr. unfold match_lit.
  assert (Hs : starts_with [d; d] t = false).
  { unfold spelling_ok in Ht. destruct t; [discriminate|].
    apply andb_true_iff in Ht as [Ht H2]. apply andb_true_iff in Ht as [_ H1].
    apply negb_true_iff in H1. apply negb_true_iff in H2. destruct Hd as [-> | ->]; assumption. }
  assert (Hds : sign_char d = true) by (destruct Hd as [-> | ->]; reflexivity).
  replace (starts_with [d; d] (t ++ rest)) with false; [reflexivity|]. symmetry.
  destruct t as [|x [|y t]]; [discriminate Ht| |].
  - cbn [app starts_with]. destruct (N.eqb d x) eqn:E1; [|reflexivity]. cbn [andb].
    destruct rest as [|c r]; [reflexivity|]. cbn [nonsign_head] in Hr.
    destruct (N.eqb d c) eqn:E2; [|reflexivity]. apply N.eqb_eq in E2. subst c. congruence.
  - cbn [app starts_with] in *. destruct (N.eqb d x); [|reflexivity].
    destruct (N.eqb d y); [discriminate Hs|reflexivity].
Qed.

Lemma step_ident E k t rest :
  tokens_ok E = true -> In (k, t) (env_base E) -> nonsign_head rest ->
  step1 E (t ++ rest) = LTok [mkTok k t] rest.
Proof.
  intros HT Hin Hr. destruct (tokens_ok_base E HT) as [Hsp _]. pose proof (Hsp k t Hin) as Ht.
  pose proof (match_env_ident E k t rest HT Hin Hr) as Henv.
  pose proof (double_none 38%N t rest (or_introl eq_refl) Ht Hr) as Hand.
  pose proof (double_none 124%N t rest (or_intror eq_refl) Ht Hr) as Hor.
  pose proof (spelling_signs t Ht) as Hsg.
  destruct t as [|c t']; [discriminate Ht|]. cbn [forallb] in Hsg. apply andb_true_iff in Hsg as [Hc _].
  destruct (sign_facts c Hc) as [N34 [N39 [N47 [N45 [N58 [N46 [N61 [N97 [N111 [Hud [Hlow Hsp']]]]]]]]]]].
  cbn [app] in *. rewrite step1_cons. unfold alt_list. cbv zeta.
  rewrite (alt_dq_none c _ N34), first_some_none.
  rewrite (alt_sq_none c _ N39), first_some_none.
  rewrite (alt_re_none c _ N47), first_some_none.
  rewrite (alt_slice_none _ (match_slice_other c _ N45 Hud Hsp' N58)), first_some_none.
  rewrite (alt_fn_none c _ Hlow), first_some_none.
  rewrite (alt_dotprop_none c _ N46), first_some_none.
  rewrite (alt_float_none _ (match_float_other c _ N45 Hud)), first_some_none.
  rewrite (alt_int_none _ (match_int_other c _ N45 Hud)), first_some_none.
  rewrite (alt_simple_none _ TDDot _ (match_lit_head_ne [46; 46]%N c _ ltac:(cbn; congruence))), first_some_none.
  rewrite (alt_simple_none _ TAnd _ Hand), first_some_none.
  rewrite (alt_word_none c _ TAnd s_and ltac:(cbn; congruence)), first_some_none.
  rewrite (alt_simple_none _ TOr _ Hor), first_some_none.
  rewrite (alt_word_none c _ TOr s_or ltac:(cbn; congruence)), first_some_none.
  unfold alt_env. rewrite Henv. rewrite first_some_some. reflexivity.
Qed.

Lemma default_tokens_ok E : default_tokens E -> tokens_ok E = true.
Proof.
  intros [H1 [H2 [H3 [H4 [H5 [H6 [H7 H8]]]]]]]. unfold tokens_ok, spellings.
  rewrite H1, H2, H3, H4, H5, H6, H7, H8. reflexivity.
Qed.

(* ---------------------------------------------------------------------- *)
(* steps decided by computation on a concrete prefix *)

Ltac step_compute HT :=
  rewrite step1_cons; unfold alt_list; cbv zeta;
  try (rewrite (alt_env_nonsign _ HT) by reflexivity); lazy; reflexivity.

Lemma tok_pre E pre ts rest :
  pre <> [] -> step1 E (pre ++ rest) = LTok ts rest -> tokenize E (pre ++ rest) = ts ++ tokenize E rest.
Proof.
  intros Hne Hs. apply tok_step; [|exact Hs|].
  - destruct pre; [contradiction|discriminate].
  - rewrite app_length. destruct pre; [contradiction|]. cbn [length]. lia.
Qed.

Ltac leaf HE pre :=
  match goal with
  | |- tokenize ?E _ = _ :: tokenize ?E ?rest =>
      apply (tok_pre E pre [_] rest); [discriminate|cbn [app]; step_compute HE]
  end.

Section Leaves.
  Variable E : env.
  Hypothesis HE : tokens_ok E = true.

  Lemma tok_lbracket rest : tokenize E (91%N :: rest) = mkTok TLBracket [91%N] :: tokenize E rest.
  Proof. leaf HE [91%N]. Qed.
  Lemma tok_rbracket rest : tokenize E (93%N :: rest) = mkTok TRBracket [93%N] :: tokenize E rest.
  Proof. leaf HE [93%N]. Qed.
  Lemma tok_comma rest : tokenize E (44%N :: rest) = mkTok TComma [44%N] :: tokenize E rest.
  Proof. leaf HE [44%N]. Qed.
  Lemma tok_lparen rest : tokenize E (40%N :: rest) = mkTok TLParen [40%N] :: tokenize E rest.
  Proof. leaf HE [40%N]. Qed.
  Lemma tok_rparen rest : tokenize E (41%N :: rest) = mkTok TRParen [41%N] :: tokenize E rest.
  Proof. leaf HE [41%N]. Qed.
  Lemma tok_filter rest : tokenize E (63%N :: rest) = mkTok TFilter [63%N] :: tokenize E rest.
  Proof. leaf HE [63%N]. Qed.
  Lemma tok_wild rest : tokenize E (42%N :: rest) = mkTok TWild [42%N] :: tokenize E rest.
  Proof. leaf HE [42%N]. Qed.
  Lemma tok_ddot rest : tokenize E (46%N :: 46%N :: rest) = mkTok TDDot [46; 46]%N :: tokenize E rest.
  Proof. leaf HE [46; 46]%N. Qed.
  Lemma tok_ident k t rest :
    In (k, t) (env_base E) -> nonsign_head rest ->
    tokenize E (t ++ rest) = mkTok k t :: tokenize E rest.
  Proof.
    intros Hin Hr. apply (tok_pre E t [_] rest).
    - destruct (tokens_ok_base E HE) as [Hsp _]. apply spelling_nonempty. apply (Hsp k t Hin).
    - apply step_ident; assumption.
  Qed.
End Leaves.

From JP Require Import Serialize TokPrint.

Section Leaves2.
  Variable E : env.
  Hypothesis HE : tokens_ok E = true.

  (* skipping one space *)
  Lemma nonspace_not_blank c :
    py_isspace c = false -> c <> 32%N /\ c <> 10%N /\ c <> 9%N /\ c <> 13%N.
  Proof. intros H. repeat split; intros ->; discriminate. Qed.

  Lemma alt_skip_space c y :
    py_isspace c = false -> alt_skip 32 (c :: y) = Some (LTok [] (c :: y)).
  Proof.
    intros H. destruct (nonspace_not_blank c H) as [N32 [N10 [N9 N13]]].
    unfold alt_skip. change (N.eqb 32 32 || N.eqb 32 10 || N.eqb 32 9 || N.eqb 32 13) with true.
    cbv iota. cbn [span]. change (N.eqb 32 32 || N.eqb 32 10 || N.eqb 32 9 || N.eqb 32 13) with true.
    cbv iota.
    replace (N.eqb c 32) with false by (symmetry; apply N.eqb_neq; exact N32).
    replace (N.eqb c 10) with false by (symmetry; apply N.eqb_neq; exact N10).
    replace (N.eqb c 9) with false by (symmetry; apply N.eqb_neq; exact N9).
    replace (N.eqb c 13) with false by (symmetry; apply N.eqb_neq; exact N13).
    reflexivity.
  Qed.

  Lemma tok_space c y :
    py_isspace c = false -> c <> 58%N -> tokenize E (32%N :: c :: y) = tokenize E (c :: y).
  Proof.
    intros Hs Hc.
    change (tokenize E (c :: y)) with ([] ++ tokenize E (c :: y)).
    apply (tok_pre E [32%N] [] (c :: y)); [discriminate|]. cbn [app].
    rewrite step1_cons. unfold alt_list. cbv zeta. rewrite (alt_env_nonsign _ HE) by reflexivity.
    rewrite (alt_slice_none _ (match_slice_space c y Hs Hc)).
    rewrite (alt_skip_space c y Hs).
    lazy. reflexivity.
  Qed.

  (* ! *)
  Lemma tok_not c y :
    c <> 61%N -> tokenize E (33%N :: c :: y) = mkTok TNot [33%N] :: tokenize E (c :: y).
  Proof.
    intros Hc. apply (tok_pre E [33%N] [_] (c :: y)); [discriminate|]. cbn [app].
    assert (Hne : alt_simple (33%N :: c :: y) TNe [33; 61]%N = None).
    { unfold alt_simple, match_lit. cbn [starts_with]. change (N.eqb 33 33) with true.
      replace (N.eqb 61 c) with false by (symmetry; apply N.eqb_neq; congruence). reflexivity. }
    rewrite step1_cons. unfold alt_list. cbv zeta. rewrite (alt_env_nonsign _ HE) by reflexivity.
    rewrite Hne. lazy. reflexivity.
  Qed.

  (* binary operators, always printed between single spaces *)
  Lemma tok_binop_core o rest :
    tokenize E (binop_text o ++ 32%N :: rest) = op_token o :: tokenize E (32%N :: rest).
  Proof.
    destruct o; cbn [binop_text op_token].
    - leaf HE [38; 38]%N.
    - leaf HE [124; 124]%N.
    - leaf HE [61; 61]%N.
    - leaf HE [33; 61]%N.
    - leaf HE [60; 62]%N.
    - leaf HE [60]%N.
    - leaf HE [62]%N.
    - leaf HE [60; 61]%N.
    - leaf HE [62; 61]%N.
    - leaf HE [105; 110]%N.
    - leaf HE [99; 111; 110; 116; 97; 105; 110; 115]%N.
    - leaf HE [61; 126]%N.
  Qed.

  Lemma binop_head o : exists c t, binop_text o = c :: t /\ opstart c = true.
  Proof. destruct o; cbn [binop_text]; eexists; eexists; split; reflexivity. Qed.

  Lemma opstart_nonspace c : opstart c = true -> py_isspace c = false /\ c <> 58%N.
  Proof.
    intros H. apply opstart_cases in H.
    repeat (destruct H as [H|H]; [subst c; split; [reflexivity|discriminate]|]).
    subst c; split; [reflexivity|discriminate].
  Qed.

  Lemma tok_binop o c y :
    py_isspace c = false -> c <> 58%N ->
    tokenize E (32%N :: binop_text o ++ 32%N :: c :: y) = op_token o :: tokenize E (c :: y).
  Proof.
    intros Hs Hc. destruct (binop_head o) as [x [t [Ho Hx]]].
    destruct (opstart_nonspace x Hx) as [Hxs Hx58].
    assert (E1 : tokenize E (32%N :: binop_text o ++ 32%N :: c :: y) =
                 tokenize E (binop_text o ++ 32%N :: c :: y)).
    { rewrite Ho. cbn [app]. apply tok_space; assumption. }
    rewrite E1. rewrite tok_binop_core. rewrite (tok_space c y Hs Hc). reflexivity.
  Qed.

  Lemma DE_binop o y : DE (32%N :: binop_text o ++ y).
  Proof. destruct (binop_head o) as [x [t [Ho Hx]]]. rewrite Ho. cbn [app]. constructor. exact Hx. Qed.

  (* the literal words *)
  Lemma tok_nil rest : DE rest -> tokenize E ([110; 105; 108]%N ++ rest) = mkTok TNil [110; 105; 108]%N :: tokenize E rest.
  Proof. intros H. destruct H; leaf HE [110; 105; 108]%N. Qed.
  Lemma tok_true rest : DE rest -> tokenize E ([116; 114; 117; 101]%N ++ rest) = mkTok TTrue [116; 114; 117; 101]%N :: tokenize E rest.
  Proof. intros H. destruct H; leaf HE [116; 114; 117; 101]%N. Qed.
  Lemma tok_false rest : DE rest -> tokenize E ([102; 97; 108; 115; 101]%N ++ rest) = mkTok TFalse [102; 97; 108; 115; 101]%N :: tokenize E rest.
  Proof. intros H. destruct H; leaf HE [102; 97; 108; 115; 101]%N. Qed.
  Lemma tok_undefined rest :
    DE rest ->
    tokenize E ([117; 110; 100; 101; 102; 105; 110; 101; 100]%N ++ rest) =
    mkTok TUndefined [117; 110; 100; 101; 102; 105; 110; 101; 100]%N :: tokenize E rest.
  Proof. intros H. destruct H; leaf HE [117; 110; 100; 101; 102; 105; 110; 101; 100]%N. Qed.

  (* tokens with content *)
  Lemma dec_shape_nonempty t : dec_shape t -> t <> [].
  Proof.
    intros [sg [ds [-> [_ [Hne _]]]]] H. apply app_eq_nil in H as [_ H]. contradiction.
  Qed.

  Lemma tok_int t rest : dec_shape t -> DE rest -> tokenize E (t ++ rest) = mkTok TInt t :: tokenize E rest.
  Proof.
    intros Ht HD. apply (tok_pre E t [_] rest); [apply dec_shape_nonempty; exact Ht|].
    apply step_int; assumption.
  Qed.

  Lemma float_shape_nonempty t : float_shape t -> t <> [].
  Proof.
    intros [sg [d [frac [ex [-> [_ [Hne _]]]]]]] H. apply app_eq_nil in H as [_ H].
    apply app_eq_nil in H as [H _]. contradiction.
  Qed.

  Lemma tok_float t rest : float_shape t -> DE rest -> tokenize E (t ++ rest) = mkTok TFloat t :: tokenize E rest.
  Proof.
    intros Ht HD. apply (tok_pre E t [_] rest); [apply float_shape_nonempty; exact Ht|].
    apply step_float; assumption.
  Qed.

  Lemma canonical_body_norm s : canonical_body s = flat_map norm_char s.
  Proof. unfold canonical_body. apply LocationProofs.canonical_body. Qed.

  Lemma canonical_string_body s : canonical_string s = 39%N :: canonical_body s ++ [39%N].
  Proof. reflexivity. Qed.

  Lemma tok_string s rest :
    tokenize E (canonical_string s ++ rest) = mkTok TSQ (canonical_body s) :: tokenize E rest.
  Proof.
    rewrite canonical_string_body, canonical_body_norm.
    apply (tok_pre E _ [_] rest); [discriminate|].
    cbn [app]. rewrite <- app_assoc. cbn [app]. apply step_string.
  Qed.

  Lemma tok_regex p fl rest :
    regex_ok p = true -> DE rest ->
    tokenize E ((47%N :: p ++ 47%N :: flags_text fl) ++ rest) =
    [mkTok TRePattern p; mkTok TReFlags (flags_text fl)] ++ tokenize E rest.
  Proof.
    intros Hp HD. apply (tok_pre E _ _ rest); [discriminate|].
    cbn [app]. rewrite <- app_assoc. cbn [app].
    apply step_regex; [exact Hp|apply flags_text_flags|apply DE_no_flag; exact HD].
  Qed.

  Lemma tok_function name r :
    fname_ok name = true -> nospace_head r ->
    tokenize E (name ++ 40%N :: r) = mkTok TFunction name :: tokenize E r.
  Proof.
    intros Hn Hr.
    change (name ++ 40%N :: r) with (name ++ [40%N] ++ r). rewrite app_assoc.
    apply (tok_pre E (name ++ [40%N]) [_] r).
    - intros H. apply app_eq_nil in H as [_ H]. discriminate.
    - rewrite <- app_assoc. cbn [app]. apply step_function; assumption.
  Qed.

  Definition slice_text (a b : ustr) (c : ustr) : ustr := a ++ 58%N :: b ++ 58%N :: c.

  Lemma tok_slice a b c rest :
    opt_dec a -> opt_dec b -> dec_shape c -> nud rest ->
    tokenize E (slice_text a b c ++ rest) =
    [mkTok TSliceStart a; mkTok TSliceStop b; mkTok TSliceStep c] ++ tokenize E rest.
  Proof.
    intros Ha Hb Hc Hr. apply (tok_pre E _ _ rest).
    - unfold slice_text. intros H. apply app_eq_nil in H as [_ H]. discriminate.
    - unfold slice_text. rewrite <- !app_assoc. cbn [app]. rewrite <- !app_assoc. cbn [app].
      apply step_slice; assumption.
  Qed.

  Lemma tok_slice_space a b c rest :
    opt_dec a -> opt_dec b -> dec_shape c -> nud rest ->
    tokenize E (32%N :: slice_text a b c ++ rest) =
    [mkTok TSliceStart a; mkTok TSliceStop b; mkTok TSliceStep c] ++ tokenize E rest.
  Proof.
    intros Ha Hb Hc Hr. destruct Ha as [-> | Ha].
    - apply (tok_pre E (32%N :: slice_text [] b c) _ rest); [discriminate|].
      unfold slice_text. cbn [app]. rewrite <- !app_assoc. cbn [app].
      apply step_slice_space; assumption.
    - assert (Hh : exists x y, slice_text a b c ++ rest = x :: y /\ py_isspace x = false /\ x <> 58%N).
      { unfold slice_text. rewrite <- !app_assoc. cbn [app]. rewrite <- !app_assoc. cbn [app].
        destruct Ha as [sg [ds [-> [Hsg [Hne Hd]]]]]. rewrite <- app_assoc.
        destruct (num_text_head sg ds (58%N :: b ++ 58%N :: c ++ rest) Hsg Hne Hd) as [x [y [Hs Hx]]].
        exists x, y. split; [exact Hs|].
        destruct Hx as [Hx| ->]; [|split; [reflexivity|discriminate]].
        split; [apply isspace_digit; exact Hx|]. apply digit_bounds in Hx. lia. }
      destruct Hh as [x [y [Hs [Hx1 Hx2]]]].
      rewrite Hs. rewrite (tok_space x y Hx1 Hx2). rewrite <- Hs.
      apply tok_slice; [right; exact Ha|assumption|assumption|assumption].
  Qed.
End Leaves2.
