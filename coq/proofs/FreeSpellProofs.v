(* FreeSpellProofs.v — the scanner reads every free spelling (spec/FreeSpell.v) as the tokens it
   denotes (lex_free), and the consequences for compilation. *)
From JP Require Import Base Json PyStr PyJsonStr Syntax Gen_unicode Lex Parse Serialize TokPrint Printable
                       Gate Reparsable TokensOk FreeSpell NormPath PyStrLemmas LocationProofs LexProofs LexSteps.

(* ---------------------------------------------------------------------- *)
(* blanks *)

Lemma blank_cases c : is_blank c = true -> c = 32%N \/ c = 10%N \/ c = 9%N \/ c = 13%N.
Proof.
  unfold is_blank. intros H.
  repeat (apply orb_true_iff in H as [H|H]); apply N.eqb_eq in H; subst c; tauto.
Qed.

Lemma blank_space c : is_blank c = true -> py_isspace c = true.
Proof. intros H. apply blank_cases in H. repeat (destruct H as [H|H]; [subst c; reflexivity|]). subst c. reflexivity. Qed.

Lemma nonspace_nonblank c : py_isspace c = false -> is_blank c = false.
Proof. intros H. destruct (is_blank c) eqn:E; [|reflexivity]. apply blank_space in E. congruence. Qed.

Lemma skip_ws_cons_space c r : py_isspace c = true -> skip_ws (c :: r) = skip_ws r.
Proof. intros H. unfold skip_ws. cbn [span]. rewrite H. destruct (span py_isspace r). reflexivity. Qed.

Lemma skip_ws_blanks w y : blanks w = true -> skip_ws (w ++ y) = skip_ws y.
Proof.
  induction w as [|c w IH]; intros H; [reflexivity|].
  cbn [blanks forallb] in H. apply andb_true_iff in H as [Hc Hw].
  cbn [app]. rewrite skip_ws_cons_space by (apply blank_space; exact Hc). apply IH. exact Hw.
Qed.

Lemma try_colon_blanks start w y : blanks w = true -> try_colon start (w ++ y) = try_colon start y.
Proof. intros H. unfold try_colon. rewrite skip_ws_blanks by exact H. reflexivity. Qed.

Lemma span_blanks w y :
  blanks w = true -> hd_ok (fun c => negb (is_blank c)) y = true ->
  span (fun x => N.eqb x 32 || N.eqb x 10 || N.eqb x 9 || N.eqb x 13) (w ++ y) = (w, y).
Proof.
  intros Hw Hy. change (fun x => N.eqb x 32 || N.eqb x 10 || N.eqb x 9 || N.eqb x 13) with is_blank.
  induction w as [|c w IH].
  - destruct y as [|c r]; [reflexivity|]. cbn [app span]. cbn [hd_ok] in Hy.
    apply negb_true_iff in Hy. rewrite Hy. reflexivity.
  - cbn [blanks forallb] in Hw. apply andb_true_iff in Hw as [Hc Hw].
    cbn [app span]. rewrite Hc. rewrite (IH Hw). reflexivity.
Qed.

(* ---------------------------------------------------------------------- *)
(* what [fits] gives for numbers *)

Lemma no_colon_try rest : no_colon rest = true -> forall st, try_colon st rest = None.
Proof.
  unfold no_colon, try_colon. intros H st. destruct (skip_ws rest) as [|c r]; [reflexivity|].
  bits c; try reflexivity; discriminate H.
Qed.

Lemma int_fits rest :
  hd_ok (fun c => negb (is_udigit c) && negb (N.eqb c 46) && negb (is_word c)) rest && no_colon rest = true ->
  nud rest /\ no_dot rest /\ no_exp rest /\ at_boundary rest = true /\ (forall st, try_colon st rest = None).
Proof.
  intros H. apply andb_true_iff in H as [H Hc]. pose proof (no_colon_try rest Hc) as Htc.
  destruct rest as [|c r]; [repeat split; try exact I; try reflexivity; exact Htc|].
  cbn [hd_ok] in H. apply andb_true_iff in H as [H H3]. apply andb_true_iff in H as [H1 H2].
  apply negb_true_iff in H1. apply negb_true_iff in H2. apply negb_true_iff in H3. apply N.eqb_neq in H2.
  split; [exact H1|]. split; [exact H2|]. split; [|split; [cbn [at_boundary]; rewrite H3; reflexivity|exact Htc]].
  split; intros ->; discriminate H3.
Qed.

Lemma float_fits rest :
  hd_ok (fun c => negb (is_udigit c) && negb (N.eqb c 101) && negb (N.eqb c 69)) rest = true ->
  nud rest /\ no_exp rest.
Proof.
  destruct rest as [|c r]; [intros _; split; exact I|]. cbn [hd_ok]. intros H.
  apply andb_true_iff in H as [H H3]. apply andb_true_iff in H as [H1 H2].
  apply negb_true_iff in H1. apply negb_true_iff in H2. apply negb_true_iff in H3.
  apply N.eqb_neq in H2. apply N.eqb_neq in H3. split; [exact H1|split; assumption].
Qed.

Lemma step_int_gen E t rest :
  dec_shape t -> nud rest -> no_dot rest -> no_exp rest -> at_boundary rest = true ->
  (forall st, try_colon st rest = None) ->
  step1 E (t ++ rest) = LTok [mkTok TInt t] rest.
Proof.
  intros [sg [ds [-> [Hsg [Hne Hd]]]]] Hn Hdot Hex Hb Htc. rewrite <- app_assoc.
  destruct (num_text_head sg ds rest Hsg Hne Hd) as [c [s' [Hs Hc]]].
  destruct (num_head_facts c Hc) as [N34 [N39 [N47 [N46 Hlow]]]].
  pose proof (match_slice_num sg ds rest Hsg Hne Hd Hn Htc) as Hsl.
  pose proof (match_float_num sg ds rest Hsg Hne Hd Hn Hdot) as Hfl.
  pose proof (match_int_num sg ds rest Hsg Hne Hd Hn Hex Hb) as Hint.
  rewrite Hs in *. rewrite step1_cons. unfold alt_list. cbv zeta.
  rewrite (alt_dq_none c s' N34), first_some_none.
  rewrite (alt_sq_none c s' N39), first_some_none.
  rewrite (alt_re_none c s' N47), first_some_none.
  rewrite (alt_slice_none _ Hsl), first_some_none.
  rewrite (alt_fn_none c s' Hlow), first_some_none.
  rewrite (alt_dotprop_none c s' N46), first_some_none.
  rewrite (alt_float_none _ Hfl), first_some_none.
  unfold alt_int. rewrite Hint. rewrite first_some_some. reflexivity.
Qed.

Lemma step_float_gen E t rest :
  float_shape t -> nud rest -> no_exp rest -> step1 E (t ++ rest) = LTok [mkTok TFloat t] rest.
Proof.
  intros Ht Hn Hex.
  destruct (float_text_head t rest Ht) as [c [s' [Hs Hc]]].
  destruct (num_head_facts c Hc) as [N34 [N39 [N47 [N46 Hlow]]]].
  pose proof (match_slice_float t rest Ht) as Hsl.
  pose proof (match_float_print t rest Ht Hn Hex) as Hfl.
  rewrite Hs in *. rewrite step1_cons. unfold alt_list. cbv zeta.
  rewrite (alt_dq_none c s' N34), first_some_none.
  rewrite (alt_sq_none c s' N39), first_some_none.
  rewrite (alt_re_none c s' N47), first_some_none.
  rewrite (alt_slice_none _ Hsl), first_some_none.
  rewrite (alt_fn_none c s' Hlow), first_some_none.
  rewrite (alt_dotprop_none c s' N46), first_some_none.
  unfold alt_float. rewrite Hfl. rewrite first_some_some. reflexivity.
Qed.

(* ---------------------------------------------------------------------- *)
(* quoted strings *)

Lemma scan_ext q : forall f s v r,
  scan_quoted q f s = Some (v, r) ->
  forall f' tl, (f <= f')%nat -> scan_quoted q f' (s ++ tl) = Some (v, r ++ tl).
Proof.
  induction f as [|f IH]; intros s v r H f' tl Hf; [discriminate H|].
  destruct f' as [|f']; [lia|]. destruct s as [|c s']; [discriminate H|].
  cbn [app]. rewrite scan_quoted_S in *. destruct (N.eqb c q).
  - injection H as <- <-. reflexivity.
  - destruct (N.eqb c 92).
    + destruct s' as [|e s'']; [discriminate H|]. cbn [app].
      destruct (scan_quoted q f s'') as [[v0 r0]|] eqn:Es; [|discriminate H].
      injection H as <- <-. rewrite (IH s'' v0 r0 Es f' tl) by lia. reflexivity.
    + destruct (scan_quoted q f s') as [[v0 r0]|] eqn:Es; [|discriminate H].
      injection H as <- <-. rewrite (IH s' v0 r0 Es f' tl) by lia. reflexivity.
Qed.

Lemma quoted_body_scan q body rest :
  quoted_body q body = true ->
  scan_quoted q (S (length (body ++ q :: rest))) (body ++ q :: rest) = Some (body, rest).
Proof.
  unfold quoted_body. intros H.
  destruct (scan_quoted q (S (length body)) (body ++ [q])) as [[v r]|] eqn:Es; [|discriminate H].
  destruct r; [|discriminate H]. apply ustr_eqb_spec in H. subst v.
  replace (body ++ q :: rest) with ((body ++ [q]) ++ rest) by (rewrite <- app_assoc; reflexivity).
  rewrite (scan_ext q _ _ _ _ Es (S (length ((body ++ [q]) ++ rest))) rest); [reflexivity|].
  rewrite !app_length. lia.
Qed.

Lemma step_quoted E (dq : bool) body rest :
  quoted_body (if dq then 34%N else 39%N) body = true ->
  step1 E (lex_text (XStr dq body) ++ rest) = LTok (lex_toks (XStr dq body)) rest.
Proof.
  intros H. cbn [lex_text lex_toks]. destruct dq; cbn [app]; rewrite <- app_assoc; cbn [app];
    rewrite step1_cons; unfold alt_list; cbv zeta.
  - unfold alt_dq. rewrite N.eqb_refl. rewrite (quoted_body_scan 34%N body rest H).
    rewrite first_some_some. reflexivity.
  - rewrite (alt_dq_none 39%N _ ltac:(discriminate)), first_some_none.
    unfold alt_sq. rewrite N.eqb_refl. rewrite (quoted_body_scan 39%N body rest H).
    rewrite first_some_some. reflexivity.
Qed.

(* ---------------------------------------------------------------------- *)
(* function names: the blanks after the parenthesis belong to the match *)

Lemma match_function_gen name r :
  fname_ok name = true -> match_function (name ++ 40%N :: r) = Some (name, skip_ws r).
Proof.
  intros Hn. unfold fname_ok in Hn. destruct name as [|c [|x a]]; try discriminate.
  apply andb_true_iff in Hn as [Hc Ha].
  cbn [app]. unfold match_function. rewrite Hc.
  change (x :: a ++ 40%N :: r) with ((x :: a) ++ 40%N :: r).
  rewrite (span_all fn_rest (x :: a) 40%N r Ha eq_refl). reflexivity.
Qed.

Lemma step_function_gen E name wp rest :
  fname_ok name = true -> blanks wp = true -> hd_ok (fun c => negb (py_isspace c)) rest = true ->
  step1 E ((name ++ 40%N :: wp) ++ rest) = LTok [mkTok TFunction name] rest.
Proof.
  intros Hn Hw Hr.
  assert (Hm : match_function (name ++ 40%N :: wp ++ rest) = Some (name, rest)).
  { rewrite match_function_gen by exact Hn. rewrite skip_ws_blanks by exact Hw.
    rewrite skip_ws_id; [reflexivity|]. destruct rest as [|c r]; [exact I|].
    cbn [hd_ok] in Hr. apply negb_true_iff in Hr. exact Hr. }
  assert (Hh : exists c t, name = c :: t /\ is_lower c = true).
  { unfold fname_ok in Hn. destruct name as [|c [|x a]]; try discriminate.
    apply andb_true_iff in Hn as [Hc _]. exists c, (x :: a). auto. }
  destruct Hh as [c [t [-> Hc]]].
  destruct (lower_facts c Hc) as [N34 [N39 [N47 [N45 [N58 [Hud Hsp]]]]]].
  rewrite <- app_assoc. cbn [app] in *. rewrite step1_cons. unfold alt_list. cbv zeta.
  rewrite (alt_dq_none c _ N34), first_some_none.
  rewrite (alt_sq_none c _ N39), first_some_none.
  rewrite (alt_re_none c _ N47), first_some_none.
  rewrite (alt_slice_none _ (match_slice_other c _ N45 Hud Hsp N58)), first_some_none.
  unfold alt_fn. rewrite Hm. rewrite first_some_some. reflexivity.
Qed.

(* ---------------------------------------------------------------------- *)
(* slices with blanks around the colons *)

Lemma blanks_nud w y : blanks w = true -> nud y -> w <> [] -> nud (w ++ y).
Proof.
  intros Hw _ Hne. destruct w as [|c w]; [contradiction|]. cbn [blanks forallb] in Hw.
  apply andb_true_iff in Hw as [Hc _]. cbn [app nud]. apply blank_cases in Hc.
  repeat (destruct Hc as [Hc|Hc]; [subst c; reflexivity|]). subst c. reflexivity.
Qed.

Lemma opt_int_opt_blank t w tail :
  opt_dec t -> blanks w = true -> opt_int (t ++ w ++ 58%N :: tail) = (t, w ++ 58%N :: tail).
Proof.
  intros Ht Hw. apply opt_int_opt; [exact Ht| |].
  - destruct w as [|c w]; [reflexivity|]. apply blanks_nud; [exact Hw|reflexivity|discriminate].
  - intros _. destruct w as [|c w]; [cbn; discriminate|]. cbn [app].
    cbn [blanks forallb] in Hw. apply andb_true_iff in Hw as [Hc _]. apply blank_cases in Hc.
    repeat (destruct Hc as [Hc|Hc]; [subst c; discriminate|]). subst c. discriminate.
Qed.

Lemma skip_ws_blanks_colon w tail : blanks w = true -> skip_ws (w ++ 58%N :: tail) = 58%N :: tail.
Proof. intros H. rewrite skip_ws_blanks by exact H. apply skip_ws_id. reflexivity. Qed.

Lemma after_colon_blanks start w2 b w3 w4 c rest :
  opt_dec b -> dec_shape c -> blanks w2 = true -> blanks w3 = true -> blanks w4 = true -> nud rest ->
  after_colon start (w2 ++ b ++ w3 ++ 58%N :: w4 ++ c ++ rest) = Some (start, b, c, rest).
Proof.
  intros Hb Hc H2 H3 H4 Hr. unfold after_colon. rewrite skip_ws_blanks by exact H2.
  assert (Hcne : c = [] -> match rest with x :: _ => x <> 45%N | [] => True end).
  { intros ->. destruct Hc as [sg [ds [E0 [_ [Hne _]]]]]. destruct sg; destruct ds; try discriminate.
    contradiction. }
  assert (Hlast : (let '(step, r6) := opt_int (skip_ws (w4 ++ c ++ rest)) in
                   Some (start, b, step, r6)) = Some (start, b, c, rest)).
  { rewrite skip_ws_blanks by exact H4. rewrite (skip_ws_id (c ++ rest)) by (apply dec_nospace; exact Hc).
    rewrite (opt_int_opt c rest (or_intror Hc) Hr Hcne). reflexivity. }
  destruct Hb as [-> | Hb].
  - cbn [app]. rewrite skip_ws_blanks_colon by exact H3. cbv zeta.
    rewrite opt_int_none; [|discriminate|reflexivity].
    rewrite (skip_ws_id (58%N :: w4 ++ c ++ rest)) by reflexivity. exact Hlast.
  - rewrite (skip_ws_id (b ++ w3 ++ 58%N :: w4 ++ c ++ rest)) by (apply dec_nospace; exact Hb).
    cbv zeta. rewrite (opt_int_opt_blank b w3 _ (or_intror Hb) H3).
    rewrite skip_ws_blanks_colon by exact H3. exact Hlast.
Qed.

Lemma match_slice_blanks a w1 w2 b w3 w4 c rest :
  opt_dec a -> opt_dec b -> dec_shape c ->
  blanks w1 = true -> blanks w2 = true -> blanks w3 = true -> blanks w4 = true -> nud rest ->
  match_slice (a ++ w1 ++ 58%N :: w2 ++ b ++ w3 ++ 58%N :: w4 ++ c ++ rest) = Some (a, b, c, rest).
Proof.
  intros Ha Hb Hc H1 H2 H3 H4 Hr. rewrite match_slice_eq.
  rewrite (opt_int_opt_blank a w1 _ Ha H1).
  rewrite try_colon_blanks by exact H1. rewrite try_colon_58.
  rewrite (after_colon_blanks a w2 b w3 w4 c rest Hb Hc H2 H3 H4 Hr). reflexivity.
Qed.

(* leading blanks before a slice whose start is omitted are part of the match *)
Lemma match_slice_lead x w0 w2 b w3 w4 c rest :
  is_blank x = true -> blanks w0 = true ->
  opt_dec b -> dec_shape c -> blanks w2 = true -> blanks w3 = true -> blanks w4 = true -> nud rest ->
  match_slice (x :: w0 ++ 58%N :: w2 ++ b ++ w3 ++ 58%N :: w4 ++ c ++ rest) = Some ([], b, c, rest).
Proof.
  intros Hx H0 Hb Hc H2 H3 H4 Hr. rewrite match_slice_eq.
  assert (Hxw : blanks (x :: w0) = true) by (cbn [blanks forallb]; rewrite Hx; exact H0).
  rewrite opt_int_none.
  - change (x :: w0 ++ 58%N :: w2 ++ b ++ w3 ++ 58%N :: w4 ++ c ++ rest)
      with ((x :: w0) ++ 58%N :: w2 ++ b ++ w3 ++ 58%N :: w4 ++ c ++ rest).
    rewrite try_colon_blanks by exact Hxw. rewrite try_colon_58.
    rewrite (after_colon_blanks [] w2 b w3 w4 c rest Hb Hc H2 H3 H4 Hr). reflexivity.
  - apply blank_cases in Hx. repeat (destruct Hx as [Hx|Hx]; [subst x; discriminate|]). subst x; discriminate.
  - apply blank_cases in Hx. repeat (destruct Hx as [Hx|Hx]; [subst x; reflexivity|]). subst x; reflexivity.
Qed.

Section Free.
  Variable E : env.
  Hypothesis HT : tokens_ok E = true.

  (* a run of blanks before anything that is neither a blank-like character nor a colon *)
  Definition plain_head (y : ustr) : Prop :=
    match y with [] => True | c :: _ => py_isspace c = false /\ c <> 58%N end.

  Lemma blank_step b w y :
    is_blank b = true -> blanks w = true -> plain_head y ->
    step1 E (b :: w ++ y) = LTok [] y.
  Proof.
    intros Hb Hw Hy.
    assert (Hbw : blanks (b :: w) = true) by (cbn [blanks forallb]; rewrite Hb; exact Hw).
    assert (Hsl : match_slice (b :: w ++ y) = None).
    { rewrite match_slice_eq. rewrite opt_int_none.
      - change (b :: w ++ y) with ((b :: w) ++ y). rewrite try_colon_blanks by exact Hbw.
        destruct y as [|c r]; [reflexivity|]. destruct Hy as [H1 H2].
        rewrite try_colon_not by assumption. reflexivity.
      - apply blank_cases in Hb. repeat (destruct Hb as [Hb|Hb]; [subst b; discriminate|]). subst b; discriminate.
      - apply blank_cases in Hb. repeat (destruct Hb as [Hb|Hb]; [subst b; reflexivity|]). subst b; reflexivity. }
    assert (Hsk : alt_skip b (w ++ y) = Some (LTok [] y)).
    { unfold alt_skip. change (N.eqb b 32 || N.eqb b 10 || N.eqb b 9 || N.eqb b 13) with (is_blank b).
      rewrite Hb. change (b :: w ++ y) with ((b :: w) ++ y). rewrite span_blanks; [reflexivity|exact Hbw|].
      destruct y as [|c r]; [reflexivity|]. destruct Hy as [H1 _]. cbn [hd_ok].
      rewrite (nonspace_nonblank c H1). reflexivity. }
    rewrite step1_cons. unfold alt_list. cbv zeta.
    rewrite (alt_slice_none _ Hsl). rewrite Hsk.
    apply blank_cases in Hb.
    destruct Hb as [->|[->|[->| ->]]]; rewrite (alt_env_nonsign _ HT) by reflexivity; lazy; reflexivity.
  Qed.

  Lemma blank_skip w y : blanks w = true -> plain_head y -> tokenize E (w ++ y) = tokenize E y.
  Proof.
    intros Hw Hy. destruct w as [|b w]; [reflexivity|].
    cbn [blanks forallb] in Hw. apply andb_true_iff in Hw as [Hb Hw].
    change (tokenize E y) with ([] ++ tokenize E y).
    apply (tok_pre E (b :: w) [] y); [discriminate|]. cbn [app]. apply blank_step; assumption.
  Qed.

  Lemma blanks_end w : blanks w = true -> tokenize E w = [].
  Proof. intros H. rewrite <- (app_nil_r w). rewrite blank_skip; [reflexivity|exact H|exact I]. Qed.
End Free.

(* ---------------------------------------------------------------------- *)
(* names *)

Lemma span_hd p a rest :
  forallb p a = true -> hd_ok (fun c => negb (p c)) rest = true -> span p (a ++ rest) = (a, rest).
Proof.
  intros Ha Hr. induction a as [|x a IH].
  - destruct rest as [|c r]; [reflexivity|]. cbn [app span]. cbn [hd_ok] in Hr.
    apply negb_true_iff in Hr. rewrite Hr. reflexivity.
  - cbn [forallb] in Ha. apply andb_true_iff in Ha as [Hx Ha].
    cbn [app span]. rewrite Hx. rewrite (IH Ha). reflexivity.
Qed.

Lemma match_key_name k rest :
  key_name k = true -> hd_ok (fun c => negb (key_rest c)) rest = true ->
  match_key (k ++ rest) = Some (k, rest).
Proof.
  unfold key_name. destruct k as [|c r]; [discriminate|]. intros H Hr.
  apply andb_true_iff in H as [Hc Hk]. cbn [app match_key]. rewrite Hc.
  rewrite (span_hd key_rest r rest Hk Hr). reflexivity.
Qed.

Lemma match_key_none rest : hd_ok (fun c => negb (key_first c)) rest = true -> match_key rest = None.
Proof.
  destruct rest as [|c r]; [reflexivity|]. cbn [hd_ok match_key]. intros H.
  apply negb_true_iff in H. rewrite H. reflexivity.
Qed.

(* a keyword does not match at a name made of word characters *)
Lemma skipn_app_lt {A} n (k rest : list A) : (n < length k)%nat ->
  exists x y, skipn n (k ++ rest) = x :: y /\ In x k.
Proof.
  revert k. induction n as [|n IH]; intros k H.
  - destruct k as [|x k]; [cbn in H; lia|]. exists x, (k ++ rest). split; [reflexivity|left; reflexivity].
  - destruct k as [|x k]; [cbn in H; lia|]. cbn [length] in H.
    destruct (IH k ltac:(lia)) as [x0 [y [E Hin]]]. exists x0, y. split; [exact E|right; exact Hin].
Qed.

Lemma word_none w k rest :
  w <> [] -> forallb key_rest w = true -> k <> w -> forallb is_word k = true ->
  hd_ok (fun c => negb (key_rest c)) rest = true ->
  match_word w (k ++ rest) = None.
Proof.
  intros Hwne Hw Hkw Hk Hr. unfold match_word.
  destruct (starts_with w (k ++ rest)) eqn:Es; [|reflexivity].
  pose proof (starts_with_split w (k ++ rest) Es) as Hsplit.
  destruct (Nat.lt_trichotomy (length w) (length k)) as [Hlt|[Heq|Hgt]].
  - destruct (skipn_app_lt (length w) k rest Hlt) as [x [y [E Hin]]]. rewrite E. cbn [at_boundary].
    rewrite forallb_forall in Hk. rewrite (Hk x Hin). reflexivity.
  - exfalso. symmetry in Hsplit.
    destruct (app_eq_prefix w k _ rest Hsplit ltac:(lia)) as [m [Ek _]].
    assert (m = []). { apply (f_equal (@length N)) in Ek. rewrite app_length in Ek. destruct m; [reflexivity|cbn in Ek; lia]. }
    subst m. rewrite app_nil_r in Ek. congruence.
  - exfalso. destruct (app_eq_prefix k w rest _ Hsplit ltac:(lia)) as [m [Ew Erest]].
    destruct m as [|x m].
    + rewrite app_nil_r in Ew. subst w. lia.
    + rewrite Erest in Hr. cbn [app hd_ok] in Hr. apply negb_true_iff in Hr.
      rewrite Ew in Hw. rewrite forallb_app in Hw. apply andb_true_iff in Hw as [_ Hw].
      cbn [forallb] in Hw. apply andb_true_iff in Hw as [Hx _]. congruence.
Qed.

Lemma cap_none up lo tail c k' rest :
  tail <> [] -> forallb key_rest tail = true -> c :: k' <> up :: tail -> c :: k' <> lo :: tail ->
  forallb is_word k' = true -> hd_ok (fun x => negb (key_rest x)) rest = true ->
  match_cap up lo tail (c :: k' ++ rest) = None.
Proof.
  intros Htne Ht Hup Hlo Hk Hr. unfold match_cap.
  destruct (N.eqb c up || N.eqb c lo) eqn:Ec; [|reflexivity].
  rewrite word_none; [reflexivity|exact Htne|exact Ht| |exact Hk|exact Hr].
  intros ->. apply orb_true_iff in Ec as [Ec|Ec]; apply N.eqb_eq in Ec; subst c; congruence.
Qed.

(* ---------------------------------------------------------------------- *)
(* keywords and operators whose reading depends on the next character *)

Lemma fn_rest_word c : fn_rest c = true -> is_word c = true.
Proof.
  unfold fn_rest, is_lower, is_word, is_ascii_alpha, is_ascii_digit. intros H.
  apply orb_true_iff in H as [H|H]; [apply orb_true_iff in H as [H|H]|].
  - apply andb_true_iff in H as [H1 H2]. apply N.leb_le in H1. apply N.leb_le in H2.
    replace (N.ltb c 128) with true by (symmetry; apply N.ltb_lt; lia).
    replace (N.leb 97 c) with true by (symmetry; apply N.leb_le; lia).
    replace (N.leb c 122) with true by (symmetry; apply N.leb_le; lia).
    cbn [andb]. rewrite orb_true_r. reflexivity.
  - apply N.eqb_eq in H. subst c. reflexivity.
  - apply andb_true_iff in H as [H1 H2]. apply N.leb_le in H1. apply N.leb_le in H2.
    replace (N.ltb c 128) with true by (symmetry; apply N.ltb_lt; lia).
    replace (N.leb 48 c) with true by (symmetry; apply N.leb_le; lia).
    replace (N.leb c 57) with true by (symmetry; apply N.leb_le; lia).
    cbn [andb]. rewrite orb_true_r. reflexivity.
Qed.

Definition word_follow (rest : ustr) : bool := hd_ok (fun c => negb (is_word c) && negb (N.eqb c 40)) rest.

Lemma word_follow_boundary rest : word_follow rest = true -> at_boundary rest = true.
Proof.
  destruct rest as [|c r]; [reflexivity|]. unfold word_follow. cbn [hd_ok at_boundary]. intros H.
  apply andb_true_iff in H as [H _]. exact H.
Qed.

Lemma match_function_word c0 a rest :
  is_lower c0 = true -> forallb fn_rest a = true -> word_follow rest = true ->
  match_function (c0 :: a ++ rest) = None.
Proof.
  intros Hc Ha Hr. unfold match_function. rewrite Hc.
  assert (Hsp : span fn_rest (a ++ rest) = (a, rest)).
  { apply span_hd; [exact Ha|]. destruct rest as [|c r]; [reflexivity|].
    unfold word_follow in Hr. cbn [hd_ok] in *. apply andb_true_iff in Hr as [Hr _].
    apply negb_true_iff in Hr. destruct (fn_rest c) eqn:E; [|reflexivity].
    apply fn_rest_word in E. congruence. }
  rewrite Hsp. destruct a as [|x a]; [reflexivity|]. destruct rest as [|c r]; [reflexivity|].
  unfold word_follow in Hr. cbn [hd_ok] in Hr. apply andb_true_iff in Hr as [_ Hr].
  apply negb_true_iff in Hr. apply N.eqb_neq in Hr. bits c; try reflexivity. exfalso. apply Hr. reflexivity.
Qed.

Lemma alt_word_some w rest k :
  at_boundary rest = true -> alt_word (w ++ rest) k w = Some (LTok [mkTok k w] rest).
Proof.
  intros H. unfold alt_word, match_word. rewrite starts_with_app, skipn_app_exact, H. reflexivity.
Qed.

Lemma alt_cap_some k up lo tail c rest :
  N.eqb c up || N.eqb c lo = true -> at_boundary rest = true ->
  alt_cap (c :: tail ++ rest) k up lo tail = Some (LTok [mkTok k (c :: tail)] rest).
Proof.
  intros Hc H. unfold alt_cap, match_cap, match_word. rewrite Hc.
  rewrite starts_with_app, skipn_app_exact, H. reflexivity.
Qed.

Lemma alt_simple_2nd x1 x2 c y k : x2 <> c -> alt_simple (x1 :: c :: y) k [x1; x2] = None.
Proof.
  intros H. unfold alt_simple, match_lit. cbn [starts_with]. rewrite N.eqb_refl.
  replace (N.eqb x2 c) with false by (symmetry; apply N.eqb_neq; exact H). reflexivity.
Qed.

Lemma alt_fn_none_eq s : match_function s = None -> alt_fn s = None.
Proof. intros H. unfold alt_fn. rewrite H. reflexivity. Qed.

Section Steps.
  Variable E : env.
  Hypothesis HT : tokens_ok E = true.

  Ltac sc :=
    rewrite step1_cons; unfold alt_list; cbv zeta;
    try (rewrite (alt_env_nonsign _ HT) by reflexivity); lazy; reflexivity.

  Ltac word_step Hfn Hwin :=
    cbn [app] in Hfn, Hwin |- *; rewrite step1_cons; unfold alt_list; cbv zeta;
    rewrite (alt_env_nonsign _ HT) by reflexivity;
    unfold s_in, s_contains, s_undefined, s_il, s_rue, s_alse, Lex.w;
    rewrite (alt_fn_none_eq _ Hfn); rewrite Hwin; lazy; reflexivity.

  Lemma step_fixed k v rest :
    In (k, v) fixed_tokens -> fits (X k v) rest = true ->
    step1 E (v ++ rest) = LTok [mkTok k v] rest.
  Proof.
    intros Hin Hf. unfold fixed_tokens in Hin. cbn [In] in Hin.
    repeat (destruct Hin as [Hin|Hin]; [injection Hin as <- <-|]); try contradiction;
      unfold X, fits in Hf; cbn [tk is_ident_kind] in Hf; cbn [app].
    - sc.
    - sc.
    - sc.
    - sc.
    - sc.
    - sc.
    - sc.
    - sc.
    - (* ! *)
      destruct rest as [|c y]; [sc|]. cbn [hd_ok] in Hf. apply negb_true_iff in Hf. apply N.eqb_neq in Hf.
      rewrite step1_cons. unfold alt_list. cbv zeta. rewrite (alt_env_nonsign _ HT) by reflexivity.
      rewrite (alt_simple_2nd 33 61 c y TNe) by congruence. lazy. reflexivity.
    - sc.
    - sc.
    - sc.
    - sc.
    - sc.
    - (* < *)
      destruct rest as [|c y]; [sc|]. cbn [hd_ok] in Hf. apply andb_true_iff in Hf as [H1 H2].
      apply negb_true_iff in H1. apply negb_true_iff in H2. apply N.eqb_neq in H1. apply N.eqb_neq in H2.
      rewrite step1_cons. unfold alt_list. cbv zeta. rewrite (alt_env_nonsign _ HT) by reflexivity.
      rewrite (alt_simple_2nd 60 62 c y TLg) by congruence.
      rewrite (alt_simple_2nd 60 61 c y TLe) by congruence. lazy. reflexivity.
    - (* > *)
      destruct rest as [|c y]; [sc|]. cbn [hd_ok] in Hf. apply negb_true_iff in Hf. apply N.eqb_neq in Hf.
      rewrite step1_cons. unfold alt_list. cbv zeta. rewrite (alt_env_nonsign _ HT) by reflexivity.
      rewrite (alt_simple_2nd 62 61 c y TGe) by congruence. lazy. reflexivity.
    - sc.
    - sc.
    - sc.
    - (* in *)
      pose proof (match_function_word 105 [110]%N rest eq_refl eq_refl Hf) as Hfn.
      pose proof (alt_word_some [105; 110]%N rest TIn (word_follow_boundary rest Hf)) as Hwin.
      word_step Hfn Hwin.
    - (* contains *)
      pose proof (match_function_word 99 [111; 110; 116; 97; 105; 110; 115]%N rest eq_refl eq_refl Hf) as Hfn.
      pose proof (alt_word_some [99; 111; 110; 116; 97; 105; 110; 115]%N rest TContains
                    (word_follow_boundary rest Hf)) as Hwin.
      word_step Hfn Hwin.
    - (* nil *)
      pose proof (match_function_word 110 [105; 108]%N rest eq_refl eq_refl Hf) as Hfn.
      pose proof (alt_cap_some TNil 78 110 [105; 108]%N 110 rest eq_refl (word_follow_boundary rest Hf)) as Hwin.
      word_step Hfn Hwin.
    - (* undefined *)
      pose proof (match_function_word 117 [110; 100; 101; 102; 105; 110; 101; 100]%N rest eq_refl eq_refl Hf) as Hfn.
      pose proof (alt_word_some [117; 110; 100; 101; 102; 105; 110; 101; 100]%N rest TUndefined
                    (word_follow_boundary rest Hf)) as Hwin.
      word_step Hfn Hwin.
    - (* true *)
      pose proof (match_function_word 116 [114; 117; 101]%N rest eq_refl eq_refl Hf) as Hfn.
      pose proof (alt_cap_some TTrue 84 116 [114; 117; 101]%N 116 rest eq_refl (word_follow_boundary rest Hf)) as Hwin.
      word_step Hfn Hwin.
    - (* false *)
      pose proof (match_function_word 102 [97; 108; 115; 101]%N rest eq_refl eq_refl Hf) as Hfn.
      pose proof (alt_cap_some TFalse 70 102 [97; 108; 115; 101]%N 102 rest eq_refl (word_follow_boundary rest Hf)) as Hwin.
      word_step Hfn Hwin.
  Qed.
End Steps.

(* ---------------------------------------------------------------------- *)
(* shorthand names, the lone dot *)

Lemma dot_skip_some rest :
  hd_ok (fun c => negb (N.eqb c 46) && negb (key_first c)) rest = true ->
  alt_skip 46 rest = Some (LTok [] rest).
Proof.
  intros H. unfold alt_skip. change (N.eqb 46 32 || N.eqb 46 10 || N.eqb 46 9 || N.eqb 46 13) with false.
  change (N.eqb 46 46) with true. cbv iota.
  destruct rest as [|c r]; [reflexivity|]. cbn [hd_ok] in H. apply andb_true_iff in H as [H _].
  apply negb_true_iff in H. apply N.eqb_neq in H. bits c; try reflexivity. exfalso. apply H. reflexivity.
Qed.

(* the first character of a bare name *)
Lemma name_head_facts c :
  key_first c = true -> c <> 95%N -> is_udigit c = false -> py_isspace c = false ->
  (65 <= c)%N /\ c <> 91%N /\ c <> 93%N /\ c <> 124%N /\ sign_char c = false.
Proof.
  unfold key_first, is_ascii_alpha. intros H N95 _ _.
  assert (Hc : (128 <= c \/ (65 <= c <= 90) \/ (97 <= c <= 122))%N).
  { apply orb_true_iff in H as [H|H]; [apply orb_true_iff in H as [H|H]|].
    - apply N.leb_le in H. lia.
    - apply orb_true_iff in H as [H|H]; apply andb_true_iff in H as [H1 H2];
        apply N.leb_le in H1; apply N.leb_le in H2; lia.
    - apply N.eqb_eq in H. contradiction. }
  repeat split; try lia.
  destruct (sign_char c) eqn:E; [|reflexivity]. exfalso. apply sign_cases in E. lia.
Qed.

Lemma slice_text_app a w1 w2 b w3 w4 c rest :
  (a ++ w1 ++ 58%N :: w2 ++ b ++ w3 ++ 58%N :: w4 ++ c) ++ rest =
  a ++ w1 ++ 58%N :: w2 ++ b ++ w3 ++ 58%N :: w4 ++ c ++ rest.
Proof.
  rewrite <- !app_assoc. cbn [app]. rewrite <- !app_assoc. cbn [app]. rewrite <- !app_assoc. reflexivity.
Qed.

Section Steps2.
  Variable E : env.
  Hypothesis HT : tokens_ok E = true.

  Lemma step_regex_gen p fl rest :
    regex_ok p = true -> forallb is_flag fl = true -> hd_ok (fun c => negb (is_flag c)) rest = true ->
    step1 E ((47%N :: p ++ 47%N :: fl) ++ rest) = LTok [mkTok TRePattern p; mkTok TReFlags fl] rest.
  Proof.
    intros Hp Hf Hr. cbn [app]. rewrite <- app_assoc. cbn [app]. apply step_regex; [exact Hp|exact Hf|].
    destruct rest as [|c r]; [exact I|]. cbn [hd_ok] in Hr. apply negb_true_iff in Hr. exact Hr.
  Qed.

  Lemma hd_nud rest : hd_ok (fun c => negb (is_udigit c)) rest = true -> nud rest.
  Proof. destruct rest as [|c r]; [intros _; exact I|]. cbn [hd_ok nud]. apply negb_true_iff. Qed.

  Lemma dec_text_shape t : dec_text t -> dec_shape t.
  Proof. intros [z ->]. apply str_of_Z_shape. Qed.

  Lemma opt_dec_text_shape t : opt_dec_text t -> opt_dec t.
  Proof. intros [->|H]; [left; reflexivity|right; apply dec_text_shape; exact H]. Qed.

  Lemma step_slice_gen a w1 w2 b w3 w4 c rest :
    lexeme_ok E (XSlice a w1 w2 b w3 w4 c) -> nud rest ->
    step1 E (lex_text (XSlice a w1 w2 b w3 w4 c) ++ rest) = LTok (lex_toks (XSlice a w1 w2 b w3 w4 c)) rest.
  Proof.
    intros [Ha [Hb [Hc [H1 [H2 [H3 [H4 Haw]]]]]]] Hr.
    apply opt_dec_text_shape in Ha. apply opt_dec_text_shape in Hb. apply dec_text_shape in Hc.
    cbn [lex_text lex_toks].
    rewrite slice_text_app.
    pose proof (match_slice_blanks a w1 w2 b w3 w4 c rest Ha Hb Hc H1 H2 H3 H4 Hr) as Hsl.
    assert (Hh : exists x s', a ++ w1 ++ 58%N :: w2 ++ b ++ w3 ++ 58%N :: w4 ++ c ++ rest = x :: s' /\
                              x <> 34%N /\ x <> 39%N /\ x <> 47%N).
    { destruct Ha as [-> | [sg [ds [-> [Hsg [Hne Hd]]]]]].
      - rewrite (Haw eq_refl). cbn [app]. eexists; eexists. split; [reflexivity|]. repeat split; discriminate.
      - rewrite <- app_assoc.
        destruct (num_text_head sg ds (w1 ++ 58%N :: w2 ++ b ++ w3 ++ 58%N :: w4 ++ c ++ rest) Hsg Hne Hd)
          as [x [s' [Hs Hx]]].
        exists x, s'. split; [exact Hs|]. destruct (num_head_facts x Hx) as [N34 [N39 [N47 _]]]. auto. }
    destruct Hh as [x [s' [Hs [N34 [N39 N47]]]]].
    rewrite Hs in *. rewrite step1_cons. unfold alt_list. cbv zeta.
    rewrite (alt_dq_none x s' N34), first_some_none.
    rewrite (alt_sq_none x s' N39), first_some_none.
    rewrite (alt_re_none x s' N47), first_some_none.
    unfold alt_slice. rewrite Hsl. rewrite first_some_some. reflexivity.
  Qed.

  (* blanks, then a slice whose start is omitted: one match *)
  Lemma step_slice_lead x w0 w2 b w3 w4 c rest :
    is_blank x = true -> blanks w0 = true ->
    lexeme_ok E (XSlice [] [] w2 b w3 w4 c) -> nud rest ->
    step1 E ((x :: w0) ++ lex_text (XSlice [] [] w2 b w3 w4 c) ++ rest) =
    LTok (lex_toks (XSlice [] [] w2 b w3 w4 c)) rest.
  Proof.
    intros Hx H0 [_ [Hb [Hc [_ [H2 [H3 [H4 _]]]]]]] Hr.
    apply opt_dec_text_shape in Hb. apply dec_text_shape in Hc.
    cbn [lex_text lex_toks]. rewrite slice_text_app. cbn [app].
    pose proof (match_slice_lead x w0 w2 b w3 w4 c rest Hx H0 Hb Hc H2 H3 H4 Hr) as Hsl.
    assert (Hxf : x <> 34%N /\ x <> 39%N /\ x <> 47%N).
    { apply blank_cases in Hx. repeat (destruct Hx as [Hx|Hx]; [subst x; repeat split; discriminate|]).
      subst x; repeat split; discriminate. }
    destruct Hxf as [N34 [N39 N47]].
    rewrite step1_cons. unfold alt_list. cbv zeta.
    rewrite (alt_dq_none x _ N34), first_some_none.
    rewrite (alt_sq_none x _ N39), first_some_none.
    rewrite (alt_re_none x _ N47), first_some_none.
    unfold alt_slice. rewrite Hsl. rewrite first_some_some. reflexivity.
  Qed.

  Lemma step_prop k rest :
    key_name k = true -> hd_ok (fun c => negb (key_rest c)) rest = true ->
    step1 E ((46%N :: k) ++ rest) = LTok [mkTok TProperty k] rest.
  Proof.
    intros Hk Hr. cbn [app]. rewrite step1_cons. unfold alt_list. cbv zeta.
    rewrite (alt_dq_none 46%N _ ltac:(discriminate)), first_some_none.
    rewrite (alt_sq_none 46%N _ ltac:(discriminate)), first_some_none.
    rewrite (alt_re_none 46%N _ ltac:(discriminate)), first_some_none.
    rewrite (alt_slice_none _ (match_slice_other 46%N _ ltac:(discriminate) eq_refl eq_refl ltac:(discriminate))),
      first_some_none.
    rewrite (alt_fn_none 46%N _ eq_refl), first_some_none.
    unfold alt_dotprop. rewrite N.eqb_refl. rewrite (match_key_name k rest Hk Hr).
    rewrite first_some_some. reflexivity.
  Qed.

  Lemma step_dot rest :
    hd_ok (fun c => negb (N.eqb c 46) && negb (key_first c)) rest = true ->
    step1 E (46%N :: rest) = LTok [] rest.
  Proof.
    intros Hr.
    assert (Hk : match_key rest = None).
    { apply match_key_none. destruct rest as [|c r]; [reflexivity|]. cbn [hd_ok] in *.
      apply andb_true_iff in Hr as [_ Hr]. exact Hr. }
    assert (Hdd : alt_simple (46%N :: rest) TDDot [46; 46]%N = None).
    { destruct rest as [|c r]; [reflexivity|]. cbn [hd_ok] in Hr. apply andb_true_iff in Hr as [Hr _].
      apply negb_true_iff in Hr. apply N.eqb_neq in Hr. apply alt_simple_2nd. congruence. }
    rewrite step1_cons. unfold alt_list. cbv zeta.
    rewrite (alt_env_nonsign _ HT) by reflexivity.
    unfold alt_dotprop. rewrite Hk. rewrite Hdd. rewrite (dot_skip_some rest Hr).
    lazy. reflexivity.
  Qed.
End Steps2.

(* ---------------------------------------------------------------------- *)
(* a bare name *)

Lemma fn_span_no_paren k' rest :
  forallb is_word k' = true ->
  hd_ok (fun c => negb (key_rest c) && negb (N.eqb c 40)) rest = true ->
  forall a r, span fn_rest (k' ++ rest) = (a, r) -> forall r', r <> 40%N :: r'.
Proof.
  intros Hk Hr. induction k' as [|x k' IH]; intros a r Hs r'.
  - destruct rest as [|c t]; [cbn in Hs; injection Hs as <- <-; discriminate|].
    cbn [hd_ok] in Hr. apply andb_true_iff in Hr as [H1 H2]. apply negb_true_iff in H1.
    apply negb_true_iff in H2. apply N.eqb_neq in H2.
    cbn [app span] in Hs. destruct (fn_rest c) eqn:Ef.
    + exfalso. unfold key_rest, key_first in H1. unfold fn_rest, is_lower in Ef.
      apply orb_false_iff in H1 as [H1 H1c]. apply orb_false_iff in H1 as [H1a H1b].
      apply orb_false_iff in H1a as [H1a H1d]. apply orb_false_iff in H1a as [_ Halpha].
      unfold is_ascii_alpha in Halpha. apply orb_false_iff in Halpha as [_ Hl].
      apply orb_true_iff in Ef as [Ef|Ef]; [apply orb_true_iff in Ef as [Ef|Ef]|]; congruence.
    + injection Hs as <- <-. congruence.
  - cbn [forallb] in Hk. apply andb_true_iff in Hk as [Hx Hk].
    cbn [app span] in Hs. destruct (fn_rest x) eqn:Ef.
    + destruct (span fn_rest (k' ++ rest)) as [a0 r0] eqn:E0. injection Hs as <- <-.
      apply (IH Hk a0 r0 eq_refl).
    + injection Hs as <- <-. intros H. injection H as -> _. discriminate Hx.
Qed.

Lemma match_function_name c k' rest :
  forallb is_word k' = true ->
  hd_ok (fun x => negb (key_rest x) && negb (N.eqb x 40)) rest = true ->
  match_function (c :: k' ++ rest) = None.
Proof.
  intros Hk Hr. unfold match_function. destruct (is_lower c); [|reflexivity].
  destruct (span fn_rest (k' ++ rest)) as [a r] eqn:Es.
  pose proof (fn_span_no_paren k' rest Hk Hr a r Es) as Hnp.
  destruct a as [|x a]; [reflexivity|]. destruct r as [|y r']; [reflexivity|].
  bits y; try reflexivity. exfalso. apply (Hnp r'). reflexivity.
Qed.

Lemma alt_word_none_eq s k w : match_word w s = None -> alt_word s k w = None.
Proof. intros H. unfold alt_word. rewrite H. reflexivity. Qed.

Lemma alt_cap_none_eq s k up lo tail : match_cap up lo tail s = None -> alt_cap s k up lo tail = None.
Proof. intros H. unfold alt_cap. rewrite H. reflexivity. Qed.

Lemma reserved_ne k w : existsb (ustr_eqb k) reserved_words = false -> In w reserved_words -> k <> w.
Proof.
  intros H Hin ->. assert (Hex : existsb (ustr_eqb w) reserved_words = true).
  { apply existsb_exists. exists w. split; [exact Hin|apply ustr_eqb_refl]. }
  congruence.
Qed.

Ltac in_reserved := unfold reserved_words; cbn [In]; repeat (try (left; reflexivity); right).

Section StepBare.
  Variable E : env.
  Hypothesis HT : tokens_ok E = true.

  Lemma step_bare k rest :
    bare_name k = true -> hd_ok (fun c => negb (key_rest c) && negb (N.eqb c 40)) rest = true ->
    step1 E (k ++ rest) = LTok [mkTok TBare k] rest.
  Proof.
    intros Hb Hr. unfold bare_name in Hb. destruct k as [|c k']; [discriminate|].
    apply andb_true_iff in Hb as [Hb Hres]. apply andb_true_iff in Hb as [Hb Hsp].
    apply andb_true_iff in Hb as [Hb Hud]. apply andb_true_iff in Hb as [Hb N95].
    apply andb_true_iff in Hb as [Hkey Hword].
    apply negb_true_iff in Hres. apply negb_true_iff in Hsp. apply negb_true_iff in Hud.
    apply negb_true_iff in N95. apply N.eqb_neq in N95.
    assert (Hkf : key_first c = true).
    { unfold key_name in Hkey. apply andb_true_iff in Hkey as [H _]. exact H. }
    destruct (name_head_facts c Hkf N95 Hud Hsp) as [H65 [N91 [N93 [N124 Hns]]]].
    assert (Hr' : hd_ok (fun x => negb (key_rest x)) rest = true).
    { destruct rest as [|x r]; [reflexivity|]. cbn [hd_ok] in *. apply andb_true_iff in Hr as [H _]. exact H. }
    pose proof Hword as Hw'. cbn [forallb] in Hw'. apply andb_true_iff in Hw' as [Hcw Hk'].
    pose proof (match_key_name (c :: k') rest Hkey Hr') as Hmk.
    pose proof (match_function_name c k' rest Hk' Hr) as Hfn.
    (* keywords *)
    assert (Hw : forall w, In w reserved_words -> forallb key_rest w = true -> w <> [] ->
                           match_word w ((c :: k') ++ rest) = None).
    { intros w Hin Hkr Hne. apply word_none; try assumption. apply (reserved_ne _ w Hres Hin). }
    assert (Hc : forall up lo tail, In (up :: tail) reserved_words -> In (lo :: tail) reserved_words ->
                                    forallb key_rest tail = true -> tail <> [] ->
                                    match_cap up lo tail (c :: k' ++ rest) = None).
    { intros up lo tail H1 H2 Hkr Hne. apply cap_none; try assumption.
      - apply (reserved_ne _ _ Hres H1).
      - apply (reserved_ne _ _ Hres H2). }
    cbn [app] in *. rewrite step1_cons. unfold alt_list. cbv zeta.
    unfold s_and, s_or, s_in, s_not, s_rue, s_alse, s_il, s_ull, s_one, s_contains, s_undefined, s_missing, Lex.w.
    rewrite (alt_dq_none c _ ltac:(lia)), first_some_none.
    rewrite (alt_sq_none c _ ltac:(lia)), first_some_none.
    rewrite (alt_re_none c _ ltac:(lia)), first_some_none.
    rewrite (alt_slice_none _ (match_slice_other c _ ltac:(lia) Hud Hsp ltac:(lia))), first_some_none.
    rewrite (alt_fn_none_eq _ Hfn), first_some_none.
    rewrite (alt_dotprop_none c _ ltac:(lia)), first_some_none.
    rewrite (alt_float_none _ (match_float_other c _ ltac:(lia) Hud)), first_some_none.
    rewrite (alt_int_none _ (match_int_other c _ ltac:(lia) Hud)), first_some_none.
    rewrite (alt_simple_none _ TDDot _ (match_lit_head_ne [46; 46]%N c _ ltac:(cbn; lia))), first_some_none.
    rewrite (alt_simple_none _ TAnd _ (match_lit_head_ne [38; 38]%N c _ ltac:(cbn; lia))), first_some_none.
    rewrite (alt_word_none_eq _ TAnd _ (Hw [97; 110; 100]%N ltac:(in_reserved) eq_refl ltac:(discriminate))), first_some_none.
    rewrite (alt_simple_none _ TOr _ (match_lit_head_ne [124; 124]%N c _ ltac:(cbn; lia))), first_some_none.
    rewrite (alt_word_none_eq _ TOr _ (Hw [111; 114]%N ltac:(in_reserved) eq_refl ltac:(discriminate))), first_some_none.
    rewrite (alt_env_nonsign _ HT c _ Hns), first_some_none.
    rewrite (alt_simple_none _ TWild _ (match_lit_head_ne [42]%N c _ ltac:(cbn; lia))), first_some_none.
    rewrite (alt_simple_none _ TFilter _ (match_lit_head_ne [63]%N c _ ltac:(cbn; lia))), first_some_none.
    rewrite (alt_word_none_eq _ TIn _ (Hw [105; 110]%N ltac:(in_reserved) eq_refl ltac:(discriminate))), first_some_none.
    rewrite (alt_cap_none_eq _ TTrue _ _ _ (Hc 84 116 [114; 117; 101] ltac:(in_reserved) ltac:(in_reserved) eq_refl ltac:(discriminate))%N), first_some_none.
    rewrite (alt_cap_none_eq _ TFalse _ _ _ (Hc 70 102 [97; 108; 115; 101] ltac:(in_reserved) ltac:(in_reserved) eq_refl ltac:(discriminate))%N), first_some_none.
    rewrite (alt_cap_none_eq _ TNil _ _ _ (Hc 78 110 [105; 108] ltac:(in_reserved) ltac:(in_reserved) eq_refl ltac:(discriminate))%N), first_some_none.
    rewrite (alt_cap_none_eq _ TNil _ _ _ (Hc 78 110 [117; 108; 108] ltac:(in_reserved) ltac:(in_reserved) eq_refl ltac:(discriminate))%N), first_some_none.
    rewrite (alt_cap_none_eq _ TNil _ _ _ (Hc 78 110 [111; 110; 101] ltac:(in_reserved) ltac:(in_reserved) eq_refl ltac:(discriminate))%N), first_some_none.
    rewrite (alt_word_none_eq _ TContains _ (Hw [99; 111; 110; 116; 97; 105; 110; 115]%N ltac:(in_reserved) eq_refl ltac:(discriminate))), first_some_none.
    rewrite (alt_word_none_eq _ TUndefined _ (Hw [117; 110; 100; 101; 102; 105; 110; 101; 100]%N ltac:(in_reserved) eq_refl ltac:(discriminate))), first_some_none.
    rewrite (alt_word_none_eq _ TMissing _ (Hw [109; 105; 115; 115; 105; 110; 103]%N ltac:(in_reserved) eq_refl ltac:(discriminate))), first_some_none.
    rewrite (alt_simple_none _ TLBracket _ (match_lit_head_ne [91]%N c _ ltac:(cbn; lia))), first_some_none.
    rewrite (alt_simple_none _ TRBracket _ (match_lit_head_ne [93]%N c _ ltac:(cbn; lia))), first_some_none.
    rewrite (alt_simple_none _ TComma _ (match_lit_head_ne [44]%N c _ ltac:(cbn; lia))), first_some_none.
    rewrite (alt_simple_none _ TEq _ (match_lit_head_ne [61; 61]%N c _ ltac:(cbn; lia))), first_some_none.
    rewrite (alt_simple_none _ TNe _ (match_lit_head_ne [33; 61]%N c _ ltac:(cbn; lia))), first_some_none.
    rewrite (alt_simple_none _ TLg _ (match_lit_head_ne [60; 62]%N c _ ltac:(cbn; lia))), first_some_none.
    rewrite (alt_simple_none _ TLe _ (match_lit_head_ne [60; 61]%N c _ ltac:(cbn; lia))), first_some_none.
    rewrite (alt_simple_none _ TGe _ (match_lit_head_ne [62; 61]%N c _ ltac:(cbn; lia))), first_some_none.
    rewrite (alt_simple_none _ TRe _ (match_lit_head_ne [61; 126]%N c _ ltac:(cbn; lia))), first_some_none.
    rewrite (alt_simple_none _ TLt _ (match_lit_head_ne [60]%N c _ ltac:(cbn; lia))), first_some_none.
    rewrite (alt_simple_none _ TGt _ (match_lit_head_ne [62]%N c _ ltac:(cbn; lia))), first_some_none.
    rewrite (alt_word_none_eq _ TNot _ (Hw [110; 111; 116]%N ltac:(in_reserved) eq_refl ltac:(discriminate))), first_some_none.
    rewrite (alt_simple_none _ TNot _ (match_lit_head_ne [33]%N c _ ltac:(cbn; lia))), first_some_none.
    unfold alt_bare. rewrite Hmk. rewrite first_some_some. reflexivity.
  Qed.
End StepBare.

(* ---------------------------------------------------------------------- *)
(* one lexeme, one chain *)

From JP Require Import PrintLexProofs.

Lemma num_head_plain c : num_head c -> py_isspace c = false /\ c <> 58%N.
Proof.
  intros [H| ->]; [|split; [reflexivity|discriminate]].
  split; [apply isspace_digit; exact H|]. apply digit_bounds in H. lia.
Qed.

Section Chain.
  Variable E : env.
  Hypothesis HT : tokens_ok E = true.

  Lemma ident_tokens_base : ident_tokens E = env_base E.
  Proof. reflexivity. Qed.

  Lemma lex_text_head l :
    lexeme_ok E l ->
    exists c y, lex_text l = c :: y /\ py_isspace c = false /\
                (c = 58%N -> exists w2 b w3 w4 cc, l = XSlice [] [] w2 b w3 w4 cc).
  Proof.
    intros Hok. destruct l as [t|dq body|p fl|a w1 w2 b w3 w4 c|name wp|k|k|]; cbn [lexeme_ok lex_text] in *.
    - destruct Hok as [Hin|[Hin|[[_ Hd]|[_ [n Hn]]]]].
      + destruct t as [k v]. cbn [tk tv] in *. unfold fixed_tokens in Hin. cbn [In] in Hin.
        repeat (destruct Hin as [Hin|Hin]; [injection Hin as <- <-; eexists; eexists; split; [reflexivity|split; [reflexivity|discriminate]]|]).
        contradiction.
      + rewrite ident_tokens_base in Hin. destruct (tokens_ok_base E HT) as [Hsp _].
        pose proof (Hsp _ _ Hin) as Hs. pose proof (spelling_signs _ Hs) as Hsg.
        destruct (tv t) as [|c y]; [discriminate Hs|]. cbn [forallb] in Hsg. apply andb_true_iff in Hsg as [Hc _].
        destruct (sign_facts c Hc) as [_ [_ [_ [_ [N58 [_ [_ [_ [_ [_ [_ Hns]]]]]]]]]]].
        exists c, y. split; [reflexivity|]. split; [exact Hns|]. intros ->. contradiction.
      + destruct Hd as [z Hz]. destruct (str_of_Z_shape z) as [sg [ds [Es [Hsg [Hne Hdd]]]]].
        destruct (num_text_head sg ds [] Hsg Hne Hdd) as [c [y [Hs Hc]]]. rewrite app_nil_r in Hs.
        rewrite Hz, Es, Hs. destruct (num_head_plain c Hc) as [H1 H2].
        exists c, y. split; [reflexivity|]. split; [exact H1|]. intros ->. contradiction.
      + destruct (float_text_head (tv t) [] (float_repr_shape n _ Hn)) as [c [y [Hs Hc]]].
        rewrite app_nil_r in Hs. rewrite Hs. destruct (num_head_plain c Hc) as [H1 H2].
        exists c, y. split; [reflexivity|]. split; [exact H1|]. intros ->. contradiction.
    - destruct dq; eexists; eexists; (split; [reflexivity|split; [reflexivity|discriminate]]).
    - eexists; eexists; (split; [reflexivity|split; [reflexivity|discriminate]]).
    - destruct Hok as [Ha [_ [_ [_ [_ [_ [_ Haw]]]]]]]. destruct Ha as [-> | [z Hz]].
      + rewrite (Haw eq_refl). cbn [app]. eexists; eexists. split; [reflexivity|]. split; [reflexivity|].
        intros _. do 5 eexists. reflexivity.
      + destruct (str_of_Z_shape z) as [sg [ds [Es [Hsg [Hne Hdd]]]]].
        destruct (num_text_head sg ds (w1 ++ 58%N :: w2 ++ b ++ w3 ++ 58%N :: w4 ++ c) Hsg Hne Hdd)
          as [x [y [Hs Hx]]].
        rewrite Hz, Es. rewrite <- app_assoc. rewrite Hs. destruct (num_head_plain x Hx) as [H1 H2].
        exists x, y. split; [reflexivity|]. split; [exact H1|]. intros ->. contradiction.
    - destruct Hok as [Hn _]. unfold fname_ok in Hn. destruct name as [|c [|x a]]; try discriminate.
      apply andb_true_iff in Hn as [Hc _]. destruct (lower_facts c Hc) as [_ [_ [_ [_ [N58 [_ Hsp]]]]]].
      exists c, ((x :: a) ++ 40%N :: wp). split; [reflexivity|]. split; [exact Hsp|]. intros ->. contradiction.
    - eexists; eexists; (split; [reflexivity|split; [reflexivity|discriminate]]).
    - unfold bare_name in Hok. destruct k as [|c k']; [discriminate|].
      apply andb_true_iff in Hok as [Hb _]. apply andb_true_iff in Hb as [Hb Hsp].
      apply andb_true_iff in Hb as [Hb Hud]. apply andb_true_iff in Hb as [Hb N95].
      apply andb_true_iff in Hb as [Hkey _].
      apply negb_true_iff in Hsp. apply negb_true_iff in Hud. apply negb_true_iff in N95. apply N.eqb_neq in N95.
      assert (Hkf : key_first c = true) by (unfold key_name in Hkey; apply andb_true_iff in Hkey as [H _]; exact H).
      destruct (name_head_facts c Hkf N95 Hud Hsp) as [H65 _].
      exists c, k'. split; [reflexivity|]. split; [exact Hsp|]. intros ->. lia.
    - eexists; eexists; (split; [reflexivity|split; [reflexivity|discriminate]]).
  Qed.

  Lemma hd_nonsign rest : hd_ok (fun c => negb (sign_char c)) rest = true -> nonsign_head rest.
  Proof. destruct rest as [|c r]; [intros _; exact I|]. cbn [hd_ok nonsign_head]. apply negb_true_iff. Qed.

  Lemma lex_step l rest :
    lexeme_ok E l -> fits l rest = true -> step1 E (lex_text l ++ rest) = LTok (lex_toks l) rest.
  Proof.
    intros Hok Hf. destruct l as [t|dq body|p fl|a w1 w2 b w3 w4 c|name wp|k|k|].
    - cbn [lexeme_ok lex_text lex_toks] in *. destruct t as [k v]. cbn [tk tv] in *.
      destruct Hok as [Hin|[Hin|[[-> Hd]|[-> [n Hn]]]]].
      + apply step_fixed; assumption.
      + rewrite ident_tokens_base in Hin. apply step_ident; [exact HT|exact Hin|].
        apply hd_nonsign. unfold fits in Hf. cbn [tk] in Hf.
        unfold env_base in Hin. cbn [In] in Hin.
        repeat (destruct Hin as [Hin|Hin]; [injection Hin as <- _; exact Hf|]). contradiction.
      + unfold fits in Hf. cbn [tk] in Hf.
        destruct (int_fits rest Hf) as [H1 [H2 [H3 [H4 H5]]]].
        apply step_int_gen; try assumption. apply dec_text_shape. exact Hd.
      + unfold fits in Hf. cbn [tk] in Hf. destruct (float_fits rest Hf) as [H1 H2].
        apply step_float_gen; try assumption. apply (float_repr_shape n). exact Hn.
    - apply step_quoted. exact Hok.
    - cbn [lexeme_ok lex_text lex_toks fits] in *. destruct Hok as [Hp Hfl].
      apply step_regex_gen; assumption.
    - apply step_slice_gen; [exact Hok|]. apply hd_nud. exact Hf.
    - cbn [lexeme_ok lex_text lex_toks fits] in *. destruct Hok as [Hn Hw].
      apply step_function_gen; assumption.
    - cbn [lexeme_ok lex_text lex_toks fits] in *. apply step_prop; assumption.
    - cbn [lexeme_ok lex_text lex_toks fits] in *. apply step_bare; assumption.
    - cbn [lex_text lex_toks fits app] in *. apply step_dot; assumption.
  Qed.

  Lemma lex_item w l rest :
    blanks w = true -> lexeme_ok E l -> fits l rest = true ->
    tokenize E (w ++ lex_text l ++ rest) = lex_toks l ++ tokenize E rest.
  Proof.
    intros Hw Hok Hf. destruct (lex_text_head l Hok) as [c [y [Hh [Hsp H58]]]].
    assert (Hne : lex_text l <> []) by (rewrite Hh; discriminate).
    assert (Hplain : tokenize E (lex_text l ++ rest) = lex_toks l ++ tokenize E rest).
    { apply tok_pre; [exact Hne|]. apply lex_step; assumption. }
    destruct w as [|x w']; [exact Hplain|].
    destruct (N.eq_dec c 58) as [Ec|Ec].
    - destruct (H58 Ec) as [w2 [b [w3 [w4 [cc ->]]]]].
      cbn [blanks forallb] in Hw. apply andb_true_iff in Hw as [Hx Hw'].
      rewrite app_assoc. apply tok_pre.
      + discriminate.
      + rewrite <- app_assoc. apply step_slice_lead; try assumption. apply hd_nud. exact Hf.
    - rewrite blank_skip; [exact Hplain|exact HT|exact Hw|].
      rewrite Hh. cbn [app plain_head]. split; assumption.
  Qed.

  Theorem lex_chain items wf :
    chain_ok E items wf -> tokenize E (render items wf) = chain_toks items.
  Proof.
    induction items as [|[w l] r IH]; intros H.
    - cbn [render chain_toks flat_map]. apply blanks_end; assumption.
    - cbn [chain_ok] in H. destruct H as [Hw [Hok [Hf Hr]]].
      cbn [render chain_toks flat_map snd]. rewrite (lex_item w l _ Hw Hok Hf). rewrite (IH Hr). reflexivity.
  Qed.
End Chain.

(* Stage 1: the scanner reads a free spelling as the tokens it denotes *)
Theorem lex_free :
  forall (E : env) (q : query) (t : ustr) (ts : list token),
    tokens_ok E = true -> spells_as E q t ts -> tokenize E t = ts.
Proof.
  intros E q t ts HT [qs [ts0 [items [wf [_ [_ [_ [Hc [-> ->]]]]]]]]]. apply lex_chain; assumption.
Qed.

(* ---------------------------------------------------------------------- *)
(* Stages 2 and 3 for the spellings that denote the canonical tokens: blanks between lexemes,
   blanks around the colons of a slice and after the parenthesis of a function call, lone dots *)

From JP Require Import NormDomain PrintParseProofs RoundTrip NormProofs Eval.

Theorem free_spelling_same_tokens :
  forall (E : env) re_ok (q : query) (t : ustr) (ts : list token),
    tokens_ok E = true -> e_well_typed E = true -> e_unicode_escape E = true ->
    c10_domain E re_ok q = true ->
    spells_as E q t ts -> query_toks E q = Ok ts ->
    compile E re_ok t = Ok (norm_query q).
Proof.
  intros E ro q t ts HT WT UE HD Hs Hts.
  destruct (c10_domain_parts _ _ _ HD) as [Hg [Hp [Hr _]]].
  unfold compile. rewrite (lex_free E q t ts HT Hs). apply parse_print; assumption.
Qed.

Corollary free_spelling_same_tokens_results :
  forall (E : env) re_ok rf rs (q : query) (t : ustr) (ts : list token) (d ctx : json),
    tokens_ok E = true -> e_well_typed E = true -> e_unicode_escape E = true ->
    c10_domain E re_ok q = true ->
    spells_as E q t ts -> query_toks E q = Ok ts ->
    exists q', compile E re_ok t = Ok q' /\
               compound_finditer E rf rs q' d ctx = compound_finditer E rf rs q d ctx.
Proof.
  intros E ro rf rs q t ts d ctx HT WT UE HD Hs Hts. exists (norm_query q). split.
  - apply (free_spelling_same_tokens E ro q t ts); assumption.
  - apply norm_equiv.
Qed.

