(* ParseEqns.v — the local loops of the parser model (model/Parse.v) as top-level fixpoints, and
   the defining equations of the fuel-recursive mutual fixpoint at fuel [S f], each by
   computation (so the copies below are checked to be the model's own code). *)
From Coq Require Import ZArith List Bool.
From JP Require Import Base Json PyStr PyJsonStr Syntax Lex Parse.
Import ListNotations.

Section Loops.
  Variable E : env.
  Variable re_ok : ustr -> option bool.
  Notation parse_path := (Parse.parse_path E re_ok).
  Notation parse_selector_list := (Parse.parse_selector_list E re_ok).
  Notation parse_filter := (Parse.parse_filter E re_ok).
  Notation parse_filter_selector := (Parse.parse_filter_selector E re_ok).
  Notation parse_infix := (Parse.parse_infix E re_ok).
  Notation parse_primary := (Parse.parse_primary E re_ok).

  (* one item of a bracketed selection *)
  Definition sel_item (f : nat) (st : stream) : result (selector * stream) :=
    match tk (s_cur st) with
    | TInt =>
        let v := tv (s_cur st) in
        if (Nat.ltb 1 (length v) && starts_with_ch 48 v) || starts_with [45; 48]%N v then syntax_error
        else if has_exponent v then syntax_error
        else z <- int_of_text v ;;
             if index_in_range E z then Ok (SIndex z, st) else Err (EJsonPath KIndex)
    | TBare => Ok (SName (tv (s_cur st)), st)
    | TKeys => Ok (SKeys, st)
    | TDQ | TSQ =>
        if existsb (fun c => N.ltb c 32) (tv (s_cur st)) then syntax_error
        else s <- decode_string E (s_cur st) ;; Ok (SName s, st)
    | TSliceStart => parse_slice E st
    | TWild => Ok (SWild, st)
    | TFilter => match f with
                 | O => Err EOutOfFuel
                 | S _ => r <- parse_filter f st ;; Ok (SFilter (fst r), snd r)
                 end
    | _ => syntax_error
    end.

  Definition items_loop (f : nat) : nat -> stream -> list selector -> result (list selector * stream) :=
    fix items (g : nat) (st : stream) (acc : list selector) {struct g}
    : result (list selector * stream) :=
    match g with
    | O => Err EOutOfFuel
    | S g' =>
        if is_kind TRBracket (s_cur st) then
          (match acc with [] => syntax_error | _ => Ok (rev acc, st) end)
        else
          it <- sel_item f st ;;
          let '(sel, st1) := it in
          pk <- peek st1 ;;
          let '(nxt, st2) := pk in
          if is_kind TEof nxt then syntax_error
          else
            st3 <- (if is_kind TRBracket nxt then Ok st2
                    else if is_kind TComma nxt then
                      r <- next_token st2 ;;
                      pk2 <- peek (snd r) ;;
                      if is_kind TRBracket (fst pk2) then syntax_error else Ok (snd pk2)
                    else syntax_error) ;;
            r4 <- next_token st3 ;;
            items g' (snd r4) (sel :: acc)
    end.

  Definition fs_loop (f prec : nat) : nat -> fexpr -> stream -> result (fexpr * stream) :=
    fix loop (g : nat) (lhs : fexpr) (st : stream) {struct g} : result (fexpr * stream) :=
    match g with
    | O => Err EOutOfFuel
    | S g' =>
        pk <- peek st ;;
        let '(nxt, st1) := pk in
        if is_kind TEof nxt || is_kind TRBracket nxt || Nat.ltb (precedence_of (tk nxt)) prec then Ok (lhs, st1)
        else match binop_of_kind (tk nxt) with
             | None => Ok (lhs, st1)
             | Some _ =>
                 r <- next_token st1 ;;
                 r2 <- parse_infix f (snd r) lhs ;;
                 loop g' (fst r2) (snd r2)
             end
    end.

  Definition grp_loop (f : nat) : nat -> fexpr -> stream -> result (fexpr * stream) :=
    fix grp (g : nat) (e : fexpr) (st : stream) {struct g} : result (fexpr * stream) :=
    match g with
    | O => Err EOutOfFuel
    | S g' =>
        if is_kind TRParen (s_cur st) then Ok (e, st)
        else if is_kind TEof (s_cur st) then syntax_error
        else match binop_of_kind (tk (s_cur st)) with
             | None => syntax_error
             | Some _ => r2 <- parse_infix f st e ;; grp g' (fst r2) (snd r2)
             end
    end.

  (* one argument of a function call: the primary expression *)
  Definition arg_primary (f : nat) (st : stream) : result (fexpr * stream) :=
    match tk (s_cur st) with
    | TDQ | TSQ | TFakeRoot | TRoot | TSelf | TFilterCtx | TFalse | TTrue | TFloat | TInt
    | TKey | TNil | TFunction => parse_primary f st
    | _ => syntax_error
    end.

  Definition finish_call (name : ustr) (acc : list fexpr) (st : stream) : result (fexpr * stream) :=
    if e_well_typed E then
      _ <- validate_function name (rev acc) ;;
      Ok (FFunc name (fexprs_of (rev acc)), st)
    else match fn_sig name with
         | None => Err (EJsonPath KName)
         | Some _ => Err EUnsupported
         end.

  Definition after_arg (pk : token * stream) : result stream :=
    if is_kind TRParen (fst pk) then Ok (snd pk)
    else if is_kind TComma (fst pk) then r <- next_token (snd pk) ;; Ok (snd r)
    else syntax_error.

  Definition args_loop (f : nat) (name : ustr) : nat -> stream -> list fexpr -> result (fexpr * stream) :=
    fix args (g : nat) (st : stream) (acc : list fexpr) {struct g} : result (fexpr * stream) :=
    match g with
    | O => Err EOutOfFuel
    | S g' =>
        if is_kind TRParen (s_cur st) then finish_call name acc st
        else
          a <- arg_primary f st ;;
          (fix ops (h : nat) (e : fexpr) (st : stream) {struct h} : result (fexpr * stream) :=
             match h with
             | O => Err EOutOfFuel
             | S h' =>
                 pk <- peek st ;;
                 match binop_of_kind (tk (fst pk)) with
                 | Some _ =>
                     r <- next_token (snd pk) ;;
                     r2 <- parse_infix f (snd r) e ;;
                     ops h' (fst r2) (snd r2)
                 | None =>
                     st2 <- after_arg pk ;;
                     r3 <- next_token st2 ;;
                     args g' (snd r3) (e :: acc)
                 end
             end) f (fst a) (snd a)
    end.

  Definition continue_with (f : nat) (in_filter : bool) (acc : list segment) (g : segment) (st' : stream) :=
    r <- next_token st' ;; parse_path f in_filter (snd r) (g :: acc).

  Definition sub_path (f : nat) (st : stream) (mk : segs -> fexpr) : result (fexpr * stream) :=
    r0 <- next_token st ;;
    r <- parse_path f true (snd r0) [] ;;
    Ok (mk (segs_of (fst r)), snd r).

  Definition regex_primary (st : stream) : result (fexpr * stream) :=
    pk <- peek st ;;
    let '(nxt, st1) := pk in
    r <- (if is_kind TReFlags nxt then r' <- next_token st1 ;; Ok (flags_of (tv nxt), snd r')
          else Ok (flags_of [], st1)) ;;
    match re_ok (tv (s_cur st)) with
    | None => Err EUnsupported
    | Some false => syntax_error
    | Some true => Ok (FRegex (tv (s_cur st)) (fst r), snd r)
    end.

  (* ---- equations of the loops ---- *)

  Lemma items_loop_O f st acc : items_loop f O st acc = Err EOutOfFuel.
  Proof. reflexivity. Qed.
  Lemma items_loop_S f g' st acc :
    items_loop f (S g') st acc =
    if is_kind TRBracket (s_cur st) then
      (match acc with [] => syntax_error | _ => Ok (rev acc, st) end)
    else
      it <- sel_item f st ;;
      let '(sel, st1) := it in
      pk <- peek st1 ;;
      let '(nxt, st2) := pk in
      if is_kind TEof nxt then syntax_error
      else
        st3 <- (if is_kind TRBracket nxt then Ok st2
                else if is_kind TComma nxt then
                  r <- next_token st2 ;;
                  pk2 <- peek (snd r) ;;
                  if is_kind TRBracket (fst pk2) then syntax_error else Ok (snd pk2)
                else syntax_error) ;;
        r4 <- next_token st3 ;;
        items_loop f g' (snd r4) (sel :: acc).
  Proof. reflexivity. Qed.

  Lemma fs_loop_O f prec lhs st : fs_loop f prec O lhs st = Err EOutOfFuel.
  Proof. reflexivity. Qed.
  Lemma fs_loop_S f prec g' lhs st :
    fs_loop f prec (S g') lhs st =
    (pk <- peek st ;;
     let '(nxt, st1) := pk in
     if is_kind TEof nxt || is_kind TRBracket nxt || Nat.ltb (precedence_of (tk nxt)) prec then Ok (lhs, st1)
     else match binop_of_kind (tk nxt) with
          | None => Ok (lhs, st1)
          | Some _ =>
              r <- next_token st1 ;;
              r2 <- parse_infix f (snd r) lhs ;;
              fs_loop f prec g' (fst r2) (snd r2)
          end).
  Proof. reflexivity. Qed.

  Lemma grp_loop_O f e st : grp_loop f O e st = Err EOutOfFuel.
  Proof. reflexivity. Qed.
  Lemma grp_loop_S f g' e st :
    grp_loop f (S g') e st =
    if is_kind TRParen (s_cur st) then Ok (e, st)
    else if is_kind TEof (s_cur st) then syntax_error
    else match binop_of_kind (tk (s_cur st)) with
         | None => syntax_error
         | Some _ => r2 <- parse_infix f st e ;; grp_loop f g' (fst r2) (snd r2)
         end.
  Proof. reflexivity. Qed.

  (* the operator loop after one argument, inside the argument loop at fuel [S g'] *)
  Definition ops_loop (f : nat) (name : ustr) (g' : nat) (acc : list fexpr)
    : nat -> fexpr -> stream -> result (fexpr * stream) :=
    fix ops (h : nat) (e : fexpr) (st : stream) {struct h} : result (fexpr * stream) :=
      match h with
      | O => Err EOutOfFuel
      | S h' =>
          pk <- peek st ;;
          match binop_of_kind (tk (fst pk)) with
          | Some _ =>
              r <- next_token (snd pk) ;;
              r2 <- parse_infix f (snd r) e ;;
              ops h' (fst r2) (snd r2)
          | None =>
              st2 <- after_arg pk ;;
              r3 <- next_token st2 ;;
              args_loop f name g' (snd r3) (e :: acc)
          end
      end.

  Lemma args_loop_O f name st acc : args_loop f name O st acc = Err EOutOfFuel.
  Proof. reflexivity. Qed.
  Lemma args_loop_S f name g' st acc :
    args_loop f name (S g') st acc =
    if is_kind TRParen (s_cur st) then finish_call name acc st
    else a <- arg_primary f st ;; ops_loop f name g' acc f (fst a) (snd a).
  Proof. reflexivity. Qed.

  Lemma ops_loop_O f name g' acc e st : ops_loop f name g' acc O e st = Err EOutOfFuel.
  Proof. reflexivity. Qed.
  Lemma ops_loop_S f name g' acc h' e st :
    ops_loop f name g' acc (S h') e st =
    (pk <- peek st ;;
     match binop_of_kind (tk (fst pk)) with
     | Some _ =>
         r <- next_token (snd pk) ;;
         r2 <- parse_infix f (snd r) e ;;
         ops_loop f name g' acc h' (fst r2) (snd r2)
     | None =>
         st2 <- after_arg pk ;;
         r3 <- next_token st2 ;;
         args_loop f name g' (snd r3) (e :: acc)
     end).
  Proof. reflexivity. Qed.

  Lemma parse_list_items_S f st acc :
    parse_list_items E (S f) st acc =
    if is_kind TRBracket (s_cur st) then Ok (rev acc, st)
    else
      item <- (match tk (s_cur st) with
               | TFalse => Ok (FBool false)
               | TTrue => Ok (FBool true)
               | TFloat => parse_float_literal (tv (s_cur st))
               | TInt => parse_int_literal (tv (s_cur st))
               | TNil => Ok FNil
               | TDQ | TSQ => s <- decode_string E (s_cur st) ;; Ok (FStr s)
               | _ => syntax_error
               end) ;;
      pk <- peek st ;;
      let '(nxt, st1) := pk in
      st2 <- (if is_kind TRBracket nxt then Ok st1
              else if is_kind TComma nxt then r <- next_token st1 ;; Ok (snd r)
              else syntax_error) ;;
      r3 <- next_token st2 ;;
      parse_list_items E f (snd r3) (item :: acc).
  Proof. reflexivity. Qed.

  (* ---- equations ---- *)

  Lemma parse_path_O in_filter st acc : parse_path O in_filter st acc = Err EOutOfFuel.
  Proof. reflexivity. Qed.
  Lemma parse_path_S f in_filter st acc :
    parse_path (S f) in_filter st acc =
    match tk (s_cur st) with
    | TProperty | TBare => continue_with f in_filter acc (GSel (SName (tv (s_cur st)))) st
    | TSliceStart => r <- parse_slice E st ;; continue_with f in_filter acc (GSel (fst r)) (snd r)
    | TWild => continue_with f in_filter acc (GSel SWild) st
    | TKeys => continue_with f in_filter acc (GSel SKeys) st
    | TDDot => continue_with f in_filter acc GDescent st
    | TLBracket => r <- parse_selector_list f st ;;
                   continue_with f in_filter acc (GList (sels_of (fst r))) (snd r)
    | _ => Ok (rev acc, if in_filter then push st (s_cur st) else st)
    end.
  Proof. reflexivity. Qed.

  Lemma parse_selector_list_O st : parse_selector_list O st = Err EOutOfFuel.
  Proof. reflexivity. Qed.
  Lemma parse_selector_list_S f st :
    parse_selector_list (S f) st = (r0 <- next_token st ;; items_loop f f (snd r0) []).
  Proof. reflexivity. Qed.

  Lemma parse_filter_O st : parse_filter O st = Err EOutOfFuel.
  Proof. reflexivity. Qed.
  Lemma parse_filter_S f st :
    parse_filter (S f) st =
    (r0 <- next_token st ;;
     r <- parse_filter_selector f (snd r0) 1 ;;
     _ <- check_uncompared (fst r) ;;
     Ok r).
  Proof. reflexivity. Qed.

  Lemma parse_filter_selector_O st prec : parse_filter_selector O st prec = Err EOutOfFuel.
  Proof. reflexivity. Qed.
  Lemma parse_filter_selector_S f st prec :
    parse_filter_selector (S f) st prec =
    (l <- parse_primary f st ;; fs_loop f prec f (fst l) (snd l)).
  Proof. reflexivity. Qed.

  Lemma parse_infix_O st lhs : parse_infix O st lhs = Err EOutOfFuel.
  Proof. reflexivity. Qed.
  Lemma parse_infix_S f st lhs :
    parse_infix (S f) st lhs =
    (r0 <- next_token st ;;
     let '(optok, st1) := r0 in
     match binop_of_kind (tk optok) with
     | None => Err (EBuiltin BKeyError)
     | Some o =>
         r <- parse_filter_selector f st1 (precedence_of (tk optok)) ;;
         let '(rhs, st2) := r in
         _ <- (if e_well_typed E && is_comparison_op o
               then (_ <- check_comparable lhs ;; check_comparable rhs) else Ok tt) ;;
         _ <- (if is_logical_op o then (_ <- check_uncompared lhs ;; check_uncompared rhs) else Ok tt) ;;
         Ok (FInfix lhs o rhs, st2)
     end).
  Proof. reflexivity. Qed.

  Lemma parse_primary_O st : parse_primary O st = Err EOutOfFuel.
  Proof. reflexivity. Qed.
  Lemma parse_primary_S f st :
    parse_primary (S f) st =
    match tk (s_cur st) with
    | TDQ | TSQ => s <- decode_string E (s_cur st) ;; Ok (FStr s, st)
    | TFakeRoot => sub_path f st (FRoot true)
    | TRoot => sub_path f st (FRoot false)
    | TSelf => sub_path f st FSelf
    | TFilterCtx => sub_path f st FCtx
    | TFalse => Ok (FBool false, st)
    | TTrue => Ok (FBool true, st)
    | TFloat => e <- parse_float_literal (tv (s_cur st)) ;; Ok (e, st)
    | TInt => e <- parse_int_literal (tv (s_cur st)) ;; Ok (e, st)
    | TKey => Ok (FKey, st)
    | TMissing | TUndefined => Ok (FUndefined, st)
    | TNil => Ok (FNil, st)
    | TLBracket =>
        r0 <- next_token st ;;
        r <- parse_list_items E f (snd r0) [] ;;
        Ok (FList (fexprs_of (fst r)), snd r)
    | TNot =>
        r0 <- next_token st ;;
        r <- parse_filter_selector f (snd r0) 7 ;;
        _ <- check_uncompared (fst r) ;;
        Ok (FNot (fst r), snd r)
    | TLParen =>
        r0 <- next_token st ;;
        r <- parse_filter_selector f (snd r0) 1 ;;
        r1 <- next_token (snd r) ;;
        grp_loop f f (fst r) (snd r1)
    | TRePattern => regex_primary st
    | TFunction =>
        r0 <- next_token st ;;
        args_loop f (tv (s_cur st)) f (snd r0) []
    | _ => syntax_error
    end.
  Proof. reflexivity. Qed.
End Loops.

(* what float() can answer in the model *)
Lemma mk_float_cases neg ds zexp :
  mk_float neg ds zexp = Err EUnsupported \/ exists n, mk_float neg ds zexp = Ok (FFloat n).
Proof.
  unfold mk_float. destruct (Z.leb 0 zexp); [right; eauto|].
  destruct (pow10 (Z.to_nat (- zexp))); [left; reflexivity|right; eauto|left; reflexivity].
Qed.

Lemma parse_float_literal_cases s :
  parse_float_literal s = Err EUnsupported \/ parse_float_literal s = syntax_error \/
  exists n, parse_float_literal s = Ok (FFloat n).
Proof.
  unfold parse_float_literal. destruct (split_number s) as [[[[neg ip] fp] ex]|]; [|left; reflexivity].
  destruct (sig_digits (ip ++ fp)) as [ds tz]. destruct ds as [|d ds']; [destruct neg; [left; reflexivity|right; right; eauto]|].
  cbv zeta. destruct (Z.leb 310 _); [right; left; reflexivity|].
  destruct (_ || _); [left; reflexivity|].
  destruct (mk_float_cases neg (d :: ds') (Z.of_nat tz + ex - Z.of_nat (length fp))) as [->|[n ->]];
    [left; reflexivity|right; right; eauto].
Qed.

(* what the exponent branch of int(float(text)) can answer in the model *)
Lemma parse_int_literal_cases s :
  parse_int_literal s = (z <- int_of_text s ;; Ok (FInt z)) \/
  parse_int_literal s = Err EUnsupported \/ parse_int_literal s = syntax_error \/
  exists z, parse_int_literal s = Ok (FInt z).
Proof.
  unfold parse_int_literal. destruct (negb (has_exponent s)); [left; reflexivity|right].
  destruct (split_number s) as [[[[neg ip] fp] ex]|]; [|left; reflexivity].
  destruct (Z.eqb (dec_value ip) 0); [right; right; eauto|].
  destruct (Z.leb 400 ex); [right; left; reflexivity|].
  destruct (_ || _); [left; reflexivity|]. cbv zeta.
  match goal with |- context [if ?c then _ else _] => destruct c end; [left; reflexivity|right; right; eauto].
Qed.
