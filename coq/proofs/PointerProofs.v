(* PointerProofs.v — the JSON Pointer model (model/Pointer.v) against RFC 6901
   (spec/Rfc6901.v): proofs of the statements of props/C04.v and props/C14.v. *)
From JP Require Import Base Json PyStr Pointer Rfc6901 PointerDomain PyStrLemmas.

(* ---------------------------------------------------------------------- *)
(* generic list / result helpers *)

Lemma map_result_Forall2 {A B} (f : A -> result B) l :
  forall ys, map_result f l = Ok ys -> Forall2 (fun a y => f a = Ok y) l ys.
Proof.
  induction l as [|a l IH]; intros ys H.
  - simpl in H. injection H as <-. constructor.
  - cbn [map_result] in H. destruct (f a) as [y|e] eqn:Ea; cbn [bind] in H; [|discriminate].
    destruct (map_result f l) as [ys'|e] eqn:El; cbn [bind] in H; [|discriminate].
    injection H as <-. constructor; [assumption|]. apply IH. reflexivity.
Qed.

Lemma map_result_ok {A B} (f : A -> result B) l :
  Forall (fun a => exists y, f a = Ok y) l -> exists ys, map_result f l = Ok ys.
Proof.
  induction l as [|a l IH]; intros H.
  - exists []. reflexivity.
  - inversion H as [|? ? [y Hy] Hl]; subst. destruct (IH Hl) as [ys Hys].
    exists (y :: ys). cbn [map_result]. rewrite Hy. cbn [bind]. rewrite Hys. reflexivity.
Qed.

Lemma map_result_ext_in {A B} (f g : A -> result B) l :
  (forall a, In a l -> f a = g a) -> map_result f l = map_result g l.
Proof.
  induction l as [|a l IH]; intros H; [reflexivity|].
  cbn [map_result]. rewrite (H a) by (left; reflexivity).
  rewrite IH; [reflexivity|]. intros b Hb. apply H. right. assumption.
Qed.

Lemma map_result_map {A B C} (f : B -> result C) (g : A -> B) l :
  map_result f (map g l) = map_result (fun a => f (g a)) l.
Proof.
  induction l as [|a l IH]; [reflexivity|].
  cbn [map map_result]. rewrite IH. reflexivity.
Qed.

Lemma firstn_length_app {A} (l1 l2 : list A) n : n = length l1 -> firstn n (l1 ++ l2) = l1.
Proof.
  intros ->. induction l1 as [|x l1 IH]; simpl.
  - destruct l2; reflexivity.
  - rewrite IH. reflexivity.
Qed.

(* ---------------------------------------------------------------------- *)
(* _index *)

Lemma index_of_text_ok u : token_within_limits u = true -> exists x, index_of_text u = Ok x.
Proof.
  unfold token_within_limits, int_like_token, index_of_text. intros H.
  destruct (Nat.ltb 1 (length u) && starts_with_ch ch_0 u); [eexists; reflexivity|].
  destruct (re_index_match u); cbn [negb]; cbv iota; [|eexists; reflexivity].
  apply Z.leb_le in H. unfold spec_max_index in H.
  replace (Z.ltb (int_of_index_text u) min_int_index || Z.ltb max_int_index (int_of_index_text u))
    with false.
  - eexists; reflexivity.
  - symmetry. apply orb_false_iff. unfold min_int_index, max_int_index.
    split; apply Z.ltb_ge; lia.
Qed.

Lemma index_of_text_cases u x :
  index_of_text u = Ok x ->
  (x = PStr u /\ canonical_nonneg u = false) \/
  (exists z, x = PInt z /\ re_index_match u = true /\ z = int_of_index_text u /\ str_of_Z z = u).
Proof.
  unfold index_of_text. intros H.
  destruct (Nat.ltb 1 (length u) && starts_with_ch ch_0 u) eqn:E1.
  - injection H as <-. left. split; [reflexivity|].
    destruct (canonical_nonneg u) eqn:Ec; [|reflexivity].
    apply canonical_no_leading_zero in Ec. congruence.
  - destruct (re_index_match u) eqn:E2; cbn [negb] in H; cbv iota in H.
    + destruct (Z.ltb (int_of_index_text u) min_int_index || Z.ltb max_int_index (int_of_index_text u));
        [discriminate|].
      injection H as <-. right. exists (int_of_index_text u).
      split; [reflexivity|]. split; [reflexivity|]. split; [reflexivity|].
      apply str_of_Z_int_of_index_text. assumption.
    + injection H as <-. left. split; [reflexivity|].
      destruct (canonical_nonneg u) eqn:Ec; [|reflexivity].
      apply canonical_re_index in Ec. congruence.
Qed.

Lemma part_text_index u x : index_of_text u = Ok x -> part_text x = u.
Proof.
  intros H. apply index_of_text_cases in H as [[-> _]|[z [-> [_ [_ Hs]]]]]; [reflexivity|exact Hs].
Qed.

Definition indexes (us : list ustr) (p : pointer) : Prop :=
  Forall2 (fun u x => index_of_text u = Ok x) us p.

Lemma indexes_tokens us p : indexes us p -> tokens p = us.
Proof.
  intros H. induction H as [|u x us p Hx _ IH]; [reflexivity|].
  unfold tokens in *. cbn [map]. rewrite IH. rewrite (part_text_index u x Hx). reflexivity.
Qed.

(* ---------------------------------------------------------------------- *)
(* _parse *)

Lemma parse_pre mode s :
  (mode = false \/ no_backslash s = true) ->
  parse mode s =
  match lstrip s with
  | c :: _ => if negb (N.eqb c ch_slash) then Err (EPointer KPtrSyntax)
              else map_result (fun t => index_of_text (decode_token t))
                              (tl (split_on ch_slash (lstrip s)))
  | [] => Ok []
  end.
Proof.
  intros H. unfold parse.
  assert (E : (if mode then unicode_escape s else Ok s) = Ok s).
  { destruct mode; [|reflexivity]. destruct H as [H|H]; [discriminate|].
    unfold unicode_escape. unfold no_backslash in H. rewrite H. reflexivity. }
  rewrite E. reflexivity.
Qed.

Lemma parse_slash mode s' :
  (mode = false \/ no_backslash (ch_slash :: s') = true) ->
  parse mode (ch_slash :: s') =
  map_result (fun t => index_of_text (decode_token t)) (split_on ch_slash s').
Proof.
  intros H. rewrite parse_pre by assumption.
  rewrite (lstrip_nonspace ch_slash s' isspace_slash).
  rewrite N.eqb_refl. cbn [negb]. cbv iota.
  rewrite split_on_cons_eq. reflexivity.
Qed.

Lemma parse_nil mode : parse mode [] = Ok [].
Proof. rewrite parse_pre; [reflexivity|]. right. reflexivity. Qed.

Lemma syntax_cases s :
  rfc6901_syntax s = true -> s = [] \/ exists s', s = ch_slash :: s' /\ tilde_ok s' = true.
Proof.
  intros H. destruct s as [|c s']; [left; reflexivity|right].
  unfold rfc6901_syntax in H. apply andb_true_iff in H as [H1 H2].
  apply N.eqb_eq in H1. subst c. exists s'. split; [reflexivity|].
  rewrite tilde_ok_cons_ne in H2 by reflexivity. assumption.
Qed.

Lemma rfc_tokens_slash s' : rfc_tokens (ch_slash :: s') = map unescape (split_on ch_slash s').
Proof. unfold rfc_tokens. rewrite split_on_cons_eq. reflexivity. Qed.

Lemma parse_ok mode s :
  rfc6901_syntax s = true -> (mode = false \/ no_backslash s = true) ->
  tokens_within_limits (rfc_tokens s) = true ->
  exists p, parse mode s = Ok p /\ indexes (rfc_tokens s) p /\ encode p = s.
Proof.
  intros Hsyn Hmode Hlim.
  apply syntax_cases in Hsyn as [->|[s' [-> Hok]]].
  - exists []. split; [apply parse_nil|]. split; [constructor|reflexivity].
  - rewrite parse_slash by assumption. rewrite rfc_tokens_slash in *.
    pose proof (split_on_pieces_tilde_ok s' Hok) as Htil.
    pose proof (split_on_pieces_nosep ch_slash s') as Hnos.
    pose proof (split_on_nonempty ch_slash s') as Hne.
    pose proof (join_split ch_slash s') as Hjoin.
    remember (split_on ch_slash s') as pieces eqn:Hpieces. clear Hpieces.
    rewrite Forall_forall in Htil, Hnos.
    assert (E : map_result (fun t => index_of_text (decode_token t)) pieces =
                map_result index_of_text (map unescape pieces)).
    { rewrite map_result_map. apply map_result_ext_in. intros t Ht.
      rewrite decode_token_unescape by (apply Htil; assumption). reflexivity. }
    rewrite E.
    destruct (map_result_ok index_of_text (map unescape pieces)) as [p Hp].
    { apply Forall_forall. intros u Hu. apply index_of_text_ok.
      unfold tokens_within_limits in Hlim. rewrite forallb_forall in Hlim. apply Hlim. assumption. }
    exists p. split; [assumption|].
    pose proof (map_result_Forall2 _ _ _ Hp) as HF.
    split; [exact HF|].
    pose proof (indexes_tokens _ _ HF) as Htok. unfold tokens in Htok.
    destruct p as [|x p].
    + destruct pieces; [contradiction|]. inversion HF.
    + unfold encode. f_equal. rewrite <- Hjoin. f_equal.
      rewrite <- (map_map part_text encode_token). rewrite Htok.
      rewrite map_map. rewrite <- (map_id pieces) at 2. apply map_ext_in.
      intros t Ht. rewrite encode_token_escape. apply escape_unescape.
      * apply Htil; assumption.
      * apply Hnos; assumption.
Qed.

(* ---------------------------------------------------------------------- *)
(* _getitem against the RFC step *)

Lemma outside_ext_parts u :
  token_outside_extensions u = true ->
  starts_with_ch ch_hash u = false /\ starts_with_ch ch_tilde u = false /\
  (re_index_match u && starts_with_ch ch_minus u = false).
Proof.
  unfold token_outside_extensions, int_like_token. intros H.
  apply andb_true_iff in H as [H _]. apply andb_true_iff in H as [H H3].
  apply andb_true_iff in H as [H1 H2].
  apply negb_true_iff in H1. apply negb_true_iff in H2. apply negb_true_iff in H3.
  auto.
Qed.

Lemma py_list_index_nonneg {A} (l : list A) z :
  (0 <= z)%Z ->
  py_list_index l z =
  if Z.ltb z (Z.of_nat (length l))
  then match nth_opt l (Z.to_nat z) with Some x => Some (Z.to_nat z, x) | None => None end
  else None.
Proof.
  intros Hz. unfold py_list_index. cbv zeta.
  assert (E : Z.ltb z 0 = false) by (apply Z.ltb_ge; lia).
  rewrite !E. cbn [orb].
  destruct (Z.ltb_spec z (Z.of_nat (length l))) as [Hin|Hout];
    destruct (Z.leb_spec (Z.of_nat (length l)) z) as [Hle|Hgt]; try lia; reflexivity.
Qed.

Lemma getitem_step l v u x :
  index_of_text u = Ok x ->
  match rfc_step v u with
  | Some (p, c) => getitem (RNode l v) x = Ok (RNode (l ++ [p]) c)
  | None => token_outside_extensions u = true ->
            exists e, getitem (RNode l v) x = Err e /\ is_resolution_error e = true
  end.
Proof.
  intros Hx. pose proof (index_of_text_cases u x Hx) as Hc.
  destruct v as [| b | n | s | items | members];
    try (cbn; intros _; eexists; split; reflexivity).
  - (* array *)
    destruct Hc as [[-> Hcan]|[z [-> [Hre [Hz Hstr]]]]].
    + unfold rfc_step, array_index. rewrite Hcan. cbv iota.
      intros Hout. apply outside_ext_parts in Hout as [Hh _].
      unfold getitem. cbn [rv_json].
      destruct (ustr_eqb u [ch_minus]); [eexists; split; reflexivity|].
      rewrite Hh. rewrite Hx. cbn [bind]. eexists; split; reflexivity.
    + destruct (re_index_cases u Hre) as [[Hcan Hint]|[r [Hu [Hcan [Hpos Hint]]]]].
      * unfold rfc_step, array_index. rewrite Hcan. cbv iota.
        rewrite Hint in Hz. subst z.
        pose proof (dec_value_nonneg u (canon_digits u Hcan)) as Hnn.
        unfold getitem. cbn [rv_json]. rewrite py_list_index_nonneg by assumption.
        destruct (Z.ltb (dec_value u) (Z.of_nat (length items))).
        -- destruct (nth_opt items (Z.to_nat (dec_value u))) as [c|].
           ++ reflexivity.
           ++ intros _. eexists; split; reflexivity.
        -- intros _. eexists; split; reflexivity.
      * assert (Hcan' : canonical_nonneg u = false).
        { destruct (canonical_nonneg u) eqn:Ec; [|reflexivity].
          apply canonical_not_minus in Ec. rewrite Hu in Ec. cbn [starts_with_ch] in Ec.
          rewrite N.eqb_refl in Ec. discriminate. }
        unfold rfc_step, array_index. rewrite Hcan'. cbv iota.
        intros Hout. apply outside_ext_parts in Hout as [_ [_ Hm]].
        rewrite Hre in Hm. rewrite Hu in Hm. cbn [starts_with_ch andb] in Hm.
        rewrite N.eqb_refl in Hm. discriminate.
  - (* object *)
    destruct Hc as [[-> Hcan]|[z [-> [Hre [Hz Hstr]]]]].
    + unfold rfc_step. unfold getitem. cbn [rv_json].
      destruct (lookup u members) as [c|] eqn:El.
      * reflexivity.
      * intros Hout. apply outside_ext_parts in Hout as [Hh [Ht _]].
        destruct u as [|c rest]; [eexists; split; reflexivity|].
        cbn [starts_with_ch] in Hh, Ht. rewrite Hh, Ht. cbn [orb andb].
        eexists; split; reflexivity.
    + unfold rfc_step. unfold getitem. cbn [rv_json]. rewrite Hstr.
      destruct (lookup u members) as [c|] eqn:El.
      * reflexivity.
      * intros _. eexists; split; reflexivity.
Qed.

Lemma eval_agree us p :
  indexes us p ->
  forall l v,
  match rfc_eval_from l v us with
  | Some (l', v') => reduce_getitem (RNode l v) p = Ok (RNode l' v')
  | None => outside_extensions us = true ->
            exists e, reduce_getitem (RNode l v) p = Err e /\ is_resolution_error e = true
  end.
Proof.
  intros H. induction H as [|u x us p Hx _ IH]; intros l v.
  - reflexivity.
  - cbn [rfc_eval_from reduce_getitem].
    pose proof (getitem_step l v u x Hx) as Hstep.
    destruct (rfc_step v u) as [[pt c]|].
    + rewrite Hstep. cbn [bind]. specialize (IH (l ++ [pt]) c).
      destruct (rfc_eval_from (l ++ [pt]) c us) as [[l' v']|].
      * exact IH.
      * intros Hout. apply IH. unfold outside_extensions in *. cbn [forallb] in Hout.
        apply andb_true_iff in Hout as [_ Hout]. exact Hout.
    + intros Hout. unfold outside_extensions in Hout. cbn [forallb] in Hout.
      apply andb_true_iff in Hout as [Hu _].
      destruct (Hstep Hu) as [e [He Hres]]. exists e. rewrite He. split; [reflexivity|assumption].
Qed.

(* ---------------------------------------------------------------------- *)
(* C04 *)

Theorem agree :
  forall (mode : bool) (s : ustr) (d : json),
    rfc6901_syntax s = true -> (mode = false \/ no_backslash s = true) ->
    tokens_within_limits (rfc_tokens s) = true ->
    exists p, Pointer.parse mode s = Ok p /\
      match rfc_eval (rfc_tokens s) d with
      | Some (l, v) => resolve p d = Ok (RNode l v)
      | None => outside_extensions (rfc_tokens s) = true ->
                exists e, resolve p d = Err e /\ is_resolution_error e = true
      end.
Proof.
  intros mode s d Hsyn Hmode Hlim.
  destruct (parse_ok mode s Hsyn Hmode Hlim) as [p [Hp [HF _]]].
  exists p. split; [assumption|]. unfold rfc_eval, resolve. apply eval_agree. assumption.
Qed.

Lemma nth_opt_lt {A} (l : list A) i c : nth_opt l i = Some c -> (i < length l)%nat.
Proof.
  intros H. rewrite nth_opt_nth_error in H. apply nth_error_Some. congruence.
Qed.

Lemma rfc_step_of_step d p c : step d p = Some c -> rfc_step d (part_token p) = Some (p, c).
Proof.
  intros H. destruct p as [k|i]; destruct d; cbn [step] in H; try discriminate.
  - cbn [rfc_step part_token]. rewrite H. reflexivity.
  - pose proof (nth_opt_lt _ _ _ H) as Hlt.
    unfold rfc_step, array_index, part_token.
    rewrite canonical_str_of_Z by lia. rewrite dec_value_str_of_Z by lia.
    replace (Z.ltb (Z.of_nat i) (Z.of_nat (length l))) with true by (symmetry; apply Z.ltb_lt; lia).
    rewrite Nat2Z.id. rewrite H. reflexivity.
Qed.

Lemma rfc_eval_node_at l :
  forall l0 d v, node_at d l = Some v -> rfc_eval_from l0 d (map part_token l) = Some (l0 ++ l, v).
Proof.
  induction l as [|p l IH]; intros l0 d v H.
  - cbn in H. injection H as <-. rewrite app_nil_r. reflexivity.
  - cbn [node_at] in H. destruct (step d p) as [c|] eqn:Es; [|discriminate].
    cbn [map rfc_eval_from]. rewrite (rfc_step_of_step d p c Es).
    rewrite (IH _ _ _ H). rewrite <- app_assoc. reflexivity.
Qed.

Theorem reach :
  forall (mode : bool) (d : json) (l : loc) (v : json),
    node_at d l = Some v ->
    (mode = false \/ no_backslash (spell_loc l) = true) ->
    tokens_within_limits (map part_token l) = true ->
    exists p, Pointer.parse mode (spell_loc l) = Ok p /\ resolve p d = Ok (RNode l v).
Proof.
  intros mode d l v Hn Hm Hlim. unfold spell_loc in *.
  pose proof (agree mode (rfc_spell (map part_token l)) d (rfc_syntax_spell _) Hm) as H.
  rewrite rfc_tokens_spell in H. destruct (H Hlim) as [p [Hp Hmatch]].
  exists p. split; [assumption|].
  unfold rfc_eval in Hmatch. rewrite (rfc_eval_node_at l [] d v Hn) in Hmatch. exact Hmatch.
Qed.

Theorem default_on_error :
  forall (p : pointer) (d dflt : json) (e : exn),
    resolve p d = Err e -> is_resolution_error e = true ->
    resolve_default p d dflt = Ok (RVal dflt).
Proof.
  intros p d dflt e H He. unfold resolve_default. rewrite H, He. reflexivity.
Qed.

Theorem exists_spec :
  forall (p : pointer) (d : json),
    (exists_ p d = Ok true <-> exists r, resolve p d = Ok r) /\
    (exists_ p d = Ok false <-> exists e, resolve p d = Err e /\ is_resolution_error e = true).
Proof.
  intros p d. unfold exists_. destruct (resolve p d) as [r|e].
  - split; split.
    + intros _. exists r. reflexivity.
    + reflexivity.
    + discriminate.
    + intros [e [He _]]. discriminate.
  - destruct (is_resolution_error e) eqn:E; split; split.
    + discriminate.
    + intros [r Hr]. discriminate.
    + intros _. exists e. split; [reflexivity|assumption].
    + reflexivity.
    + discriminate.
    + intros [r Hr]. discriminate.
    + discriminate.
    + intros [e' [He' Hres]]. injection He' as <-. congruence.
Qed.

(* ---------------------------------------------------------------------- *)
(* C14 *)

Theorem print_parse :
  forall (mode : bool) (s : ustr),
    rfc6901_syntax s = true -> (mode = false \/ no_backslash s = true) ->
    tokens_within_limits (rfc_tokens s) = true ->
    exists p, Pointer.parse mode s = Ok p /\ encode p = s /\ tokens p = rfc_tokens s.
Proof.
  intros mode s Hsyn Hmode Hlim.
  destruct (parse_ok mode s Hsyn Hmode Hlim) as [p [Hp [HF Henc]]].
  exists p. split; [assumption|]. split; [assumption|]. apply indexes_tokens. assumption.
Qed.

Lemma tokens_eqb_spec a b : tokens_eqb a b = true <-> a = b.
Proof.
  revert b. induction a as [|x a IH]; intros [|y b]; simpl; split; try congruence; auto.
  - intros H. apply andb_true_iff in H as [H1 H2]. apply ustr_eqb_spec in H1.
    apply IH in H2. congruence.
  - intros H. injection H as -> ->. rewrite ustr_eqb_refl. simpl. apply IH. reflexivity.
Qed.

Theorem ptr_eqb_spec :
  forall (p1 p2 : pointer), ptr_eqb p1 p2 = true <-> tokens p1 = tokens p2.
Proof. intros p1 p2. unfold ptr_eqb. apply tokens_eqb_spec. Qed.

Theorem encode_spell :
  forall (p : pointer), encode p = rfc_spell (tokens p).
Proof.
  intros [|x p]; [reflexivity|].
  unfold tokens. cbn [map]. rewrite rfc_spell_join. unfold encode. f_equal. f_equal.
  change (part_text x :: map part_text p) with (map part_text (x :: p)).
  rewrite map_map. apply map_ext. intros y. apply encode_token_escape.
Qed.

Lemma from_parts_ok mode parts :
  (mode = false \/ forallb no_backslash (tokens parts) = true) ->
  from_parts mode parts = Ok (map (fun p => PStr (part_text p)) parts).
Proof.
  unfold from_parts. induction parts as [|x parts IH]; intros H; [reflexivity|].
  cbn [map_result map].
  assert (E : (if mode then unicode_escape (part_text x) else Ok (part_text x)) = Ok (part_text x)).
  { destruct mode; [|reflexivity]. destruct H as [H|H]; [discriminate|].
    unfold tokens in H. cbn [map forallb] in H. apply andb_true_iff in H as [H _].
    unfold unicode_escape. unfold no_backslash in H. rewrite H. reflexivity. }
  rewrite E. cbn [bind]. rewrite IH.
  - reflexivity.
  - destruct H as [H|H]; [left; assumption|right].
    unfold tokens in *. cbn [map forallb] in H. apply andb_true_iff in H as [_ H]. exact H.
Qed.

Theorem from_parts_spec :
  forall (mode : bool) (parts : pointer),
    (mode = false \/ forallb no_backslash (tokens parts) = true) ->
    exists q, from_parts mode parts = Ok q /\ tokens q = tokens parts /\
              encode q = rfc_spell (tokens parts).
Proof.
  intros mode parts H. eexists. split; [apply from_parts_ok; assumption|].
  assert (E : tokens (map (fun p => PStr (part_text p)) parts) = tokens parts).
  { unfold tokens. rewrite map_map. reflexivity. }
  split; [exact E|]. rewrite encode_spell. rewrite E. reflexivity.
Qed.

Theorem spell_parse :
  forall (mode : bool) (ts : list ustr),
    (mode = false \/ forallb no_backslash ts = true) ->
    tokens_within_limits ts = true ->
    exists p, Pointer.parse mode (rfc_spell ts) = Ok p /\ tokens p = ts.
Proof.
  intros mode ts Hm Hlim.
  assert (Hm' : mode = false \/ no_backslash (rfc_spell ts) = true).
  { destruct Hm as [Hm|Hm]; [left; assumption|right].
    unfold no_backslash. rewrite no_backslash_spell; [reflexivity|exact Hm]. }
  pose proof (print_parse mode (rfc_spell ts) (rfc_syntax_spell ts) Hm') as H.
  rewrite rfc_tokens_spell in H. destruct (H Hlim) as [p [Hp [_ Htok]]].
  exists p. split; assumption.
Qed.

Lemma reduce_getitem_app cur p q :
  reduce_getitem cur (p ++ q) = (c <- reduce_getitem cur p ;; reduce_getitem c q).
Proof.
  revert cur. induction p as [|k p IH]; intros cur; [reflexivity|].
  cbn [app reduce_getitem]. destruct (getitem cur k) as [c|e]; cbn [bind]; [apply IH|reflexivity].
Qed.

Lemma tokens_eqb_refl a : tokens_eqb a a = true.
Proof. apply tokens_eqb_spec. reflexivity. Qed.

Theorem join_spec :
  forall (p : pointer) (t : ustr) (d : json),
    tilde_ok t && negb (contains_ch ch_slash t) && no_backslash t && no_leading_blank t &&
      token_within_limits (unescape t) = true ->
    exists x, truediv p t = Ok (p ++ [x]) /\ join p [t] = Ok (p ++ [x]) /\
              part_text x = unescape t /\
              parent (p ++ [x]) = p /\
              is_relative_to (p ++ [x]) p = true /\
              resolve (p ++ [x]) d = (c <- resolve p d ;; getitem c x).
Proof.
  intros p t d H.
  apply andb_true_iff in H as [H Hlim]. apply andb_true_iff in H as [H Hblank].
  apply andb_true_iff in H as [H Hback]. apply andb_true_iff in H as [Htil Hslash].
  apply negb_true_iff in Hslash.
  destruct (index_of_text_ok _ Hlim) as [x Hx]. exists x.
  assert (Hls : lstrip t = t).
  { destruct t as [|c t]; [reflexivity|]. cbn [no_leading_blank] in Hblank.
    apply negb_true_iff in Hblank. apply lstrip_nonspace. assumption. }
  assert (Hst : starts_with_ch ch_slash t = false).
  { destruct t as [|c t]; [reflexivity|]. rewrite contains_ch_cons in Hslash.
    apply orb_false_iff in Hslash as [Hs _]. cbn [starts_with_ch]. rewrite N.eqb_sym. exact Hs. }
  assert (Htd : truediv p t = Ok (p ++ [x])).
  { unfold truediv. rewrite Hls. unfold unicode_escape. unfold no_backslash in Hback.
    rewrite Hback. cbn [bind]. rewrite Hst. rewrite split_on_nosep by assumption.
    cbn [map_result]. rewrite decode_token_unescape by assumption. rewrite Hx. reflexivity. }
  split; [exact Htd|]. split.
  { cbn [join]. rewrite Htd. reflexivity. }
  split; [apply part_text_index; assumption|]. split.
  { unfold parent. destruct (p ++ [x]) as [|y q] eqn:E.
    - destruct p; discriminate.
    - rewrite <- E. apply removelast_last. }
  split.
  { unfold is_relative_to. apply andb_true_iff. split.
    - apply Nat.ltb_lt. rewrite app_length. simpl. lia.
    - unfold tokens. rewrite map_app.
      rewrite firstn_length_app by (rewrite map_length; reflexivity). apply tokens_eqb_refl. }
  unfold resolve. rewrite reduce_getitem_app.
  destruct (reduce_getitem (RNode [] d) p) as [c|e]; cbn [bind reduce_getitem]; [|reflexivity].
  destruct (getitem c x); reflexivity.
Qed.

Theorem parent_root : parent [] = [].
Proof. reflexivity. Qed.

Theorem slash_replaces :
  forall (p : pointer) (s : ustr),
    starts_with_ch ch_slash s = true -> no_backslash s = true ->
    truediv p s = Pointer.parse false s.
Proof.
  intros p s Hs Hb. destruct s as [|c s]; [discriminate|].
  cbn [starts_with_ch] in Hs. apply N.eqb_eq in Hs. subst c.
  unfold truediv. rewrite (lstrip_nonspace ch_slash s isspace_slash).
  unfold unicode_escape. unfold no_backslash in Hb. rewrite Hb. cbn [bind negb].
  cbn [starts_with_ch]. rewrite N.eqb_refl. reflexivity.
Qed.
