(* FloatDomain.v — the float literals the parser model accepts are exactly in the domain of the
   string-form theorems: the float read from a literal has a repr (Serialize.float_repr), that
   repr parses back, to the very same float (so it is printable and its repr is stable). *)
From Coq Require Import ZArith NArith List Bool Lia.
From JP Require Import Base Json PyStr Syntax Lex Parse Serialize Printable NormDomain PyStrLemmas.
From JP Require Import ParseEqns LexProofs FloatRepr.
Import ListNotations.
Local Open Scope Z_scope.

(* ---- the layout part of float_repr --------------------------------------------------------- *)

Definition repr_layout (neg : bool) (digits : ustr) (zk : Z) : result ustr :=
  let nd := Z.of_nat (length digits) in
  if Z.ltb 15 nd then Err EUnsupported
  else
    let pt := (nd + zk)%Z in
    let sign := if neg then [45%N] else [] in
    if Z.ltb (-4) pt && Z.leb pt 16 then
      if Z.leb pt 0 then
        Ok (sign ++ [48; 46]%N ++ repeat 48%N (Z.to_nat (- pt)) ++ digits)
      else if Z.leb nd pt then
        Ok (sign ++ digits ++ repeat 48%N (Z.to_nat (pt - nd)) ++ [46; 48]%N)
      else
        Ok (sign ++ firstn (Z.to_nat pt) digits ++ 46%N :: skipn (Z.to_nat pt) digits)
    else
      let e := (pt - 1)%Z in
      let mant := match digits with
                  | d :: [] => [d; 46; 48]%N
                  | d :: rest => d :: 46%N :: rest
                  | [] => []
                  end in
      let etxt := dec_of_nonneg (Z.abs e) in
      let etxt := match etxt with [_] => 48%N :: etxt | _ => etxt end in
      Ok (sign ++ mant ++ 101%N :: (if Z.ltb e 0 then 45%N else 43%N) :: etxt).

Lemma float_repr_eq n :
  float_repr n =
  match is_pow10 400 (Zpos (n_den n)) with
  | None => Err EUnsupported
  | Some k =>
      if Z.eqb (Z.abs (n_num n)) 0 then Ok (if Z.ltb (n_num n) 0 then [45; 48; 46; 48]%N else [48; 46; 48]%N)
      else let '(m, z) := strip_zeros 400 (Z.abs (n_num n)) 0%Z in
           repr_layout (Z.ltb (n_num n) 0) (dec_of_nonneg m) (z - k)
  end.
Proof.
  unfold float_repr, repr_layout. destruct (is_pow10 400 (Zpos (n_den n))) as [k|]; [|reflexivity].
  cbv zeta. destruct (Z.eqb (Z.abs (n_num n)) 0); [reflexivity|].
  destruct (strip_zeros 400 (Z.abs (n_num n)) 0) as [m z].
  replace (Z.of_nat (length (dec_of_nonneg m)) + (z - k)) with (Z.of_nat (length (dec_of_nonneg m)) + z - k) by lia.
  reflexivity.
Qed.

(* ---- completeness of the helpers of float_repr ------------------------------------------------ *)

Lemma is_pow10_complete : forall (f k : nat), (k < f)%nat -> is_pow10 f (10 ^ Z.of_nat k) = Some (Z.of_nat k).
Proof.
  induction f as [|f IH]; intros k Hk; [lia|]. rewrite is_pow10_S. destruct k as [|k].
  - reflexivity.
  - rewrite Nat2Z.inj_succ, Z.pow_succ_r by lia.
    assert (Hp : 0 < 10 ^ Z.of_nat k) by (apply Z.pow_pos_nonneg; lia).
    replace (Z.eqb (10 * 10 ^ Z.of_nat k) 1) with false by (symmetry; apply Z.eqb_neq; lia).
    rewrite Z.mul_comm, Z_mod_mult. cbn [Z.eqb]. rewrite Z_div_mult by lia.
    rewrite (IH k ltac:(lia)). cbn [option_map]. f_equal. lia.
Qed.

Lemma strip_zeros_complete : forall (z f : nat) m k0,
  0 < m -> m mod 10 <> 0 -> (z <= f)%nat ->
  strip_zeros f (m * 10 ^ Z.of_nat z) k0 = (m, k0 + Z.of_nat z).
Proof.
  induction z as [|z IH]; intros f m k0 Hm Hmod Hf.
  - cbn [Z.of_nat]. rewrite Z.pow_0_r, Z.mul_1_r, Z.add_0_r. destruct f as [|f]; [reflexivity|].
    cbn [strip_zeros]. replace (Z.eqb (m mod 10) 0) with false by (symmetry; apply Z.eqb_neq; exact Hmod).
    reflexivity.
  - destruct f as [|f]; [lia|]. rewrite Nat2Z.inj_succ, Z.pow_succ_r by lia.
    assert (Hp : 0 < 10 ^ Z.of_nat z) by (apply Z.pow_pos_nonneg; lia).
    replace (m * (10 * 10 ^ Z.of_nat z)) with (m * 10 ^ Z.of_nat z * 10) by ring.
    cbn [strip_zeros]. rewrite Z_mod_mult. cbn [Z.eqb].
    replace (Z.eqb (m * 10 ^ Z.of_nat z * 10) 0) with false by (symmetry; apply Z.eqb_neq; nia).
    cbn [negb andb]. rewrite Z_div_mult by lia. rewrite (IH f m (k0 + 1) Hm Hmod ltac:(lia)). f_equal. lia.
Qed.

(* ---- significant digit strings ----------------------------------------------------------------- *)

Definition good (ds : ustr) : Prop :=
  forallb is_ascii_digit ds = true /\
  (exists h tl, ds = h :: tl /\ h <> 48%N) /\ (exists pre l, ds = pre ++ [l] /\ l <> 48%N).

Lemma drop_zeros_zeros j x : drop_zeros (repeat 48%N j ++ x) = drop_zeros x.
Proof. induction j as [|j IH]; [reflexivity|]. cbn [repeat app drop_zeros N.eqb Pos.eqb]. exact IH. Qed.

Lemma drop_zeros_head h tl : h <> 48%N -> drop_zeros (h :: tl) = h :: tl.
Proof. intros H. cbn [drop_zeros]. replace (N.eqb h 48) with false by (symmetry; apply N.eqb_neq; exact H). reflexivity. Qed.

Lemma drop_zeros_good s : match drop_zeros s with c :: _ => c <> 48%N | [] => True end.
Proof.
  induction s as [|c s IH]; [exact I|]. cbn [drop_zeros]. destruct (N.eqb_spec c 48); [exact IH|assumption].
Qed.

Lemma sig_digits_good lz ds tz : good ds -> sig_digits (repeat 48%N lz ++ ds ++ repeat 48%N tz) = (ds, tz).
Proof.
  intros (_ & (h & tl & Hh & Hh48) & (pre & l & Hl & Hl48)). unfold sig_digits.
  rewrite drop_zeros_zeros.
  assert (Ha : drop_zeros (ds ++ repeat 48%N tz) = ds ++ repeat 48%N tz).
  { rewrite Hh. cbn [app]. apply drop_zeros_head. exact Hh48. }
  rewrite Ha, rev_app_distr, rev_repeat, drop_zeros_zeros.
  assert (Hb : drop_zeros (rev ds) = rev ds).
  { rewrite Hl, rev_app_distr. cbn [rev app]. apply drop_zeros_head. exact Hl48. }
  rewrite Hb, rev_involutive, app_length, repeat_length. f_equal. lia.
Qed.

Lemma sig_digits_is_good D ds tz :
  forallb is_ascii_digit D = true -> sig_digits D = (ds, tz) -> ds <> [] -> good ds.
Proof.
  intros HD Hs Hne. destruct (sig_digits_split D ds tz Hs) as [lz HDeq].
  unfold sig_digits in Hs. injection Hs as Hds _.
  split; [|split].
  - rewrite HDeq, !forallb_app in HD. apply andb_true_iff in HD as [_ HD]. apply andb_true_iff in HD as [HD _]. exact HD.
  - (* the head: ds is a prefix of drop_zeros D *)
    destruct (drop_zeros_split (rev (drop_zeros D))) as [j Hr].
    assert (Ha : drop_zeros D = ds ++ repeat 48%N j).
    { rewrite <- (rev_involutive (drop_zeros D)), Hr, rev_app_distr, rev_repeat, Hds. reflexivity. }
    pose proof (drop_zeros_good D) as Hg. rewrite Ha in Hg.
    destruct ds as [|h tl]; [contradiction Hne; reflexivity|]. exists h, tl. split; [reflexivity|exact Hg].
  - pose proof (drop_zeros_good (rev (drop_zeros D))) as Hg.
    destruct (drop_zeros (rev (drop_zeros D))) as [|l r] eqn:Hd.
    + cbn [rev] in Hds. subst ds. contradiction Hne. reflexivity.
    + cbn [rev] in Hds. exists (rev r), l. split; [symmetry; exact Hds|exact Hg].
Qed.

Lemma good_value ds : good ds ->
  canonical_nonneg ds = true /\ 0 < dec_value ds /\ dec_value ds mod 10 <> 0.
Proof.
  intros (Hd & (h & tl & Hh & Hh48) & (pre & l & Hl & Hl48)). split; [|].
  - rewrite Hh in Hd |- *. cbn [forallb] in Hd. apply andb_true_iff in Hd as [Hdh Hdt].
    destruct tl as [|t2 tl']; [exact Hdh|].
    cbn [canonical_nonneg forallb]. rewrite Hdh. cbn [forallb] in Hdt. rewrite Hdt.
    replace (N.eqb h 48) with false by (symmetry; apply N.eqb_neq; exact Hh48). reflexivity.
  - rewrite Hl in Hd |- *. rewrite forallb_app in Hd. apply andb_true_iff in Hd as [Hpre Hld].
    cbn [forallb] in Hld. apply andb_true_iff in Hld as [Hld _].
    rewrite dec_value_app1. pose proof (dec_value_nonneg pre Hpre) as Hnn.
    pose proof (digit_val_bounds l Hld) as Hb.
    assert (Hpos : 0 < digit_val l).
    { apply digit_val_pos; [exact Hld|apply N.eqb_neq; exact Hl48]. }
    split; [lia|]. rewrite Z.add_comm, Z.mul_comm, Z_mod_plus_full, Z.mod_small by lia. lia.
Qed.

(* ---- float_repr of a float built by mk_float ------------------------------------------------ *)

Lemma repr_of_mk neg ds zexp n :
  good ds -> -399 <= zexp <= 399 -> mk_float neg ds zexp = Ok (FFloat n) ->
  float_repr n = repr_layout neg ds zexp.
Proof.
  intros Hg Hz Hmk. destruct (good_value ds Hg) as (Hcan & Hpos & Hmod).
  rewrite float_repr_eq. unfold mk_float in Hmk. set (m := dec_value ds) in *.
  assert (Hdig : dec_of_nonneg m = ds) by (apply dec_of_nonneg_value; exact Hcan).
  destruct (Z.leb_spec 0 zexp) as [Hge|Hlt].
  - injection Hmk as <-. cbn [n_num n_den]. rewrite pow10_pow, Z2Nat.id by lia.
    assert (Hp : 0 < 10 ^ zexp) by (apply Z.pow_pos_nonneg; lia).
    change (is_pow10 400 1) with (Some 0).
    assert (Habs : Z.abs ((if neg then - m else m) * 10 ^ zexp) = m * 10 ^ zexp) by (destruct neg; nia).
    assert (Hsgn : Z.ltb ((if neg then - m else m) * 10 ^ zexp) 0 = neg).
    { destruct neg; [apply Z.ltb_lt; nia|apply Z.ltb_ge; nia]. }
    rewrite Habs, Hsgn. replace (Z.eqb (m * 10 ^ zexp) 0) with false by (symmetry; apply Z.eqb_neq; nia).
    rewrite <- (Z2Nat.id zexp) at 1 by lia.
    rewrite (strip_zeros_complete (Z.to_nat zexp) 400 m 0 Hpos Hmod ltac:(lia)).
    rewrite Hdig, Z2Nat.id by lia. f_equal. lia.
  - destruct (pow10 (Z.to_nat (- zexp))) as [|p|p] eqn:Hp; try discriminate Hmk. injection Hmk as <-.
    cbn [n_num n_den]. rewrite <- Hp, pow10_pow, (is_pow10_complete 400 (Z.to_nat (- zexp)) ltac:(lia)).
    assert (Habs : Z.abs (if neg then - m else m) = m) by (destruct neg; lia).
    assert (Hsgn : Z.ltb (if neg then - m else m) 0 = neg) by (destruct neg; [apply Z.ltb_lt|apply Z.ltb_ge]; lia).
    rewrite Habs, Hsgn. replace (Z.eqb m 0) with false by (symmetry; apply Z.eqb_neq; lia).
    pose proof (strip_zeros_complete 0 400 m 0 Hpos Hmod ltac:(lia)) as Hs.
    cbn [Z.of_nat] in Hs. rewrite Z.pow_0_r, Z.mul_1_r in Hs. rewrite Hs, Hdig. f_equal. rewrite Z2Nat.id; lia.
Qed.

(* ---- reading a repr back ---------------------------------------------------------------------- *)

(* the split of the repr text and what its digits are *)
Lemma layout_split neg ds zexp t :
  good ds -> repr_layout neg ds zexp = Ok t ->
  exists ip fp ex tz,
    split_number t = Some (neg, ip, fp, ex) /\ sig_digits (ip ++ fp) = (ds, tz) /\
    Z.of_nat tz + ex - Z.of_nat (length fp) = zexp.
Proof.
  intros Hg Hr. pose proof Hg as (Hdig & (h & tl & Hh & Hh48) & _).
  assert (Hdne : ds <> []) by (rewrite Hh; discriminate).
  unfold repr_layout in Hr. set (nd := Z.of_nat (length ds)) in *.
  assert (Hnd : 0 < nd) by (unfold nd; rewrite Hh; cbn [length]; lia).
  destruct (Z.ltb 15 nd); [discriminate Hr|]. cbv zeta in Hr. set (pt := nd + zexp) in *.
  change (if neg then [45%N] else []) with (sign_txt neg) in Hr.
  destruct (Z.ltb (-4) pt && Z.leb pt 16).
  - destruct (Z.leb_spec pt 0) as [Hpt|Hpt].
    + (* 0.000ddd *)
      injection Hr as <-. exists [48%N], (repeat 48%N (Z.to_nat (- pt)) ++ ds), 0, 0%nat.
      split; [|split].
      * apply (split_plain neg [48%N] (repeat 48%N (Z.to_nat (- pt)) ++ ds)); [discriminate|reflexivity|].
        rewrite forallb_app, zeros_digits, Hdig. reflexivity.
      * change ([48%N] ++ repeat 48%N (Z.to_nat (- pt)) ++ ds) with (repeat 48%N (S (Z.to_nat (- pt))) ++ ds).
        rewrite <- (app_nil_r ds) at 1. apply (sig_digits_good _ ds 0 Hg).
      * rewrite app_length, repeat_length. fold nd. unfold pt in *. lia.
    + destruct (Z.leb_spec nd pt) as [Hle|Hgt].
      * (* ddd000.0 *)
        injection Hr as <-. exists (ds ++ repeat 48%N (Z.to_nat (pt - nd))), [48%N], 0, (S (Z.to_nat (pt - nd))).
        split; [|split].
        -- rewrite (app_assoc ds). apply (split_plain neg (ds ++ repeat 48%N (Z.to_nat (pt - nd))) [48%N]);
             [rewrite Hh; discriminate| |reflexivity].
           rewrite forallb_app, zeros_digits, Hdig. reflexivity.
        -- rewrite <- app_assoc.
           change (repeat 48%N (Z.to_nat (pt - nd)) ++ [48%N]) with (repeat 48%N (Z.to_nat (pt - nd)) ++ repeat 48%N 1).
           rewrite <- repeat_app, Nat.add_1_r. apply (sig_digits_good 0 ds _ Hg).
        -- cbn [length]. unfold pt in *. lia.
      * (* dd.ddd *)
        injection Hr as <-. exists (firstn (Z.to_nat pt) ds), (skipn (Z.to_nat pt) ds), 0, 0%nat.
        assert (Hf : forallb is_ascii_digit (firstn (Z.to_nat pt) ds) = true /\
                     forallb is_ascii_digit (skipn (Z.to_nat pt) ds) = true).
        { rewrite <- (firstn_skipn (Z.to_nat pt) ds), forallb_app in Hdig. apply andb_true_iff in Hdig. exact Hdig. }
        split; [|split].
        -- apply (split_plain neg); [|exact (proj1 Hf)|exact (proj2 Hf)].
           rewrite Hh. destruct (Z.to_nat pt) eqn:E; [lia|discriminate].
        -- rewrite firstn_skipn. rewrite <- (app_nil_r ds) at 1. apply (sig_digits_good 0 ds 0 Hg).
        -- rewrite skipn_length. unfold pt, nd in *. lia.
  - (* d.ddde+xx *)
    set (e := pt - 1) in *.
    set (etxt0 := dec_of_nonneg (Z.abs e)) in *.
    assert (Hecan : canonical_nonneg etxt0 = true) by (apply canonical_dec_of_nonneg; lia).
    pose proof (canon_digits _ Hecan) as Hedig.
    assert (Heval : dec_value etxt0 = Z.abs e) by (apply dec_value_of_nonneg; lia).
    assert (Hene : etxt0 <> []) by (intros Eq; rewrite Eq in Hecan; discriminate).
    set (etxt := match etxt0 with [_] => 48%N :: etxt0 | _ => etxt0 end) in *.
    assert (Het : all_digits etxt = true /\ dec_value etxt = Z.abs e).
    { unfold etxt. destruct etxt0 as [|c [|c' r]]; [contradiction Hene; reflexivity| |].
      - split; [exact Hedig|]. change [48%N; c] with (repeat 48%N 1 ++ [c]).
        rewrite dec_value_lead_zeros. exact Heval.
      - split; [exact Hedig|exact Heval]. }
    destruct Het as [Het1 Het2].
    set (eneg := Z.ltb e 0) in *.
    assert (Hex : (if eneg then - dec_value etxt else dec_value etxt) = e).
    { unfold eneg. rewrite Het2. destruct (Z.ltb_spec e 0); lia. }
    rewrite Hh in Hr, Hdig. cbn [forallb] in Hdig. apply andb_true_iff in Hdig as [Hd Hrest].
    destruct tl as [|d2 rest'].
    + (* one digit: d.0e+xx *)
      injection Hr as <-. exists [h], [48%N], e, 1%nat. split; [|split].
      * rewrite <- Hex. apply (split_exp neg [h] [48%N] eneg etxt); [discriminate| |reflexivity|exact Het1].
        cbn [forallb]. rewrite Hd. reflexivity.
      * rewrite Hh. change ([h] ++ [48%N]) with (repeat 48%N 0 ++ [h] ++ repeat 48%N 1).
        apply sig_digits_good. rewrite <- Hh. exact Hg.
      * unfold e, pt, nd in *. rewrite Hh. rewrite Hh in Hnd. cbn [length] in *. lia.
    + injection Hr as <-. exists [h], (d2 :: rest'), e, 0%nat. split; [|split].
      * rewrite <- Hex. apply (split_exp neg [h] (d2 :: rest') eneg etxt); [discriminate| |exact Hrest|exact Het1].
        cbn [forallb]. rewrite Hd. reflexivity.
      * rewrite Hh. change ([h] ++ d2 :: rest') with (h :: d2 :: rest').
        rewrite <- (app_nil_r (h :: d2 :: rest')) at 1.
        apply (sig_digits_good 0 (h :: d2 :: rest') 0). rewrite <- Hh. exact Hg.
      * unfold e, pt, nd in *. rewrite Hh. cbn [length] in *. lia.
Qed.

Lemma reparse_mk neg ds zexp t n :
  good ds -> (length ds <= 15)%nat -> -290 <= Z.of_nat (length ds) + zexp <= 300 ->
  repr_layout neg ds zexp = Ok t -> mk_float neg ds zexp = Ok (FFloat n) ->
  parse_float_literal t = Ok (FFloat n).
Proof.
  intros Hg Hlen Hpt Hr Hmk.
  destruct (layout_split neg ds zexp t Hg Hr) as (ip & fp & ex & tz & Hs & Hsig & Hz).
  unfold parse_float_literal. rewrite Hs, Hsig.
  destruct Hg as (_ & (h & tl & Hh & _) & _). rewrite Hh at 1. cbv zeta. rewrite Hz.
  replace (Z.leb 310 (Z.of_nat (length ds) + zexp)) with false by (symmetry; apply Z.leb_gt; lia).
  replace (Z.ltb 15 (Z.of_nat (length ds))) with false by (symmetry; apply Z.ltb_ge; lia).
  replace (Z.ltb 300 (Z.of_nat (length ds) + zexp)) with false by (symmetry; apply Z.ltb_ge; lia).
  replace (Z.ltb (Z.of_nat (length ds) + zexp) (-290)) with false by (symmetry; apply Z.ltb_ge; lia).
  cbn [orb]. exact Hmk.
Qed.

Lemma split_number_digits s neg ip fp ex :
  split_number s = Some (neg, ip, fp, ex) -> forallb is_ascii_digit (ip ++ fp) = true.
Proof.
  rewrite split_number_eq. destruct (strip_sign s) as [ng s1].
  destruct (span is_ascii_digit s1) as [ip0 s2] eqn:H1. pose proof (span_forall _ _ _ _ H1) as Hip.
  assert (Hfp : forall t fp0 s3, span is_ascii_digit t = (fp0, s3) -> forallb is_ascii_digit fp0 = true)
    by (intros t fp0 s3 H; exact (span_forall _ _ _ _ H)).
  destruct s2 as [|c t].
  - intros H. injection H as _ <- <- _. rewrite app_nil_r. exact Hip.
  - assert (Hgen : forall fp0 s3,
              (fp0 = [] \/ exists t', span is_ascii_digit t' = (fp0, s3)) ->
              match s3 with
              | [] => Some (ng, ip0, fp0, 0)
              | e :: t0 =>
                  if N.eqb e 101 || N.eqb e 69
                  then let '(eneg, t') := match t0 with 45%N :: r => (true, r) | 43%N :: r => (false, r) | _ => (false, t0) end in
                       if all_digits t' then Some (ng, ip0, fp0, if eneg then - dec_value t' else dec_value t') else None
                  else None
              end = Some (neg, ip, fp, ex) -> forallb is_ascii_digit (ip ++ fp) = true).
    { intros fp0 s3 Hfp0 H.
      assert (Hd : forallb is_ascii_digit fp0 = true) by (destruct Hfp0 as [->|[t' Ht']]; [reflexivity|exact (Hfp _ _ _ Ht')]).
      assert (Heq : ip = ip0 /\ fp = fp0).
      { destruct s3 as [|e t0]; [injection H as _ <- <- _; auto|].
        destruct (_ || _); [|discriminate H].
        destruct (match t0 with 45%N :: r => (true, r) | 43%N :: r => (false, r) | _ => (false, t0) end) as [eneg t'].
        destruct (all_digits t'); [|discriminate H]. injection H as _ <- <- _. auto. }
      destruct Heq as [-> ->]. rewrite forallb_app, Hip, Hd. reflexivity. }
    destruct (N.eqb_spec c 46) as [->|Hc].
    + destruct (span is_ascii_digit t) as [fp0 s3] eqn:H2. apply Hgen. right. eauto.
    + assert (Hdone : forall cc, (match cc :: t with 46%N :: t1 => span is_ascii_digit t1 | _ => ([], cc :: t) end)
                                  = ([], cc :: t) ->
                        (let '(fp1, s3) := match cc :: t with 46%N :: t1 => span is_ascii_digit t1 | _ => ([], cc :: t) end in
                         match s3 with
                         | [] => Some (ng, ip0, fp1, 0)
                         | e :: t0 =>
                             if N.eqb e 101 || N.eqb e 69
                             then let '(eneg, t') := match t0 with 45%N :: r => (true, r) | 43%N :: r => (false, r) | _ => (false, t0) end in
                                  if all_digits t' then Some (ng, ip0, fp1, if eneg then - dec_value t' else dec_value t') else None
                             else None
                         end) = Some (neg, ip, fp, ex) -> forallb is_ascii_digit (ip ++ fp) = true).
      { intros cc Hm. rewrite Hm. apply (Hgen [] (cc :: t)). left. reflexivity. }
      apply Hdone. destruct c as [|p]; [reflexivity|].
      do 6 (try (destruct p as [p|p|]; try reflexivity)). contradiction Hc. reflexivity.
Qed.

(* ---- what the parser reads is printable and stable -------------------------------------------- *)

Theorem parsed_float_roundtrip s n :
  parse_float_literal s = Ok (FFloat n) ->
  exists t, float_repr n = Ok t /\ parse_float_literal t = Ok (FFloat n).
Proof.
  intros Hp. unfold parse_float_literal in Hp.
  destruct (split_number s) as [[[[neg ip] fp] ex]|] eqn:Hs; [|discriminate Hp].
  pose proof (split_number_digits _ _ _ _ _ Hs) as HD.
  destruct (sig_digits (ip ++ fp)) as [ds tz] eqn:Hsig.
  destruct ds as [|d ds'].
  - destruct neg; [discriminate Hp|]. injection Hp as <-. exists [48; 46; 48]%N. split; vm_compute; reflexivity.
  - assert (Hg : good (d :: ds')) by (apply (sig_digits_is_good _ _ _ HD Hsig); discriminate).
    cbv zeta in Hp. set (ds := d :: ds') in *. set (zexp := Z.of_nat tz + ex - Z.of_nat (length fp)) in *.
    destruct (Z.leb_spec 310 (Z.of_nat (length ds) + zexp)) as [|H310]; [discriminate Hp|].
    destruct (Z.ltb_spec 15 (Z.of_nat (length ds))) as [|H15]; [discriminate Hp|].
    destruct (Z.ltb_spec 300 (Z.of_nat (length ds) + zexp)) as [|H300]; [discriminate Hp|].
    destruct (Z.ltb_spec (Z.of_nat (length ds) + zexp) (-290)) as [|H290]; [discriminate Hp|].
    cbn [orb] in Hp.
    assert (Hz : -399 <= zexp <= 399) by lia.
    pose proof (repr_of_mk neg ds zexp n Hg Hz Hp) as Hrepr.
    assert (Hlay : exists t, repr_layout neg ds zexp = Ok t).
    { unfold repr_layout. replace (Z.ltb 15 (Z.of_nat (length ds))) with false by (symmetry; apply Z.ltb_ge; lia).
      cbv zeta. destruct (_ && _); [destruct (Z.leb _ 0); [eauto|destruct (Z.leb _ _); eauto]|eauto]. }
    destruct Hlay as [t Ht]. exists t. split; [rewrite Hrepr; exact Ht|].
    apply (reparse_mk neg ds zexp t n Hg ltac:(lia) ltac:(lia) Ht Hp).
Qed.

Theorem parsed_float_ok s n :
  parse_float_literal s = Ok (FFloat n) -> float_ok n = true /\ float_stable n = true.
Proof.
  intros Hp. destruct (parsed_float_roundtrip s n Hp) as (t & Hr & Hp').
  unfold float_ok, float_stable. rewrite Hr, Hp', Hr, ustr_eqb_refl. split; reflexivity.
Qed.
