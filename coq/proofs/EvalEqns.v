(* EvalEqns.v — the defining equations of the mutual fixpoints (model, specification, typing),
   each by computation.  Used instead of cbn/simpl, which do not refold calls between
   different functions of a mutual block. *)
From Coq Require Import ZArith List Bool.
From JP Require Import Base Json PyStr PySlice PyJsonStr Syntax Eval Rfc9535 Rfc9535Typing.
Import ListNotations.

(* ---- typing ------------------------------------------------------------------------- *)
Section TypingEqns.
  Variable ext : bool.

  Lemma wt_logical_not r : wt_logical ext (FNot r) = wt_logical ext r.
  Proof. reflexivity. Qed.
  Lemma wt_logical_and l r : wt_logical ext (FInfix l BAnd r) = wt_logical ext l && wt_logical ext r.
  Proof. reflexivity. Qed.
  Lemma wt_logical_or l r : wt_logical ext (FInfix l BOr r) = wt_logical ext l && wt_logical ext r.
  Proof. reflexivity. Qed.
  Lemma wt_logical_lg l r :
    wt_logical ext (FInfix l BLg r) = ext && wt_comparable ext l && wt_comparable ext r.
  Proof. reflexivity. Qed.
  Lemma wt_logical_in l r :
    wt_logical ext (FInfix l BIn r) = ext && wt_member ext l && wt_member ext r.
  Proof. reflexivity. Qed.
  Lemma wt_logical_contains l r :
    wt_logical ext (FInfix l BContains r) = ext && wt_member ext l && wt_member ext r.
  Proof. reflexivity. Qed.
  Lemma wt_logical_re l r :
    wt_logical ext (FInfix l BRe r) =
    match r with FRegex _ _ => ext && wt_comparable ext l | _ => false end.
  Proof. destruct r; reflexivity. Qed.
  Lemma wt_logical_cmp l o r : is_cmp o = true ->
    wt_logical ext (FInfix l o r) = wt_comparable ext l && wt_comparable ext r.
  Proof. destruct o; intros H; try discriminate H; reflexivity. Qed.
  Lemma wt_logical_func name args :
    wt_logical ext (FFunc name args) =
    (ustr_eqb name tname_match || ustr_eqb name tname_search) &&
    match args with
    | ECons a (ECons b ENil) => wt_arg ext a && wt_arg ext b
    | _ => false
    end.
  Proof. reflexivity. Qed.
  Lemma wt_comparable_func name args :
    wt_comparable ext (FFunc name args) =
    if ustr_eqb name tname_length then
      match args with ECons a ENil => wt_arg ext a | _ => false end
    else if ustr_eqb name tname_count || ustr_eqb name tname_value then
      match args with ECons a ENil => wt_nodes ext a | _ => false end
    else if ext && ustr_eqb name tname_typeof then
      match args with ECons a ENil => wt_nodes ext a | _ => false end
    else false.
  Proof. reflexivity. Qed.
  Lemma wt_member_func name args :
    wt_member ext (FFunc name args) = wt_comparable ext (FFunc name args).
  Proof. reflexivity. Qed.
  Lemma wt_member_list items : wt_member ext (FList items) = wt_literals ext items.
  Proof. reflexivity. Qed.

  Lemma wt_arg_comparable e : wt_arg ext e = true -> wt_comparable ext e = true /\ is_undefined e = false.
  Proof. unfold wt_arg. intros H. apply andb_true_iff in H as [H1 H2]. apply negb_true_iff in H1. auto. Qed.
  Lemma wt_sel_filter e : wt_sel ext (SFilter e) = wt_logical ext e.
  Proof. reflexivity. Qed.
  Lemma wt_sels_cons s r : wt_sels ext (LCons s r) = wt_sel ext s && wt_sels ext r.
  Proof. reflexivity. Qed.
  Lemma wt_seg_sel s :
    wt_seg ext (GSel s) = match s with SName _ | SWild => true | SKeys => ext | _ => false end.
  Proof. destruct s; reflexivity. Qed.
  Lemma wt_seg_list items :
    wt_seg ext (GList items) = match items with LNil => false | _ => wt_sels ext items end.
  Proof. destruct items; reflexivity. Qed.
  Lemma wt_segs_cons g r : wt_segs ext (PCons g r) = wt_seg ext g && wt_segs ext r.
  Proof. reflexivity. Qed.
End TypingEqns.

Lemma dk_expr_not r : dk_expr (FNot r) = dk_expr r.
Proof. reflexivity. Qed.
Lemma dk_expr_infix l o r : dk_expr (FInfix l o r) = dk_expr l && dk_expr r.
Proof. reflexivity. Qed.
Lemma dk_expr_self p : dk_expr (FSelf p) = descent_ok p && dk_segs p.
Proof. reflexivity. Qed.
Lemma dk_expr_root fake p : dk_expr (FRoot fake p) = descent_ok p && dk_segs p.
Proof. reflexivity. Qed.
Lemma dk_expr_ctx p : dk_expr (FCtx p) = descent_ok p && dk_segs p.
Proof. reflexivity. Qed.
Lemma dk_expr_func name args : dk_expr (FFunc name args) = dk_exprs args.
Proof. reflexivity. Qed.
Lemma dk_exprs_cons e r : dk_exprs (ECons e r) = dk_expr e && dk_exprs r.
Proof. reflexivity. Qed.
Lemma dk_sel_filter e : dk_sel (SFilter e) = dk_expr e.
Proof. reflexivity. Qed.
Lemma dk_sels_cons s r : dk_sels (LCons s r) = dk_sel s && dk_sels r.
Proof. reflexivity. Qed.
Lemma dk_seg_sel s : dk_seg (GSel s) = dk_sel s.
Proof. reflexivity. Qed.
Lemma dk_seg_list items : dk_seg (GList items) = dk_sels items.
Proof. reflexivity. Qed.
Lemma dk_segs_cons g r : dk_segs (PCons g r) = dk_seg g && dk_segs r.
Proof. reflexivity. Qed.

(* ---- model -------------------------------------------------------------------------- *)
Section ModelEqns.
  Variable E : env.
  Variable rf : ustr -> reflags -> ustr -> option bool.
  Variable rs : ustr -> ustr -> option bool.
  Notation eval_f := (Eval.eval_f E rf rs).
  Notation eval_fs := (Eval.eval_fs E rf rs).
  Notation resolve_sel := (Eval.resolve_sel E rf rs).
  Notation resolve_sels := (Eval.resolve_sels E rf rs).
  Notation resolve_seg := (Eval.resolve_seg E rf rs).
  Notation resolve_segs := (Eval.resolve_segs E rf rs).

  Definition unwrap (v : fval) : fval :=
    match v with VNodes [n] => VVal (m_val n) | _ => v end.

  Lemma eval_list items root ctx cur key :
    eval_f (FList items) root ctx cur key =
    (vs <- eval_fs items root ctx cur key ;;
     Ok (VVal (JArr (map (fun v => match v with VVal j => j | _ => JNull end) vs)))).
  Proof. reflexivity. Qed.
  Lemma eval_not r root ctx cur key :
    eval_f (FNot r) root ctx cur key =
    (v <- eval_f r root ctx cur key ;; Ok (bool_val (negb (is_truthy v)))).
  Proof. reflexivity. Qed.
  Lemma eval_infix l o r root ctx cur key :
    eval_f (FInfix l o r) root ctx cur key =
    (lv <- eval_f l root ctx cur key ;;
     rv <- eval_f r root ctx cur key ;;
     Ok (bool_val (filter_compare rf (if is_logical o then lv else unwrap lv) o
                                     (if is_logical o then rv else unwrap rv)))).
  Proof. reflexivity. Qed.
  Lemma eval_self p root ctx cur key :
    eval_f (FSelf p) root ctx cur key =
    (ns <- resolve_segs p root ctx [root_match E cur] ;; Ok (VNodes ns)).
  Proof. reflexivity. Qed.
  Lemma eval_root fake p root ctx cur key :
    eval_f (FRoot fake p) root ctx cur key =
    (ns <- resolve_segs p root ctx [root_match E (if fake then JArr [root] else root)] ;; Ok (VNodes ns)).
  Proof. reflexivity. Qed.
  Lemma eval_ctx p root ctx cur key :
    eval_f (FCtx p) root ctx cur key =
    (ns <- resolve_segs p root ctx [root_match E ctx] ;; Ok (VNodes ns)).
  Proof. reflexivity. Qed.
  Lemma eval_func name args root ctx cur key :
    eval_f (FFunc name args) root ctx cur key =
    match signature name with
    | None => Err EUnsupported
    | Some (ts, _) =>
        vs <- eval_fs args root ctx cur key ;;
        us <- unpack_args ts vs ;;
        call_function rf rs name us
    end.
  Proof. reflexivity. Qed.
  Lemma eval_fs_nil root ctx cur key : eval_fs ENil root ctx cur key = Ok [].
  Proof. reflexivity. Qed.
  Lemma eval_fs_cons e r root ctx cur key :
    eval_fs (ECons e r) root ctx cur key =
    (v <- eval_f e root ctx cur key ;; vs <- eval_fs r root ctx cur key ;; Ok (v :: vs)).
  Proof. reflexivity. Qed.

  Lemma resolve_sel_filter e root ctx m :
    resolve_sel (SFilter e) root ctx m =
    concat_results
      (map (fun c => let '(cur, key, child) := c in
                     v <- eval_f e root ctx cur key ;;
                     Ok (if is_truthy v then [child] else []))
           (filter_candidates m)).
  Proof. reflexivity. Qed.
  Lemma resolve_sels_nil root ctx m : resolve_sels LNil root ctx m = Ok [].
  Proof. reflexivity. Qed.
  Lemma resolve_sels_cons s r root ctx m :
    resolve_sels (LCons s r) root ctx m =
    (x <- resolve_sel s root ctx m ;; y <- resolve_sels r root ctx m ;; Ok (x ++ y)).
  Proof. reflexivity. Qed.
  Lemma resolve_seg_sel s root ctx ms :
    resolve_seg (GSel s) root ctx ms = concat_results (map (resolve_sel s root ctx) ms).
  Proof. reflexivity. Qed.
  Lemma resolve_seg_descent root ctx ms :
    resolve_seg GDescent root ctx ms = Ok (flat_map resolve_descent ms).
  Proof. reflexivity. Qed.
  Lemma resolve_seg_list items root ctx ms :
    resolve_seg (GList items) root ctx ms = concat_results (map (resolve_sels items root ctx) ms).
  Proof. reflexivity. Qed.
  Lemma resolve_segs_nil root ctx ms : resolve_segs PNil root ctx ms = Ok ms.
  Proof. reflexivity. Qed.
  Lemma resolve_segs_cons g r root ctx ms :
    resolve_segs (PCons g r) root ctx ms =
    (ms' <- resolve_seg g root ctx ms ;; resolve_segs r root ctx ms').
  Proof. reflexivity. Qed.
End ModelEqns.

(* ---- specification ------------------------------------------------------------------ *)
Section SpecEqns.
  Variable rf : ustr -> reflags -> ustr -> option bool.
  Variable rs : ustr -> ustr -> option bool.
  Variable keys : ustr.
  Notation q_nodes := (Rfc9535.q_nodes rf rs keys).
  Notation v_value := (Rfc9535.v_value rf rs keys).
  Notation vs_values := (Rfc9535.vs_values rf rs keys).
  Notation l_test := (Rfc9535.l_test rf rs keys).
  Notation sel_nodes := (Rfc9535.sel_nodes rf rs keys).
  Notation sels_nodes := (Rfc9535.sels_nodes rf rs keys).
  Notation seg_nodes := (Rfc9535.seg_nodes rf rs keys).
  Notation segs_nodes := (Rfc9535.segs_nodes rf rs keys).

  Lemma v_value_list items root ctx cur key :
    v_value (FList items) root ctx cur key = Some (JArr (vs_values items root ctx cur key)).
  Proof. reflexivity. Qed.
  Lemma vs_values_cons e r root ctx cur key :
    vs_values (ECons e r) root ctx cur key =
    match v_value e root ctx cur key with
    | Some v => v :: vs_values r root ctx cur key
    | None => JNull :: vs_values r root ctx cur key
    end.
  Proof. reflexivity. Qed.
  Lemma v_value_func name args root ctx cur key :
    v_value (FFunc name args) root ctx cur key =
    if ustr_eqb name fname_length then
      match args with ECons a ENil => fn_length (v_value a root ctx cur key) | _ => None end
    else if ustr_eqb name fname_count then
      match args with
      | ECons a ENil => Some (JNum (num_of_Z (Z.of_nat (length (q_nodes a root ctx cur key)))))
      | _ => None
      end
    else if ustr_eqb name fname_value then
      match args with ECons a ENil => fn_value (q_nodes a root ctx cur key) | _ => None end
    else if ustr_eqb name fname_typeof then
      match args with ECons a ENil => fn_typeof (q_nodes a root ctx cur key) | _ => None end
    else None.
  Proof. reflexivity. Qed.

  Lemma l_test_not r root ctx cur key :
    l_test (FNot r) root ctx cur key = negb (l_test r root ctx cur key).
  Proof. reflexivity. Qed.
  Lemma l_test_and l r root ctx cur key :
    l_test (FInfix l BAnd r) root ctx cur key = l_test l root ctx cur key && l_test r root ctx cur key.
  Proof. reflexivity. Qed.
  Lemma l_test_or l r root ctx cur key :
    l_test (FInfix l BOr r) root ctx cur key = l_test l root ctx cur key || l_test r root ctx cur key.
  Proof. reflexivity. Qed.
  Lemma l_test_lg l r root ctx cur key :
    l_test (FInfix l BLg r) root ctx cur key =
    negb (rfc_eq (v_value l root ctx cur key) (v_value r root ctx cur key)).
  Proof. reflexivity. Qed.
  Lemma l_test_in l r root ctx cur key :
    l_test (FInfix l BIn r) root ctx cur key =
    member_of (v_value l root ctx cur key) (v_value r root ctx cur key).
  Proof. reflexivity. Qed.
  Lemma l_test_contains l r root ctx cur key :
    l_test (FInfix l BContains r) root ctx cur key =
    member_of (v_value r root ctx cur key) (v_value l root ctx cur key).
  Proof. reflexivity. Qed.
  Lemma l_test_re l p fl root ctx cur key :
    l_test (FInfix l BRe (FRegex p fl)) root ctx cur key =
    match v_value l root ctx cur key with
    | Some (JStr s) => match rf p fl s with Some b => b | None => false end
    | _ => false
    end.
  Proof. reflexivity. Qed.
  Lemma l_test_cmp l o r root ctx cur key : is_cmp o = true ->
    l_test (FInfix l o r) root ctx cur key =
    rfc_compare (v_value l root ctx cur key) o (v_value r root ctx cur key).
  Proof. destruct o; intros H; try discriminate H; reflexivity. Qed.
  Lemma l_test_func name args root ctx cur key :
    l_test (FFunc name args) root ctx cur key =
    if ustr_eqb name fname_match then
      match args with
      | ECons a (ECons b ENil) => fn_match rf (v_value a root ctx cur key) (v_value b root ctx cur key)
      | _ => false
      end
    else if ustr_eqb name fname_search then
      match args with
      | ECons a (ECons b ENil) => fn_search rs (v_value a root ctx cur key) (v_value b root ctx cur key)
      | _ => false
      end
    else false.
  Proof. reflexivity. Qed.

  Lemma sel_nodes_filter e root ctx n :
    sel_nodes (SFilter e) root ctx n =
    flat_map (fun pc => if l_test e root ctx (snd pc) (part_value (fst pc))
                        then [(fst n ++ [fst pc], snd pc)] else [])
             (children (snd n)).
  Proof. reflexivity. Qed.
  Lemma sels_nodes_nil root ctx n : sels_nodes LNil root ctx n = [].
  Proof. reflexivity. Qed.
  Lemma sels_nodes_cons s r root ctx n :
    sels_nodes (LCons s r) root ctx n = sel_nodes s root ctx n ++ sels_nodes r root ctx n.
  Proof. reflexivity. Qed.
  Lemma seg_nodes_sel s root ctx ns : seg_nodes (GSel s) root ctx ns = flat_map (sel_nodes s root ctx) ns.
  Proof. reflexivity. Qed.
  Lemma seg_nodes_list items root ctx ns :
    seg_nodes (GList items) root ctx ns = flat_map (sels_nodes items root ctx) ns.
  Proof. reflexivity. Qed.
  Lemma seg_nodes_descent root ctx ns : seg_nodes GDescent root ctx ns = flat_map descendants ns.
  Proof. reflexivity. Qed.
  Lemma segs_nodes_nil root ctx ns : segs_nodes PNil root ctx ns = ns.
  Proof. reflexivity. Qed.
  Lemma segs_nodes_cons g r root ctx ns :
    segs_nodes (PCons g r) root ctx ns = segs_nodes r root ctx (seg_nodes g root ctx ns).
  Proof. reflexivity. Qed.
End SpecEqns.
