(* CacheProofs.v — filter-expression caching (model/Cache.v) is transparent: the volatility flag
   is sound, and evaluation with the cells of a cache tree threaded through the candidates of a
   filter selector gives the result of the cache-free evaluator (model/Eval.v), errors included. *)
From Coq Require Import ZArith List Bool Lia.
From JP Require Import Base Json PyStr PySlice PyJsonStr Syntax Eval Cache EvalEqns.
Import ListNotations.

(* ---- volatility is sound ---------------------------------------------------------------- *)

Section Volatile.
  Variable E : env.
  Variable rf : ustr -> reflags -> ustr -> option bool.
  Variable rs : ustr -> ustr -> option bool.
  Notation eval_f := (Eval.eval_f E rf rs).
  Notation eval_fs := (Eval.eval_fs E rf rs).

  Definition indep (e : fexpr) : Prop :=
    volatile e = false -> forall root ctx cur key cur' key',
      eval_f e root ctx cur key = eval_f e root ctx cur' key'.
  Definition indeps (es : fexprs) : Prop :=
    volatile_any es = false -> forall root ctx cur key cur' key',
      eval_fs es root ctx cur key = eval_fs es root ctx cur' key'.

  Lemma indep_all :
    (forall e, indep e) /\ (forall es, indeps es) /\ (forall s : selector, True) /\
    (forall l : sels, True) /\ (forall g : segment, True) /\ (forall p : segs, True).
  Proof.
    apply syntax_mutind; try (intros; exact I); try (intros; intros Hv root ctx cur key cur' key'; reflexivity).
    - (* FList *)
      intros items IH Hv root ctx cur key cur' key'. change (volatile_any items = false) in Hv.
      rewrite !eval_list, (IH Hv root ctx cur key cur' key'). reflexivity.
    - (* FNot *)
      intros r IH Hv root ctx cur key cur' key'. change (volatile r = false) in Hv.
      rewrite !eval_not, (IH Hv root ctx cur key cur' key'). reflexivity.
    - (* FInfix *)
      intros l IHl o r IHr Hv root ctx cur key cur' key'.
      change (volatile l || volatile r = false) in Hv. apply orb_false_iff in Hv as [Hl Hr].
      rewrite !eval_infix, (IHl Hl root ctx cur key cur' key'), (IHr Hr root ctx cur key cur' key').
      reflexivity.
    - (* FSelf *) intros p _ Hv. discriminate Hv.
    - (* FKey *) intros Hv. discriminate Hv.
    - (* FFunc *)
      intros name args IH Hv root ctx cur key cur' key'. change (volatile_any args = false) in Hv.
      rewrite !eval_func, (IH Hv root ctx cur key cur' key'). reflexivity.
    - (* ECons *)
      intros e IHe r IHr Hv root ctx cur key cur' key'.
      change (volatile e || volatile_any r = false) in Hv. apply orb_false_iff in Hv as [He Hr].
      rewrite !eval_fs_cons, (IHe He root ctx cur key cur' key'), (IHr Hr root ctx cur key cur' key').
      reflexivity.
  Qed.

  Theorem nonvolatile_indep_sec (e : fexpr) (root ctx cur key cur' key' : json) :
    volatile e = false -> eval_f e root ctx cur key = eval_f e root ctx cur' key'.
  Proof. intros Hv. exact (proj1 indep_all e Hv root ctx cur key cur' key'). Qed.
End Volatile.

Definition nonvolatile_indep := nonvolatile_indep_sec.

(* ---- positions ------------------------------------------------------------------------------ *)

Fixpoint nth_fexpr (es : fexprs) (i : nat) : option fexpr :=
  match es, i with
  | ENil, _ => None
  | ECons e _, O => Some e
  | ECons _ r, S i' => nth_fexpr r i'
  end.

(* the i-th child in the numbering eval_fc uses *)
Definition child_at (e : fexpr) (i : nat) : option fexpr :=
  match e with
  | FNot r => match i with O => Some r | _ => None end
  | FInfix l _ r => match i with O => Some l | S O => Some r | _ => None end
  | FList items | FFunc _ items => nth_fexpr items i
  | _ => None
  end.

Fixpoint subexpr_at (e : fexpr) (pos : position) : option fexpr :=
  match pos with
  | [] => Some e
  | i :: pos' => match child_at e i with Some c => subexpr_at c pos' | None => None end
  end.

Lemma subexpr_at_app e p q :
  subexpr_at e (p ++ q) = match subexpr_at e p with Some c => subexpr_at c q | None => None end.
Proof.
  revert e. induction p as [|i p IH]; intros e; [reflexivity|].
  cbn [app subexpr_at]. destruct (child_at e i); [apply IH|reflexivity].
Qed.

Lemma subexpr_child e0 pos e i c :
  subexpr_at e0 pos = Some e -> child_at e i = Some c -> subexpr_at e0 (pos ++ [i]) = Some c.
Proof. intros H Hc. rewrite subexpr_at_app, H. cbn [subexpr_at]. rewrite Hc. reflexivity. Qed.

Lemma pos_eqb_eq a b : pos_eqb a b = true -> a = b.
Proof.
  revert b. induction a as [|x a IH]; intros [|y b] H; try discriminate H; [reflexivity|].
  cbn [pos_eqb] in H. apply andb_true_iff in H as [H1 H2].
  apply Nat.eqb_eq in H1. rewrite H1, (IH b H2). reflexivity.
Qed.

(* ---- defining equations of the cached evaluator ------------------------------------------- *)

Section CacheEqns.
  Variable E : env.
  Variable rf : ustr -> reflags -> ustr -> option bool.
  Variable rs : ustr -> ustr -> option bool.
  Notation eval_fc := (Cache.eval_fc E rf rs).
  Notation eval_fsc := (Cache.eval_fsc E rf rs).
  Notation resolve_sel_c := (Cache.resolve_sel_c E rf rs).
  Notation resolve_sels_c := (Cache.resolve_sels_c E rf rs).
  Notation resolve_seg_c := (Cache.resolve_seg_c E rf rs).
  Notation resolve_segs_c := (Cache.resolve_segs_c E rf rs).

  Lemma eval_fc_list on items pos st root ctx cur key :
    eval_fc on (FList items) pos st root ctx cur key =
    cached on (FList items) pos st (fun st =>
      r <- eval_fsc on items pos 0 st root ctx cur key ;;
      Ok (VVal (JArr (map (fun v => match v with VVal j => j | _ => JNull end) (fst r))), snd r)).
  Proof. reflexivity. Qed.
  Lemma eval_fc_not on r pos st root ctx cur key :
    eval_fc on (FNot r) pos st root ctx cur key =
    cached on (FNot r) pos st (fun st =>
      x <- eval_fc on r (pos ++ [0]) st root ctx cur key ;;
      Ok (bool_val (negb (is_truthy (fst x))), snd x)).
  Proof. reflexivity. Qed.
  Lemma eval_fc_infix on l o r pos st root ctx cur key :
    eval_fc on (FInfix l o r) pos st root ctx cur key =
    cached on (FInfix l o r) pos st (fun st =>
      a <- eval_fc on l (pos ++ [0]) st root ctx cur key ;;
      b <- eval_fc on r (pos ++ [1]) (snd a) root ctx cur key ;;
      Ok (bool_val (filter_compare rf (if is_logical o then fst a else unwrap (fst a)) o
                                      (if is_logical o then fst b else unwrap (fst b))), snd b)).
  Proof. reflexivity. Qed.
  Lemma eval_fc_self on p pos st root ctx cur key :
    eval_fc on (FSelf p) pos st root ctx cur key =
    cached on (FSelf p) pos st (fun st =>
      ns <- resolve_segs_c p root ctx [root_match E cur] ;; Ok (VNodes ns, st)).
  Proof. reflexivity. Qed.
  Lemma eval_fc_root on fake p pos st root ctx cur key :
    eval_fc on (FRoot fake p) pos st root ctx cur key =
    cached on (FRoot fake p) pos st (fun st =>
      ns <- resolve_segs_c p root ctx [root_match E (if fake then JArr [root] else root)] ;;
      Ok (VNodes ns, st)).
  Proof. reflexivity. Qed.
  Lemma eval_fc_ctx on p pos st root ctx cur key :
    eval_fc on (FCtx p) pos st root ctx cur key =
    cached on (FCtx p) pos st (fun st =>
      ns <- resolve_segs_c p root ctx [root_match E ctx] ;; Ok (VNodes ns, st)).
  Proof. reflexivity. Qed.
  Lemma eval_fc_func on name args pos st root ctx cur key :
    eval_fc on (FFunc name args) pos st root ctx cur key =
    cached on (FFunc name args) pos st (fun st =>
      match signature name with
      | None => Err EUnsupported
      | Some (ts, _) =>
          r <- eval_fsc on args pos 0 st root ctx cur key ;;
          us <- unpack_args ts (fst r) ;;
          v <- call_function rf rs name us ;;
          Ok (v, snd r)
      end).
  Proof. reflexivity. Qed.
  Lemma eval_fsc_cons on e r pos i st root ctx cur key :
    eval_fsc on (ECons e r) pos i st root ctx cur key =
    (a <- eval_fc on e (pos ++ [i]) st root ctx cur key ;;
     b <- eval_fsc on r pos (S i) (snd a) root ctx cur key ;;
     Ok (fst a :: fst b, snd b)).
  Proof. reflexivity. Qed.

  (* the loop of Filter.resolve over the candidates, sharing the cells *)
  Fixpoint filter_go (on : bool) (e : fexpr) (root ctx : json)
           (cands : list (json * json * jmatch)) (st : store) : result (list jmatch) :=
    match cands with
    | [] => Ok []
    | (cur, key, child) :: cands' =>
        r <- eval_fc on e [] st root ctx cur key ;;
        rest <- filter_go on e root ctx cands' (snd r) ;;
        Ok ((if is_truthy (fst r) then [child] else []) ++ rest)
    end.

  Lemma resolve_sel_c_filter e root ctx m :
    resolve_sel_c (SFilter e) root ctx m =
    filter_go (any_cacheable e && e_filter_caching E) e root ctx (filter_candidates m) [].
  Proof.
    change (resolve_sel_c (SFilter e) root ctx m) with
      ((fix go (cands : list (json * json * jmatch)) (st : store) : result (list jmatch) :=
          match cands with
          | [] => Ok []
          | (cur, key, child) :: cands' =>
              r <- eval_fc (any_cacheable e && e_filter_caching E) e [] st root ctx cur key ;;
              rest <- go cands' (snd r) ;;
              Ok ((if is_truthy (fst r) then [child] else []) ++ rest)
          end) (filter_candidates m) []).
    generalize (@nil (position * fval)). generalize (filter_candidates m).
    induction l as [|[[cur key] child] l IH]; intros st; [reflexivity|].
    cbn [filter_go]. destruct (eval_fc _ e [] st root ctx cur key) as [r|x]; [|reflexivity].
    cbn [bind]. rewrite IH. reflexivity.
  Qed.

  Lemma resolve_sels_c_cons s r root ctx m :
    resolve_sels_c (LCons s r) root ctx m =
    (x <- resolve_sel_c s root ctx m ;; y <- resolve_sels_c r root ctx m ;; Ok (x ++ y)).
  Proof. reflexivity. Qed.
  Lemma resolve_seg_c_sel s root ctx ms :
    resolve_seg_c (GSel s) root ctx ms = concat_results (map (resolve_sel_c s root ctx) ms).
  Proof. reflexivity. Qed.
  Lemma resolve_seg_c_list items root ctx ms :
    resolve_seg_c (GList items) root ctx ms = concat_results (map (resolve_sels_c items root ctx) ms).
  Proof. reflexivity. Qed.
  Lemma resolve_segs_c_cons g r root ctx ms :
    resolve_segs_c (PCons g r) root ctx ms =
    (ms' <- resolve_seg_c g root ctx ms ;; resolve_segs_c r root ctx ms').
  Proof. reflexivity. Qed.
End CacheEqns.

(* ---- transparency ----------------------------------------------------------------------------- *)

Section Transparent.
  Variable E : env.
  Variable rf : ustr -> reflags -> ustr -> option bool.
  Variable rs : ustr -> ustr -> option bool.
  Notation eval_f := (Eval.eval_f E rf rs).
  Notation eval_fs := (Eval.eval_fs E rf rs).
  Notation resolve_sel := (Eval.resolve_sel E rf rs).
  Notation resolve_sels := (Eval.resolve_sels E rf rs).
  Notation resolve_seg := (Eval.resolve_seg E rf rs).
  Notation resolve_segs := (Eval.resolve_segs E rf rs).
  Notation eval_fc := (Cache.eval_fc E rf rs).
  Notation eval_fsc := (Cache.eval_fsc E rf rs).
  Notation resolve_sel_c := (Cache.resolve_sel_c E rf rs).
  Notation resolve_sels_c := (Cache.resolve_sels_c E rf rs).
  Notation resolve_seg_c := (Cache.resolve_seg_c E rf rs).
  Notation resolve_segs_c := (Cache.resolve_segs_c E rf rs).

  (* what the cells of the cache tree of e0 may hold, during one Filter.resolve call *)
  Definition Inv (e0 : fexpr) (root ctx : json) (st : store) : Prop :=
    forall pos v, store_get pos st = Some v ->
      exists sub, subexpr_at e0 pos = Some sub /\ volatile sub = false /\
                  forall cur key, eval_f sub root ctx cur key = Ok v.

  (* a store-threading computation agrees with a pure one and keeps the invariant *)
  Definition agrees {A} (P : store -> Prop) (r : result A) (rc : result (A * store)) : Prop :=
    match r with
    | Ok v => exists st', rc = Ok (v, st') /\ P st'
    | Err x => rc = Err x
    end.

  Lemma agrees_bind {A B} (P : store -> Prop) (r : result A) (rc : result (A * store))
        (f : A -> result B) (fc : A * store -> result (B * store)) :
    agrees P r rc -> (forall v st', P st' -> agrees P (f v) (fc (v, st'))) ->
    agrees P (bind r f) (bind rc fc).
  Proof.
    intros Hr Hf. destruct r as [v|x]; cbn [agrees] in Hr.
    - destruct Hr as (st' & -> & HP). cbn [bind]. apply Hf. exact HP.
    - rewrite Hr. reflexivity.
  Qed.

  Lemma agrees_ret {A} (P : store -> Prop) (v : A) st : P st -> agrees P (Ok v) (Ok (v, st)).
  Proof. intros HP. exists st. split; [reflexivity|exact HP]. Qed.

  Lemma cached_agrees on e0 root ctx e pos st cur key compute :
    subexpr_at e0 pos = Some e -> Inv e0 root ctx st ->
    agrees (Inv e0 root ctx) (eval_f e root ctx cur key) (compute st) ->
    agrees (Inv e0 root ctx) (eval_f e root ctx cur key) (cached on e pos st compute).
  Proof.
    intros Hsub Hinv Hc. unfold cached.
    destruct (on && cacheable e) eqn:Hon; [|exact Hc].
    apply andb_true_iff in Hon as [_ Hcache]. unfold cacheable in Hcache.
    apply andb_true_iff in Hcache as [Hvol _]. apply negb_true_iff in Hvol.
    destruct (store_get pos st) as [v|] eqn:Hget.
    - (* hit *)
      destruct (Hinv pos v Hget) as (sub & Hsub' & _ & Hev).
      rewrite Hsub in Hsub'. injection Hsub' as <-. rewrite (Hev cur key).
      apply agrees_ret. exact Hinv.
    - (* miss: compute and fill the cell *)
      destruct (eval_f e root ctx cur key) as [v|x] eqn:Hev; cbn [agrees] in Hc |- *.
      + destruct Hc as (st' & -> & Hinv'). cbn [bind fst snd].
        eexists. split; [reflexivity|].
        intros pos' v' Hget'. unfold store_put in Hget'. cbn [store_get] in Hget'.
        destruct (pos_eqb pos' pos) eqn:Hp.
        * apply pos_eqb_eq in Hp. subst pos'. injection Hget' as <-.
          exists e. split; [exact Hsub|]. split; [exact Hvol|].
          intros cur' key'. rewrite <- Hev. apply nonvolatile_indep. exact Hvol.
        * apply Hinv'. exact Hget'.
      + rewrite Hc. reflexivity.
  Qed.

  Definition Pf (e : fexpr) : Prop :=
    forall on e0 root ctx pos st cur key,
      subexpr_at e0 pos = Some e -> Inv e0 root ctx st ->
      agrees (Inv e0 root ctx) (eval_f e root ctx cur key) (eval_fc on e pos st root ctx cur key).

  Definition Pfs (es : fexprs) : Prop :=
    forall on e0 root ctx pos i st cur key,
      (forall j c, nth_fexpr es j = Some c -> subexpr_at e0 (pos ++ [i + j]) = Some c) ->
      Inv e0 root ctx st ->
      agrees (Inv e0 root ctx) (eval_fs es root ctx cur key) (eval_fsc on es pos i st root ctx cur key).

  Definition Psel (s : selector) : Prop :=
    forall root ctx m, resolve_sel_c s root ctx m = resolve_sel s root ctx m.
  Definition Psels (l : sels) : Prop :=
    forall root ctx m, resolve_sels_c l root ctx m = resolve_sels l root ctx m.
  Definition Pseg (g : segment) : Prop :=
    forall root ctx ms, resolve_seg_c g root ctx ms = resolve_seg g root ctx ms.
  Definition Psegs (p : segs) : Prop :=
    forall root ctx ms, resolve_segs_c p root ctx ms = resolve_segs p root ctx ms.

  Lemma case_lit e :
    (forall on pos st root ctx cur key,
        exists v, eval_f e root ctx cur key = Ok v /\ eval_fc on e pos st root ctx cur key = Ok (v, st)) ->
    Pf e.
  Proof.
    intros H on e0 root ctx pos st cur key _ Hinv.
    destruct (H on pos st root ctx cur key) as (v & -> & ->). apply agrees_ret. exact Hinv.
  Qed.

  Lemma items_positions e0 pos e items :
    subexpr_at e0 pos = Some e -> (forall j, child_at e j = nth_fexpr items j) ->
    forall j c, nth_fexpr items j = Some c -> subexpr_at e0 (pos ++ [0 + j]) = Some c.
  Proof.
    intros Hsub Hch j c Hj. apply (subexpr_child e0 pos e); [exact Hsub|].
    rewrite Hch. exact Hj.
  Qed.

  Lemma case_FList items : Pfs items -> Pf (FList items).
  Proof.
    intros IH on e0 root ctx pos st cur key Hsub Hinv.
    rewrite eval_fc_list. apply cached_agrees; [exact Hsub|exact Hinv|].
    rewrite eval_list. apply agrees_bind.
    - apply IH; [|exact Hinv].
      apply (items_positions e0 pos (FList items) items Hsub). intros j. reflexivity.
    - intros vs st' Hinv'. apply agrees_ret. exact Hinv'.
  Qed.

  Lemma case_FNot r : Pf r -> Pf (FNot r).
  Proof.
    intros IH on e0 root ctx pos st cur key Hsub Hinv.
    rewrite eval_fc_not. apply cached_agrees; [exact Hsub|exact Hinv|].
    rewrite eval_not. apply agrees_bind.
    - apply IH; [|exact Hinv]. apply (subexpr_child e0 pos (FNot r) 0 r Hsub). reflexivity.
    - intros v st' Hinv'. apply agrees_ret. exact Hinv'.
  Qed.

  Lemma case_FInfix l o r : Pf l -> Pf r -> Pf (FInfix l o r).
  Proof.
    intros IHl IHr on e0 root ctx pos st cur key Hsub Hinv.
    rewrite eval_fc_infix. apply cached_agrees; [exact Hsub|exact Hinv|].
    rewrite eval_infix. apply agrees_bind.
    - apply IHl; [|exact Hinv]. apply (subexpr_child e0 pos (FInfix l o r) 0 l Hsub). reflexivity.
    - intros lv st1 Hinv1. cbn [fst snd]. apply agrees_bind.
      + apply IHr; [|exact Hinv1]. apply (subexpr_child e0 pos (FInfix l o r) 1 r Hsub). reflexivity.
      + intros rv st2 Hinv2. apply agrees_ret. exact Hinv2.
  Qed.

  Lemma query_agrees e0 root ctx st (r : result (list jmatch)) :
    Inv e0 root ctx st ->
    agrees (Inv e0 root ctx) (ns <- r ;; Ok (VNodes ns)) (ns <- r ;; Ok (VNodes ns, st)).
  Proof. intros Hinv. destruct r as [ns|x]; [apply agrees_ret; exact Hinv|reflexivity]. Qed.

  Lemma case_FSelf p : Psegs p -> Pf (FSelf p).
  Proof.
    intros IH on e0 root ctx pos st cur key Hsub Hinv.
    rewrite eval_fc_self. apply cached_agrees; [exact Hsub|exact Hinv|].
    rewrite eval_self, IH. apply query_agrees. exact Hinv.
  Qed.

  Lemma case_FRoot fake p : Psegs p -> Pf (FRoot fake p).
  Proof.
    intros IH on e0 root ctx pos st cur key Hsub Hinv.
    rewrite eval_fc_root. apply cached_agrees; [exact Hsub|exact Hinv|].
    rewrite eval_root, IH. apply query_agrees. exact Hinv.
  Qed.

  Lemma case_FCtx p : Psegs p -> Pf (FCtx p).
  Proof.
    intros IH on e0 root ctx pos st cur key Hsub Hinv.
    rewrite eval_fc_ctx. apply cached_agrees; [exact Hsub|exact Hinv|].
    rewrite eval_ctx, IH. apply query_agrees. exact Hinv.
  Qed.

  Lemma case_FFunc name args : Pfs args -> Pf (FFunc name args).
  Proof.
    intros IH on e0 root ctx pos st cur key Hsub Hinv.
    rewrite eval_fc_func. apply cached_agrees; [exact Hsub|exact Hinv|].
    rewrite eval_func. destruct (signature name) as [[ts t]|]; [|reflexivity].
    apply agrees_bind.
    - apply IH; [|exact Hinv].
      apply (items_positions e0 pos (FFunc name args) args Hsub). intros j. reflexivity.
    - intros vs st' Hinv'. cbn [fst snd].
      destruct (unpack_args ts vs) as [us|x]; [|reflexivity]. cbn [bind].
      destruct (call_function rf rs name us) as [v|x]; [|reflexivity].
      apply agrees_ret. exact Hinv'.
  Qed.

  Lemma case_ENil : Pfs ENil.
  Proof. intros on e0 root ctx pos i st cur key _ Hinv. apply agrees_ret. exact Hinv. Qed.

  Lemma case_ECons e r : Pf e -> Pfs r -> Pfs (ECons e r).
  Proof.
    intros IHe IHr on e0 root ctx pos i st cur key Hpos Hinv.
    rewrite eval_fsc_cons, eval_fs_cons. apply agrees_bind.
    - apply IHe; [|exact Hinv]. rewrite <- (Nat.add_0_r i). apply Hpos. reflexivity.
    - intros v st1 Hinv1. cbn [fst snd]. apply agrees_bind.
      + apply IHr; [|exact Hinv1]. intros j c Hj.
        replace (S i + j) with (i + S j) by lia. apply Hpos. exact Hj.
      + intros vs st2 Hinv2. apply agrees_ret. exact Hinv2.
  Qed.

  Lemma filter_go_agrees e root ctx : Pf e -> forall on cands st,
    Inv e root ctx st ->
    filter_go E rf rs on e root ctx cands st =
    concat_results
      (map (fun c => let '(cur, key, child) := c in
                     v <- eval_f e root ctx cur key ;;
                     Ok (if is_truthy v then [child] else []))
           cands).
  Proof.
    intros He on cands. induction cands as [|[[cur key] child] cands IH]; intros st Hinv; [reflexivity|].
    cbn [filter_go map concat_results].
    pose proof (He on e root ctx [] st cur key eq_refl Hinv) as Hag.
    destruct (eval_f e root ctx cur key) as [v|x]; cbn [agrees] in Hag.
    - destruct Hag as (st' & -> & Hinv'). cbn [bind fst snd]. rewrite (IH st' Hinv'). reflexivity.
    - rewrite Hag. reflexivity.
  Qed.

  Lemma case_SFilter e : Pf e -> Psel (SFilter e).
  Proof.
    intros He root ctx m. rewrite resolve_sel_c_filter, resolve_sel_filter.
    apply filter_go_agrees; [exact He|]. intros pos v Hget. discriminate Hget.
  Qed.

  Lemma map_ext_eq {A B} (f g : A -> B) l : (forall x, f x = g x) -> map f l = map g l.
  Proof. intros H. apply map_ext. exact H. Qed.

  Theorem cached_correct :
    (forall e, Pf e) /\ (forall es, Pfs es) /\ (forall s, Psel s) /\ (forall l, Psels l) /\
    (forall g, Pseg g) /\ (forall p, Psegs p).
  Proof.
    apply syntax_mutind.
    - apply case_lit. intros. eexists. split; reflexivity.
    - apply case_lit. intros. eexists. split; reflexivity.
    - intros b. apply case_lit. intros. eexists. split; reflexivity.
    - intros z. apply case_lit. intros. eexists. split; reflexivity.
    - intros n. apply case_lit. intros. eexists. split; reflexivity.
    - intros s. apply case_lit. intros. eexists. split; reflexivity.
    - intros p fl. apply case_lit. intros. eexists. split; reflexivity.
    - exact case_FList.
    - exact case_FNot.
    - intros l Hl o r Hr. apply case_FInfix; assumption.
    - exact case_FSelf.
    - exact case_FRoot.
    - exact case_FCtx.
    - apply case_lit. intros. eexists. split; reflexivity.
    - exact case_FFunc.
    - exact case_ENil.
    - intros e He r Hr. apply case_ECons; assumption.
    - intros name root ctx m. reflexivity.
    - intros i root ctx m. reflexivity.
    - intros a b c root ctx m. reflexivity.
    - intros root ctx m. reflexivity.
    - intros root ctx m. reflexivity.
    - exact case_SFilter.
    - intros root ctx m. reflexivity.
    - intros s Hs r Hr root ctx m.
      rewrite resolve_sels_c_cons, resolve_sels_cons, Hs, Hr. reflexivity.
    - intros s Hs root ctx ms.
      rewrite resolve_seg_c_sel, resolve_seg_sel. f_equal. apply map_ext_eq. intros m. apply Hs.
    - intros root ctx ms. reflexivity.
    - intros items Hs root ctx ms.
      rewrite resolve_seg_c_list, resolve_seg_list. f_equal. apply map_ext_eq. intros m. apply Hs.
    - intros root ctx ms. reflexivity.
    - intros g Hg r Hr root ctx ms.
      rewrite resolve_segs_c_cons, resolve_segs_cons, Hg.
      destruct (resolve_seg g root ctx ms) as [ms'|x]; [|reflexivity]. cbn [bind]. apply Hr.
  Qed.

  Theorem cache_transparent_sec (p : jpath) (d ctx : json) :
    finditer_c E rf rs p d ctx = finditer E rf rs p d ctx.
  Proof.
    unfold finditer_c, finditer.
    destruct cached_correct as (_ & _ & _ & _ & _ & H). apply H.
  Qed.
End Transparent.

Definition cache_transparent := cache_transparent_sec.
