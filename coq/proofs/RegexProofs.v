(* RegexProofs.v — the matcher of rt/Regex.v computes the denotational semantics of spec/RegexSem.v:
   the bracket-class test, nullability, Brzozowski derivatives, the simplifier, re_matches, and hence
   regex_fullmatch / regex_search on every pattern the parser accepts. *)
From Coq Require Import NArith List Bool Lia.
From JP Require Import Base PyStr Regex RegexSem.
Import ListNotations.
Local Open Scope N_scope.

Local Ltac inv H := inversion H; subst; clear H.

(* ---------------------------------------------------------------------- *)
(* one character against a class *)

Lemma in_ranges_spec rs c : in_ranges c rs = true <-> in_class rs c.
Proof.
  unfold in_ranges, in_class. rewrite existsb_exists. split.
  - intros [[lo hi] [Hin H]]. cbn [fst snd] in H. apply andb_true_iff in H as [H1 H2].
    apply N.leb_le in H1, H2. exists lo, hi. auto.
  - intros (lo & hi & Hin & H1 & H2). exists (lo, hi). split; [exact Hin|]. cbn [fst snd].
    apply andb_true_iff. split; apply N.leb_le; assumption.
Qed.

Lemma fold_case_lower c : fold_case c = ascii_lower c.
Proof. reflexivity. Qed.

Lemma lower_cases (c : N) :
  (65 <= c <= 90 /\ ascii_lower c = c + 32) \/ (~ (65 <= c <= 90) /\ ascii_lower c = c).
Proof.
  unfold ascii_lower. destruct (N.leb_spec 65 c); destruct (N.leb_spec c 90); cbn [andb]; lia.
Qed.

Lemma hit_spec (icase : bool) rs c :
  (if icase
   then in_ranges c rs || in_ranges (fold_case c) rs ||
        (if (97 <=? c) && (c <=? 122) then in_ranges (c - 32) rs else false)
   else in_ranges c rs) = true <-> class_hit icase rs c.
Proof.
  unfold class_hit, same_char. destruct icase.
  - rewrite fold_case_lower. split.
    + intros H. apply orb_true_iff in H as [H|H]; [apply orb_true_iff in H as [H|H]|].
      * exists c. split; [left; reflexivity|apply in_ranges_spec; exact H].
      * exists (ascii_lower c). split; [|apply in_ranges_spec; exact H]. right. split; [reflexivity|].
        destruct (lower_cases c) as [[Hc Ec]|[Hc Ec]]; rewrite Ec; [|rewrite Ec; reflexivity].
        destruct (lower_cases (c + 32)) as [[Hd _]|[_ Ed]]; [lia|rewrite Ed; reflexivity].
      * destruct (N.leb_spec 97 c); destruct (N.leb_spec c 122); cbn [andb] in H; try discriminate H.
        exists (c - 32). split; [|apply in_ranges_spec; exact H]. right. split; [reflexivity|].
        destruct (lower_cases c) as [[Hc _]|[_ Ec]]; [lia|]. rewrite Ec.
        destruct (lower_cases (c - 32)) as [[_ Ed]|[Hd _]]; [rewrite Ed|]; lia.
    + intros (d & Hs & Hd). apply in_ranges_spec in Hd.
      assert (Hcases : d = c \/ d = ascii_lower c \/ (97 <= c <= 122 /\ d = c - 32)).
      { destruct Hs as [->|[_ Hs]]; [left; reflexivity|].
        destruct (lower_cases c) as [[Hc Ec]|[Hc Ec]]; destruct (lower_cases d) as [[Hd' Ed]|[Hd' Ed]];
          rewrite Ec, Ed in Hs; rewrite ?Ec; lia. }
      destruct Hcases as [->|[->|[Hc ->]]].
      * rewrite Hd. reflexivity.
      * rewrite Hd. rewrite orb_true_r. reflexivity.
      * destruct (N.leb_spec 97 c); [|lia]. destruct (N.leb_spec c 122); [|lia]. cbn [andb]. rewrite Hd.
        apply orb_true_r.
  - rewrite in_ranges_spec. split.
    + intros H. exists c. split; [left; reflexivity|exact H].
    + intros (d & [->|[Hf _]] & Hd); [exact Hd|discriminate Hf].
Qed.

Theorem set_matches_spec icase neg rs c :
  set_matches icase neg rs c = true <-> class_has icase neg rs c.
Proof.
  unfold set_matches, class_has. cbv zeta. pose proof (hit_spec icase rs c) as H.
  destruct neg; [|exact H]. rewrite negb_true_iff. rewrite <- H.
  destruct (if icase then _ else _); split; intros H'; try discriminate; try reflexivity; try (intros H''; discriminate H'').
  contradiction H'. reflexivity.
Qed.

(* ---------------------------------------------------------------------- *)
(* inversion of the semantics *)

Section Sem.
  Variable icase : bool.
  Notation matches := (matches icase).

  Lemma none_empty s : ~ matches RNone s.
  Proof. intros H. inv H. Qed.

  Lemma eps_inv s : matches REps s <-> s = [].
  Proof. split; [intros H; inv H; reflexivity|intros ->; constructor]. Qed.

  Lemma set_inv neg rs s : matches (RSet neg rs) s <-> exists c, s = [c] /\ class_has icase neg rs c.
  Proof. split; [intros H; inv H; eauto|intros (c & -> & H); constructor; exact H]. Qed.

  Lemma seq_inv a b s : matches (RSeq a b) s <-> exists s1 s2, s = s1 ++ s2 /\ matches a s1 /\ matches b s2.
  Proof. split; [intros H; inv H; eauto|intros (s1 & s2 & -> & H1 & H2); constructor; assumption]. Qed.

  Lemma alt_inv a b s : matches (RAlt a b) s <-> matches a s \/ matches b s.
  Proof. split; [intros H; inv H; auto|intros [H|H]; [apply M_alt_l|apply M_alt_r]; exact H]. Qed.

  (* a non-empty word of a* begins with a non-empty word of a *)
  Lemma star_cons_inv a c s :
    matches (RStar a) (c :: s) -> exists s1 s2, s = s1 ++ s2 /\ matches a (c :: s1) /\ matches (RStar a) s2.
  Proof.
    intros H. remember (RStar a) as r eqn:Er. remember (c :: s) as w eqn:Ew. revert a c s Er Ew.
    induction H as [| | | | | |a' s1 s2 H1 _ H2 IH2]; intros a0 c0 s0 Er Ew; try discriminate Er.
    - discriminate Ew.
    - injection Er as ->. destruct s1 as [|c1 s1'].
      + cbn [app] in Ew. exact (IH2 a0 c0 s0 eq_refl Ew).
      + cbn [app] in Ew. injection Ew as -> <-. exists s1', s2. auto.
  Qed.

  Lemma star_unfold a s :
    matches (RStar a) s <-> s = [] \/ exists s1 s2, s = s1 ++ s2 /\ matches a s1 /\ matches (RStar a) s2.
  Proof.
    split.
    - intros H. inv H; [left; reflexivity|right; eauto].
    - intros [->|(s1 & s2 & -> & H1 & H2)]; [apply M_star_nil|apply M_star_cons; assumption].
  Qed.

  (* ---------------------------------------------------------------------- *)
  (* nullability *)

  Lemma matches_nil_nullable r s : matches r s -> s = [] -> nullable r = true.
  Proof.
    intros H. induction H as [|neg rs c _|a b s1 s2 _ IH1 _ IH2|a b s _ IH|a b s _ IH| |a s1 s2 _ _ _ _]; intros E;
      cbn [nullable]; try reflexivity.
    - discriminate E.
    - apply app_eq_nil in E as [-> ->]. rewrite IH1, IH2; reflexivity.
    - rewrite (IH E). reflexivity.
    - rewrite (IH E). apply orb_true_r.
  Qed.

  Theorem nullable_spec r : nullable r = true <-> matches r [].
  Proof.
    split; [|intros H; exact (matches_nil_nullable r [] H eq_refl)].
    induction r as [| |neg rs|a IHa b IHb|a IHa b IHb|a _]; cbn [nullable]; intros H; try discriminate H.
    - constructor.
    - apply andb_true_iff in H as [H1 H2]. exact (M_seq icase a b [] [] (IHa H1) (IHb H2)).
    - apply orb_true_iff in H as [H|H]; [apply M_alt_l; exact (IHa H)|apply M_alt_r; exact (IHb H)].
    - apply M_star_nil.
  Qed.

  (* ---------------------------------------------------------------------- *)
  (* derivatives *)

  Theorem deriv_spec c r : forall s, matches (deriv icase c r) s <-> matches r (c :: s).
  Proof.
    induction r as [| |neg rs|a IHa b IHb|a IHa b IHb|a IHa]; intros s; cbn [deriv].
    - split; intros H; inv H.
    - split; intros H; inv H.
    - destruct (set_matches icase neg rs c) eqn:Hm.
      + rewrite eps_inv, set_inv. split.
        * intros ->. exists c. split; [reflexivity|]. apply set_matches_spec. exact Hm.
        * intros (c' & E & _). injection E as _ ->. reflexivity.
      + split; [intros H; inv H|]. rewrite set_inv. intros (c' & E & H). injection E as <- ->.
        apply set_matches_spec in H. rewrite H in Hm. discriminate Hm.
    - assert (Hleft : matches (RSeq (deriv icase c a) b) s <->
                      exists s1 s2, s = s1 ++ s2 /\ matches a (c :: s1) /\ matches b s2).
      { rewrite seq_inv. split; intros (s1 & s2 & E & H1 & H2); exists s1, s2; (split; [exact E|]);
          (split; [apply IHa; exact H1|exact H2]). }
      cbv zeta. destruct (nullable a) eqn:Hn.
      + rewrite alt_inv, Hleft, IHb, seq_inv. split.
        * intros [(s1 & s2 & -> & H1 & H2)|H].
          -- exists (c :: s1), s2. auto.
          -- exists [], (c :: s). split; [reflexivity|]. split; [apply nullable_spec; exact Hn|exact H].
        * intros (s1 & s2 & E & H1 & H2). destruct s1 as [|c1 s1'].
          -- cbn [app] in E. subst s2. right. exact H2.
          -- cbn [app] in E. injection E as <- ->. left. exists s1', s2. auto.
      + rewrite Hleft, seq_inv. split.
        * intros (s1 & s2 & -> & H1 & H2). exists (c :: s1), s2. auto.
        * intros (s1 & s2 & E & H1 & H2). destruct s1 as [|c1 s1'].
          -- apply nullable_spec in H1. rewrite H1 in Hn. discriminate Hn.
          -- cbn [app] in E. injection E as <- ->. exists s1', s2. auto.
    - rewrite !alt_inv, IHa, IHb. reflexivity.
    - rewrite seq_inv. split.
      + intros (s1 & s2 & -> & H1 & H2). apply IHa in H1. exact (M_star_cons icase a (c :: s1) s2 H1 H2).
      + intros H. destruct (star_cons_inv a c s H) as (s1 & s2 & E & H1 & H2).
        exists s1, s2. split; [exact E|]. split; [apply IHa; exact H1|exact H2].
  Qed.

  (* ---------------------------------------------------------------------- *)
  (* the simplifier *)

  Lemma seq_none_l b s : matches (RSeq RNone b) s <-> matches RNone s.
  Proof. rewrite seq_inv. split; [intros (s1 & s2 & _ & H & _); inv H|intros H; inv H]. Qed.
  Lemma seq_none_r a s : matches (RSeq a RNone) s <-> matches RNone s.
  Proof. rewrite seq_inv. split; [intros (s1 & s2 & _ & _ & H); inv H|intros H; inv H]. Qed.
  Lemma seq_eps_l b s : matches (RSeq REps b) s <-> matches b s.
  Proof.
    rewrite seq_inv. split.
    - intros (s1 & s2 & -> & H1 & H2). apply eps_inv in H1. subst s1. exact H2.
    - intros H. exists [], s. split; [reflexivity|]. split; [constructor|exact H].
  Qed.
  Lemma seq_eps_r a s : matches (RSeq a REps) s <-> matches a s.
  Proof.
    rewrite seq_inv. split.
    - intros (s1 & s2 & -> & H1 & H2). apply eps_inv in H2. subst s2. rewrite app_nil_r. exact H1.
    - intros H. exists s, []. split; [rewrite app_nil_r; reflexivity|]. split; [exact H|constructor].
  Qed.
  Lemma alt_none_l b s : matches (RAlt RNone b) s <-> matches b s.
  Proof. rewrite alt_inv. split; [intros [H|H]; [inv H|exact H]|auto]. Qed.
  Lemma alt_none_r a s : matches (RAlt a RNone) s <-> matches a s.
  Proof. rewrite alt_inv. split; [intros [H|H]; [exact H|inv H]|auto]. Qed.

  Lemma star_trivial a s : (forall w, matches a w -> w = []) -> (matches (RStar a) s <-> matches REps s).
  Proof.
    intros Ha. rewrite eps_inv. split; [|intros ->; apply M_star_nil].
    intros H. remember (RStar a) as r eqn:Er. induction H as [| | | | | |a' s1 s2 H1 _ _ IH2]; try discriminate Er.
    - reflexivity.
    - injection Er as ->. rewrite (Ha s1 H1), (IH2 eq_refl). reflexivity.
  Qed.

  Lemma seq_congr a a' b b' :
    (forall s, matches a' s <-> matches a s) -> (forall s, matches b' s <-> matches b s) ->
    forall s, matches (RSeq a' b') s <-> matches (RSeq a b) s.
  Proof.
    intros Ha Hb s. rewrite !seq_inv. split; intros (s1 & s2 & E & H1 & H2); exists s1, s2;
      (split; [exact E|]); (split; [apply Ha; exact H1|apply Hb; exact H2]).
  Qed.

  Lemma alt_congr a a' b b' :
    (forall s, matches a' s <-> matches a s) -> (forall s, matches b' s <-> matches b s) ->
    forall s, matches (RAlt a' b') s <-> matches (RAlt a b) s.
  Proof. intros Ha Hb s. rewrite !alt_inv, Ha, Hb. reflexivity. Qed.

  Lemma star_incl a a' : (forall s, matches a' s -> matches a s) -> forall s, matches (RStar a') s -> matches (RStar a) s.
  Proof.
    intros Ha s H. remember (RStar a') as r eqn:Er. induction H as [| | | | | |a0 s1 s2 H1 _ _ IH2]; try discriminate Er.
    - apply M_star_nil.
    - injection Er as ->. apply M_star_cons; [apply Ha; exact H1|exact (IH2 eq_refl)].
  Qed.

  Lemma star_congr a a' :
    (forall s, matches a' s <-> matches a s) -> forall s, matches (RStar a') s <-> matches (RStar a) s.
  Proof. intros Ha s. split; apply star_incl; intros w; apply Ha. Qed.

  (* the three smart constructors of [simp] *)
  Definition sseq (a b : re) : re :=
    match a, b with
    | RNone, _ | _, RNone => RNone
    | REps, b' => b'
    | a', REps => a'
    | a', b' => RSeq a' b'
    end.
  Definition salt (a b : re) : re :=
    match a, b with
    | RNone, b' => b'
    | a', RNone => a'
    | a', b' => RAlt a' b'
    end.
  Definition sstar (a : re) : re := match a with RNone | REps => REps | a' => RStar a' end.

  Lemma simp_seq a b : simp (RSeq a b) = sseq (simp a) (simp b).
  Proof. cbn [simp]. destruct (simp a), (simp b); reflexivity. Qed.
  Lemma simp_alt a b : simp (RAlt a b) = salt (simp a) (simp b).
  Proof. cbn [simp]. destruct (simp a), (simp b); reflexivity. Qed.
  Lemma simp_star a : simp (RStar a) = sstar (simp a).
  Proof. cbn [simp]. destruct (simp a); reflexivity. Qed.

  Lemma sseq_spec a b s : matches (sseq a b) s <-> matches (RSeq a b) s.
  Proof.
    destruct a, b; cbn [sseq];
      first [ reflexivity | symmetry; apply seq_none_l | symmetry; apply seq_none_r
            | symmetry; apply seq_eps_l | symmetry; apply seq_eps_r ].
  Qed.

  Lemma salt_spec a b s : matches (salt a b) s <-> matches (RAlt a b) s.
  Proof.
    destruct a, b; cbn [salt];
      first [ reflexivity | symmetry; apply alt_none_l | symmetry; apply alt_none_r ].
  Qed.

  Lemma sstar_spec a s : matches (sstar a) s <-> matches (RStar a) s.
  Proof.
    destruct a; cbn [sstar]; try reflexivity; symmetry; apply star_trivial; intros w H; inv H; reflexivity.
  Qed.

  Theorem simp_spec r : forall s, matches (simp r) s <-> matches r s.
  Proof.
    induction r as [| |neg rs|a IHa b IHb|a IHa b IHb|a IHa]; intros s; try reflexivity.
    - rewrite simp_seq, sseq_spec. apply seq_congr; assumption.
    - rewrite simp_alt, salt_spec. apply alt_congr; assumption.
    - rewrite simp_star, sstar_spec. apply star_congr; assumption.
  Qed.

  (* ---------------------------------------------------------------------- *)
  (* the matcher *)

  Theorem re_matches_spec s : forall r, re_matches icase r s = true <-> matches r s.
  Proof.
    induction s as [|c s IH]; intros r; cbn [re_matches].
    - apply nullable_spec.
    - rewrite IH, simp_spec. apply deriv_spec.
  Qed.

  Theorem regex_fullmatch_ast_spec r s : regex_fullmatch_ast icase r s = true <-> matches r s.
  Proof. unfold regex_fullmatch_ast. rewrite re_matches_spec. apply simp_spec. Qed.

  Corollary regex_fullmatch_ast_false r s : regex_fullmatch_ast icase r s = false <-> ~ matches r s.
  Proof.
    rewrite <- regex_fullmatch_ast_spec. destruct (regex_fullmatch_ast icase r s); split; intros H;
      try discriminate; try reflexivity; try (intros H'; discriminate H'). contradiction H. reflexivity.
  Qed.

  (* ---- the derived constructs ---- *)

  Lemma re_all_spec s : matches re_all s.
  Proof.
    unfold re_all. induction s as [|c s IH]; [apply M_star_nil|].
    apply (M_star_cons icase _ [c] s); [|exact IH]. constructor. cbn. intros (d & _ & lo & hi & Hin & _). exact Hin.
  Qed.

  Lemma re_char_spec c s : matches (re_char c) s <-> exists d, s = [d] /\ same_char icase d c.
  Proof.
    unfold re_char. rewrite set_inv. cbn [class_has]. split.
    - intros (d & -> & (d' & Hs & lo & hi & [Hin|[]] & H1 & H2)). injection Hin as <- <-.
      exists d. split; [reflexivity|]. assert (d' = c) by lia. subst d'. exact Hs.
    - intros (d & -> & Hs). exists d. split; [reflexivity|]. exists c. split; [exact Hs|].
      exists c, c. split; [left; reflexivity|lia].
  Qed.

  Lemma any_char_spec dotall s :
    matches (any_char dotall) s <-> exists c, s = [c] /\ (dotall = false -> c <> 10).
  Proof.
    unfold any_char. destruct dotall; rewrite set_inv; cbn [class_has]; split.
    - intros (c & -> & _). exists c. split; [reflexivity|intros H; discriminate H].
    - intros (c & -> & _). exists c. split; [reflexivity|]. intros (d & _ & lo & hi & Hin & _). exact Hin.
    - intros (c & -> & Hn). exists c. split; [reflexivity|]. intros _ ->. apply Hn.
      exists 10. split; [left; reflexivity|]. exists 10, 10. split; [left; reflexivity|lia].
    - intros (c & -> & Hn). exists c. split; [reflexivity|].
      intros (d & Hs & lo & hi & [Hin|[]] & H1 & H2). injection Hin as <- <-. assert (d = 10) by lia. subst d.
      apply (Hn eq_refl). destruct Hs as [->|[_ Hs]]; [reflexivity|].
      destruct (lower_cases c) as [[Hc Ec]|[Hc Ec]]; rewrite Ec in Hs; cbn in Hs; lia.
  Qed.

  Lemma re_opt_spec a s : matches (re_opt a) s <-> s = [] \/ matches a s.
  Proof. unfold re_opt. rewrite alt_inv, eps_inv. reflexivity. Qed.

  Lemma re_plus_spec a s :
    matches (re_plus a) s <-> exists s1 s2, s = s1 ++ s2 /\ matches a s1 /\ matches (RStar a) s2.
  Proof. unfold re_plus. apply seq_inv. Qed.
End Sem.

(* ---------------------------------------------------------------------- *)
(* search *)

Theorem regex_search_ast_spec r s : regex_search_ast r s = true <-> matches_somewhere false r s.
Proof.
  unfold regex_search_ast, matches_somewhere. rewrite re_matches_spec, simp_spec, seq_inv. split.
  - intros (pre & w & -> & _ & H). apply seq_inv in H as (mid & post & -> & H & _). exists pre, mid, post. auto.
  - intros (pre & mid & post & -> & H). exists pre, (mid ++ post). split; [reflexivity|].
    split; [apply re_all_spec|]. constructor; [exact H|apply re_all_spec].
Qed.

Corollary regex_search_ast_false r s : regex_search_ast r s = false <-> ~ matches_somewhere false r s.
Proof.
  rewrite <- regex_search_ast_spec. destruct (regex_search_ast r s); split; intros H;
    try discriminate; try reflexivity; try (intros H'; discriminate H'). contradiction H. reflexivity.
Qed.

(* ---------------------------------------------------------------------- *)
(* the two entry points, on a pattern the parser accepts *)

Lemma verdict (b : bool) (P : Prop) :
  (b = true <-> P) ->
  (Some (Some b) = Some (Some true) <-> P) /\ (Some (Some b) = Some (Some false) <-> ~ P).
Proof.
  intros [T1 T2]. destruct b; split; split; intros H; try reflexivity; try discriminate H.
  - exact (T1 eq_refl).
  - contradiction (H (T1 eq_refl)).
  - discriminate (T2 H).
  - intros M. discriminate (T2 M).
Qed.

Theorem regex_fullmatch_parsed pattern icase dotall r rest s :
  parse_regex dotall pattern = POk r rest -> icase && (negb (is_ascii pattern) || negb (is_ascii s)) = false ->
  regex_fullmatch pattern icase dotall s = Some (Some (regex_fullmatch_ast icase r s)).
Proof. intros Hp Hf. unfold regex_fullmatch. rewrite Hf, Hp. reflexivity. Qed.

Theorem regex_fullmatch_spec pattern icase dotall r rest s :
  parse_regex dotall pattern = POk r rest -> icase && (negb (is_ascii pattern) || negb (is_ascii s)) = false ->
  (regex_fullmatch pattern icase dotall s = Some (Some true) <-> matches icase r s) /\
  (regex_fullmatch pattern icase dotall s = Some (Some false) <-> ~ matches icase r s).
Proof.
  intros Hp Hf. rewrite (regex_fullmatch_parsed pattern icase dotall r rest s Hp Hf).
  apply verdict. apply regex_fullmatch_ast_spec.
Qed.

Theorem regex_search_parsed pattern r rest s :
  parse_regex false pattern = POk r rest -> regex_search pattern s = Some (Some (regex_search_ast r s)).
Proof. intros Hp. unfold regex_search. rewrite Hp. reflexivity. Qed.

Theorem regex_search_spec pattern r rest s :
  parse_regex false pattern = POk r rest ->
  (regex_search pattern s = Some (Some true) <-> matches_somewhere false r s) /\
  (regex_search pattern s = Some (Some false) <-> ~ matches_somewhere false r s).
Proof.
  intros Hp. rewrite (regex_search_parsed pattern r rest s Hp).
  apply verdict. apply regex_search_ast_spec.
Qed.

(* a pattern the parser does not accept never yields a verdict *)
Theorem regex_unparsed pattern icase dotall s :
  (forall r rest, parse_regex dotall pattern <> POk r rest) ->
  regex_fullmatch pattern icase dotall s = None \/ regex_fullmatch pattern icase dotall s = Some None.
Proof.
  intros Hp. unfold regex_fullmatch. destruct (icase && (negb (is_ascii pattern) || negb (is_ascii s))); [left; reflexivity|].
  destruct (parse_regex dotall pattern) as [r rest| |]; [contradiction (Hp r rest); reflexivity|right; reflexivity|left; reflexivity].
Qed.

(* under IGNORECASE the model gives no verdict on non-ASCII text *)
Theorem regex_fullmatch_icase_guard pattern dotall s :
  is_ascii pattern && is_ascii s = false -> regex_fullmatch pattern true dotall s = None.
Proof.
  intros H. unfold regex_fullmatch. cbn [andb].
  destruct (is_ascii pattern); destruct (is_ascii s); try discriminate H; reflexivity.
Qed.
