(* GateLemmas.v — the parser's compile-time checks (model/Parse.v) imply the gate predicates
   (spec/Gate.v); defining equations of the gate's mutual fixpoint. *)
From Coq Require Import ZArith List Bool Lia.
From JP Require Import Base Json PyStr PyJsonStr Syntax Lex Parse Gate.
Import ListNotations.

Definition tr (t : etype) : gtype :=
  match t with TyValue => GValue | TyLogical => GLogical | TyNodes => GNodes end.

Lemma sig_tr name :
  gate_sig name = option_map (fun p => (map tr (fst p), tr (snd p))) (fn_sig name).
Proof.
  unfold gate_sig, fn_sig, gname, u.
  repeat match goal with |- context [ustr_eqb name ?l] => destruct (ustr_eqb name l) end; reflexivity.
Qed.

Lemma returns_tr e : g_returns e = option_map tr (fn_return e).
Proof.
  destruct e; try reflexivity. cbn [g_returns fn_return]. rewrite sig_tr.
  destruct (fn_sig name) as [[ts t]|]; reflexivity.
Qed.

Lemma singular_eq p : singular_query p = g_singular p.
Proof.
  induction p as [|g r IH]; [reflexivity|].
  destruct g as [[]| |[|[] []]]; cbn [singular_query g_singular]; try reflexivity; exact IH.
Qed.

Lemma is_path_eq e : is_path e = g_is_query e.
Proof. reflexivity. Qed.
Lemma path_segs_eq e : path_segs e = g_query_segs e.
Proof. reflexivity. Qed.
Lemma is_literal_eq e : is_literal_or_nil e = g_is_literal e.
Proof. reflexivity. Qed.

Lemma check_uncompared_testable e u : check_uncompared e = Ok u -> g_testable e = true.
Proof.
  unfold check_uncompared, g_testable. rewrite returns_tr, is_literal_eq.
  destruct (fn_return e) as [[]|]; cbn [option_map tr]; try discriminate;
    destruct (g_is_literal e); try discriminate; reflexivity.
Qed.

Lemma check_comparable_comparable e u : check_comparable e = Ok u -> g_comparable e = true.
Proof.
  unfold check_comparable, g_comparable. rewrite returns_tr, is_path_eq, path_segs_eq, singular_eq.
  destruct (g_is_query e && negb (g_singular (g_query_segs e))); [discriminate|].
  cbn [negb andb]. destruct e; try reflexivity.
  destruct (fn_return (FFunc name args)) as [[]|]; cbn [option_map tr]; try discriminate; reflexivity.
Qed.

Lemma check_arg_tr t a : check_arg t a = g_arg_ok (tr t) a.
Proof.
  unfold check_arg, g_arg_ok. rewrite returns_tr, is_path_eq, path_segs_eq, singular_eq.
  destruct t; cbn [tr]; try reflexivity;
    destruct (fn_return a) as [[]|]; reflexivity.
Qed.

Lemma check_args_tr ts args : check_args ts args = g_args_ok (map tr ts) args.
Proof.
  revert args. induction ts as [|t ts IH]; intros [|a args]; try reflexivity.
  cbn [check_args g_args_ok map]. rewrite check_arg_tr, IH. reflexivity.
Qed.

Lemma validate_function_gate name args u :
  validate_function name args = Ok u ->
  exists ts t, gate_sig name = Some (ts, t) /\ g_args_ok ts args = true.
Proof.
  unfold validate_function. rewrite sig_tr.
  destruct (fn_sig name) as [[ts t]|]; [|discriminate].
  destruct (negb (Nat.eqb (length args) (length ts))); [discriminate|].
  destruct (check_args ts args) eqn:Hc; [|discriminate]. intros _.
  exists (map tr ts), (tr t). split; [reflexivity|]. rewrite <- check_args_tr. exact Hc.
Qed.

Lemma fexprs_list_of l : fexprs_list (fexprs_of l) = l.
Proof. induction l as [|e l IH]; [reflexivity|]. cbn [fexprs_of fexprs_list]. rewrite IH. reflexivity. Qed.

Lemma forallb_rev {A} (p : A -> bool) l : forallb p (rev l) = forallb p l.
Proof.
  induction l as [|x l IH]; [reflexivity|].
  cbn [rev forallb]. rewrite forallb_app, IH. cbn [forallb]. rewrite andb_true_r. apply andb_comm.
Qed.

Section GateEqns.
  Variable lo hi : Z.
  Notation gate_expr := (Gate.gate_expr lo hi).
  Notation gate_exprs := (Gate.gate_exprs lo hi).
  Notation gate_sel := (Gate.gate_sel lo hi).
  Notation gate_sels := (Gate.gate_sels lo hi).
  Notation gate_seg := (Gate.gate_seg lo hi).
  Notation gate_segs := (Gate.gate_segs lo hi).

  Lemma gate_expr_list items : gate_expr (FList items) = gate_exprs items.
  Proof. reflexivity. Qed.
  Lemma gate_expr_not r : gate_expr (FNot r) = g_testable r && gate_expr r.
  Proof. reflexivity. Qed.
  Lemma gate_expr_infix l o r :
    gate_expr (FInfix l o r) =
    gate_expr l && gate_expr r &&
    (if g_is_comparison o then g_comparable l && g_comparable r else true) &&
    (match o with BAnd | BOr => g_testable l && g_testable r | _ => true end).
  Proof. reflexivity. Qed.
  Lemma gate_expr_self p : gate_expr (FSelf p) = gate_segs p.
  Proof. reflexivity. Qed.
  Lemma gate_expr_root fake p : gate_expr (FRoot fake p) = gate_segs p.
  Proof. reflexivity. Qed.
  Lemma gate_expr_ctx p : gate_expr (FCtx p) = gate_segs p.
  Proof. reflexivity. Qed.
  Lemma gate_expr_func name args :
    gate_expr (FFunc name args) =
    gate_exprs args &&
    match gate_sig name with
    | Some (ts, _) => g_args_ok ts (fexprs_list args)
    | None => false
    end.
  Proof. reflexivity. Qed.
  Lemma gate_exprs_cons e r : gate_exprs (ECons e r) = gate_expr e && gate_exprs r.
  Proof. reflexivity. Qed.
  Lemma gate_sel_filter e : gate_sel (SFilter e) = g_testable e && gate_expr e.
  Proof. reflexivity. Qed.
  Lemma gate_sels_cons s r : gate_sels (LCons s r) = gate_sel s && gate_sels r.
  Proof. reflexivity. Qed.
  Lemma gate_seg_sel s : gate_seg (GSel s) = gate_sel s.
  Proof. reflexivity. Qed.
  Lemma gate_seg_list items :
    gate_seg (GList items) = match items with LNil => false | _ => gate_sels items end.
  Proof. destruct items; reflexivity. Qed.
  Lemma gate_segs_cons g r : gate_segs (PCons g r) = gate_seg g && gate_segs r.
  Proof. reflexivity. Qed.

  Lemma gate_exprs_of l : gate_exprs (fexprs_of l) = forallb gate_expr l.
  Proof. induction l as [|e l IH]; [reflexivity|]. cbn [fexprs_of forallb]. rewrite gate_exprs_cons, IH. reflexivity. Qed.
  Lemma gate_sels_of l : gate_sels (sels_of l) = forallb gate_sel l.
  Proof. induction l as [|e l IH]; [reflexivity|]. cbn [sels_of forallb]. rewrite gate_sels_cons, IH. reflexivity. Qed.
  Lemma gate_segs_of l : gate_segs (segs_of l) = forallb gate_seg l.
  Proof. induction l as [|e l IH]; [reflexivity|]. cbn [segs_of forallb]. rewrite gate_segs_cons, IH. reflexivity. Qed.

  Lemma gate_seg_list_of l : l <> [] -> gate_seg (GList (sels_of l)) = forallb gate_sel l.
  Proof.
    intros H. rewrite gate_seg_list, <- gate_sels_of. destruct l; [contradiction H; reflexivity|reflexivity].
  Qed.
End GateEqns.
