(* ParseProofs.v — what compiles satisfies the gate (C07); compiling and evaluating only ever
   fail inside the documented JSONPath error family (C06, JSONPath part). *)
From Coq Require Import ZArith List Bool Lia.
From JP Require Import Base Json PyStr PyJsonStr Syntax Lex Parse Eval Gate.
From JP Require Import ParseEqns GateLemmas ParseSpec LexProofs EvalEqns.
Import ListNotations.

Section Compile.
  Variable E : env.
  Variable re_ok : ustr -> option bool.
  Variable Trk : Prop.

  Notation lo := (e_min_index E).
  Notation hi := (e_max_index E).
  Notation post := (ParseSpec.post Trk).
  Notation sinv := (ParseSpec.sinv Trk).
  Notation emp := (ParseSpec.emp Trk).
  Notation G := (ParseSpec.G E).

  Definition gate_path (p : jpath) : bool := gate_segs lo hi (p_segs p).

  Lemma parse_one_post fuel st :
    sinv st -> emp st ->
    post (parse_one E re_ok fuel st) (fun r => G (gate_path (fst r) = true) /\ sinv (snd r)).
  Proof.
    intros Hinv Hemp. unfold parse_one.
    eapply post_bind with (Q := fun st1 => sinv st1 /\ emp st1).
    { destruct (_ || _); [|apply post_ok; split; assumption].
      eapply post_bind; [exact (next_token_post Trk st Hinv)|]. intros r (_ & H1 & H2 & _).
      apply post_ok. split; assumption. }
    intros st1 (Hinv1 & Hemp1).
    destruct (parser_spec E re_ok Trk fuel) as (Hpath & _).
    eapply post_bind; [exact (Hpath false st1 [] Hinv1 Hemp1 (fun _ => eq_refl))|].
    intros r (Hg & Hinv2). cbv zeta.
    destruct (_ || _); [|apply post_syntax].
    apply post_ok. split; [exact Hg|exact Hinv2].
  Qed.

  Definition gate_rest (l : list (setop * jpath)) : bool := forallb (fun op => gate_path (snd op)) l.

  Lemma compile_rest_post pfuel : forall fuel st acc,
    sinv st -> G (gate_rest acc = true) ->
    post (compile_rest E re_ok fuel pfuel st acc) (fun l => G (gate_rest l = true)).
  Proof.
    induction fuel as [|fuel IH]; intros st acc Hinv Hacc; [apply post_fuel|].
    cbn [compile_rest].
    destruct (is_kind TEof (s_cur st)).
    { apply post_ok. intros Hwt. unfold gate_rest. rewrite forallb_rev. exact (Hacc Hwt). }
    eapply post_bind; [exact (peek_post Trk st Hinv)|]. intros pk (_ & Hinv1 & _).
    destruct (is_kind TEof (fst pk)); [apply post_syntax|]. cbv zeta.
    destruct (is_kind TUnion (s_cur (snd pk))).
    { eapply post_bind; [exact (next_token_post Trk (snd pk) Hinv1)|]. intros r (_ & Hinv2 & Hemp2 & _).
      eapply post_bind; [exact (parse_one_post pfuel (snd r) Hinv2 Hemp2)|]. intros p (Hg & Hinv3).
      apply IH; [exact Hinv3|]. intros Hwt. unfold gate_rest in *. cbn [forallb snd].
      rewrite (Hg Hwt), (Hacc Hwt). reflexivity. }
    destruct (is_kind TIntersect (s_cur (snd pk))); [|apply post_syntax].
    eapply post_bind; [exact (next_token_post Trk (snd pk) Hinv1)|]. intros r (_ & Hinv2 & Hemp2 & _).
    eapply post_bind; [exact (parse_one_post pfuel (snd r) Hinv2 Hemp2)|]. intros p (Hg & Hinv3).
    apply IH; [exact Hinv3|]. intros Hwt. unfold gate_rest in *. cbn [forallb snd].
    rewrite (Hg Hwt), (Hacc Hwt). reflexivity.
  Qed.

  Lemma compile_tokens_post toks :
    (Trk -> Forall tok_ok toks) ->
    post (compile_tokens E re_ok toks) (fun q => G (gate_query lo hi q = true)).
  Proof.
    intros Htoks. unfold compile_tokens. cbv zeta.
    assert (Hinit : sinv (mkStream (mkTok TIllegal []) [] toks)).
    { intros HT. pose proof (Htoks HT). cbn. repeat split; auto. }
    unfold init_stream.
    eapply post_bind; [exact (advance_post Trk _ Hinit)|]. intros st (Hinv & Hemp & _).
    eapply post_bind; [exact (parse_one_post _ st Hinv Hemp)|]. intros p (Hg & Hinv1).
    eapply post_bind; [exact (compile_rest_post _ _ (snd p) [] Hinv1 (fun _ => eq_refl))|].
    intros rest Hrest. apply post_ok. intros Hwt.
    unfold gate_query. cbn [q_first q_rest]. unfold gate_path in Hg. rewrite (Hg Hwt).
    exact (Hrest Hwt).
  Qed.
End Compile.

(* ---- C07 ---------------------------------------------------------------------------------- *)

Theorem gate_sound_tokens :
  forall (E : env) re_ok (toks : list token) (q : query),
    e_well_typed E = true ->
    compile_tokens E re_ok toks = Ok q ->
    gate_query (e_min_index E) (e_max_index E) q = true.
Proof.
  intros E re_ok toks q Hwt Hc.
  pose proof (compile_tokens_post E re_ok False toks (fun F => match F with end)) as H.
  rewrite Hc in H. exact (H Hwt).
Qed.

Theorem gate_sound :
  forall (E : env) re_ok (text : ustr) (q : query),
    e_well_typed E = true ->
    compile E re_ok text = Ok q ->
    gate_query (e_min_index E) (e_max_index E) q = true.
Proof. intros E re_ok text q. unfold compile. apply gate_sound_tokens. Qed.

(* ---- C06: compiling ------------------------------------------------------------------------ *)

Theorem compile_family :
  forall (E : env) re_ok (text : ustr),
    match compile E re_ok text with
    | Ok _ => True
    | Err e => jsonpath_family e = true \/ outside_model e = true \/ e = EOutOfFuel
    end.
Proof.
  intros E re_ok text. unfold compile.
  pose proof (compile_tokens_post E re_ok True (tokenize E text) (fun _ => tokenize_ok E text)) as H.
  destruct (compile_tokens E re_ok (tokenize E text)) as [q|e]; [exact I|exact (H I)].
Qed.

(* ---- C06: evaluating what passed the gate ------------------------------------------------- *)

Definition only_jp {A} (r : result A) : Prop :=
  match r with Ok _ => True | Err e => jsonpath_family e = true \/ outside_model e = true end.

Lemma only_bind {A B} (r : result A) (f : A -> result B) :
  only_jp r -> (forall a, r = Ok a -> only_jp (f a)) -> only_jp (bind r f).
Proof. intros Hr Hf. destruct r as [a|e]; [apply Hf; reflexivity|exact Hr]. Qed.

Lemma concat_only {A} (l : list (result (list A))) : Forall only_jp l -> only_jp (concat_results l).
Proof.
  intros H. induction H as [|r l Hr _ IH]; [exact I|].
  cbn [concat_results]. apply only_bind; [exact Hr|]. intros x _.
  apply only_bind; [exact IH|]. intros y _. exact I.
Qed.

Lemma no_nodes_fn a : g_returns a = Some GNodes -> False.
Proof.
  destruct a; try discriminate. unfold g_returns, gate_sig, gname.
  repeat match goal with |- context [ustr_eqb name ?l] => destruct (ustr_eqb name l) end; discriminate.
Qed.

Lemma nodes_arg_query a : g_arg_ok GNodes a = true -> g_is_query a = true.
Proof.
  cbn [g_arg_ok]. destruct (g_is_query a); [reflexivity|]. cbn [orb].
  destruct (g_returns a) as [[]|] eqn:Hr; try discriminate. exfalso. exact (no_nodes_fn a Hr).
Qed.

Lemma args_one t args :
  g_args_ok [t] (fexprs_list args) = true -> exists a, args = ECons a ENil /\ g_arg_ok t a = true.
Proof.
  destruct args as [|a [|b r]]; cbn [fexprs_list g_args_ok]; try discriminate.
  - intros H. apply andb_true_iff in H as [H _]. eauto.
  - rewrite andb_false_r. discriminate.
Qed.

Lemma args_two t1 t2 args :
  g_args_ok [t1; t2] (fexprs_list args) = true -> exists a b, args = ECons a (ECons b ENil).
Proof.
  destruct args as [|a [|b [|c r]]]; cbn [fexprs_list g_args_ok]; try discriminate;
    rewrite ?andb_false_r; try discriminate. eauto.
Qed.

Section EvalFamily.
  Variable E : env.
  Variable rf : ustr -> reflags -> ustr -> option bool.
  Variable rs : ustr -> ustr -> option bool.
  Variable lo hi : Z.
  Notation eval_f := (Eval.eval_f E rf rs).
  Notation eval_fs := (Eval.eval_fs E rf rs).
  Notation resolve_sel := (Eval.resolve_sel E rf rs).
  Notation resolve_sels := (Eval.resolve_sels E rf rs).
  Notation resolve_seg := (Eval.resolve_seg E rf rs).
  Notation resolve_segs := (Eval.resolve_segs E rf rs).
  Notation gate_expr := (Gate.gate_expr lo hi).
  Notation gate_exprs := (Gate.gate_exprs lo hi).
  Notation gate_sel := (Gate.gate_sel lo hi).
  Notation gate_sels := (Gate.gate_sels lo hi).
  Notation gate_seg := (Gate.gate_seg lo hi).
  Notation gate_segs := (Gate.gate_segs lo hi).

  Lemma query_value e root ctx cur key v :
    g_is_query e = true -> eval_f e root ctx cur key = Ok v -> exists ns, v = VNodes ns.
  Proof.
    destruct e; try discriminate; intros _;
      [rewrite eval_self|rewrite eval_root|rewrite eval_ctx];
      match goal with |- context [Eval.resolve_segs ?a ?b ?c ?p ?r ?x ?m] =>
        destruct (Eval.resolve_segs a b c p r x m) as [ns|e] end; cbn [bind]; intros H;
      try discriminate H; injection H as <-; eauto.
  Qed.

  Lemma eval_fs_one a root ctx cur key vs :
    eval_fs (ECons a ENil) root ctx cur key = Ok vs ->
    exists v, eval_f a root ctx cur key = Ok v /\ vs = [v].
  Proof.
    rewrite eval_fs_cons, eval_fs_nil. destruct (eval_f a root ctx cur key) as [v|e]; cbn [bind]; intros H;
      [injection H as <-; eauto|discriminate H].
  Qed.

  Lemma eval_fs_two a b root ctx cur key vs :
    eval_fs (ECons a (ECons b ENil)) root ctx cur key = Ok vs -> exists va vb, vs = [va; vb].
  Proof.
    rewrite !eval_fs_cons, eval_fs_nil.
    destruct (eval_f a root ctx cur key) as [va|e]; cbn [bind]; [|discriminate].
    destruct (eval_f b root ctx cur key) as [vb|e]; cbn [bind]; [|discriminate].
    intros H. injection H as <-. eauto.
  Qed.

  Definition Pf (e : fexpr) : Prop :=
    gate_expr e = true -> forall root ctx cur key, only_jp (eval_f e root ctx cur key).
  Definition Pfs (es : fexprs) : Prop :=
    gate_exprs es = true -> forall root ctx cur key, only_jp (eval_fs es root ctx cur key).
  Definition Psel (s : selector) : Prop :=
    gate_sel s = true -> forall root ctx m, only_jp (resolve_sel s root ctx m).
  Definition Psels (l : sels) : Prop :=
    gate_sels l = true -> forall root ctx m, only_jp (resolve_sels l root ctx m).
  Definition Pseg (g : segment) : Prop :=
    gate_seg g = true -> forall root ctx ms, only_jp (resolve_seg g root ctx ms).
  Definition Psegs (p : segs) : Prop :=
    gate_segs p = true -> forall root ctx ms, only_jp (resolve_segs p root ctx ms).

  Lemma case_query e p v :
    (forall root ctx cur key, eval_f e root ctx cur key =
       (ns <- resolve_segs p root ctx [root_match E (v root ctx cur)] ;; Ok (VNodes ns))) ->
    gate_expr e = gate_segs p -> Psegs p -> Pf e.
  Proof.
    intros Hev Hg IH Hgate root ctx cur key. rewrite Hev. rewrite Hg in Hgate.
    apply only_bind; [apply IH; exact Hgate|]. intros ns _. exact I.
  Qed.

  Lemma case_FFunc name args : Pfs args -> Pf (FFunc name args).
  Proof.
    intros IH Hgate root ctx cur key. rewrite gate_expr_func in Hgate.
    apply andb_true_iff in Hgate as [Hargs Hsig].
    specialize (IH Hargs root ctx cur key).
    rewrite eval_func. unfold signature.
    destruct (ustr_eqb name name_length) eqn:HL.
    { apply ustr_eqb_spec in HL. subst name.
      change (gate_sig name_length) with (Some ([GValue], GValue)) in Hsig.
      apply args_one in Hsig as (a & -> & _).
      destruct (eval_fs (ECons a ENil) root ctx cur key) as [vs|e] eqn:Hev; [|exact IH].
      apply eval_fs_one in Hev as (v & _ & ->). exact I. }
    destruct (ustr_eqb name name_count) eqn:HC.
    { apply ustr_eqb_spec in HC. subst name.
      change (gate_sig name_count) with (Some ([GNodes], GValue)) in Hsig.
      apply args_one in Hsig as (a & -> & Ha). apply nodes_arg_query in Ha.
      destruct (eval_fs (ECons a ENil) root ctx cur key) as [vs|e] eqn:Hev; [|exact IH].
      apply eval_fs_one in Hev as (v & Hv & ->).
      destruct (query_value a root ctx cur key v Ha Hv) as (ns & ->). exact I. }
    destruct (ustr_eqb name name_value) eqn:HV.
    { apply ustr_eqb_spec in HV. subst name.
      change (gate_sig name_value) with (Some ([GNodes], GValue)) in Hsig.
      apply args_one in Hsig as (a & -> & Ha). apply nodes_arg_query in Ha.
      destruct (eval_fs (ECons a ENil) root ctx cur key) as [vs|e] eqn:Hev; [|exact IH].
      apply eval_fs_one in Hev as (v & Hv & ->).
      destruct (query_value a root ctx cur key v Ha Hv) as (ns & ->).
      destruct ns as [|n [|n' ns]]; exact I. }
    destruct (ustr_eqb name name_match) eqn:HM.
    { apply ustr_eqb_spec in HM. subst name.
      change (gate_sig name_match) with (Some ([GValue; GValue], GLogical)) in Hsig.
      apply args_two in Hsig as (a & b & ->).
      destruct (eval_fs (ECons a (ECons b ENil)) root ctx cur key) as [vs|e] eqn:Hev; [|exact IH].
      apply eval_fs_two in Hev as (va & vb & ->). cbn [bind unpack_args].
      destruct (unpack_arg TValue va) as [?|[]| |], (unpack_arg TValue vb) as [?|[]| |]; exact I. }
    destruct (ustr_eqb name name_search) eqn:HS.
    { apply ustr_eqb_spec in HS. subst name.
      change (gate_sig name_search) with (Some ([GValue; GValue], GLogical)) in Hsig.
      apply args_two in Hsig as (a & b & ->).
      destruct (eval_fs (ECons a (ECons b ENil)) root ctx cur key) as [vs|e] eqn:Hev; [|exact IH].
      apply eval_fs_two in Hev as (va & vb & ->). cbn [bind unpack_args].
      destruct (unpack_arg TValue va) as [?|[]| |], (unpack_arg TValue vb) as [?|[]| |]; exact I. }
    destruct (ustr_eqb name name_typeof) eqn:HT.
    { apply ustr_eqb_spec in HT. subst name.
      change (gate_sig name_typeof) with (Some ([GNodes], GValue)) in Hsig.
      apply args_one in Hsig as (a & -> & Ha). apply nodes_arg_query in Ha.
      destruct (eval_fs (ECons a ENil) root ctx cur key) as [vs|e] eqn:Hev; [|exact IH].
      apply eval_fs_one in Hev as (v & Hv & ->).
      destruct (query_value a root ctx cur key v Ha Hv) as (ns & ->).
      destruct ns as [|n [|n' ns]]; exact I. }
    right. reflexivity.
  Qed.

  Theorem eval_only :
    (forall e, Pf e) /\ (forall es, Pfs es) /\ (forall s, Psel s) /\ (forall l, Psels l) /\
    (forall g, Pseg g) /\ (forall p, Psegs p).
  Proof.
    apply syntax_mutind; try (intros; red; intros; exact I).
    - (* FList *)
      intros items IH Hg root ctx cur key. rewrite gate_expr_list in Hg. rewrite eval_list.
      apply only_bind; [apply IH; exact Hg|]. intros vs _. exact I.
    - (* FNot *)
      intros r IH Hg root ctx cur key. rewrite gate_expr_not in Hg. apply andb_true_iff in Hg as [_ Hg].
      rewrite eval_not. apply only_bind; [apply IH; exact Hg|]. intros v _. exact I.
    - (* FInfix *)
      intros l IHl o r IHr Hg root ctx cur key. rewrite gate_expr_infix in Hg.
      apply andb_true_iff in Hg as [Hg _]. apply andb_true_iff in Hg as [Hg _].
      apply andb_true_iff in Hg as [Hl Hr].
      rewrite eval_infix. apply only_bind; [apply IHl; exact Hl|]. intros lv _.
      apply only_bind; [apply IHr; exact Hr|]. intros rv _. exact I.
    - (* FSelf *)
      intros p IH. apply (case_query (FSelf p) p (fun _ _ cur => cur)); [reflexivity|reflexivity|exact IH].
    - (* FRoot *)
      intros fake p IH.
      apply (case_query (FRoot fake p) p (fun root _ _ => if fake then JArr [root] else root));
        [reflexivity|reflexivity|exact IH].
    - (* FCtx *)
      intros p IH. apply (case_query (FCtx p) p (fun _ ctx _ => ctx)); [reflexivity|reflexivity|exact IH].
    - (* FFunc *) exact case_FFunc.
    - (* ECons *)
      intros e IHe r IHr Hg root ctx cur key. rewrite gate_exprs_cons in Hg.
      apply andb_true_iff in Hg as [He Hr]. rewrite eval_fs_cons.
      apply only_bind; [apply IHe; exact He|]. intros v _.
      apply only_bind; [apply IHr; exact Hr|]. intros vs _. exact I.
    - (* SFilter *)
      intros e IH Hg root ctx m. rewrite gate_sel_filter in Hg. apply andb_true_iff in Hg as [_ Hg].
      rewrite resolve_sel_filter. apply concat_only. apply Forall_forall. intros r Hin.
      apply in_map_iff in Hin as ([[cur key] child] & <- & _).
      apply only_bind; [apply IH; exact Hg|]. intros v _. exact I.
    - (* LCons *)
      intros s IHs r IHr Hg root ctx m. rewrite gate_sels_cons in Hg. apply andb_true_iff in Hg as [Hs Hr].
      rewrite resolve_sels_cons. apply only_bind; [apply IHs; exact Hs|]. intros x _.
      apply only_bind; [apply IHr; exact Hr|]. intros y _. exact I.
    - (* GSel *)
      intros s IH Hg root ctx ms. rewrite gate_seg_sel in Hg. rewrite resolve_seg_sel.
      apply concat_only. apply Forall_forall. intros r Hin. apply in_map_iff in Hin as (m & <- & _).
      apply IH. exact Hg.
    - (* GList *)
      intros items IH Hg root ctx ms. rewrite gate_seg_list in Hg. rewrite resolve_seg_list.
      assert (Hg' : gate_sels items = true) by (destruct items; [discriminate Hg|exact Hg]).
      apply concat_only. apply Forall_forall. intros r Hin. apply in_map_iff in Hin as (m & <- & _).
      apply IH. exact Hg'.
    - (* PCons *)
      intros g IHg r IHr Hg root ctx ms. rewrite gate_segs_cons in Hg. apply andb_true_iff in Hg as [H1 H2].
      rewrite resolve_segs_cons. apply only_bind; [apply IHg; exact H1|]. intros ms' _. apply IHr. exact H2.
  Qed.

  Lemma finditer_only p d ctx :
    gate_segs (p_segs p) = true -> only_jp (finditer E rf rs p d ctx).
  Proof. intros Hg. unfold finditer. destruct eval_only as (_ & _ & _ & _ & _ & H). apply H. exact Hg. Qed.

  Lemma compound_rest_only d ctx rest :
    forallb (fun op => gate_segs (p_segs (snd op))) rest = true -> forall ms,
      only_jp (compound_finditer_rest E rf rs ms rest d ctx).
  Proof.
    induction rest as [|[o p] rest IH]; intros Hg ms; [exact I|].
    cbn [forallb snd] in Hg. apply andb_true_iff in Hg as [Hp Hrest].
    cbn [compound_finditer_rest]. apply only_bind; [apply finditer_only; exact Hp|].
    intros ms' _. apply IH. exact Hrest.
  Qed.

  Lemma query_only q d ctx :
    gate_query lo hi q = true -> only_jp (compound_finditer E rf rs q d ctx).
  Proof.
    unfold gate_query. intros Hg. apply andb_true_iff in Hg as [H1 H2].
    unfold compound_finditer. apply only_bind; [apply finditer_only; exact H1|].
    intros ms _. apply compound_rest_only. exact H2.
  Qed.
End EvalFamily.

Theorem eval_family :
  forall (E : env) re_ok rf rs (text : ustr) (q : query) (d ctx : json),
    e_well_typed E = true ->
    compile E re_ok text = Ok q ->
    only_jp (compound_finditer E rf rs q d ctx).
Proof.
  intros E re_ok rf rs text q d ctx Hwt Hc.
  apply (query_only E rf rs (e_min_index E) (e_max_index E)).
  exact (gate_sound E re_ok text q Hwt Hc).
Qed.
