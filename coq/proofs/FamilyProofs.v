(* FamilyProofs.v — the pointer, relative-pointer and patch models never answer with a
   built-in exception: errors stay inside the documented families (statements of props/C06.v). *)
From JP Require Import Base Json PyStr Syntax Pointer RelPointer Patch Gate PyStrLemmas PointerProofs.

(* ---------------------------------------------------------------------- *)
(* errors of a result satisfy a predicate *)

Definition efam (P : exn -> Prop) {A} (r : result A) : Prop :=
  match r with Ok _ => True | Err e => P e end.

Lemma efam_bind (P : exn -> Prop) {A B} (r : result A) (f : A -> result B) :
  efam P r -> (forall a, r = Ok a -> efam P (f a)) -> efam P (bind r f).
Proof. intros Hr Hf. destruct r as [a|e]; cbn [bind]; [apply Hf; reflexivity|exact Hr]. Qed.

Lemma efam_map_result (P : exn -> Prop) {A B} (f : A -> result B) l :
  (forall a, efam P (f a)) -> efam P (map_result f l).
Proof.
  intros Hf. induction l as [|a l IH]; [exact I|].
  cbn [map_result]. apply efam_bind; [apply Hf|]. intros y _.
  apply efam_bind; [exact IH|]. intros ys _. exact I.
Qed.

Lemma efam_weaken (P Q : exn -> Prop) {A} (r : result A) :
  (forall e, P e -> Q e) -> efam P r -> efam Q r.
Proof. intros H. destruct r; [trivial|apply H]. Qed.

Definition only (fam : exn -> bool) {A} (r : result A) : Prop :=
  match r with Ok _ => True | Err e => fam e = true \/ outside_model e = true end.

Lemma only_efam fam {A} (r : result A) :
  only fam r <-> efam (fun e => fam e = true \/ outside_model e = true) r.
Proof. reflexivity. Qed.

(* ---------------------------------------------------------------------- *)
(* JSON Pointer *)

Lemma index_of_text_err k e : index_of_text k = Err e -> e = EPointer KPtrIndex.
Proof.
  unfold index_of_text.
  destruct (Nat.ltb 1 (length k) && starts_with_ch ch_0 k); [discriminate|].
  destruct (negb (re_index_match k)); [discriminate|].
  destruct (Z.ltb (int_of_index_text k) min_int_index || Z.ltb max_int_index (int_of_index_text k));
    [|discriminate].
  intros H. injection H as <-. reflexivity.
Qed.

Definition ptr_or_out (e : exn) : Prop := pointer_family e = true \/ outside_model e = true.

Lemma unicode_escape_fam s : efam (fun e => outside_model e = true) (unicode_escape s).
Proof. unfold unicode_escape. destruct (negb (contains_ch ch_backslash s)); [exact I|reflexivity]. Qed.

Lemma mode_escape_fam (mode : bool) s :
  efam (fun e => outside_model e = true) (if mode then unicode_escape s else Ok s).
Proof. destruct mode; [apply unicode_escape_fam|exact I]. Qed.

Lemma index_of_text_fam k : efam ptr_or_out (index_of_text k).
Proof.
  destruct (index_of_text k) as [x|e] eqn:E; [exact I|].
  apply index_of_text_err in E. subst e. left. reflexivity.
Qed.

Lemma parse_fam mode s : efam ptr_or_out (Pointer.parse mode s).
Proof.
  unfold Pointer.parse. apply efam_bind.
  - apply (efam_weaken _ _ _ (fun e H => or_intror H)). apply mode_escape_fam.
  - intros s1 _. cbv zeta. destruct (lstrip s1) as [|c s2]; [exact I|].
    destruct (negb (N.eqb c ch_slash)); [left; reflexivity|].
    apply efam_map_result. intros t. apply index_of_text_fam.
Qed.

Definition res_or_out (e : exn) : Prop := is_resolution_error e = true \/ outside_model e = true.

Lemma getitem_fam cur key : efam res_or_out (getitem cur key).
Proof.
  unfold getitem.
  destruct (rv_json cur) as [| b | n | s | items | members]; try (left; reflexivity).
  - destruct key as [z|k].
    + destruct (py_list_index items z) as [[i v]|]; [exact I|left; reflexivity].
    + destruct (ustr_eqb k [ch_minus]); [left; reflexivity|].
      destruct (starts_with_ch ch_hash k).
      * destruct (py_int (tl k)) as [[i|]|]; [|left; reflexivity|right; reflexivity].
        destruct (Z.leb (Z.of_nat (length items)) i); [left; reflexivity|exact I].
      * destruct (index_of_text k) as [idx|e] eqn:E; cbn [bind].
        -- destruct idx as [z|k']; [|left; reflexivity].
           destruct (py_list_index items z) as [[i v]|]; [exact I|left; reflexivity].
        -- apply index_of_text_err in E. subst e. left. reflexivity.
  - destruct key as [z|k].
    + destruct (lookup (str_of_Z z) members); [exact I|left; reflexivity].
    + destruct (lookup k members); [exact I|].
      destruct k as [|c rest]; [left; reflexivity|].
      destruct ((N.eqb c ch_tilde || N.eqb c ch_hash) &&
                match lookup rest members with Some _ => true | None => false end);
        [exact I|left; reflexivity].
Qed.

Lemma reduce_getitem_fam p : forall cur, efam res_or_out (reduce_getitem cur p).
Proof.
  induction p as [|k p IH]; intros cur; [exact I|].
  cbn [reduce_getitem]. apply efam_bind; [apply getitem_fam|]. intros c _. apply IH.
Qed.

Theorem pointer_family_only :
  forall (mode : bool) (s : ustr) (p : pointer) (d : json),
    only pointer_family (Pointer.parse mode s) /\
    match resolve p d with
    | Ok _ => True
    | Err e => is_resolution_error e = true \/ outside_model e = true
    end.
Proof.
  intros mode s p d. split.
  - apply parse_fam.
  - apply (reduce_getitem_fam p (RNode [] d)).
Qed.

(* ---------------------------------------------------------------------- *)
(* Relative JSON Pointer *)

Definition rel_or_out (e : exn) : Prop := relpointer_family e = true \/ outside_model e = true.

Lemma ptr_rel e : ptr_or_out e -> rel_or_out e.
Proof.
  intros [H|H]; [left|right; exact H]. destruct e; try discriminate. reflexivity.
Qed.

Lemma span_digits_fam s : efam rel_or_out (span_digits s).
Proof.
  induction s as [|c s IH]; [exact I|].
  cbn [span_digits]. destruct (is_ascii_digit c).
  - apply efam_bind; [exact IH|]. intros r _. exact I.
  - destruct (N.leb 128 c); [right; reflexivity|exact I].
Qed.

Lemma zero_or_positive_fam s : efam rel_or_out (zero_or_positive s).
Proof.
  unfold zero_or_positive. destruct (starts_with_ch ch_0 s && Nat.ltb 1 (length s)); [left; reflexivity|exact I].
Qed.

Lemma rel_parse_fam mode s : efam rel_or_out (rel_parse mode s).
Proof.
  unfold rel_parse. cbv zeta. apply efam_bind; [apply span_digits_fam|].
  intros [origin_txt rest] _. destruct origin_txt as [|c0 o0]; [left; reflexivity|].
  apply efam_bind; [apply zero_or_positive_fam|]. intros origin _.
  apply efam_bind.
  - destruct rest as [|c rest']; [exact I|].
    destruct (N.eqb c ch_plus || N.eqb c ch_minus); [|exact I].
    apply efam_bind; [apply span_digits_fam|]. intros [idx_txt rest''] _.
    destruct idx_txt; exact I.
  - intros [g ptr_txt] _. apply efam_bind.
    + destruct g as [[neg idx_txt]|]; [|exact I].
      apply efam_bind; [apply zero_or_positive_fam|]. intros i _.
      destruct (Z.eqb i 0); [left; reflexivity|exact I].
    + intros index _. destruct (ustr_eqb (lstrip ptr_txt) [ch_hash]); [exact I|].
      apply efam_bind.
      * apply (efam_weaken _ _ _ ptr_rel). apply parse_fam.
      * intros p _. exact I.
Qed.

Lemma from_parts_false_ok parts : exists q, from_parts false parts = Ok q.
Proof.
  destruct (from_parts_spec false parts (or_introl eq_refl)) as [q [Hq _]]. exists q. exact Hq.
Qed.

Lemma to_fam r base : efam rel_or_out (to_ r base).
Proof.
  unfold to_. destruct (Z.ltb (Z.of_nat (length base)) (r_origin r)); [left; reflexivity|].
  cbv zeta. apply efam_bind.
  - destruct (last_opt _) as [lastp|]; [|exact I].
    destruct (Z.eqb (r_index r) 0); [exact I|].
    destruct (int_like lastp) as [[i|]|]; [|exact I|right; reflexivity].
    destruct (Z.ltb (i + r_index r) 0); [left; reflexivity|exact I].
  - intros parts1 _. apply efam_bind.
    + destruct (r_pointer r); [|exact I].
      destruct (last_opt parts1); [exact I|left; reflexivity].
    + intros parts2 _. destruct (from_parts_false_ok parts2) as [q Hq]. rewrite Hq. exact I.
Qed.

Theorem relpointer_family_only :
  forall (mode : bool) (s : ustr) (r : relptr) (base : pointer),
    only relpointer_family (rel_parse mode s) /\ only relpointer_family (to_ r base).
Proof. intros mode s r base. split; [apply rel_parse_fam|apply to_fam]. Qed.

(* ---------------------------------------------------------------------- *)
(* int(str) on the texts that index an array *)

Definition nospace (s : ustr) : bool := forallb (fun c => negb (py_isspace c)) s.

Lemma lstrip_nospace s : nospace s = true -> lstrip s = s.
Proof.
  destruct s as [|c s]; [reflexivity|]. unfold nospace. cbn [forallb]. intros H.
  apply andb_true_iff in H as [H _]. apply negb_true_iff in H. apply lstrip_nonspace. exact H.
Qed.

Lemma strip_nospace s : nospace s = true -> strip s = s.
Proof.
  intros H. unfold strip, rstrip. rewrite (lstrip_nospace s H).
  rewrite lstrip_nospace by (unfold nospace; rewrite forallb_rev; exact H).
  apply rev_involutive.
Qed.

Lemma digits_nospace s : forallb is_ascii_digit s = true -> nospace s = true.
Proof.
  intros H. unfold nospace. rewrite forallb_forall in *. intros c Hc.
  apply negb_true_iff. apply isspace_digit. apply H. exact Hc.
Qed.

Lemma py_int_re_index k :
  re_index_match k = true -> py_int k = Some (Some (int_of_index_text k)).
Proof.
  intros H. destruct (re_index_cases k H) as [[Hc He]|[r [Hk [Hc [Hp He]]]]].
  - rewrite He. apply py_int_canonical. exact Hc.
  - rewrite He. subst k. pose proof (canon_digits r Hc) as Hd.
    unfold py_int.
    assert (Ha : is_ascii (ch_minus :: r) = true).
    { unfold is_ascii. cbn [forallb]. fold (is_ascii r). rewrite (is_ascii_digits r Hd). reflexivity. }
    rewrite Ha. cbn [negb]. cbv iota.
    rewrite strip_nospace.
    2:{ unfold nospace. cbn [forallb]. fold (nospace r). rewrite (digits_nospace r Hd). reflexivity. }
    rewrite N.eqb_refl.
    rewrite digits_underscores_digits; [reflexivity|exact Hd|].
    intros ->. discriminate.
Qed.

Lemma lstrip_snoc_nonspace s c :
  py_isspace c = false -> exists s', lstrip (s ++ [c]) = s' ++ [c].
Proof.
  intros Hc. induction s as [|x s IH].
  - exists []. cbn [app]. apply lstrip_nonspace. exact Hc.
  - cbn [app lstrip]. destruct (py_isspace x); [exact IH|]. exists (x :: s). reflexivity.
Qed.

Lemma py_int_hash rest : py_int (ch_hash :: rest) = None \/ py_int (ch_hash :: rest) = Some None.
Proof.
  unfold py_int. destruct (negb (is_ascii (ch_hash :: rest))); [left; reflexivity|right].
  unfold strip, rstrip. rewrite (lstrip_nonspace ch_hash rest isspace_hash).
  cbn [rev]. destruct (lstrip_snoc_nonspace (rev rest) ch_hash isspace_hash) as [s' Hs].
  rewrite Hs. rewrite rev_unit. reflexivity.
Qed.

Lemma py_list_index_norm {A} (l : list A) z i v :
  py_list_index l z = Some (i, v) -> py_norm_index (length l) z = Some i.
Proof.
  unfold py_list_index, py_norm_index. cbv zeta.
  destruct (Z.ltb (if Z.ltb z 0 then (Z.of_nat (length l) + z)%Z else z) 0
            || Z.leb (Z.of_nat (length l)) (if Z.ltb z 0 then (Z.of_nat (length l) + z)%Z else z));
    [discriminate|].
  destruct (nth_opt l _) as [x|]; [|discriminate]. intros H. injection H as <- _. reflexivity.
Qed.

(* ---------------------------------------------------------------------- *)
(* JSON Patch *)

(* what an operation may answer before JSONPatch.apply translates it *)
Definition Q (e : exn) : bool :=
  match e with EPatch _ | EPointer _ | EUnsupported => true | _ => false end.

Definition qfam {A} (r : result A) : Prop := efam (fun e => Q e = true) r.

Lemma res_q e : res_or_out e -> Q e = true.
Proof. intros [H|H]; destruct e; try discriminate; reflexivity. Qed.

Lemma array_index_q t : qfam (array_index_of t).
Proof.
  destruct t as [z|s]; [exact I|]. cbn [array_index_of].
  destruct (py_int s) as [[z|]|]; [exact I|reflexivity|reflexivity].
Qed.

Lemma arr_target_ok par k r xs :
  getitem par k = Ok r -> rv_json par = JArr xs ->
  match array_index_of k with
  | Ok z => exists i, py_norm_index (length xs) z = Some i
  | Err e => Q e = true
  end.
Proof.
  intros Hg Hv. unfold getitem in Hg. rewrite Hv in Hg. destruct k as [z|s].
  - destruct (py_list_index xs z) as [[i v]|] eqn:El; [|discriminate].
    cbn [array_index_of]. exists i. apply (py_list_index_norm xs z i v El).
  - destruct (ustr_eqb s [ch_minus]); [discriminate|].
    destruct (starts_with_ch ch_hash s) eqn:Eh.
    + destruct s as [|c rest]; [discriminate|]. cbn [starts_with_ch] in Eh.
      apply N.eqb_eq in Eh. subst c. cbn [array_index_of].
      destruct (py_int_hash rest) as [-> | ->]; reflexivity.
    + destruct (index_of_text s) as [idx|e] eqn:Ei; cbn [bind] in Hg; [|discriminate].
      destruct idx as [z|s']; [|discriminate].
      destruct (py_list_index xs z) as [[i v]|] eqn:El; [|discriminate].
      destruct (index_of_text_cases s (PInt z) Ei) as [[Hc _]|[z' [Hz [Hre [Hz' _]]]]]; [discriminate|].
      injection Hz as ->. subst z'. cbn [array_index_of]. rewrite (py_int_re_index s Hre).
      exists i. apply (py_list_index_norm xs _ i v El).
Qed.

Lemma last_opt_cons {A} (x : A) l : exists k, last_opt (x :: l) = Some k.
Proof.
  revert x. induction l as [|y l IH]; intros x; [exists x; reflexivity|].
  destruct (IH y) as [k Hk]. exists k. exact Hk.
Qed.

Lemma resolve_parent_q p d : qfam (resolve_parent p d).
Proof.
  unfold resolve_parent. destruct p as [|x p']; [exact I|].
  apply efam_bind.
  - apply (efam_weaken _ _ _ res_q). apply reduce_getitem_fam.
  - intros parent _. destruct (last_opt_cons x p') as [k Hk]. rewrite Hk.
    pose proof (getitem_fam parent k) as Hf.
    destruct (getitem parent k) as [r|e]; [exact I|].
    apply res_q in Hf. destruct e; try discriminate; [|exact Hf|exact Hf].
    destruct k0; try exact I; reflexivity.
Qed.

Lemma resolve_parent_some p d par obj :
  resolve_parent p d = Ok (Some par, obj) ->
  exists k, last_opt p = Some k /\
            match obj with Some r => getitem par k = Ok r | None => True end.
Proof.
  unfold resolve_parent. destruct p as [|x p']; [discriminate|].
  destruct (reduce_getitem (RNode [] d) (removelast (x :: p'))) as [parent|e]; cbn [bind]; [|discriminate].
  destruct (last_opt_cons x p') as [k Hk]. rewrite Hk. intros H. exists k. split; [reflexivity|].
  destruct (getitem parent k) as [r|e] eqn:Eg.
  - injection H as <- <-. exact Eg.
  - destruct e; try discriminate. destruct k0; try discriminate; injection H as <- <-; exact I.
Qed.

Lemma with_parent_q d par f : qfam (f (rv_json par)) -> qfam (with_parent d par f).
Proof.
  intros H. destruct par as [l v|v]; cbn [with_parent rv_json] in *;
    (apply efam_bind; [exact H|intros; exact I]).
Qed.

Lemma apply_add_q kind path value d : qfam (apply_add kind path value d).
Proof.
  unfold apply_add. pose proof (resolve_parent_q path d) as Hq.
  destruct (resolve_parent path d) as [[parent obj]|e] eqn:Erp; cbn [bind]; [|exact Hq].
  destruct parent as [par|]; [|exact I].
  destruct (resolve_parent_some _ _ _ _ Erp) as [k [Hl Hget]].
  unfold last_part. rewrite Hl. cbn [bind]. apply with_parent_q.
  destruct (rv_json par) as [| b | n | s | xs | ms]; try reflexivity; try exact I.
  destruct obj as [r|].
  - apply efam_bind; [apply array_index_q|]. intros z _. exact I.
  - destruct kind; [|exact I]. cbv zeta.
    destruct (_ || _); [exact I|reflexivity].
Qed.

Lemma apply_addne_q path value d : qfam (apply_addne path value d).
Proof.
  unfold apply_addne. pose proof (resolve_parent_q path d) as Hq.
  destruct (resolve_parent path d) as [[parent obj]|e] eqn:Erp; cbn [bind]; [|exact Hq].
  cbv zeta.
  match goal with |- qfam (if ?c then _ else _) => destruct c end; [exact I|apply apply_add_q].
Qed.

(* deleting or replacing the target inside the parent array found by resolve_parent *)
Lemma arr_target_q {A} par k r xs (f : nat -> result A) :
  getitem par k = Ok r -> rv_json par = JArr xs ->
  (forall i, qfam (f i)) ->
  qfam (z <- array_index_of k ;;
        match py_norm_index (length xs) z with
        | Some i => f i
        | None => Err (EBuiltin BIndexError)
        end).
Proof.
  intros Hg Hv Hf. pose proof (arr_target_ok par k r xs Hg Hv) as H.
  destruct (array_index_of k) as [z|e]; cbn [bind]; [|exact H].
  destruct H as [i Hi]. rewrite Hi. apply Hf.
Qed.

Lemma apply_remove_q path d : qfam (apply_remove path d).
Proof.
  unfold apply_remove. pose proof (resolve_parent_q path d) as Hq.
  destruct (resolve_parent path d) as [[parent obj]|e] eqn:Erp; cbn [bind]; [|exact Hq].
  destruct parent as [par|]; [|reflexivity].
  destruct (resolve_parent_some _ _ _ _ Erp) as [k [Hl Hget]].
  unfold last_part. rewrite Hl. cbn [bind]. apply with_parent_q.
  destruct (rv_json par) as [| b | n | s | xs | ms] eqn:Hv; try reflexivity.
  - destruct obj as [r|]; [|reflexivity].
    apply (arr_target_q par k r xs _ Hget Hv). intros i. exact I.
  - destruct obj as [r|]; [|reflexivity].
    destruct (dict_has ms (member_name k)); [exact I|reflexivity].
Qed.

Lemma apply_replace_q path value d : qfam (apply_replace path value d).
Proof.
  unfold apply_replace. pose proof (resolve_parent_q path d) as Hq.
  destruct (resolve_parent path d) as [[parent obj]|e] eqn:Erp; cbn [bind]; [|exact Hq].
  destruct parent as [par|]; [|exact I].
  destruct (resolve_parent_some _ _ _ _ Erp) as [k [Hl Hget]].
  unfold last_part. rewrite Hl. cbn [bind]. apply with_parent_q.
  destruct (rv_json par) as [| b | n | s | xs | ms] eqn:Hv; try reflexivity.
  - destruct obj as [r|]; [|reflexivity].
    apply (arr_target_q par k r xs _ Hget Hv). intros i. exact I.
  - destruct obj as [r|]; [exact I|reflexivity].
Qed.

Lemma apply_move_q source dest d : qfam (apply_move source dest d).
Proof.
  unfold apply_move. destruct (is_relative_to dest source); [reflexivity|].
  pose proof (resolve_parent_q source d) as Hq.
  destruct (resolve_parent source d) as [[sparent sobj]|e] eqn:Erp; cbn [bind]; [|exact Hq].
  destruct sobj as [so|]; [|reflexivity].
  apply efam_bind; [|intros d1 _; apply apply_add_q].
  destruct sparent as [par|]; [|exact I].
  destruct (resolve_parent_some _ _ _ _ Erp) as [k [Hl Hget]].
  unfold last_part. rewrite Hl. cbn [bind]. apply with_parent_q.
  destruct (rv_json par) as [| b | n | s | xs | ms] eqn:Hv; try exact I.
  - apply (arr_target_q par k so xs _ Hget Hv). intros i. exact I.
  - destruct (dict_has ms (member_name k)); [exact I|reflexivity].
Qed.

Lemma apply_copy_q source dest d : qfam (apply_copy source dest d).
Proof.
  unfold apply_copy. pose proof (resolve_parent_q source d) as Hq.
  destruct (resolve_parent source d) as [[sparent sobj]|e] eqn:Erp; cbn [bind]; [|exact Hq].
  destruct sobj as [so|]; [apply apply_add_q|reflexivity].
Qed.

Lemma apply_test_q path value d : qfam (apply_test path value d).
Proof.
  unfold apply_test. pose proof (resolve_parent_q path d) as Hq.
  destruct (resolve_parent path d) as [[parent obj]|e] eqn:Erp; cbn [bind]; [|exact Hq].
  destruct obj as [o|]; [|reflexivity].
  destruct (json_eq (rv_json o) value); [exact I|reflexivity].
Qed.

Lemma apply_op_q o d : qfam (apply_op o d).
Proof.
  destruct o; cbn [apply_op].
  - apply apply_add_q.
  - apply apply_addne_q.
  - apply apply_add_q.
  - apply apply_remove_q.
  - apply apply_replace_q.
  - apply apply_move_q.
  - apply apply_copy_q.
  - apply apply_test_q.
Qed.

Definition patch_or_out (e : exn) : Prop := patch_family e = true \/ outside_model e = true.

Lemma translate_q e : Q e = true -> patch_or_out (translate e).
Proof.
  destruct e; try discriminate; intros _.
  - left. reflexivity.
  - destruct k; left; reflexivity.
  - right. reflexivity.
Qed.

Lemma apply_fam ops : forall d, efam patch_or_out (Patch.apply ops d).
Proof.
  induction ops as [|o ops IH]; intros d; [exact I|].
  cbn [Patch.apply]. pose proof (apply_op_q o d) as Hq.
  destruct (apply_op o d) as [d'|e]; [apply IH|].
  apply translate_q. exact Hq.
Qed.

Lemma build_op_fam mode o : efam patch_or_out (build_op mode o).
Proof.
  assert (Hptr : forall s,
             efam patch_or_out
               (match Pointer.parse mode s with
                | Ok p => Ok p
                | Err (EPointer _) => Err (EPatch KPatch)
                | Err e => Err e
                end)).
  { intros s. pose proof (parse_fam mode s) as Hp.
    destruct (Pointer.parse mode s) as [p|e]; [exact I|].
    destruct Hp as [Hp|Hp]; destruct e; try discriminate.
    - left. reflexivity.
    - right. reflexivity. }
  unfold build_op. cbv zeta.
  destruct (od_op o);
    repeat (apply efam_bind; [apply Hptr|intros ? _]); exact I.
Qed.

Theorem patch_family_only :
  forall (mode : bool) (ods : list opdoc) (ops : list pop) (d : json),
    only patch_family (build mode ods) /\ only patch_family (Patch.apply ops d).
Proof.
  intros mode ods ops d. split.
  - unfold build. apply efam_map_result. intros o. apply build_op_fam.
  - apply apply_fam.
Qed.
