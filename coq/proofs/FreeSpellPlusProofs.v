(* FreeSpellPlusProofs.v — free_spelling for the larger class of spec/FreeSpellPlus.v (redundant
   parentheses in filters, bare names inside brackets).  The parser side re-runs the induction of
   ShParseProofs.v over the derivations of the relational printer, reusing its semantic invariants
   (PRIM, U, SELITEM, ITEMS, SEG, SEGS) and, for the [*_same] rules, its result. *)
From Coq Require Import ZArith List Bool Lia.
From JP Require Import Base Json PyStr PyJsonStr Syntax Lex Parse Eval Serialize TokPrint Printable Gate Reparsable NormDomain
                       TokensOk FreeSpell FreeSpellPlus NormPath.
From JP Require Import ParseEqns GateLemmas ParseSpec ReparseLemmas TokPrintEqns StringRoundTrip
                       PrintParseBase PrintParseAtoms ShParseDefs ShParseBase ShParseAtoms ShParseProofs
                       TokenSimProofs FreeSpellProofs NormProofs FreeParseProofs.
Import ListNotations.

Scheme px_expr_mind := Minimality for px_expr Sort Prop
  with px_exprs_mind := Minimality for px_exprs Sort Prop
  with px_operand_mind := Minimality for px_operand Sort Prop
  with px_canon_mind := Minimality for px_canon Sort Prop
  with px_sel_mind := Minimality for px_sel Sort Prop
  with px_sels_mind := Minimality for px_sels Sort Prop
  with px_seg_mind := Minimality for px_seg Sort Prop
  with px_segs_mind := Minimality for px_segs Sort Prop.
Combined Scheme px_mutind from px_expr_mind, px_exprs_mind, px_operand_mind, px_canon_mind,
  px_sel_mind, px_sels_mind, px_seg_mind, px_segs_mind.

(* ---------------------------------------------------------------------- *)
(* the larger class contains the smaller one *)

Lemma sh_segs_px E p : forall x, sh_segs_toks E p = Ok x -> px_segs E p x.
Proof.
  induction p as [|g r IH]; intros x Hx.
  - injection Hx as <-. constructor.
  - rewrite sh_segs_toks_cons in Hx. destruct (sh_seg_toks E g) as [y|] eqn:Hy; [|discriminate Hx].
    cbn [bind] in Hx. destruct (sh_segs_toks E r) as [ys|] eqn:Hys; [|discriminate Hx]. injection Hx as <-.
    constructor; [apply pg_same; exact Hy|apply IH; reflexivity].
Qed.

Lemma sh_path_px E p x : sh_path_toks E p = Ok x -> px_path E p x.
Proof.
  unfold sh_path_toks. intros Hx. destruct (sh_segs_toks E (p_segs p)) as [y|] eqn:Hy; [|discriminate Hx].
  injection Hx as <-. exists y. split; [apply sh_segs_px; exact Hy|reflexivity].
Qed.

Lemma sh_rest_px E rest : forall xs, sh_rest_toks E rest = Ok xs -> px_rest E rest xs.
Proof.
  induction rest as [|[o p] rest IH]; intros xs Hx; cbn [sh_rest_toks] in Hx.
  - injection Hx as <-. constructor.
  - destruct (sh_path_toks E p) as [y|] eqn:Hy; [|discriminate Hx]. cbn [bind] in Hx.
    destruct (sh_rest_toks E rest) as [ys|] eqn:Hys; [|discriminate Hx]. injection Hx as <-.
    apply (pr_cons E o p rest y ys); [apply sh_path_px; exact Hy|apply IH; reflexivity].
Qed.

Lemma sh_query_px E q ts : sh_query_toks E q = Ok ts -> px_query E q ts.
Proof.
  unfold sh_query_toks. intros Hx. destruct (sh_path_toks E (q_first q)) as [y|] eqn:Hy; [|discriminate Hx].
  cbn [bind] in Hx. destruct (sh_rest_toks E (q_rest q)) as [ys|] eqn:Hys; [|discriminate Hx]. injection Hx as <-.
  exists y, ys. split; [apply sh_path_px; exact Hy|]. split; [apply sh_rest_px; exact Hys|reflexivity].
Qed.

Lemma lexemes_of_plus ts ls : lexemes_of ts ls -> lexemes_plus ts ls.
Proof.
  intros H. rewrite <- (app_nil_r ts), <- (app_nil_r ls). apply lp_app; [exact H|constructor].
Qed.

Theorem spells_as_plus E q t ts : spells_as E q t ts -> spells_plus_as E q t ts.
Proof.
  intros (qs & ts0 & items & wf & Hb & Hts0 & Hlex & Hck & Ht & Hts).
  exists qs, ts0, items, wf. split; [exact Hb|]. split; [apply sh_query_px; exact Hts0|].
  split; [apply lexemes_of_plus; exact Hlex|]. auto.
Qed.

Theorem spells_plus_incl E q t : spells E q t -> spells_plus E q t.
Proof. intros [ts H]. exists ts. apply spells_as_plus. exact H. Qed.

(* ---------------------------------------------------------------------- *)
(* Stage 1 (the scanner) does not depend on where the lexemes come from *)

Theorem lex_free_plus :
  forall (E : env) (q : query) (t : ustr) (ts : list token),
    tokens_ok E = true -> spells_plus_as E q t ts -> tokenize E t = ts.
Proof.
  intros E q t ts HT (qs & ts1 & items & wf & _ & _ & _ & Hck & -> & ->). apply lex_chain; assumption.
Qed.

Lemma lexemes_plus_tsim E ts1 ls :
  e_unicode_escape E = true -> lexemes_plus ts1 ls -> Forall2 (tsim E) ts1 (flat_map lex_toks ls).
Proof.
  intros UE H. induction H as [|k ts ls _ IH|ts1 ls1 ts ls H1 _ IH].
  - constructor.
  - cbn [flat_map lex_toks app]. constructor; [apply tsim_refl|exact IH].
  - rewrite flat_map_app. apply Forall2_app; [apply lexemes_tsim; assumption|exact IH].
Qed.

(* ---------------------------------------------------------------------- *)
(* Stage 2: the parser on the tokens of the relational printer *)

Section Main.
  Variable E : env.
  Variable re_ok : ustr -> option bool.
  Hypothesis WT : e_well_typed E = true.
  Hypothesis UE : e_unicode_escape E = true.

  Notation lo := (e_min_index E).
  Notation hi := (e_max_index E).
  Notation PRIM := (ShParseBase.PRIM E re_ok).
  Notation U := (ShParseBase.U E re_ok).
  Notation SELITEM := (ShParseProofs.SELITEM E re_ok).
  Notation ITEMS := (ShParseProofs.ITEMS E re_ok).
  Notation SEG := (ShParseProofs.SEG E re_ok).
  Notation SEGS := (ShParseProofs.SEGS E re_ok).
  Notation ARGSPEC := (ShParseProofs.ARGSPEC E re_ok).
  Notation pfs := (parse_filter_selector E re_ok).
  Notation parse_primary := (Parse.parse_primary E re_ok).
  Notation parse_path := (Parse.parse_path E re_ok).
  Notation gate_expr := (Gate.gate_expr lo hi).
  Notation gate_exprs := (Gate.gate_exprs lo hi).
  Notation gate_sel := (Gate.gate_sel lo hi).
  Notation gate_sels := (Gate.gate_sels lo hi).
  Notation gate_seg := (Gate.gate_seg lo hi).
  Notation gate_segs := (Gate.gate_segs lo hi).

  (* ---- the list-level steps of ShParseProofs, stated on the invariants alone ---- *)

  Lemma items_cons s r x xr :
    SELITEM s x ->
    ((r = LNil /\ xr = []) \/ (r <> LNil /\ xr <> [] /\ ITEMS r xr)) ->
    ITEMS (LCons s r) (x :: xr).
  Proof.
    intros [Hnb Hitem] Hr.
    assert (Hhead : nbhead (sep_by [comma] (x :: xr))).
    { destruct x as [|x0 x']; [contradiction Hnb|].
      destruct xr; [exact Hnb|]. change (sep_by [comma] ((x0 :: x') :: l :: xr)) with ((x0 :: x') ++ [comma] ++ sep_by [comma] (l :: xr)).
      exact Hnb. }
    split; [exact Hhead|].
    assert (Hx1 : 1 <= length x) by (destruct x; [contradiction Hnb|cbn [length]; lia]).
    split.
    { destruct Hr as [[_ ->]|(_ & _ & (_ & Hl & _))].
      - cbn [sep_by length]. exact Hx1.
      - destruct xr as [|y xr']; [cbn [sep_by length]; exact Hx1|].
        change (sep_by [comma] (x :: y :: xr')) with (x ++ [comma] ++ sep_by [comma] (y :: xr')).
        rewrite !app_length. cbn [length] in Hl |- *. lia. }
    intros f g acc zs Hf Hg. cbn [length] in Hg. destruct g as [|g]; [lia|].
    rewrite sep_by_cons.
    assert (Hlenx : length x <= length (sep_by [comma] (x :: xr))) by (apply elem_le_sep; left; reflexivity).
    destruct Hr as [[-> ->]|(Hne & Hxrne & (Hnbr & _ & Hloop))].
    - (* last item *)
      cbn [sep_tail].
      destruct (Hitem f rbracket zs ltac:(unfold need in *; lia) (or_introl eq_refl)) as (st' & Hit & Hat).
      rewrite (items_after E re_ok f g (snorm_sel s) st' rbracket zs acc Hat (or_introl eq_refl) x Hit Hnb
                 ltac:(intros H; discriminate H)).
      cbn [tk rbracket]. destruct g as [|g]; [lia|]. rewrite items_loop_S. cbn [st0 s_cur].
      change (is_kind TRBracket rbracket) with true. cbv iota.
      rewrite snorm_sels_cons. cbn [sels_list snorm_sels rev]. reflexivity.
    - (* more items follow *)
      destruct xr as [|y xr']; [contradiction Hxrne; reflexivity|]. cbn [sep_tail app].
      assert (Hlen2 : length (sep_by [comma] (y :: xr')) + 1 <= length (sep_by [comma] (x :: y :: xr'))).
      { change (sep_by [comma] (x :: y :: xr')) with (x ++ [comma] ++ sep_by [comma] (y :: xr')).
        rewrite !app_length. cbn [length]. lia. }
      destruct (Hitem f comma (sep_by [comma] (y :: xr') ++ rbracket :: zs)
                  ltac:(unfold need in *; lia) (or_intror eq_refl)) as (st' & Hit & Hat).
      assert (Hnbnext : nbhead (sep_by [comma] (y :: xr') ++ rbracket :: zs)).
      { destruct (sep_by [comma] (y :: xr')) as [|w ws]; [contradiction Hnbr|exact Hnbr]. }
      rewrite (items_after E re_ok f g (snorm_sel s) st' comma _ acc Hat (or_intror eq_refl) x Hit Hnb (fun _ => Hnbnext)).
      cbn [tk comma].
      rewrite (Hloop f g (snorm_sel s :: acc) zs ltac:(unfold need in *; lia) ltac:(cbn [length] in *; lia)).
      rewrite snorm_sels_cons. cbn [sels_list rev]. rewrite <- app_assoc. reflexivity.
  Qed.

  Lemma segs_cons g r x xr : SEG g x -> SEGS r xr -> SEGS (PCons g r) (x ++ xr).
  Proof.
    intros [Hh Hseg] [Hhr Hsegs].
    split; [right; apply headok_app; exact Hh|].
    intros f in_filter acc zs Hf Hz. rewrite app_length in Hf. unfold need in Hf.
    assert (Hx1 : 1 <= length x) by (destruct Hh as (x0 & x' & -> & _); cbn [length]; lia).
    destruct f as [|f1]; [lia|]. rewrite <- app_assoc.
    assert (Hhd : hd_ok (xr ++ zs)).
    { destruct Hhr as [->|Hhr]; [exact (pathstop_hd zs Hz)|exact (headok_hd xr zs Hhr)]. }
    rewrite (Hseg f1 in_filter acc (xr ++ zs) ltac:(unfold need; lia) Hhd).
    rewrite (Hsegs f1 in_filter (snorm_seg g :: acc) zs ltac:(unfold need; lia) Hz).
    rewrite snorm_segs_cons. cbn [segs_list rev]. rewrite <- app_assoc. reflexivity.
  Qed.

  Lemma filter_item e inner L :
    U e inner L -> 1 < L -> headok inner -> g_testable e = true ->
    SELITEM (SFilter e) (mkTok TFilter [63%N] :: inner).
  Proof.
    intros HU HL1 Hh Ht.
    split; [split; [split; discriminate|discriminate]|].
    intros f k rest Hf Hk. unfold need in Hf. cbn [length] in Hf.
    cbn [app enter]. unfold sel_item. cbn [st0 s_cur tk].
    destruct f as [|f1]; [lia|]. rewrite parse_filter_S.
    rewrite next_st0 by (try discriminate; exact (headok_hd inner _ Hh)). cbn [bind fst snd].
    destruct f1 as [|f2]; [lia|].
    assert (Hkt : term_tokb k = true) by (unfold term_tokb; destruct Hk as [-> | ->]; reflexivity).
    assert (Hks : forall p, stop1 k p) by (intros p; apply close_stop; tauto).
    destruct (U_fin E re_ok e inner L f2 1 k rest HU ltac:(lia) ltac:(unfold need; lia) Hkt
                (fun _ => Hks L) (Hks 1)) as (st' & -> & Hat).
    cbn [bind fst snd]. rewrite (testable_check (snorm_expr e)) by (rewrite testable_snorm; exact Ht).
    cbn [bind fst snd]. eexists. split; [reflexivity|exact Hat].
  Qed.

  (* (b): a bare name as an item of a bracketed selection *)
  Lemma bare_item k : SELITEM (SName k) [mkTok TBare k].
  Proof.
    apply sel_simple; [split; discriminate|discriminate|]. intros f ys. reflexivity.
  Qed.

  (* ---- what the induction carries ---- *)

  Definition arghead (x : list token) : Prop :=
    exists x0 x', x = x0 :: x' /\ goodk x0 /\ arg_kindb (tk x0) = true.

  Definition TRI (e : fexpr) (x : list token) : Prop :=
    headok x /\ (nl_infix e = false -> PRIM e x) /\ (exists L, 4 < L /\ L <= 8 /\ U e x L).

  Lemma prim_tri e x : headok x -> PRIM e x -> TRI e x.
  Proof.
    intros Hh HP. split; [exact Hh|]. split; [intros _; exact HP|].
    exists 8. split; [lia|]. split; [lia|]. apply prim_U. exact HP.
  Qed.

  Lemma wrap_sem e x : TRI e x -> headok (wrap_toks e x) /\ PRIM e (wrap_toks e x).
  Proof.
    intros (Hh & Hprim & L & HL4 & HL8 & HU).
    destruct (nl_infix e) eqn:Hnl.
    - destruct e; try discriminate Hnl. cbn [nl_infix] in Hnl. apply negb_true_iff in Hnl.
      cbn [wrap_toks]. rewrite Hnl. split; [apply headok_cons; split; discriminate|].
      apply (group_prim E re_ok _ x L HU ltac:(lia) Hh).
    - assert (Hw : wrap_toks e x = x).
      { destruct e; try reflexivity. cbn [nl_infix] in Hnl. apply negb_false_iff in Hnl.
        cbn [wrap_toks]. rewrite Hnl. reflexivity. }
      rewrite Hw. split; [exact Hh|exact (Hprim eq_refl)].
  Qed.

  Definition Fe (e : fexpr) (x : list token) : Prop :=
    (arg_form e = true -> arghead x) /\
    (gate_expr e = true -> pr_expr re_ok e = true -> rp_expr E e = true -> TRI e x).
  Definition Fes (es : fexprs) (xs : list (list token)) : Prop :=
    gate_exprs es = true -> pr_exprs re_ok es = true -> rp_args E es = true -> ARGSPEC es xs.
  Definition Fo (e : fexpr) (x : list token) : Prop :=
    gate_expr e = true -> pr_expr re_ok e = true -> rp_expr E e = true -> headok x /\ PRIM e x.
  Definition Fc (e : fexpr) (par : nat) (x : list token) : Prop :=
    gate_expr e = true -> pr_expr re_ok e = true -> rp_expr E e = true -> In par [1; 3; 4; 7] ->
    exists L, par < L /\ L <= 8 /\ headok x /\ U e x L.
  Definition Fs (s : selector) (x : list token) : Prop :=
    gate_sel s = true -> pr_sel re_ok s = true -> rp_sel E s = true -> SELITEM s x.
  Definition Fss (l : sels) (xs : list (list token)) : Prop :=
    (l = LNil -> xs = []) /\ (l <> LNil -> xs <> []) /\
    (gate_sels l = true -> pr_sels re_ok l = true -> rp_sels E l = true -> l <> LNil -> ITEMS l xs).
  Definition Fg (g : segment) (x : list token) : Prop :=
    gate_seg g = true -> pr_seg re_ok g = true -> rp_seg E g = true -> SEG g x.
  Definition Fp (p : segs) (xs : list token) : Prop :=
    gate_segs p = true -> pr_segs re_ok p = true -> rp_segs E p = true -> SEGS p xs.

  Lemma path_case p x (mk : segs -> fexpr) t :
    Fp p x -> goodk t -> arg_kindb (tk t) = true -> arg_form (mk p) = true ->
    (forall f ys, parse_primary (S f) (st0 t ys) = sub_path E re_ok f (st0 t ys) mk) ->
    (forall q, snorm_expr (mk q) = mk (snorm_segs q)) ->
    (gate_expr (mk p) = gate_segs p) -> (pr_expr re_ok (mk p) = pr_segs re_ok p) -> (rp_expr E (mk p) = rp_segs E p) ->
    Fe (mk p) (t :: x).
  Proof.
    intros IH Hg Hk Haf Hpp Hn E1 E2 E3. split.
    - intros _. exists t, x. auto.
    - intros H1 H2 H3. rewrite E1 in H1. rewrite E2 in H2. rewrite E3 in H3.
      apply prim_tri; [apply headok_cons; exact Hg|].
      apply (prim_path E re_ok p x mk t (IH H1 H2 H3) Hg Hpp Hn).
  Qed.

  Theorem reparse_plus :
    (forall e x, px_expr E e x -> Fe e x) /\ (forall es xs, px_exprs E es xs -> Fes es xs) /\
    (forall e x, px_operand E e x -> Fo e x) /\ (forall e par x, px_canon E e par x -> Fc e par x) /\
    (forall s x, px_sel E s x -> Fs s x) /\ (forall l xs, px_sels E l xs -> Fss l xs) /\
    (forall g x, px_seg E g x -> Fg g x) /\ (forall p xs, px_segs E p xs -> Fp p xs).
  Proof.
    destruct (reparse_all E re_ok WT UE) as (RAe & RAes & RAs & RAss & RAg & RAp).
    apply (px_mutind E Fe Fes Fo Fc Fs Fss Fg Fp).
    - (* px_same *) intros e x Hx. split; [intros Ha; exact (arg_head E e x Ha Hx)|].
      intros Hg Hp Hr. destruct (RAe e Hg Hp Hr) as [He _]. exact (He x Hx).
    - (* px_self *) intros p x _ IH.
      refine (path_case p x FSelf (mkTok TSelf (e_self E)) IH _ eq_refl eq_refl _ (fun _ => eq_refl) eq_refl eq_refl eq_refl);
        [split; discriminate|].
      intros f zs. rewrite parse_primary_S. reflexivity.
    - (* px_root *) intros fake p x _ IH.
      refine (path_case p x (FRoot fake) (root_token E fake) IH _ _ eq_refl _ (fun _ => eq_refl) eq_refl eq_refl eq_refl);
        [destruct fake; split; discriminate|destruct fake; reflexivity|].
      intros f zs. rewrite parse_primary_S. destruct fake; reflexivity.
    - (* px_ctx *) intros p x _ IH.
      refine (path_case p x FCtx (mkTok TFilterCtx (e_filter_context E)) IH _ eq_refl eq_refl _ (fun _ => eq_refl) eq_refl eq_refl eq_refl);
        [split; discriminate|].
      intros f zs. rewrite parse_primary_S. reflexivity.
    - (* px_func *) intros name args xs _ IH. split.
      + intros _. eexists _, _. repeat split; discriminate.
      + intros Hg Hp Hr. apply prim_tri; [apply headok_cons; split; discriminate|].
        rewrite gate_expr_func in Hg. apply andb_true_iff in Hg as [Hg1 Hg2].
        change (pr_expr re_ok (FFunc name args)) with (fname_ok name && pr_exprs re_ok args) in Hp.
        apply andb_true_iff in Hp as [_ Hp].
        change (rp_expr E (FFunc name args)) with (rp_args E args) in Hr.
        destruct (gate_sig name) as [[ts t]|] eqn:Hsig; [|discriminate Hg2].
        exact (prim_func E re_ok WT name args xs ts t (IH Hg1 Hp Hr) Hsig Hg2).
    - (* pxs_nil *) intros _ _ _. exact I.
    - (* pxs_cons *) intros e r x xs _ [IHa IHe] _ IHr Hg Hp Hr.
      rewrite gate_exprs_cons in Hg. apply andb_true_iff in Hg as [Hg1 Hg2].
      change (pr_exprs re_ok (ECons e r)) with (pr_expr re_ok e && pr_exprs re_ok r) in Hp.
      apply andb_true_iff in Hp as [Hp1 Hp2].
      change (rp_args E (ECons e r)) with (arg_form e && rp_expr E e && rp_args E r) in Hr.
      apply andb_true_iff in Hr as [Hr Hr2]. apply andb_true_iff in Hr as [Haf Hr1].
      cbn [ShParseProofs.ARGSPEC]. split; [|exact (IHr Hg2 Hp2 Hr2)].
      destruct (IHe Hg1 Hp1 Hr1) as (_ & HP & _). split; [|exact (IHa Haf)].
      apply HP. destruct e; try reflexivity; discriminate Haf.
    - (* po_wrap *) intros e x _ [_ IH] Hg Hp Hr. apply wrap_sem. exact (IH Hg Hp Hr).
    - (* po_paren *) intros e x _ IH Hg Hp Hr.
      destruct (IH Hg Hp Hr ltac:(cbn; tauto)) as (L & HL1 & HL8 & Hh & HU).
      split; [apply headok_cons; split; discriminate|]. exact (group_prim E re_ok e x L HU ltac:(lia) Hh).
    - (* pc_same *) intros e par x Hx Hg Hp Hr Hpar. destruct (RAe e Hg Hp Hr) as [_ Hc]. exact (Hc par x Hpar Hx).
    - (* pc_atom *) intros e par x Hat _ [_ IH] Hg Hp Hr Hpar.
      destruct (IH Hg Hp Hr) as (Hh & HP & _). pose proof (parent_le7 par Hpar) as H7.
      exists 8. split; [lia|]. split; [lia|]. split; [exact Hh|]. apply prim_U. apply HP.
      destruct e; try reflexivity; discriminate Hat.
    - (* pc_not *) intros r par a _ IH Hlt Hg Hp Hr Hpar.
      rewrite gate_expr_not in Hg. apply andb_true_iff in Hg as [Ht Hg].
      change (pr_expr re_ok (FNot r)) with (pr_expr re_ok r) in Hp.
      change (rp_expr E (FNot r)) with (rp_expr E r) in Hr.
      destruct (IH Hg Hp Hr ltac:(cbn; tauto)) as (L & HL7 & HL8 & Hh & HU).
      exists 8. split; [apply Nat.ltb_ge in Hlt; lia|]. split; [lia|].
      split; [apply headok_cons; split; discriminate|]. apply prim_U.
      apply (not_prim E re_ok r a L HU ltac:(lia) Hh Ht).
    - (* pc_and *) intros l r par a b _ IHl _ IHr Hle Hg Hp Hr Hpar.
      pose proof Hg as Hg0. rewrite gate_expr_infix in Hg0.
      apply andb_true_iff in Hg0 as [Hg0 _]. apply andb_true_iff in Hg0 as [Hg0 _].
      apply andb_true_iff in Hg0 as [Hgl Hgr].
      change (pr_expr re_ok (FInfix l BAnd r)) with (pr_expr re_ok l && pr_expr re_ok r) in Hp.
      apply andb_true_iff in Hp as [Hpl Hpr].
      change (rp_expr E (FInfix l BAnd r)) with (rp_expr E l && rp_expr E r) in Hr.
      apply andb_true_iff in Hr as [Hrl Hrr].
      destruct (IHl Hgl Hpl Hrl ltac:(cbn; tauto)) as (Ll & HLl & _ & Hha & Ul).
      destruct (IHr Hgr Hpr Hrr ltac:(cbn; tauto)) as (Lr & HLr & _ & Hhb & Ur).
      destruct (infix_chain E re_ok WT l BAnd r a b Ll Lr Hg Ul Ur Hha Hhb HLl HLr) as [Hh HU].
      apply Nat.leb_gt in Hle.
      exists 4. split; [exact Hle|]. split; [lia|]. split; [exact Hh|exact HU].
    - (* pc_or *) intros l r par a b _ IHl _ IHr Hle Hg Hp Hr Hpar.
      pose proof Hg as Hg0. rewrite gate_expr_infix in Hg0.
      apply andb_true_iff in Hg0 as [Hg0 _]. apply andb_true_iff in Hg0 as [Hg0 _].
      apply andb_true_iff in Hg0 as [Hgl Hgr].
      change (pr_expr re_ok (FInfix l BOr r)) with (pr_expr re_ok l && pr_expr re_ok r) in Hp.
      apply andb_true_iff in Hp as [Hpl Hpr].
      change (rp_expr E (FInfix l BOr r)) with (rp_expr E l && rp_expr E r) in Hr.
      apply andb_true_iff in Hr as [Hrl Hrr].
      destruct (IHl Hgl Hpl Hrl ltac:(cbn; tauto)) as (Ll & HLl & _ & Hha & Ul).
      destruct (IHr Hgr Hpr Hrr ltac:(cbn; tauto)) as (Lr & HLr & _ & Hhb & Ur).
      destruct (infix_chain E re_ok WT l BOr r a b Ll Lr Hg Ul Ur Hha Hhb HLl HLr) as [Hh HU].
      apply Nat.leb_gt in Hle.
      exists 3. split; [exact Hle|]. split; [lia|]. split; [exact Hh|exact HU].
    - (* pc_cmp *) intros l o r par a b Hlog _ IHl _ IHr Hle Hg Hp Hr Hpar.
      pose proof Hg as Hg0. rewrite gate_expr_infix in Hg0.
      apply andb_true_iff in Hg0 as [Hg0 _]. apply andb_true_iff in Hg0 as [Hg0 _].
      apply andb_true_iff in Hg0 as [Hgl Hgr].
      change (pr_expr re_ok (FInfix l o r)) with (pr_expr re_ok l && pr_expr re_ok r) in Hp.
      apply andb_true_iff in Hp as [Hpl Hpr].
      change (rp_expr E (FInfix l o r)) with (rp_expr E l && rp_expr E r) in Hr.
      apply andb_true_iff in Hr as [Hrl Hrr].
      destruct (IHl Hgl Hpl Hrl) as [Hha HPa]. destruct (IHr Hgr Hpr Hrr) as [Hhb HPb].
      assert (Hlev : 4 < lev o /\ lev o < 7) by (destruct o; try discriminate Hlog; cbn; lia).
      destruct (infix_chain E re_ok WT l o r a b 8 8 Hg (prim_U E re_ok _ _ 8 HPa) (prim_U E re_ok _ _ 8 HPb)
                  Hha Hhb ltac:(lia) ltac:(lia)) as [Hh HU].
      exists (lev o). split; [|split; [lia|split; [exact Hh|exact HU]]].
      cbn [In] in Hpar. apply Nat.leb_gt in Hle.
      repeat (destruct Hpar as [<-|Hpar]; [lia|]). contradiction Hpar.
    - (* pc_paren *) intros e par x _ IH Hg Hp Hr Hpar.
      destruct (IH Hg Hp Hr ltac:(cbn; tauto)) as (L & HL1 & HL8 & Hh & HU).
      pose proof (parent_le7 par Hpar) as H7.
      exists 8. split; [lia|]. split; [lia|]. split; [apply headok_cons; split; discriminate|].
      apply prim_U. exact (group_prim E re_ok e x L HU ltac:(lia) Hh).
    - (* ps_same *) intros s x Hx Hg Hp Hr. exact (RAs s Hg Hp Hr x Hx).
    - (* ps_filter *) intros e x _ IH Hg Hp Hr.
      rewrite gate_sel_filter in Hg. apply andb_true_iff in Hg as [Ht Hg].
      change (pr_sel re_ok (SFilter e)) with (pr_expr re_ok e) in Hp.
      change (rp_sel E (SFilter e)) with (rp_expr E e) in Hr.
      destruct (IH Hg Hp Hr ltac:(cbn; tauto)) as (L & HL1 & HL8 & Hh & HU).
      exact (filter_item e x L HU HL1 Hh Ht).
    - (* ps_bare *) intros k _ _ _. apply bare_item.
    - (* pss_nil *) split; [reflexivity|]. split; [intros H; contradiction H; reflexivity|].
      intros _ _ _ H. contradiction H. reflexivity.
    - (* pss_cons *) intros s r x xs _ IHs _ (IH1 & IH2 & IH3).
      split; [discriminate|]. split; [discriminate|]. intros Hg Hp Hr _.
      rewrite gate_sels_cons in Hg. apply andb_true_iff in Hg as [Hg1 Hg2].
      change (pr_sels re_ok (LCons s r)) with (pr_sel re_ok s && pr_sels re_ok r) in Hp.
      apply andb_true_iff in Hp as [Hp1 Hp2].
      change (rp_sels E (LCons s r)) with (rp_sel E s && rp_sels E r) in Hr.
      apply andb_true_iff in Hr as [Hr1 Hr2].
      apply items_cons; [exact (IHs Hg1 Hp1 Hr1)|].
      destruct r as [|s2 r2].
      + left. split; [reflexivity|apply IH1; reflexivity].
      + right. assert (Hne : LCons s2 r2 <> LNil) by discriminate.
        split; [exact Hne|]. split; [exact (IH2 Hne)|exact (IH3 Hg2 Hp2 Hr2 Hne)].
    - (* pg_same *) intros g x Hx Hg Hp Hr. exact (RAg g Hg Hp Hr x Hx).
    - (* pg_list *) intros items xs _ (IH1 & IH2 & IH3) Hg Hp Hr. rewrite gate_seg_list in Hg.
      assert (Hne : items <> LNil) by (intros ->; discriminate Hg).
      assert (Hg' : gate_sels items = true) by (destruct items; [discriminate Hg|exact Hg]).
      apply bracket_seg; [|exact Hne]. exact (IH3 Hg' Hp Hr Hne).
    - (* pp_nil *) intros Hg Hp Hr. exact (RAp PNil Hg Hp Hr [] eq_refl).
    - (* pp_cons *) intros g r x xs _ IHg _ IHr Hg Hp Hr.
      rewrite gate_segs_cons in Hg. apply andb_true_iff in Hg as [Hg1 Hg2].
      change (pr_segs re_ok (PCons g r)) with (pr_seg re_ok g && pr_segs re_ok r) in Hp.
      apply andb_true_iff in Hp as [Hp1 Hp2].
      change (rp_segs E (PCons g r)) with (rp_seg E g && rp_segs E r) in Hr.
      apply andb_true_iff in Hr as [Hr1 Hr2].
      apply segs_cons; [exact (IHg Hg1 Hp1 Hr1)|exact (IHr Hg2 Hp2 Hr2)].
  Qed.
End Main.

(* ---- paths, compound queries, compile_tokens (as ShParseProofs, section Top) ---- *)

Section Top.
  Variable E : env.
  Variable re_ok : ustr -> option bool.
  Hypothesis WT : e_well_typed E = true.
  Hypothesis UE : e_unicode_escape E = true.

  Notation lo := (e_min_index E).
  Notation hi := (e_max_index E).
  Notation root_tok := (ShParseProofs.root_tok E).
  Notation setop_tok := (ShParseProofs.setop_tok E).
  Notation path_ok := (ShParseProofs.path_ok E re_ok).
  Notation topstop := (ShParseProofs.topstop E).

  Lemma parse_one_plus p x fuel zs :
    path_ok p -> px_segs E (p_segs p) x -> need (length x) <= fuel -> topstop zs ->
    parse_one E re_ok fuel (st0 (root_tok (p_fake p)) (x ++ zs)) = Ok (snorm_path p, enter zs).
  Proof.
    intros (Hg & Hp & Hr) Hx Hf Hz.
    destruct (reparse_plus E re_ok WT UE) as (_ & _ & _ & _ & _ & _ & _ & Hsegs).
    destruct (Hsegs (p_segs p) x Hx Hg Hp Hr) as [Hh Hpath].
    unfold parse_one. cbn [st0 s_cur].
    assert (Hroot : is_kind TRoot (root_tok (p_fake p)) || is_kind TFakeRoot (root_tok (p_fake p)) = true)
      by (unfold ShParseProofs.root_tok; destruct (p_fake p); reflexivity).
    rewrite Hroot.
    assert (Hhd : hd_ok (x ++ zs)).
    { destruct Hh as [->|Hh]; [exact (pathstop_hd zs (topstop_pathstop E zs Hz))|exact (headok_hd x zs Hh)]. }
    rewrite next_st0 by (try exact Hhd; unfold ShParseProofs.root_tok; destruct (p_fake p); discriminate).
    cbn [bind snd].
    rewrite (Hpath fuel false [] zs Hf (topstop_pathstop E zs Hz)). cbn [bind fst snd rev app path_exit].
    assert (Hend : is_kind TEof (s_cur (enter zs)) || is_kind TIntersect (s_cur (enter zs)) ||
                   is_kind TUnion (s_cur (enter zs)) = true).
    { destruct zs as [|z zs']; [reflexivity|]. destruct Hz as [o ->]. destruct o; reflexivity. }
    rewrite Hend. rewrite segs_of_list.
    unfold snorm_path. do 3 f_equal. unfold ShParseProofs.root_tok. destruct (p_fake p); reflexivity.
  Qed.

  Lemma compile_rest_plus pf : forall rest xs,
    Forall (fun op => path_ok (snd op)) rest -> px_rest E rest xs -> need (length xs) <= pf ->
    forall g acc, length rest + 1 <= g ->
      compile_rest E re_ok g pf (enter xs) acc =
      Ok (rev acc ++ map (fun op => (fst op, snorm_path (snd op))) rest) /\ topstop xs.
  Proof.
    induction rest as [|[o p] rest IH]; intros xs Hall Hx Hpf g acc Hg.
    - inversion Hx; subst. split; [|exact I]. destruct g as [|g]; [cbn [length] in Hg; lia|].
      cbn [compile_rest enter st0 s_cur map]. change (is_kind TEof eof_tok) with true. rewrite app_nil_r. reflexivity.
    - inversion Hx as [|o' p' rest' y xs' [x [Hsx ->]] Hxs']; subst.
      change (setop_token E o) with (setop_tok o) in *. change (root_token E (p_fake p)) with (root_tok (p_fake p)) in *.
      inversion Hall as [|? ? Hp Hall']; subst. cbn [snd] in Hp.
      cbn [length] in Hpf, Hg. rewrite app_length in Hpf. cbn [length] in Hpf. unfold need in Hpf.
      destruct (IH xs' Hall' Hxs' ltac:(unfold need; lia) (pred g) ((o, snorm_path p) :: acc) ltac:(lia)) as [IHeq Htop].
      split; [|exists o; reflexivity].
      destruct g as [|g]; [lia|]. cbn [pred] in IHeq.
      cbn [compile_rest enter st0 s_cur app].
      assert (Hok : tk (setop_tok o) <> TEof /\ tk (setop_tok o) <> TIllegal) by (destruct o; split; discriminate).
      rewrite (is_kind_false TEof _ (proj1 Hok)).
      assert (Hrg : tk (root_tok (p_fake p)) <> TIllegal /\ tk (root_tok (p_fake p)) <> TEof)
        by (unfold ShParseProofs.root_tok; destruct (p_fake p); split; discriminate).
      fold (st0 (setop_tok o) (root_tok (p_fake p) :: x ++ xs')).
      rewrite peek_st0 by (try exact (proj1 Hok); exact (proj1 Hrg)). cbn [bind fst snd].
      rewrite (is_kind_false TEof _ (proj2 Hrg)). cbn [s_cur].
      rewrite (next_at _ _ _ (at_peeked (setop_tok o) (root_tok (p_fake p)) (x ++ xs') (proj1 Hok)) (proj1 Hrg)).
      destruct o; cbn [ShParseProofs.setop_tok]; cbn [bind fst snd];
        change (is_kind TUnion (mkTok TUnion (e_union E))) with true;
        change (is_kind TUnion (mkTok TIntersect (e_intersection E))) with false;
        change (is_kind TIntersect (mkTok TIntersect (e_intersection E))) with true; cbv iota; cbn [bind snd];
        rewrite (parse_one_plus p x pf xs' Hp Hsx ltac:(unfold need; lia) Htop); cbn [bind fst snd];
        rewrite IHeq; cbn [rev map fst snd]; rewrite <- app_assoc; reflexivity.
  Qed.

  Lemma px_rest_length rest xs : px_rest E rest xs -> length rest <= length xs.
  Proof.
    intros H. induction H as [|o p rest x xs _ _ IH]; [apply le_n|].
    cbn [length]. rewrite app_length. lia.
  Qed.

  Theorem parse_plus_sec (q : query) (ts : list token) :
    gate_query lo hi q = true -> printable re_ok q = true -> reparsable E q = true ->
    px_query E q ts ->
    compile_tokens E re_ok ts = Ok (snorm_query q).
  Proof.
    intros Hg Hp Hr (y & xs & (x & Hx & ->) & Hxs & ->).
    unfold gate_query in Hg. apply andb_true_iff in Hg as [Hg1 Hg2].
    unfold printable in Hp. apply andb_true_iff in Hp as [Hp1 Hp2].
    unfold reparsable in Hr. apply andb_true_iff in Hr as [Hr1 Hr2].
    assert (Hfirst : path_ok (q_first q)) by (repeat split; assumption).
    assert (Hrest : Forall (fun op => path_ok (snd op)) (q_rest q)).
    { apply Forall_forall. intros op Hin.
      rewrite forallb_forall in Hg2, Hp2, Hr2. repeat split; [apply Hg2|apply Hp2|apply Hr2]; exact Hin. }
    change (root_token E (p_fake (q_first q))) with (root_tok (p_fake (q_first q))).
    unfold compile_tokens. cbv zeta. cbn [app].
    rewrite init_stream_enter by (unfold ShParseProofs.root_tok; destruct (p_fake (q_first q)); discriminate).
    cbn [bind]. cbn [length]. rewrite app_length.
    pose proof (px_rest_length _ _ Hxs) as Hlen.
    assert (Hn1 : need (length xs) <= 4 * S (length x + length xs) + 16) by (unfold need; lia).
    assert (Hn2 : length (q_rest q) + 1 <= S (S (length x + length xs))) by lia.
    assert (Hn3 : need (length x) <= 4 * S (length x + length xs) + 16) by (unfold need; lia).
    destruct (compile_rest_plus (4 * S (length x + length xs) + 16) (q_rest q) xs Hrest Hxs
                Hn1 (S (S (length x + length xs))) [] Hn2) as [Hcr Htop].
    rewrite (parse_one_plus (q_first q) x _ xs Hfirst Hx Hn3 Htop).
    cbn [bind fst snd]. rewrite Hcr. reflexivity.
  Qed.
End Top.

Theorem plus_parse_print :
  forall (E : env) re_ok (q : query) (ts : list token),
    e_well_typed E = true -> e_unicode_escape E = true ->
    gate_query (e_min_index E) (e_max_index E) q = true -> printable re_ok q = true ->
    reparsable E q = true ->
    px_query E q ts ->
    compile_tokens E re_ok ts = Ok (snorm_query q).
Proof. intros E re_ok q ts WT UE. apply parse_plus_sec; assumption. Qed.

(* Stage 2 *)
Theorem parse_free_plus :
  forall (E : env) re_ok (q : query) (t : ustr) (ts : list token),
    e_well_typed E = true -> e_unicode_escape E = true ->
    c10_domain E re_ok q = true -> spells_plus_as E q t ts ->
    exists q', compile_tokens E re_ok ts = Ok q' /\ norm_query q' = norm_query q.
Proof.
  intros E ro q t ts WT UE HD (qs & ts1 & items & wf & Hb & Hts1 & Hlex & _ & _ & ->).
  destruct (same_brackets_domain E ro q qs Hb HD) as (Hg & Hp & Hr & Hf & Hn).
  exists (snorm_query qs). split.
  - apply (compile_tokens_transfer E ro ts1).
    + rewrite chain_toks_map. apply lexemes_plus_tsim; assumption.
    + apply plus_parse_print; assumption.
  - rewrite (norm_snorm_query qs Hf). exact Hn.
Qed.

(* Stage 3: free_spelling for the larger class *)
Theorem free_spelling_plus :
  forall (E : env) re_ok (q : query) (t : ustr),
    tokens_ok E = true -> e_well_typed E = true -> e_unicode_escape E = true ->
    c10_domain E re_ok q = true -> spells_plus E q t ->
    exists q', compile E re_ok t = Ok q' /\ norm_query q' = norm_query q.
Proof.
  intros E ro q t HT WT UE HD [ts Hs]. unfold compile. rewrite (lex_free_plus E q t ts HT Hs).
  apply (parse_free_plus E ro q t ts WT UE HD Hs).
Qed.

Corollary free_spelling_plus_results :
  forall (E : env) re_ok rf rs (q : query) (t : ustr) (d ctx : json),
    tokens_ok E = true -> e_well_typed E = true -> e_unicode_escape E = true ->
    c10_domain E re_ok q = true -> spells_plus E q t ->
    exists q', compile E re_ok t = Ok q' /\
               compound_finditer E rf rs q' d ctx = compound_finditer E rf rs q d ctx.
Proof.
  intros E ro rf rs q t d ctx HT WT UE HD Hs.
  destruct (free_spelling_plus E ro q t HT WT UE HD Hs) as [q' [Hc Hn]]. exists q'. split; [exact Hc|].
  rewrite <- (norm_equiv E rf rs q' d ctx), <- (norm_equiv E rf rs q d ctx). rewrite Hn. reflexivity.
Qed.

(* ---------------------------------------------------------------------- *)
(* an instance with both new choices:   $[?((@.a == (1)) && ((@.b)))][x, "y"]   *)

Definition plus_self (k : ustr) : fexpr := FSelf (PCons (GSel (SName k)) PNil).
Definition plus_cmp : fexpr := FInfix (plus_self [97%N]) BEq (FInt 1%Z).
Definition plus_and : fexpr := FInfix plus_cmp BAnd (plus_self [98%N]).

(* $[?@.a == 1 && @.b]['x', 'y'] *)
Definition plus_query : query :=
  mkQuery (mkPath false
    (PCons (GList (LCons (SFilter plus_and) LNil))
    (PCons (GList (LCons (SName [120%N]) (LCons (SName [121%N]) LNil))) PNil))) [].

Definition plus_items : list item :=
  [([], X TRoot [36%N]); ([], X TLBracket [91%N]); ([], X TFilter [63%N]);
   ([], X TLParen [40%N]); ([], X TLParen [40%N]); ([], X TSelf [64%N]); ([], XProp [97%N]);
   ([32%N], X TEq [61; 61]%N); ([32%N], X TLParen [40%N]); ([], X TInt [49%N]); ([], X TRParen [41%N]);
   ([], X TRParen [41%N]); ([32%N], X TAnd [38; 38]%N);
   ([32%N], X TLParen [40%N]); ([], X TLParen [40%N]); ([], X TSelf [64%N]); ([], XProp [98%N]);
   ([], X TRParen [41%N]); ([], X TRParen [41%N]); ([], X TRParen [41%N]); ([], X TRBracket [93%N]);
   ([], X TLBracket [91%N]); ([], XBare [120%N]); ([], X TComma [44%N]); ([32%N], XStr true [121%N]);
   ([], X TRBracket [93%N])].

Lemma plus_query_toks : exists ts1, px_query default_env plus_query ts1 /\ lexemes_plus ts1 (map snd plus_items).
Proof.
  set (E := default_env).
  pose proof (pc_same E (FInt 1%Z) 1 _ eq_refl) as H1.
  pose proof (po_paren E _ _ H1) as H2.
  pose proof (po_wrap E (plus_self [97%N]) _ (px_same E (plus_self [97%N]) _ eq_refl)) as H3.
  pose proof (pc_cmp E _ BEq _ 1 _ _ eq_refl H3 H2 eq_refl) as H4.
  pose proof (pc_paren E _ 4 _ H4) as H5.
  pose proof (pc_same E (plus_self [98%N]) 1 _ eq_refl) as H6.
  pose proof (pc_paren E _ 1 _ H6) as H7.
  pose proof (pc_paren E _ 4 _ H7) as H8.
  pose proof (pc_and E _ _ 1 _ _ H5 H8 eq_refl) as H9.
  pose proof (pc_paren E _ 1 _ H9) as H10.
  pose proof (ps_filter E _ _ H10) as H11.
  pose proof (pg_list E _ _ (pss_cons E _ _ _ _ H11 (pss_nil E))) as H13.
  pose proof (ps_bare E [120%N]) as H14.
  pose proof (ps_same E (SName [121%N]) _ eq_refl) as H15.
  pose proof (pg_list E _ _ (pss_cons E _ _ _ _ H14 (pss_cons E _ _ _ _ H15 (pss_nil E)))) as H17.
  pose proof (pp_cons E _ _ _ _ H13 (pp_cons E _ _ _ _ H17 (pp_nil E))) as H18.
  eexists. split.
  - eexists _, []. split; [eexists; split; [exact H18|reflexivity]|]. split; [constructor|reflexivity].
  - vm_compute.
    apply (lp_app [_; _; _; _; _; _; _; _; _; _; _; _; _; _; _; _; _; _; _; _; _; _]
                  [_; _; _; _; _; _; _; _; _; _; _; _; _; _; _; _; _; _; _; _; _; _]).
    + do 6 apply lo_tok. apply lo_prop. do 9 apply lo_tok. apply lo_prop. do 5 apply lo_tok. apply lo_nil.
    + apply lp_bare.
      apply (lp_app [_; _; _] [_; _; _] [] []); [|constructor].
      apply lo_tok. apply (lo_str [121%N] true [121%N]); [repeat split; reflexivity|]. apply lo_tok. apply lo_nil.
Qed.

Local Ltac lok :=
  cbn; first [ reflexivity | left; tauto | right; left; tauto
             | right; right; left; split; [reflexivity|first [exists 1%Z; reflexivity | exists 2%Z; reflexivity]]
             | repeat split; try reflexivity; try discriminate ].

Example plus_spelled : spells_plus default_env plus_query (render plus_items []).
Proof.
  destruct plus_query_toks as [ts1 [Hq Hl]].
  exists (chain_toks plus_items), plus_query, ts1, plus_items, [].
  split; [reflexivity|]. split; [exact Hq|]. split; [exact Hl|]. split; [|split; reflexivity].
  cbn [chain_ok plus_items]. repeat match goal with |- _ /\ _ => split end; try reflexivity; lok.
Qed.

Example plus_compiled :
  exists q', compile default_env (fun _ => Some true) (render plus_items []) = Ok q' /\
             norm_query q' = norm_query plus_query.
Proof.
  apply (free_spelling_plus default_env (fun _ => Some true) plus_query);
    [reflexivity|reflexivity|reflexivity|vm_compute; reflexivity|exact plus_spelled].
Qed.
