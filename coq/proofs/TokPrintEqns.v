(* TokPrintEqns.v — defining equations of the token printer's mutual fixpoint (spec/TokPrint.v). *)
From Coq Require Import ZArith List Bool.
From JP Require Import Base Json PyStr PyJsonStr Syntax Lex Parse Serialize TokPrint.
Import ListNotations.

Section Eqns.
  Variable E : env.
  Notation expr_toks := (TokPrint.expr_toks E).
  Notation exprs_toks := (TokPrint.exprs_toks E).
  Notation canon_toks := (TokPrint.canon_toks E).
  Notation sel_toks := (TokPrint.sel_toks E).
  Notation sels_toks := (TokPrint.sels_toks E).
  Notation seg_toks := (TokPrint.seg_toks E).
  Notation segs_toks := (TokPrint.segs_toks E).

  Definition lbracket := mkTok TLBracket [91%N].
  Definition rbracket := mkTok TRBracket [93%N].
  Definition not_tok := mkTok TNot [33%N].

  Lemma expr_toks_not r :
    expr_toks (FNot r) = (x <- expr_toks r ;; Ok (not_tok :: wrap_toks r x)).
  Proof. reflexivity. Qed.
  Lemma expr_toks_infix l o r :
    expr_toks (FInfix l o r) =
    (a <- expr_toks l ;; b <- expr_toks r ;;
     Ok (if is_logical o then lparen :: (a ++ op_token o :: b) ++ [rparen]
         else wrap_toks l a ++ op_token o :: wrap_toks r b)).
  Proof. reflexivity. Qed.
  Lemma expr_toks_list items :
    expr_toks (FList items) =
    (xs <- exprs_toks items ;; Ok (lbracket :: sep_by [comma] xs ++ [rbracket])).
  Proof. reflexivity. Qed.
  Lemma expr_toks_self p :
    expr_toks (FSelf p) = (x <- segs_toks p ;; Ok (mkTok TSelf (e_self E) :: x)).
  Proof. reflexivity. Qed.
  Lemma expr_toks_root fake p :
    expr_toks (FRoot fake p) =
    (x <- segs_toks p ;;
     Ok ((if fake then mkTok TFakeRoot (e_fake_root E) else mkTok TRoot (e_root E)) :: x)).
  Proof. reflexivity. Qed.
  Lemma expr_toks_ctx p :
    expr_toks (FCtx p) = (x <- segs_toks p ;; Ok (mkTok TFilterCtx (e_filter_context E) :: x)).
  Proof. reflexivity. Qed.
  Lemma expr_toks_func name args :
    expr_toks (FFunc name args) =
    (xs <- exprs_toks args ;; Ok (mkTok TFunction name :: sep_by [comma] xs ++ [rparen])).
  Proof. reflexivity. Qed.
  Lemma exprs_toks_cons e r :
    exprs_toks (ECons e r) = (x <- expr_toks e ;; xs <- exprs_toks r ;; Ok (x :: xs)).
  Proof. reflexivity. Qed.

  (* canon_toks on everything that is not a prefix or infix expression is expr_toks *)
  Lemma canon_toks_atom e parent :
    match e with FNot _ | FInfix _ _ _ => True | _ => canon_toks e parent = expr_toks e end.
  Proof. destruct e; try exact I; reflexivity. Qed.

  Lemma canon_toks_not r parent :
    canon_toks (FNot r) parent =
    (a <- canon_toks r 7 ;;
     Ok (if Nat.ltb 7 parent then lparen :: (not_tok :: a) ++ [rparen] else not_tok :: a)).
  Proof. reflexivity. Qed.
  Lemma canon_toks_and l r parent :
    canon_toks (FInfix l BAnd r) parent =
    (a <- canon_toks l 4 ;; b <- canon_toks r 4 ;;
     Ok (if Nat.leb 4 parent then lparen :: (a ++ op_token BAnd :: b) ++ [rparen] else a ++ op_token BAnd :: b)).
  Proof. reflexivity. Qed.
  Lemma canon_toks_or l r parent :
    canon_toks (FInfix l BOr r) parent =
    (a <- canon_toks l 3 ;; b <- canon_toks r 3 ;;
     Ok (if Nat.leb 3 parent then lparen :: (a ++ op_token BOr :: b) ++ [rparen] else a ++ op_token BOr :: b)).
  Proof. reflexivity. Qed.
  Lemma canon_toks_cmp l o r parent : is_logical o = false ->
    canon_toks (FInfix l o r) parent =
    (a <- expr_toks l ;; b <- expr_toks r ;;
     Ok (if Nat.leb 7 parent
         then lparen :: (wrap_toks l a ++ op_token o :: wrap_toks r b) ++ [rparen]
         else wrap_toks l a ++ op_token o :: wrap_toks r b)).
  Proof. destruct o; intros H; try discriminate H; reflexivity. Qed.

  Lemma sel_toks_filter e : sel_toks (SFilter e) = (x <- canon_toks e 1 ;; Ok (mkTok TFilter [63%N] :: x)).
  Proof. reflexivity. Qed.
  Lemma sels_toks_cons s r :
    sels_toks (LCons s r) = (x <- sel_toks s ;; xs <- sels_toks r ;; Ok (x :: xs)).
  Proof. reflexivity. Qed.
  Lemma seg_toks_list items :
    seg_toks (GList items) = (xs <- sels_toks items ;; Ok (lbracket :: sep_by [comma] xs ++ [rbracket])).
  Proof. reflexivity. Qed.
  Lemma seg_toks_sel s :
    seg_toks (GSel s) =
    match s with
    | SName k => Ok (lbracket :: tk1 TSQ (canonical_body k) ++ [rbracket])
    | SWild => Ok (lbracket :: tk1 TWild [42%N] ++ [rbracket])
    | SKeys => Ok (lbracket :: tk1 TKeys (e_keys E) ++ [rbracket])
    | SSlice _ _ _ => x <- sel_toks s ;; Ok (lbracket :: x ++ [rbracket])
    | _ => sel_toks s
    end.
  Proof. destruct s; reflexivity. Qed.
  Lemma segs_toks_cons g r :
    segs_toks (PCons g r) = (x <- seg_toks g ;; xs <- segs_toks r ;; Ok (x ++ xs)).
  Proof. reflexivity. Qed.
End Eqns.
