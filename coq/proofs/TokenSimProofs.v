(* TokenSimProofs.v — the parser does not distinguish a quoted string token from another one (in
   either kind of quotes) that decodes to the same string, nor a shorthand name written with its
   dot (TProperty) from the same name written bare (TBare): if the tokens of one list are
   related in this way to those of another and the first list compiles, the second compiles to the
   same query. *)
From Coq Require Import ZArith List Bool Lia.
From JP Require Import Base Json PyStr PyJsonStr Syntax Lex Parse.
From JP Require Import ParseEqns.
Import ListNotations.

(* ---------------------------------------------------------------------- *)
(* results related by a relation on their values; an error on the left relates to anything *)

Definition rsim {A B} (R : A -> B -> Prop) (r : result A) (r' : result B) : Prop :=
  match r with Ok a => exists a', r' = Ok a' /\ R a a' | Err _ => True end.

Lemma rsim_ok {A B} (R : A -> B -> Prop) a a' : R a a' -> rsim R (Ok a) (Ok a').
Proof. intros H. exists a'. auto. Qed.

Lemma rsim_err {A B} (R : A -> B -> Prop) e r' : rsim R (Err e) r'.
Proof. exact I. Qed.

Lemma rsim_bind {A B C D} (R : A -> B -> Prop) (Q : C -> D -> Prop) r r' f f' :
  rsim R r r' -> (forall a a', R a a' -> rsim Q (f a) (f' a')) -> rsim Q (bind r f) (bind r' f').
Proof.
  intros Hr Hf. destruct r as [a|e]; [|exact I]. destruct Hr as [a' [-> Ha]]. cbn [bind]. apply Hf. exact Ha.
Qed.

Lemma rsim_same {A} (r : result A) : rsim eq r r.
Proof. destruct r; [eexists; split; reflexivity|exact I]. Qed.

Lemma rsim_weaken {A B} (R Q : A -> B -> Prop) r r' : (forall a a', R a a' -> Q a a') -> rsim R r r' -> rsim Q r r'.
Proof. intros H Hr. destruct r as [a|e]; [|exact I]. destruct Hr as [a' [-> Ha]]. exists a'. auto. Qed.

Section Sim.
  Variable E : env.
  Variable re_ok : ustr -> option bool.

  Definition ctl (t : token) : bool := existsb (fun c => N.ltb c 32) (tv t).

  (* the relation on tokens *)
  Definition tsim (t t' : token) : Prop :=
    t = t' \/
    (tk t = TSQ /\ (tk t' = TSQ \/ tk t' = TDQ) /\ ctl t = false /\ ctl t' = false /\
     exists s, decode_string E t = Ok s /\ decode_string E t' = Ok s) \/
    (tk t = TProperty /\ t' = mkTok TBare (tv t)).

  Definition ssim (st st' : stream) : Prop :=
    tsim (s_cur st) (s_cur st') /\ Forall2 tsim (s_pushed st) (s_pushed st') /\
    Forall2 tsim (s_rest st) (s_rest st').

  Definition vs {A} (x x' : A * stream) : Prop := fst x = fst x' /\ ssim (snd x) (snd x').
  Definition ts_ (x x' : token * stream) : Prop := tsim (fst x) (fst x') /\ ssim (snd x) (snd x').

  Lemma tsim_refl t : tsim t t.
  Proof. left. reflexivity. Qed.

  (* what a related token looks like to the parser *)
  Lemma tsim_is_kind k t t' :
    tsim t t' -> k <> TSQ -> k <> TDQ -> k <> TProperty -> k <> TBare -> is_kind k t = is_kind k t'.
  Proof.
    intros [->|[[H1 [H2 _]]|[H1 ->]]] N1 N2 N3 N4; [reflexivity| |]; unfold is_kind; cbn [tk].
    - rewrite H1. destruct H2 as [-> | ->]; destruct k; try reflexivity; congruence.
    - rewrite H1. destruct k; try reflexivity; congruence.
  Qed.

  Lemma tsim_binop t t' : tsim t t' -> binop_of_kind (tk t) = binop_of_kind (tk t').
  Proof.
    intros [->|[[H1 [H2 _]]|[H1 ->]]]; [reflexivity| |]; cbn [tk]; rewrite H1.
    - destruct H2 as [-> | ->]; reflexivity.
    - reflexivity.
  Qed.

  Lemma tsim_prec t t' : tsim t t' -> precedence_of (tk t) = precedence_of (tk t').
  Proof.
    intros [->|[[H1 [H2 _]]|[H1 ->]]]; [reflexivity| |]; cbn [tk]; rewrite H1.
    - destruct H2 as [-> | ->]; reflexivity.
    - reflexivity.
  Qed.

  Inductive tcase (t t' : token) : Prop :=
  | tc_eq : t = t' -> tcase t t'
  | tc_str s : tk t = TSQ -> (tk t' = TSQ \/ tk t' = TDQ) -> ctl t = false -> ctl t' = false ->
               decode_string E t = Ok s -> decode_string E t' = Ok s -> tcase t t'
  | tc_bare : tk t = TProperty -> tk t' = TBare -> tv t' = tv t -> tcase t t'.

  Lemma tsim_cases t t' : tsim t t' -> tcase t t'.
  Proof.
    intros [H|[[H1 [H2 [H3 [H4 [s [H5 H6]]]]]]|[H1 H2]]].
    - apply tc_eq. exact H.
    - apply (tc_str t t' s); assumption.
    - subst t'. apply tc_bare; [exact H1|reflexivity|reflexivity].
  Qed.

  (* ---------------------------------------------------------------------- *)
  (* the stream primitives *)

  Lemma advance_sim st st' : ssim st st' -> rsim ssim (advance st) (advance st').
  Proof.
    destruct st as [c p r], st' as [c' p' r']. unfold ssim, advance. cbn [s_cur s_pushed s_rest].
    intros [Hc [Hp Hr]]. destruct Hp as [|x x' ps ps' Hx Hps].
    - rewrite <- (tsim_is_kind TEof _ _ Hc) by discriminate.
      destruct (is_kind TEof c); [apply rsim_ok; repeat split; [exact Hc|constructor|exact Hr]|].
      destruct Hr as [|y y' rs rs' Hy Hrs].
      + apply rsim_ok. repeat split; [apply tsim_refl|constructor|constructor].
      + rewrite <- (tsim_is_kind TIllegal _ _ Hy) by discriminate.
        destruct (is_kind TIllegal y); [exact I|]. apply rsim_ok. repeat split; [exact Hy|constructor|exact Hrs].
    - apply rsim_ok. repeat split; [exact Hx|exact Hps|exact Hr].
  Qed.

  Lemma next_token_sim st st' : ssim st st' -> rsim ts_ (next_token st) (next_token st').
  Proof.
    intros H. unfold next_token. apply (rsim_bind ssim); [apply advance_sim; exact H|].
    intros a a' Ha. apply rsim_ok. split; [exact (proj1 H)|exact Ha].
  Qed.

  Lemma push_sim st st' t t' : ssim st st' -> tsim t t' -> ssim (push st t) (push st' t').
  Proof.
    intros [Hc [Hp Hr]] Ht. unfold push. repeat split; cbn [s_cur s_pushed s_rest]; [exact Ht| |exact Hr].
    apply Forall2_app; [exact Hp|]. constructor; [exact Hc|constructor].
  Qed.

  Lemma peek_sim st st' : ssim st st' -> rsim ts_ (peek st) (peek st').
  Proof.
    intros H. unfold peek. apply (rsim_bind ssim); [apply advance_sim; exact H|].
    intros a a' Ha. apply rsim_ok. split; cbn [fst snd]; [exact (proj1 Ha)|].
    apply push_sim; [exact Ha|exact (proj1 H)].
  Qed.

  Lemma expect_sim st st' k :
    ssim st st' -> k <> TSQ -> k <> TDQ -> k <> TProperty -> k <> TBare ->
    rsim eq (expect st k) (expect st' k).
  Proof.
    intros [Hc _] N1 N2 N3 N4. unfold expect. rewrite <- (tsim_is_kind k _ _ Hc) by assumption.
    apply rsim_same.
  Qed.

  Lemma init_stream_sim ts ts' : Forall2 tsim ts ts' -> rsim ssim (init_stream ts) (init_stream ts').
  Proof.
    intros H. unfold init_stream. apply advance_sim. repeat split; cbn [s_cur s_pushed s_rest];
      [apply tsim_refl|constructor|exact H].
  Qed.
End Sim.

From JP Require Import ParseSpec.

Section Sim2.
  Variable E : env.
  Variable re_ok : ustr -> option bool.

  Notation tsim := (tsim E).
  Notation ssim := (ssim E).
  Notation vs := (vs E).
  Notation ts_ := (ts_ E).
  Notation parse_path := (Parse.parse_path E re_ok).
  Notation parse_selector_list := (Parse.parse_selector_list E re_ok).
  Notation parse_filter := (Parse.parse_filter E re_ok).
  Notation pfs := (Parse.parse_filter_selector E re_ok).
  Notation parse_infix := (Parse.parse_infix E re_ok).
  Notation parse_primary := (Parse.parse_primary E re_ok).

  Lemma tsim_eq_kind t t' : tsim t t' -> tk t <> TSQ -> tk t <> TProperty -> t = t'.
  Proof. intros [H|[[H _]|[H _]]] N1 N2; [exact H|contradiction|contradiction]. Qed.

  Lemma is_kind_tk k t : is_kind k t = true -> tk t = k.
  Proof. unfold is_kind. apply tkind_eqb_eq. Qed.

  Lemma next_token_fst st t s : next_token st = Ok (t, s) -> t = s_cur st.
  Proof. unfold next_token. destruct (advance st); cbn [bind]; [|discriminate]. intros H. injection H as <- _. reflexivity. Qed.

  (* ---- slices ---- *)
  Lemma parse_slice_sim st st' :
    ssim st st' -> tk (s_cur st) = TSliceStart -> rsim vs (parse_slice E st) (parse_slice E st').
  Proof.
    intros H Hk. unfold parse_slice.
    assert (Hcur : s_cur st = s_cur st').
    { apply tsim_eq_kind; [exact (proj1 H)|rewrite Hk; discriminate|rewrite Hk; discriminate]. }
    pose proof (next_token_sim E st st' H) as H1.
    destruct (next_token st) as [[t1 s1]|] eqn:E1; [|exact I].
    destruct H1 as [[t1' s1'] [E1' [_ Hs1]]]. cbn [fst snd] in Hs1. rewrite E1'. cbn [bind].
    apply next_token_fst in E1. apply next_token_fst in E1'. subst t1 t1'. rewrite <- Hcur.
    unfold expect. rewrite <- (tsim_is_kind E TSliceStop _ _ (proj1 Hs1)) by discriminate.
    destruct (is_kind TSliceStop (s_cur s1)) eqn:K1; [|exact I]. cbn [bind].
    assert (Hc1 : s_cur s1 = s_cur s1').
    { apply is_kind_tk in K1. apply tsim_eq_kind; [exact (proj1 Hs1)|rewrite K1; discriminate|rewrite K1; discriminate]. }
    pose proof (next_token_sim E s1 s1' Hs1) as H2.
    destruct (next_token s1) as [[t2 s2]|] eqn:E2; [|exact I].
    destruct H2 as [[t2' s2'] [E2' [_ Hs2]]]. cbn [fst snd] in Hs2. rewrite E2'. cbn [bind].
    apply next_token_fst in E2. apply next_token_fst in E2'. subst t2 t2'. rewrite <- Hc1.
    rewrite <- (tsim_is_kind E TSliceStep _ _ (proj1 Hs2)) by discriminate.
    destruct (is_kind TSliceStep (s_cur s2)) eqn:K2; [|exact I]. cbn [bind].
    assert (Hc2 : s_cur s2 = s_cur s2').
    { apply is_kind_tk in K2. apply tsim_eq_kind; [exact (proj1 Hs2)|rewrite K2; discriminate|rewrite K2; discriminate]. }
    cbv zeta. rewrite <- Hc2.
    destruct (match tv (s_cur st) with [] => Ok None | _ :: _ => _ end) as [a|]; [|exact I]. cbn [bind].
    destruct (match tv (s_cur s1) with [] => Ok None | _ :: _ => _ end) as [b|]; [|exact I]. cbn [bind].
    destruct (match tv (s_cur s2) with [] => Ok None | _ :: _ => _ end) as [c|]; [|exact I]. cbn [bind].
    destruct (_ && _); [|exact I]. apply rsim_ok. split; [reflexivity|exact Hs2].
  Qed.

  (* ---- list literals ---- *)
  Lemma list_item_sim t t' :
    tsim t t' ->
    rsim eq (match tk t with
             | TFalse => Ok (FBool false) | TTrue => Ok (FBool true)
             | TFloat => parse_float_literal (tv t) | TInt => parse_int_literal (tv t)
             | TNil => Ok FNil
             | TDQ | TSQ => s <- decode_string E t ;; Ok (FStr s)
             | _ => syntax_error
             end)
            (match tk t' with
             | TFalse => Ok (FBool false) | TTrue => Ok (FBool true)
             | TFloat => parse_float_literal (tv t') | TInt => parse_int_literal (tv t')
             | TNil => Ok FNil
             | TDQ | TSQ => s <- decode_string E t' ;; Ok (FStr s)
             | _ => syntax_error
             end).
  Proof.
    intros H. destruct (tsim_cases E t t' H) as [<-|s K K' _ _ D D'|K K' _].
    - apply rsim_same.
    - rewrite K. rewrite D. cbn [bind]. destruct K' as [-> | ->]; rewrite D'; cbn [bind]; apply rsim_ok; reflexivity.
    - rewrite K. exact I.
  Qed.

  Lemma after_item_sim nxt nxt' st1 st1' :
    tsim nxt nxt' -> ssim st1 st1' ->
    rsim ssim (if is_kind TRBracket nxt then Ok st1
               else if is_kind TComma nxt then r <- next_token st1 ;; Ok (snd r) else syntax_error)
              (if is_kind TRBracket nxt' then Ok st1'
               else if is_kind TComma nxt' then r <- next_token st1' ;; Ok (snd r) else syntax_error).
  Proof.
    intros Hn Hs. rewrite <- (tsim_is_kind E TRBracket _ _ Hn), <- (tsim_is_kind E TComma _ _ Hn) by discriminate.
    destruct (is_kind TRBracket nxt); [apply rsim_ok; exact Hs|].
    destruct (is_kind TComma nxt); [|exact I].
    apply (rsim_bind ts_); [apply next_token_sim; exact Hs|]. intros a a' [_ Ha]. apply rsim_ok. exact Ha.
  Qed.

  Lemma parse_list_items_sim f : forall st st' acc,
    ssim st st' -> rsim vs (parse_list_items E f st acc) (parse_list_items E f st' acc).
  Proof.
    induction f as [|f IH]; intros st st' acc H; [exact I|].
    rewrite !parse_list_items_S.
    rewrite <- (tsim_is_kind E TRBracket _ _ (proj1 H)) by discriminate.
    destruct (is_kind TRBracket (s_cur st)); [apply rsim_ok; split; [reflexivity|exact H]|].
    apply (rsim_bind eq); [apply list_item_sim; exact (proj1 H)|]. intros item ? <-.
    apply (rsim_bind ts_); [apply peek_sim; exact H|]. intros [nxt st1] [nxt' st1'] [Hn Hs]. cbn [fst snd] in Hn, Hs.
    apply (rsim_bind ssim); [apply after_item_sim; assumption|]. intros st2 st2' Hs2.
    apply (rsim_bind ts_); [apply next_token_sim; exact Hs2|]. intros r3 r3' [_ Hs3]. apply IH. exact Hs3.
  Qed.
End Sim2.

Section Sim3.
  Variable E : env.
  Variable re_ok : ustr -> option bool.

  Notation tsim := (tsim E).
  Notation ssim := (ssim E).
  Notation vs := (vs E).
  Notation ts_ := (ts_ E).
  Notation parse_path := (Parse.parse_path E re_ok).
  Notation parse_selector_list := (Parse.parse_selector_list E re_ok).
  Notation parse_filter := (Parse.parse_filter E re_ok).
  Notation pfs := (Parse.parse_filter_selector E re_ok).
  Notation parse_infix := (Parse.parse_infix E re_ok).
  Notation parse_primary := (Parse.parse_primary E re_ok).

  Definition S_path (f : nat) : Prop := forall b st st' acc,
    ssim st st' -> rsim vs (parse_path f b st acc) (parse_path f b st' acc).
  Definition S_sellist (f : nat) : Prop := forall st st',
    ssim st st' -> rsim vs (parse_selector_list f st) (parse_selector_list f st').
  Definition S_filter (f : nat) : Prop := forall st st',
    ssim st st' -> rsim vs (parse_filter f st) (parse_filter f st').
  Definition S_fs (f : nat) : Prop := forall st st' prec,
    ssim st st' -> rsim vs (pfs f st prec) (pfs f st' prec).
  Definition S_infix (f : nat) : Prop := forall st st' lhs,
    ssim st st' -> rsim vs (parse_infix f st lhs) (parse_infix f st' lhs).
  Definition S_primary (f : nat) : Prop := forall st st',
    ssim st st' -> rsim vs (parse_primary f st) (parse_primary f st').

  Lemma vs_intro {A} (a : A) s s' : ssim s s' -> vs (a, s) (a, s').
  Proof. intros H. split; [reflexivity|exact H]. Qed.

  (* ---- paths ---- *)
  Lemma continue_sim f b acc g st st' :
    S_path f -> ssim st st' ->
    rsim vs (continue_with E re_ok f b acc g st) (continue_with E re_ok f b acc g st').
  Proof.
    intros IH H. unfold continue_with. apply (rsim_bind ts_); [apply next_token_sim; exact H|].
    intros r r' [_ Hr]. apply IH. exact Hr.
  Qed.

  Lemma path_step f : S_path f -> S_sellist f -> S_path (S f).
  Proof.
    intros IHp IHs b st st' acc H. rewrite !parse_path_S.
    destruct (tsim_cases E _ _ (proj1 H)) as [Heq|s K K' _ _ _ _|K K' Hv].
    - rewrite <- Heq. destruct (tk (s_cur st)) eqn:K;
        try (apply rsim_ok; apply vs_intro; destruct b; [apply push_sim; [exact H|rewrite Heq; apply tsim_refl]|exact H]);
        try (apply continue_sim; assumption).
      + (* slice *)
        apply (rsim_bind vs); [apply parse_slice_sim; assumption|]. intros r r' [Hf Hs]. rewrite Hf.
        apply continue_sim; assumption.
      + (* bracket *)
        apply (rsim_bind vs); [apply IHs; exact H|]. intros r r' [Hf Hs]. rewrite Hf.
        apply continue_sim; assumption.
    - rewrite K. destruct K' as [-> | ->]; apply rsim_ok; apply vs_intro;
        (destruct b; [apply push_sim; [exact H|exact (proj1 H)]|exact H]).
    - rewrite K, K', Hv. apply continue_sim; assumption.
  Qed.

  (* ---- bracketed selections ---- *)
  Lemma sel_item_sim f st st' :
    S_filter f -> ssim st st' -> rsim vs (sel_item E re_ok f st) (sel_item E re_ok f st').
  Proof.
    intros IHf H. unfold sel_item.
    destruct (tsim_cases E _ _ (proj1 H)) as [Heq|s K K' C C' D D'|K K' Hv].
    - rewrite <- Heq. destruct (tk (s_cur st)) eqn:K; try exact I.
      + (* keys *) apply rsim_ok. apply vs_intro. exact H.
      + (* quoted, double *)
        destruct (existsb _ _); [exact I|]. destruct (decode_string E (s_cur st)); [|exact I].
        cbn [bind]. apply rsim_ok. apply vs_intro. exact H.
      + destruct (existsb _ _); [exact I|]. destruct (decode_string E (s_cur st)); [|exact I].
        cbn [bind]. apply rsim_ok. apply vs_intro. exact H.
      + apply parse_slice_sim; assumption.
      + (* bare *) apply rsim_ok. apply vs_intro. exact H.
      + (* int *)
        cbv zeta. destruct (_ || _); [exact I|]. destruct (has_exponent _); [exact I|].
        destruct (int_of_text _) as [z|]; [|exact I]. cbn [bind].
        destruct (index_in_range E z); [|exact I]. apply rsim_ok. apply vs_intro. exact H.
      + (* wild *) apply rsim_ok. apply vs_intro. exact H.
      + (* filter *)
        destruct f as [|f0]; [exact I|].
        apply (rsim_bind vs); [apply IHf; exact H|]. intros r r' [Hf Hs]. rewrite Hf.
        apply rsim_ok. apply vs_intro. exact Hs.
    - rewrite K. unfold ctl in C, C'. rewrite C, D. cbn [bind].
      destruct K' as [-> | ->]; rewrite C', D'; cbn [bind]; apply rsim_ok; apply vs_intro; exact H.
    - rewrite K. exact I.
  Qed.

  Lemma items_sim f : S_filter f -> forall g st st' acc,
    ssim st st' -> rsim vs (items_loop E re_ok f g st acc) (items_loop E re_ok f g st' acc).
  Proof.
    intros IHf. induction g as [|g IH]; intros st st' acc H; [exact I|].
    rewrite !items_loop_S.
    rewrite <- (tsim_is_kind E TRBracket _ _ (proj1 H)) by discriminate.
    destruct (is_kind TRBracket (s_cur st)).
    { destruct acc; [exact I|]. apply rsim_ok. apply vs_intro. exact H. }
    apply (rsim_bind vs); [apply sel_item_sim; assumption|].
    intros [sel st1] [sel' st1'] [Hsel Hs1]. cbn [fst snd] in Hsel, Hs1. subst sel'.
    apply (rsim_bind ts_); [apply peek_sim; exact Hs1|].
    intros [nxt st2] [nxt' st2'] [Hn Hs2]. cbn [fst snd] in Hn, Hs2.
    rewrite <- (tsim_is_kind E TEof _ _ Hn) by discriminate.
    destruct (is_kind TEof nxt); [exact I|].
    apply (rsim_bind ssim).
    { rewrite <- (tsim_is_kind E TRBracket _ _ Hn), <- (tsim_is_kind E TComma _ _ Hn) by discriminate.
      destruct (is_kind TRBracket nxt); [apply rsim_ok; exact Hs2|].
      destruct (is_kind TComma nxt); [|exact I].
      apply (rsim_bind ts_); [apply next_token_sim; exact Hs2|]. intros r r' [_ Hr].
      apply (rsim_bind ts_); [apply peek_sim; exact Hr|]. intros pk2 pk2' [Hp1 Hp2].
      rewrite <- (tsim_is_kind E TRBracket _ _ Hp1) by discriminate.
      destruct (is_kind TRBracket (fst pk2)); [exact I|]. apply rsim_ok. exact Hp2. }
    intros st3 st3' Hs3. apply (rsim_bind ts_); [apply next_token_sim; exact Hs3|].
    intros r4 r4' [_ Hr4]. apply IH. exact Hr4.
  Qed.

  Lemma sellist_step f : S_filter f -> S_sellist (S f).
  Proof.
    intros IHf st st' H. rewrite !parse_selector_list_S.
    apply (rsim_bind ts_); [apply next_token_sim; exact H|]. intros r r' [_ Hr]. apply items_sim; assumption.
  Qed.

  (* ---- filter expressions ---- *)
  Lemma filter_step f : S_fs f -> S_filter (S f).
  Proof.
    intros IH st st' H. rewrite !parse_filter_S.
    apply (rsim_bind ts_); [apply next_token_sim; exact H|]. intros r0 r0' [_ Hr0].
    apply (rsim_bind vs); [apply IH; exact Hr0|]. intros r r' [Hf Hs]. rewrite <- Hf.
    destruct (check_uncompared (fst r)); [|exact I]. cbn [bind].
    destruct r as [e s1], r' as [e' s1']. cbn [fst snd] in *. subst e'. apply rsim_ok. apply vs_intro. exact Hs.
  Qed.

  Lemma fs_loop_sim f prec : S_infix f -> forall g lhs st st',
    ssim st st' -> rsim vs (fs_loop E re_ok f prec g lhs st) (fs_loop E re_ok f prec g lhs st').
  Proof.
    intros IHi. induction g as [|g IH]; intros lhs st st' H; [exact I|].
    rewrite !fs_loop_S. apply (rsim_bind ts_); [apply peek_sim; exact H|].
    intros [nxt st1] [nxt' st1'] [Hn Hs1]. cbn [fst snd] in Hn, Hs1.
    rewrite <- (tsim_is_kind E TEof _ _ Hn), <- (tsim_is_kind E TRBracket _ _ Hn) by discriminate.
    rewrite <- (tsim_prec E _ _ Hn), <- (tsim_binop E _ _ Hn).
    destruct (_ || _ || _); [apply rsim_ok; apply vs_intro; exact Hs1|].
    destruct (binop_of_kind (tk nxt)); [|apply rsim_ok; apply vs_intro; exact Hs1].
    apply (rsim_bind ts_); [apply next_token_sim; exact Hs1|]. intros r r' [_ Hr].
    apply (rsim_bind vs); [apply IHi; exact Hr|]. intros r2 r2' [Hf Hs2]. rewrite Hf. apply IH. exact Hs2.
  Qed.

  Lemma fs_step f : S_primary f -> S_infix f -> S_fs (S f).
  Proof.
    intros IHp IHi st st' prec H. rewrite !parse_filter_selector_S.
    apply (rsim_bind vs); [apply IHp; exact H|]. intros l l' [Hf Hs]. rewrite Hf. apply fs_loop_sim; assumption.
  Qed.

  Lemma infix_step f : S_fs f -> S_infix (S f).
  Proof.
    intros IH st st' lhs H. rewrite !parse_infix_S.
    apply (rsim_bind ts_); [apply next_token_sim; exact H|].
    intros [optok st1] [optok' st1'] [Ho Hs1]. cbn [fst snd] in Ho, Hs1.
    rewrite <- (tsim_binop E _ _ Ho), <- (tsim_prec E _ _ Ho).
    destruct (binop_of_kind (tk optok)) as [o|]; [|exact I].
    apply (rsim_bind vs); [apply IH; exact Hs1|].
    intros [rhs st2] [rhs' st2'] [Hf Hs2]. cbn [fst snd] in Hf, Hs2. subst rhs'.
    destruct (if e_well_typed E && is_comparison_op o then _ else Ok tt); [|exact I]. cbn [bind].
    destruct (if is_logical_op o then _ else Ok tt); [|exact I]. cbn [bind].
    apply rsim_ok. apply vs_intro. exact Hs2.
  Qed.

  (* ---- primaries ---- *)
  Lemma sub_path_sim f st st' mk :
    S_path f -> ssim st st' -> rsim vs (sub_path E re_ok f st mk) (sub_path E re_ok f st' mk).
  Proof.
    intros IH H. unfold sub_path. apply (rsim_bind ts_); [apply next_token_sim; exact H|].
    intros r0 r0' [_ Hr0]. apply (rsim_bind vs); [apply IH; exact Hr0|].
    intros r r' [Hf Hs]. rewrite Hf. apply rsim_ok. apply vs_intro. exact Hs.
  Qed.

  Lemma grp_loop_sim f : S_infix f -> forall g e st st',
    ssim st st' -> rsim vs (grp_loop E re_ok f g e st) (grp_loop E re_ok f g e st').
  Proof.
    intros IHi. induction g as [|g IH]; intros e st st' H; [exact I|].
    rewrite !grp_loop_S.
    rewrite <- (tsim_is_kind E TRParen _ _ (proj1 H)), <- (tsim_is_kind E TEof _ _ (proj1 H)) by discriminate.
    rewrite <- (tsim_binop E _ _ (proj1 H)).
    destruct (is_kind TRParen (s_cur st)); [apply rsim_ok; apply vs_intro; exact H|].
    destruct (is_kind TEof (s_cur st)); [exact I|].
    destruct (binop_of_kind (tk (s_cur st))); [|exact I].
    apply (rsim_bind vs); [apply IHi; exact H|]. intros r2 r2' [Hf Hs]. rewrite Hf. apply IH. exact Hs.
  Qed.

  Lemma regex_primary_sim st st' :
    ssim st st' -> s_cur st = s_cur st' -> rsim vs (regex_primary re_ok st) (regex_primary re_ok st').
  Proof.
    intros H Hc. unfold regex_primary. rewrite <- Hc.
    apply (rsim_bind ts_); [apply peek_sim; exact H|].
    intros [nxt st1] [nxt' st1'] [Hn Hs1]. cbn [fst snd] in Hn, Hs1.
    rewrite <- (tsim_is_kind E TReFlags _ _ Hn) by discriminate.
    apply (rsim_bind vs).
    - destruct (is_kind TReFlags nxt) eqn:K.
      + assert (nxt = nxt').
        { apply is_kind_tk in K. apply (tsim_eq_kind E); [exact Hn|rewrite K; discriminate|rewrite K; discriminate]. }
        subst nxt'. apply (rsim_bind ts_); [apply next_token_sim; exact Hs1|]. intros r r' [_ Hr].
        apply rsim_ok. apply vs_intro. exact Hr.
      + apply rsim_ok. apply vs_intro. exact Hs1.
    - intros r r' [Hf Hs]. rewrite Hf. destruct (re_ok (tv (s_cur st))) as [[|]|]; try exact I.
      apply rsim_ok. apply vs_intro. exact Hs.
  Qed.

  Lemma after_arg_sim pk pk' : ts_ pk pk' -> rsim ssim (after_arg pk) (after_arg pk').
  Proof.
    intros [Hn Hs]. unfold after_arg.
    rewrite <- (tsim_is_kind E TRParen _ _ Hn), <- (tsim_is_kind E TComma _ _ Hn) by discriminate.
    destruct (is_kind TRParen (fst pk)); [apply rsim_ok; exact Hs|].
    destruct (is_kind TComma (fst pk)); [|exact I].
    apply (rsim_bind ts_); [apply next_token_sim; exact Hs|]. intros r r' [_ Hr]. apply rsim_ok. exact Hr.
  Qed.

  Lemma arg_primary_sim f st st' :
    S_primary f -> ssim st st' -> rsim vs (arg_primary E re_ok f st) (arg_primary E re_ok f st').
  Proof.
    intros IH H. unfold arg_primary. pose proof (IH st st' H) as Hp.
    destruct (tsim_cases E _ _ (proj1 H)) as [Heq|s K K' _ _ _ _|K K' _].
    - rewrite <- Heq. destruct (tk (s_cur st)); try exact I; exact Hp.
    - rewrite K. destruct K' as [-> | ->]; exact Hp.
    - rewrite K. exact I.
  Qed.

  Lemma args_ops_sim f name : S_primary f -> S_infix f ->
    forall g,
      (forall st st' acc, ssim st st' ->
         rsim vs (args_loop E re_ok f name g st acc) (args_loop E re_ok f name g st' acc)) /\
      (forall h acc e st st', ssim st st' ->
         rsim vs (ops_loop E re_ok f name g acc h e st) (ops_loop E re_ok f name g acc h e st')).
  Proof.
    intros IHp IHi. induction g as [|g [IHa IHo]].
    - split; [intros; exact I|].
      induction h as [|h IHh]; intros acc e st st' H; [exact I|].
      rewrite !ops_loop_S. apply (rsim_bind ts_); [apply peek_sim; exact H|]. intros pk pk' Hpk.
      rewrite <- (tsim_binop E _ _ (proj1 Hpk)).
      destruct (binop_of_kind (tk (fst pk))).
      + apply (rsim_bind ts_); [apply next_token_sim; exact (proj2 Hpk)|]. intros r r' [_ Hr].
        apply (rsim_bind vs); [apply IHi; exact Hr|]. intros r2 r2' [Hf Hs]. rewrite Hf. apply IHh. exact Hs.
      + apply (rsim_bind ssim); [apply after_arg_sim; exact Hpk|]. intros st2 st2' Hs2.
        apply (rsim_bind ts_); [apply next_token_sim; exact Hs2|]. intros r3 r3' _. exact I.
    - assert (Ha : forall st st' acc, ssim st st' ->
                   rsim vs (args_loop E re_ok f name (S g) st acc) (args_loop E re_ok f name (S g) st' acc)).
      { intros st st' acc H. rewrite !args_loop_S.
        rewrite <- (tsim_is_kind E TRParen _ _ (proj1 H)) by discriminate.
        destruct (is_kind TRParen (s_cur st)).
        - unfold finish_call. destruct (e_well_typed E).
          + destruct (validate_function name (rev acc)); [|exact I]. cbn [bind]. apply rsim_ok. apply vs_intro. exact H.
          + destruct (fn_sig name); exact I.
        - apply (rsim_bind vs); [apply arg_primary_sim; assumption|]. intros a a' [Hf Hs]. rewrite Hf.
          apply IHo. exact Hs. }
      split; [exact Ha|].
      induction h as [|h IHh]; intros acc e st st' H; [exact I|].
      rewrite !ops_loop_S. apply (rsim_bind ts_); [apply peek_sim; exact H|]. intros pk pk' Hpk.
      rewrite <- (tsim_binop E _ _ (proj1 Hpk)).
      destruct (binop_of_kind (tk (fst pk))).
      + apply (rsim_bind ts_); [apply next_token_sim; exact (proj2 Hpk)|]. intros r r' [_ Hr].
        apply (rsim_bind vs); [apply IHi; exact Hr|]. intros r2 r2' [Hf Hs]. rewrite Hf. apply IHh. exact Hs.
      + apply (rsim_bind ssim); [apply after_arg_sim; exact Hpk|]. intros st2 st2' Hs2.
        apply (rsim_bind ts_); [apply next_token_sim; exact Hs2|]. intros r3 r3' [_ Hr3]. apply Ha. exact Hr3.
  Qed.
End Sim3.

Section Sim4.
  Variable E : env.
  Variable re_ok : ustr -> option bool.

  Notation tsim := (tsim E).
  Notation ssim := (ssim E).
  Notation vs := (vs E).
  Notation ts_ := (ts_ E).
  Notation parse_primary := (Parse.parse_primary E re_ok).

  Lemma primary_step f :
    S_path E re_ok f -> S_fs E re_ok f -> S_infix E re_ok f -> S_primary E re_ok f -> S_primary E re_ok (S f).
  Proof.
    intros IHp IHfs IHi IHpr st st' H. rewrite !parse_primary_S.
    destruct (tsim_cases E _ _ (proj1 H)) as [Heq|s K K' _ _ D D'|K K' _].
    - rewrite <- Heq. destruct (tk (s_cur st)) eqn:K; try exact I;
        try (apply rsim_ok; apply vs_intro; exact H);
        try (apply sub_path_sim; assumption).
      + (* "..." *) destruct (decode_string E (s_cur st)); [|exact I]. cbn [bind]. apply rsim_ok. apply vs_intro. exact H.
      + destruct (decode_string E (s_cur st)); [|exact I]. cbn [bind]. apply rsim_ok. apply vs_intro. exact H.
      + apply regex_primary_sim; assumption.
      + (* function *)
        apply (rsim_bind ts_); [apply next_token_sim; exact H|]. intros r0 r0' [_ Hr0].
        apply (proj1 (args_ops_sim E re_ok f (tv (s_cur st)) IHpr IHi f)). exact Hr0.
      + (* float *) destruct (parse_float_literal _); [|exact I]. cbn [bind]. apply rsim_ok. apply vs_intro. exact H.
      + destruct (parse_int_literal _); [|exact I]. cbn [bind]. apply rsim_ok. apply vs_intro. exact H.
      + (* list literal *)
        apply (rsim_bind ts_); [apply next_token_sim; exact H|]. intros r0 r0' [_ Hr0].
        apply (rsim_bind vs); [apply parse_list_items_sim; exact Hr0|]. intros r r' [Hf Hs]. rewrite Hf.
        apply rsim_ok. apply vs_intro. exact Hs.
      + (* ! *)
        apply (rsim_bind ts_); [apply next_token_sim; exact H|]. intros r0 r0' [_ Hr0].
        apply (rsim_bind vs); [apply IHfs; exact Hr0|]. intros r r' [Hf Hs]. rewrite <- Hf.
        destruct (check_uncompared (fst r)); [|exact I]. cbn [bind]. apply rsim_ok. apply vs_intro. exact Hs.
      + (* ( *)
        apply (rsim_bind ts_); [apply next_token_sim; exact H|]. intros r0 r0' [_ Hr0].
        apply (rsim_bind vs); [apply IHfs; exact Hr0|]. intros r r' [Hf Hs]. rewrite <- Hf.
        apply (rsim_bind ts_); [apply next_token_sim; exact Hs|]. intros r1 r1' [_ Hr1].
        apply grp_loop_sim; assumption.
    - rewrite K, D. cbn [bind]. destruct K' as [-> | ->]; rewrite D'; cbn [bind]; apply rsim_ok; apply vs_intro; exact H.
    - rewrite K. exact I.
  Qed.

  Theorem sim_all f :
    S_path E re_ok f /\ S_sellist E re_ok f /\ S_filter E re_ok f /\ S_fs E re_ok f /\
    S_infix E re_ok f /\ S_primary E re_ok f.
  Proof.
    induction f as [|f (IH1 & IH2 & IH3 & IH4 & IH5 & IH6)].
    - repeat split; intros; exact I.
    - split; [apply path_step; assumption|]. split; [apply sellist_step; assumption|].
      split; [apply filter_step; assumption|]. split; [apply fs_step; assumption|].
      split; [apply infix_step; assumption|]. apply primary_step; assumption.
  Qed.

  (* ---- whole queries ---- *)
  Lemma parse_one_sim fuel st st' :
    ssim st st' -> rsim vs (parse_one E re_ok fuel st) (parse_one E re_ok fuel st').
  Proof.
    intros H. unfold parse_one.
    rewrite <- (tsim_is_kind E TFakeRoot _ _ (proj1 H)), <- (tsim_is_kind E TRoot _ _ (proj1 H)) by discriminate.
    apply (rsim_bind ssim).
    - destruct (_ || _); [|apply rsim_ok; exact H].
      apply (rsim_bind ts_); [apply next_token_sim; exact H|]. intros r r' [_ Hr]. apply rsim_ok. exact Hr.
    - intros st1 st1' Hs1. apply (rsim_bind vs); [apply (proj1 (sim_all fuel)); exact Hs1|].
      intros r r' [Hf Hs]. cbv zeta. rewrite <- Hf.
      rewrite <- (tsim_is_kind E TEof _ _ (proj1 Hs)), <- (tsim_is_kind E TIntersect _ _ (proj1 Hs)),
        <- (tsim_is_kind E TUnion _ _ (proj1 Hs)) by discriminate.
      destruct (_ || _ || _); [|exact I]. apply rsim_ok. apply vs_intro. exact Hs.
  Qed.

  Lemma compile_rest_sim pf : forall g st st' acc,
    ssim st st' -> rsim eq (compile_rest E re_ok g pf st acc) (compile_rest E re_ok g pf st' acc).
  Proof.
    induction g as [|g IH]; intros st st' acc H; [exact I|]. cbn [compile_rest].
    rewrite <- (tsim_is_kind E TEof _ _ (proj1 H)) by discriminate.
    destruct (is_kind TEof (s_cur st)); [apply rsim_ok; reflexivity|].
    apply (rsim_bind ts_); [apply peek_sim; exact H|]. intros pk pk' [Hp1 Hp2].
    rewrite <- (tsim_is_kind E TEof _ _ Hp1) by discriminate.
    destruct (is_kind TEof (fst pk)); [exact I|]. cbv zeta.
    rewrite <- (tsim_is_kind E TUnion _ _ (proj1 Hp2)), <- (tsim_is_kind E TIntersect _ _ (proj1 Hp2)) by discriminate.
    destruct (is_kind TUnion (s_cur (snd pk))).
    - apply (rsim_bind ts_); [apply next_token_sim; exact Hp2|]. intros r r' [_ Hr].
      apply (rsim_bind vs); [apply parse_one_sim; exact Hr|]. intros p p' [Hf Hs]. rewrite Hf. apply IH. exact Hs.
    - destruct (is_kind TIntersect (s_cur (snd pk))); [|exact I].
      apply (rsim_bind ts_); [apply next_token_sim; exact Hp2|]. intros r r' [_ Hr].
      apply (rsim_bind vs); [apply parse_one_sim; exact Hr|]. intros p p' [Hf Hs]. rewrite Hf. apply IH. exact Hs.
  Qed.

  Lemma Forall2_len {A B} (R : A -> B -> Prop) l l' : Forall2 R l l' -> length l = length l'.
  Proof. induction 1; [reflexivity|]. cbn [length]. congruence. Qed.

  Theorem compile_tokens_sim ts ts' :
    Forall2 tsim ts ts' -> rsim eq (compile_tokens E re_ok ts) (compile_tokens E re_ok ts').
  Proof.
    intros H. unfold compile_tokens. cbv zeta. rewrite <- (Forall2_len _ _ _ H).
    apply (rsim_bind ssim); [apply init_stream_sim; exact H|]. intros st st' Hs.
    apply (rsim_bind vs); [apply parse_one_sim; exact Hs|]. intros p p' [Hf Hp]. rewrite Hf.
    apply (rsim_bind eq); [apply compile_rest_sim; exact Hp|]. intros r r' <-. apply rsim_ok. reflexivity.
  Qed.

  Corollary compile_tokens_transfer ts ts' q :
    Forall2 tsim ts ts' -> compile_tokens E re_ok ts = Ok q -> compile_tokens E re_ok ts' = Ok q.
  Proof.
    intros H Hq. pose proof (compile_tokens_sim ts ts' H) as Hs. rewrite Hq in Hs.
    destruct Hs as [q' [-> <-]]. reflexivity.
  Qed.
End Sim4.
