(* RelPointerProofs.v — the Relative JSON Pointer model (model/RelPointer.v) against the
   draft (spec/RelPtrDraft.v): proofs of the statements of props/C16.v. *)
From JP Require Import Base Json PyStr Pointer RelPointer Rfc6901 RelPtrDraft PointerDomain
                       PyStrLemmas PointerProofs.

(* ---------------------------------------------------------------------- *)
(* digits *)

Lemma take_digits_spec s :
  forall d r, take_digits s = (d, r) ->
    s = d ++ r /\ forallb is_ascii_digit d = true /\
    match r with c :: _ => is_ascii_digit c = false | [] => True end.
Proof.
  induction s as [|c s IH]; intros d r H.
  - cbn in H. injection H as <- <-. auto.
  - cbn [take_digits] in H. destruct (is_ascii_digit c) eqn:Ec.
    + destruct (take_digits s) as [d' r'] eqn:Es. injection H as <- <-.
      destruct (IH d' r' eq_refl) as [H1 [H2 H3]]. subst s.
      split; [reflexivity|]. split; [|assumption]. cbn [forallb]. rewrite Ec, H2. reflexivity.
    + injection H as <- <-. split; [reflexivity|]. split; [reflexivity|assumption].
Qed.

Lemma span_take s :
  forall d r, take_digits s = (d, r) ->
    match r with c :: _ => N.ltb c 128 = true | [] => True end ->
    span_digits s = Ok (d, r).
Proof.
  induction s as [|c s IH]; intros d r H Hr.
  - cbn in H. injection H as <- <-. reflexivity.
  - cbn [take_digits] in H. cbn [span_digits]. destruct (is_ascii_digit c) eqn:Ec.
    + destruct (take_digits s) as [d' r'] eqn:Es. injection H as <- <-.
      rewrite (IH d' r' eq_refl Hr). reflexivity.
    + injection H as <- <-. apply N.ltb_lt in Hr.
      replace (N.leb 128 c) with false by (symmetry; apply N.leb_gt; assumption).
      reflexivity.
Qed.

Lemma zero_or_positive_canonical s :
  canonical_nonneg s = true -> zero_or_positive s = Ok (dec_value s).
Proof.
  intros H. unfold zero_or_positive. rewrite andb_comm.
  rewrite canonical_no_leading_zero by assumption. reflexivity.
Qed.

Lemma no_backslash_app_r a b : no_backslash (a ++ b) = true -> no_backslash b = true.
Proof.
  unfold no_backslash. rewrite contains_ch_app. intros H. apply negb_true_iff in H.
  apply orb_false_iff in H as [_ H]. rewrite H. reflexivity.
Qed.

Lemma no_backslash_cons c b : no_backslash (c :: b) = true -> no_backslash b = true.
Proof. apply (no_backslash_app_r [c] b). Qed.

(* ---------------------------------------------------------------------- *)
(* the suffix: "#" or an RFC 6901 pointer *)

Definition sfx_text (sp : suffix) : list N :=
  match sp with SHash => [ch_hash] | SPtr p => encode p end.

Definition sfx_agree (sp : suffix) (sfx : dsuffix) : Prop :=
  match sp, sfx with
  | SHash, DHash => True
  | SPtr p, DPtr ts => tokens p = ts
  | _, _ => False
  end.

Lemma suffix_head txt sfx :
  draft_suffix txt = Some sfx ->
  txt = [] \/ exists r, txt = ch_hash :: r \/ txt = ch_slash :: r.
Proof.
  unfold draft_suffix. intros H.
  destruct (ustr_eqb txt [ch_hash]) eqn:E.
  - apply ustr_eqb_spec in E. subst txt. right. exists []. left. reflexivity.
  - destruct (rfc6901_syntax txt) eqn:Es; [|discriminate].
    apply syntax_cases in Es as [->|[s' [-> _]]]; [left; reflexivity|].
    right. exists s'. right. reflexivity.
Qed.

Lemma suffix_head_ascii txt sfx :
  draft_suffix txt = Some sfx ->
  match txt with c :: _ => N.ltb c 128 = true | [] => True end.
Proof.
  intros H. apply suffix_head in H as [->|[r [->| ->]]]; [exact I|reflexivity|reflexivity].
Qed.

Lemma suffix_lstrip txt sfx : draft_suffix txt = Some sfx -> lstrip txt = txt.
Proof.
  intros H. apply suffix_head in H as [->|[r [->| ->]]]; [reflexivity| |].
  - apply lstrip_nonspace. apply isspace_hash.
  - apply lstrip_nonspace. apply isspace_slash.
Qed.

Lemma suffix_parse mode o i txt sfx :
  draft_suffix txt = Some sfx ->
  (mode = false \/ no_backslash txt = true) ->
  match sfx with DHash => true | DPtr ts => tokens_within_limits ts end = true ->
  exists sp,
    (if ustr_eqb txt [ch_hash] then Ok (mkRel o i SHash)
     else p <- Pointer.parse mode txt ;; Ok (mkRel o i (SPtr p))) = Ok (mkRel o i sp) /\
    sfx_text sp = txt /\ sfx_agree sp sfx.
Proof.
  unfold draft_suffix. intros H Hmode Hlim.
  destruct (ustr_eqb txt [ch_hash]) eqn:E.
  - injection H as <-. apply ustr_eqb_spec in E. subst txt.
    exists SHash. split; [reflexivity|]. split; [reflexivity|exact I].
  - destruct (rfc6901_syntax txt) eqn:Es; [|discriminate]. injection H as <-.
    destruct (print_parse mode txt Es Hmode Hlim) as [p [Hp [Henc Htok]]].
    exists (SPtr p). rewrite Hp. split; [reflexivity|]. split; [exact Henc|exact Htok].
Qed.

(* ---------------------------------------------------------------------- *)
(* C16: parse / print *)

Lemma canonical_nonempty s : canonical_nonneg s = true -> s <> [].
Proof. intros H ->. discriminate. Qed.

Lemma lstrip_canonical_app s r : canonical_nonneg s = true -> lstrip (s ++ r) = s ++ r.
Proof.
  intros H. pose proof (canon_digits s H) as Hd.
  destruct s as [|c s]; [discriminate|].
  cbn [forallb] in Hd. apply andb_true_iff in Hd as [Hc _].
  rewrite <- app_comm_cons. apply lstrip_nonspace. apply isspace_digit. assumption.
Qed.

Theorem parse_print :
  forall (mode : bool) (r : ustr) (rel : drel),
    draft_parse r = Some rel -> (mode = false \/ no_backslash r = true) ->
    match d_suffix rel with DHash => true | DPtr ts => tokens_within_limits ts end = true ->
    exists rp, rel_parse mode r = Ok rp /\ to_text rp = r /\
      (r_origin rp = d_steps rel /\ r_index rp = d_offset rel /\
       match r_pointer rp, d_suffix rel with
       | SHash, DHash => True
       | SPtr p, DPtr ts => tokens p = ts
       | _, _ => False
       end).
Proof.
  intros mode r rel Hd Hmode Hlim.
  unfold draft_parse in Hd.
  destruct (take_digits r) as [st rest] eqn:Etd.
  destruct (canonical_nonneg st) eqn:Ecan; cbn [negb] in Hd; cbv iota in Hd; [|discriminate].
  destruct (take_digits_spec _ _ _ Etd) as [Hr [Hdig Hrest]].
  pose proof (zero_or_positive_canonical st Ecan) as Hzp.
  pose proof (str_of_Z_dec_value st Ecan) as Hstr.
  assert (Hls : lstrip r = r) by (rewrite Hr; apply lstrip_canonical_app; assumption).
  unfold rel_parse. rewrite Hls.
  destruct rest as [|c rest'].
  - (* digits only *)
    injection Hd as <-. cbn [d_suffix d_steps d_offset] in *.
    rewrite (span_take r st [] Etd I). cbn [bind]. cbv iota.
    destruct st as [|c0 st0]; [discriminate|]. cbv iota.
    remember (c0 :: st0) as st eqn:Est. rewrite Hzp. cbn [bind]. cbv iota.
    cbn [lstrip ustr_eqb]. rewrite parse_nil. cbn [bind].
    eexists. split; [reflexivity|].
    split.
    + unfold to_text. cbn [r_origin r_index r_pointer]. rewrite Hstr.
      cbn [Z.eqb encode]. rewrite Hr. reflexivity.
    + cbn [r_origin r_index r_pointer]. auto.
  - destruct (N.eqb c ch_plus || N.eqb c ch_minus) eqn:Esign.
    + (* with an offset *)
      destruct (take_digits rest') as [ot rest''] eqn:Eot.
      destruct (canonical_nonneg ot) eqn:Ecan2; cbn [andb] in Hd; [|discriminate].
      destruct (Z.eqb (dec_value ot) 0) eqn:Ez; cbn [negb] in Hd; cbv iota in Hd; [discriminate|].
      destruct (draft_suffix rest'') as [sfx|] eqn:Esfx; [|discriminate].
      injection Hd as <-. cbn [d_suffix d_steps d_offset] in *.
      destruct (take_digits_spec _ _ _ Eot) as [Hr' [Hdig' _]].
      assert (Hcasc : N.ltb c 128 = true).
      { apply orb_true_iff in Esign as [E|E]; apply N.eqb_eq in E; subst c; reflexivity. }
      rewrite (span_take r st (c :: rest') Etd Hcasc). cbn [bind]. cbv iota.
      destruct st as [|c0 st0]; [discriminate|]. cbv iota.
      remember (c0 :: st0) as st eqn:Est. rewrite Hzp. cbn [bind].
      rewrite Esign.
      rewrite (span_take rest' ot rest'' Eot (suffix_head_ascii _ _ Esfx)). cbn [bind]. cbv iota.
      pose proof (zero_or_positive_canonical ot Ecan2) as Hzp2.
      destruct ot as [|c1 ot0]; [discriminate|]. cbv iota.
      remember (c1 :: ot0) as ot eqn:Eo. cbn [bind]. cbv beta iota. rewrite Hzp2. cbn [bind]. rewrite Ez.
      rewrite (suffix_lstrip _ _ Esfx).
      assert (Hmode' : mode = false \/ no_backslash rest'' = true).
      { destruct Hmode as [Hm|Hm]; [left; assumption|right].
        rewrite Hr, Hr' in Hm. apply no_backslash_app_r in Hm. apply no_backslash_cons in Hm.
        apply no_backslash_app_r in Hm. assumption. }
      destruct (suffix_parse mode (dec_value st)
                  (if N.eqb c ch_minus then (- dec_value ot)%Z else dec_value ot)
                  rest'' sfx Esfx Hmode' Hlim) as [sp [Hsp [Htxt Hagree]]].
      exists (mkRel (dec_value st) (if N.eqb c ch_minus then (- dec_value ot)%Z else dec_value ot) sp).
      split; [exact Hsp|].
      split.
      * unfold to_text. cbn [r_origin r_index r_pointer]. unfold sfx_text in Htxt.
        rewrite Hstr, Htxt. rewrite Hr, Hr'. f_equal.
        pose proof (dec_value_nonneg ot Hdig') as Hnn. apply Z.eqb_neq in Ez.
        pose proof (str_of_Z_dec_value ot Ecan2) as Hstr2.
        destruct (N.eqb c ch_minus) eqn:Em.
        -- apply N.eqb_eq in Em. subst c.
           replace (Z.eqb (- dec_value ot) 0) with false by (symmetry; apply Z.eqb_neq; lia).
           replace (Z.ltb 0 (- dec_value ot)) with false by (symmetry; apply Z.ltb_ge; lia).
           rewrite str_of_Z_neg by lia. rewrite Z.opp_involutive.
           rewrite <- str_of_Z_nonneg by lia. rewrite Hstr2. reflexivity.
        -- rewrite orb_false_r in Esign. apply N.eqb_eq in Esign. subst c.
           replace (Z.eqb (dec_value ot) 0) with false by (symmetry; apply Z.eqb_neq; lia).
           replace (Z.ltb 0 (dec_value ot)) with true by (symmetry; apply Z.ltb_lt; lia).
           rewrite Hstr2. reflexivity.
      * cbn [r_origin r_index r_pointer]. split; [reflexivity|]. split; [reflexivity|exact Hagree].
    + (* no offset *)
      destruct (draft_suffix (c :: rest')) as [sfx|] eqn:Esfx; [|discriminate].
      cbn [option_map] in Hd. injection Hd as <-. cbn [d_suffix d_steps d_offset] in *.
      rewrite (span_take r st (c :: rest') Etd (suffix_head_ascii _ _ Esfx)). cbn [bind]. cbv iota.
      destruct st as [|c0 st0]; [discriminate|]. cbv iota.
      remember (c0 :: st0) as st eqn:Est. rewrite Hzp. cbn [bind].
      rewrite Esign. cbn [bind]. cbv iota.
      rewrite (suffix_lstrip _ _ Esfx).
      assert (Hmode' : mode = false \/ no_backslash (c :: rest') = true).
      { destruct Hmode as [Hm|Hm]; [left; assumption|right].
        rewrite Hr in Hm. apply no_backslash_app_r in Hm. assumption. }
      destruct (suffix_parse mode (dec_value st) 0%Z (c :: rest') sfx Esfx Hmode' Hlim)
        as [sp [Hsp [Htxt Hagree]]].
      exists (mkRel (dec_value st) 0%Z sp).
      split; [exact Hsp|].
      split.
      * unfold to_text. cbn [r_origin r_index r_pointer]. unfold sfx_text in Htxt.
        rewrite Hstr, Htxt. rewrite Hr. reflexivity.
      * cbn [r_origin r_index r_pointer]. split; [reflexivity|]. split; [reflexivity|exact Hagree].
Qed.

(* ---------------------------------------------------------------------- *)
(* C16: application *)

Lemma firstn_tokens n (l : pointer) : firstn n (tokens l) = tokens (firstn n l).
Proof.
  unfold tokens. revert n. induction l as [|x l IH]; intros [|n]; cbn [firstn map]; try reflexivity.
  rewrite IH. reflexivity.
Qed.

Lemma last_opt_tokens (l : pointer) : last_opt (tokens l) = option_map part_text (last_opt l).
Proof.
  unfold tokens. induction l as [|x l IH]; [reflexivity|].
  destruct l as [|y l]; [reflexivity|].
  change (last_opt (x :: y :: l)) with (last_opt (y :: l)).
  change (last_opt (map part_text (x :: y :: l))) with (last_opt (map part_text (y :: l))).
  exact IH.
Qed.

Lemma set_last_tokens (l : pointer) x :
  tokens (set_last l x) = replace_last (tokens l) (part_text x).
Proof.
  unfold tokens. induction l as [|y l IH]; [reflexivity|].
  destruct l as [|z l]; [reflexivity|].
  change (map part_text (y :: set_last (z :: l) x) =
          part_text y :: replace_last (map part_text (z :: l)) (part_text x)).
  rewrite <- IH. reflexivity.
Qed.

Lemma tokens_app (a b : pointer) : tokens (a ++ b) = tokens a ++ tokens b.
Proof. apply map_app. Qed.

Lemma int_like_canonical x :
  canonical_nonneg (part_text x) = true -> int_like x = Some (Some (dec_value (part_text x))).
Proof.
  intros H. destruct x as [z|s]; cbn [part_text int_like] in *.
  - pose proof (str_of_Z_canonical_nonneg z H) as Hz.
    rewrite dec_value_str_of_Z by assumption. reflexivity.
  - apply py_int_canonical. assumption.
Qed.

Lemma from_parts_false_tokens parts :
  exists q, from_parts false parts = Ok q /\ tokens q = tokens parts.
Proof.
  destruct (from_parts_spec false parts (or_introl eq_refl)) as [q [Hq [Ht _]]].
  exists q. split; assumption.
Qed.

(* the offset step *)
Lemma offset_stage (parts : pointer) (off : Z) :
  (off = 0%Z \/ exists t, last_opt (tokens parts) = Some t /\ canonical_nonneg t = true) ->
  match (if Z.eqb off 0 then Some (tokens parts)
         else match last_opt (tokens parts) with
              | Some t =>
                  if canonical_nonneg t then
                    let i := (dec_value t + off)%Z in
                    if Z.ltb i 0 then None else Some (replace_last (tokens parts) (str_of_Z i))
                  else None
              | None => None
              end) with
  | Some ts1 =>
      exists parts1,
        match last_opt parts with
        | Some lastp =>
            if Z.eqb off 0 then Ok parts
            else match int_like lastp with
                 | None => Err EUnsupported
                 | Some None => Ok parts
                 | Some (Some i) =>
                     if Z.ltb (i + off) 0 then Err (ERelPointer KRelIndex)
                     else Ok (set_last parts (PInt (i + off)))
                 end
        | None => Ok parts
        end = Ok parts1 /\ tokens parts1 = ts1
  | None =>
      match last_opt parts with
      | Some lastp =>
          if Z.eqb off 0 then Ok parts
          else match int_like lastp with
               | None => Err EUnsupported
               | Some None => Ok parts
               | Some (Some i) =>
                   if Z.ltb (i + off) 0 then Err (ERelPointer KRelIndex)
                   else Ok (set_last parts (PInt (i + off)))
               end
      | None => Ok parts
      end = Err (ERelPointer KRelIndex)
  end.
Proof.
  intros H. destruct (Z.eqb off 0) eqn:Eo.
  - exists parts. split; [|reflexivity]. destruct (last_opt parts); reflexivity.
  - destruct H as [H|[t [Hl Hc]]]; [apply Z.eqb_neq in Eo; contradiction|].
    rewrite Hl. rewrite Hc. cbv zeta.
    rewrite last_opt_tokens in Hl.
    destruct (last_opt parts) as [lastp|]; [|discriminate].
    cbn [option_map] in Hl. injection Hl as Hl. subst t.
    rewrite (int_like_canonical lastp Hc).
    destruct (Z.ltb (dec_value (part_text lastp) + off) 0).
    + reflexivity.
    + eexists. split; [reflexivity|]. apply set_last_tokens.
Qed.

Theorem apply_spec :
  forall (rp : relptr) (rel : drel) (base : pointer),
    (r_origin rp = d_steps rel /\ r_index rp = d_offset rel /\
     match r_pointer rp, d_suffix rel with
     | SHash, DHash => True
     | SPtr p, DPtr ts => tokens p = ts
     | _, _ => False
     end) ->
    offset_applicable rel (tokens base) = true ->
    match draft_apply rel (tokens base) with
    | Some ts => exists q, to_ rp base = Ok q /\ tokens q = ts
    | None => exists k, to_ rp base = Err (ERelPointer k)
    end.
Proof.
  intros rp rel base [Ho [Hi Hs]] Happ.
  unfold draft_apply, to_, offset_applicable in *. rewrite Ho, Hi.
  assert (Hlen : length (tokens base) = length base) by apply map_length.
  rewrite Hlen in *.
  destruct (Z.ltb (Z.of_nat (length base)) (d_steps rel)) eqn:Elt.
  { exists KRelIndex. reflexivity. }
  rewrite orb_false_r in Happ.
  set (k := (length base - Z.to_nat (d_steps rel))%nat) in *.
  assert (Hparts : (if Z.ltb (d_steps rel) 1 then base else firstn k base) = firstn k base).
  { destruct (Z.ltb_spec (d_steps rel) 1) as [Hlt|Hge]; [|reflexivity].
    assert (k = length base) by (unfold k; lia). rewrite H. symmetry. apply firstn_all. }
  rewrite Hparts. rewrite firstn_tokens in *.
  remember (firstn k base) as parts eqn:Eparts. clear Eparts Hparts.
  cbv zeta.
  assert (Hoff : d_offset rel = 0%Z \/
                 exists t, last_opt (tokens parts) = Some t /\ canonical_nonneg t = true).
  { apply orb_true_iff in Happ as [H|H]; [left; apply Z.eqb_eq; assumption|right].
    destruct (last_opt (tokens parts)) as [t|]; [|discriminate]. exists t. auto. }
  pose proof (offset_stage parts (d_offset rel) Hoff) as Hstage.
  match type of Hstage with
  | match ?e with _ => _ end => destruct e as [ts1|]
  end.
  - destruct Hstage as [parts1 [Hp1 Ht1]]. rewrite Hp1. cbn [bind]. subst ts1.
    destruct (r_pointer rp) as [|p]; destruct (d_suffix rel) as [|sfx]; try contradiction.
    + rewrite last_opt_tokens. destruct (last_opt parts1) as [lastp|]; cbn [option_map].
      * cbn [bind]. destruct (from_parts_false_tokens (set_last parts1 (PStr (ch_hash :: part_text lastp))))
          as [q [Hq Htq]].
        exists q. split; [exact Hq|]. rewrite Htq. apply set_last_tokens.
      * exists KRelIndex. reflexivity.
    + cbn [bind]. destruct (from_parts_false_tokens (parts1 ++ p)) as [q [Hq Htq]].
      exists q. split; [exact Hq|]. rewrite Htq. rewrite tokens_app. rewrite Hs. reflexivity.
  - rewrite Hstage. exists KRelIndex. reflexivity.
Qed.
