(* EvalBasics.v — the facts about the evaluator model that need no induction over queries:
   the comparison table, entry points, compound queries, wrong-kind selectors, descendants
   order. *)
From Coq Require Import ZArith List Bool Lia.
From JP Require Import Base Json PyStr PySlice PyJsonStr Syntax Eval Rfc9535 Rfc9535Typing EvalCorr.
Import ListNotations.

(* ---- comparison table (C02) ---------------------------------------------------- *)

Lemma compare_agrees :
  forall re_full (a b : fval) (x y : option json) (o : binop),
    repr a x -> repr b y -> is_cmp o = true ->
    filter_compare re_full a o b = rfc_compare x o y.
Proof.
  intros re_full a b x y o Ha Hb Ho.
  destruct Ha as [u| |], Hb as [v| |]; destruct o; try discriminate Ho; try reflexivity;
    cbn [filter_compare rfc_compare filter_eq rfc_eq];
    try (destruct u; reflexivity); try (destruct v; reflexivity).
  all: destruct u, v; reflexivity.
Qed.

Lemma absent_eq :
  forall re_full (a b : fval) (x y : option json),
    repr a x -> repr b y ->
    filter_compare re_full a BEq b =
    match x, y with None, None => true | Some u, Some v => json_eq u v | _, _ => false end.
Proof.
  intros re_full a b x y Ha Hb.
  rewrite (compare_agrees re_full a b x y BEq Ha Hb eq_refl).
  destruct x, y; reflexivity.
Qed.

Lemma order_domain :
  forall re_full (a b : fval) (x y : option json),
    repr a x -> repr b y -> filter_compare re_full a BLt b = true ->
    (exists m n, x = Some (JNum m) /\ y = Some (JNum n)) \/
    (exists s t, x = Some (JStr s) /\ y = Some (JStr t)).
Proof.
  intros re_full a b x y Ha Hb H.
  rewrite (compare_agrees re_full a b x y BLt Ha Hb eq_refl) in H.
  cbn [rfc_compare] in H. unfold rfc_lt in H.
  destruct x as [[]|]; try discriminate H; destruct y as [[]|]; try discriminate H.
  - left. eauto.
  - right. eauto.
Qed.

Lemma bool_never_number :
  forall (b : bool) (n : num) (pre post : list json),
    json_eq (JArr (pre ++ JBool b :: post)) (JArr (pre ++ JNum n :: post)) = false.
Proof.
  intros b n pre post. induction pre as [|u pre IH].
  - reflexivity.
  - cbn [app]. cbn [json_eq] in IH |- *. rewrite IH. apply andb_false_r.
Qed.

(* ---- entry points (C11) ---------------------------------------------------------- *)

Section Basics.
  Variable E : env.
  Variable rf : ustr -> reflags -> ustr -> option bool.
  Variable rs : ustr -> ustr -> option bool.

  Lemma findall_is_values (p : jpath) (d ctx : json) :
    findall E rf rs p d ctx = (ms <- finditer E rf rs p d ctx ;; Ok (map m_val ms)).
  Proof. reflexivity. Qed.

  Lemma match_is_first (p : jpath) (d ctx : json) :
    match_ E rf rs p d ctx = (ms <- finditer E rf rs p d ctx ;; Ok (hd_error ms)).
  Proof. reflexivity. Qed.

  Lemma filter_map_val (P : json -> bool) (ms : list jmatch) :
    filter P (map m_val ms) = map m_val (filter (fun m => P (m_val m)) ms).
  Proof.
    induction ms as [|m ms IH]; [reflexivity|].
    cbn [map filter]. destruct (P (m_val m)); cbn [map]; rewrite IH; reflexivity.
  Qed.

  Lemma compound_rest_agree (rest : list (setop * jpath)) (d ctx : json) :
    forall ms,
      compound_findall_rest E rf rs (map m_val ms) rest d ctx =
      (ms' <- compound_finditer_rest E rf rs ms rest d ctx ;; Ok (map m_val ms')).
  Proof.
    induction rest as [|[o p] rest IH]; intros ms.
    - reflexivity.
    - cbn [compound_findall_rest compound_finditer_rest].
      unfold findall. destruct (finditer E rf rs p d ctx) as [ms'|e]; [|reflexivity].
      cbn [bind]. destruct o.
      + rewrite <- map_app. apply IH.
      + rewrite filter_map_val. apply IH.
  Qed.

  Lemma compound_agree (q : query) (d ctx : json) :
    compound_findall E rf rs q d ctx =
    (ms <- compound_finditer E rf rs q d ctx ;; Ok (map m_val ms)).
  Proof.
    unfold compound_findall, compound_finditer, findall.
    destruct (finditer E rf rs (q_first q) d ctx) as [ms|e]; [|reflexivity].
    cbn [bind]. apply compound_rest_agree.
  Qed.

  Lemma compound_shape (q : query) (d ctx : json) (ms : list jmatch) :
    compound_finditer E rf rs q d ctx = Ok ms ->
    exists first, finditer E rf rs (q_first q) d ctx = Ok first /\
      match q_rest q with
      | [] => ms = first
      | [(OpUnion, p)] => exists r, finditer E rf rs p d ctx = Ok r /\ ms = first ++ r
      | [(OpIntersect, p)] => exists r, finditer E rf rs p d ctx = Ok r /\
                               ms = filter (fun m => existsb (fun x => py_eq x (m_val m)) (map m_val r)) first
      | _ => True
      end.
  Proof.
    unfold compound_finditer. intros H.
    destruct (finditer E rf rs (q_first q) d ctx) as [first|e]; [|discriminate H].
    cbn [bind] in H. exists first. split; [reflexivity|].
    destruct (q_rest q) as [|[o p] [|op2 rest]].
    - cbn [compound_finditer_rest] in H. congruence.
    - cbn [compound_finditer_rest] in H.
      destruct (finditer E rf rs p d ctx) as [r|e]; [|discriminate H].
      cbn [bind] in H. cbn [compound_finditer_rest] in H. injection H as <-.
      destruct o; exists r; (split; [reflexivity|]); reflexivity.
    - destruct o; exact I.
  Qed.

  (* ---- <> is !=, in is contains flipped (C13) ---------------------------------- *)

  Lemma lg_is_ne (l r : fexpr) (root ctx cur key : json) :
    eval_f E rf rs (FInfix l BLg r) root ctx cur key =
    eval_f E rf rs (FInfix l BNe r) root ctx cur key.
  Proof. reflexivity. Qed.

  Lemma in_contains (l r : fexpr) (root ctx cur key : json) :
    eval_f E rf rs (FInfix l BIn r) root ctx cur key =
    eval_f E rf rs (FInfix r BContains l) root ctx cur key
    \/ (exists e, eval_f E rf rs l root ctx cur key = Err e)
    \/ (exists e, eval_f E rf rs r root ctx cur key = Err e).
  Proof.
    cbn [eval_f is_logical].
    destruct (eval_f E rf rs l root ctx cur key) as [lv|e]; [|right; left; eauto].
    destruct (eval_f E rf rs r root ctx cur key) as [rv|e]; [|right; right; eauto].
    left. reflexivity.
  Qed.

  (* ---- wrong kind (C01) ------------------------------------------------------------ *)

  Lemma wrong_kind (s : selector) (root ctx : json) (m : jmatch) :
    (is_container (m_val m) = false -> resolve_sel E rf rs s root ctx m = Ok []) /\
    (forall xs, m_val m = JArr xs -> forall k, resolve_sel E rf rs (SName k) root ctx m = Ok []) /\
    (forall ms a b c, m_val m = JObj ms -> resolve_sel E rf rs (SSlice a b c) root ctx m = Ok []).
  Proof.
    split; [|split].
    - intros Hc. destruct s; cbn [resolve_sel];
        unfold resolve_name, resolve_index, resolve_slice, resolve_wild, resolve_keys, filter_candidates;
        destruct (m_val m); try discriminate Hc; reflexivity.
    - intros xs Hv k. cbn [resolve_sel]. unfold resolve_name. rewrite Hv. reflexivity.
    - intros ms a b c Hv. cbn [resolve_sel]. unfold resolve_slice. rewrite Hv. reflexivity.
  Qed.
End Basics.

(* ---- descendants order (C01) --------------------------------------------------------- *)

Fixpoint desc_arr (l : loc) (xs : list json) (i : nat) : list node :=
  match xs with
  | [] => []
  | c :: xs' => descendants_val (l ++ [PIdx i]) c ++ desc_arr l xs' (S i)
  end.

Fixpoint desc_obj (l : loc) (ms : list (ustr * json)) : list node :=
  match ms with
  | [] => []
  | (k, c) :: ms' => descendants_val (l ++ [PKey k]) c ++ desc_obj l ms'
  end.

Lemma descendants_val_arr l xs : descendants_val l (JArr xs) = (l, JArr xs) :: desc_arr l xs 0.
Proof.
  cbn [descendants_val]. f_equal. generalize 0. induction xs as [|c xs IH]; intros i; [reflexivity|].
  cbn [desc_arr]. rewrite <- IH. reflexivity.
Qed.

Lemma descendants_val_obj l ms : descendants_val l (JObj ms) = (l, JObj ms) :: desc_obj l ms.
Proof.
  cbn [descendants_val]. f_equal. induction ms as [|[k c] ms IH]; [reflexivity|].
  cbn [desc_obj]. rewrite <- IH. reflexivity.
Qed.

Lemma descendants_val_head l v : exists rest, descendants_val l v = (l, v) :: rest.
Proof. destruct v; cbn [descendants_val]; eauto. Qed.

Lemma desc_arr_nth l xs : forall k i a,
  nth_opt xs i = Some a ->
  exists pre rest, desc_arr l xs k = pre ++ (l ++ [PIdx (k + i)], a) :: rest ++ desc_arr l (skipn (S i) xs) (k + S i).
Proof.
  induction xs as [|c xs IH]; intros k i a H.
  - destruct i; discriminate H.
  - destruct i as [|i].
    + cbn [nth_opt] in H. injection H as ->.
      destruct (descendants_val_head (l ++ [PIdx k]) a) as [rest Hr].
      exists [], rest. cbn [desc_arr skipn app]. rewrite Hr.
      rewrite Nat.add_0_r, Nat.add_1_r. reflexivity.
    + cbn [nth_opt] in H. destruct (IH (S k) i a H) as (pre & rest & Heq).
      exists (descendants_val (l ++ [PIdx k]) c ++ pre), rest.
      cbn [desc_arr]. rewrite Heq. rewrite <- app_assoc.
      replace (S k + i) with (k + S i) by lia.
      replace (S k + S i) with (k + S (S i)) by lia. reflexivity.
Qed.

Lemma nth_opt_skipn {A} (xs : list A) : forall i j, nth_opt (skipn i xs) j = nth_opt xs (i + j).
Proof.
  induction xs as [|x xs IH]; intros i j.
  - destruct i, j; reflexivity.
  - destruct i; [reflexivity|]. cbn [skipn Nat.add nth_opt]. apply IH.
Qed.

Lemma descendant_order :
  forall (l : loc) (v : json),
    hd_error (descendants (l, v)) = Some (l, v) /\
    (forall xs i j a b, v = JArr xs -> i < j -> nth_opt xs i = Some a -> nth_opt xs j = Some b ->
       exists pre mid post,
         descendants (l, v) = pre ++ (l ++ [PIdx i], a) :: mid ++ (l ++ [PIdx j], b) :: post).
Proof.
  intros l v. split.
  - unfold descendants. cbn [fst snd]. destruct (descendants_val_head l v) as [rest ->]. reflexivity.
  - intros xs i j a b -> Hij Ha Hb. unfold descendants. cbn [fst snd].
    rewrite descendants_val_arr.
    destruct (desc_arr_nth l xs 0 i a Ha) as (pre & rest & Heq).
    assert (Hb' : nth_opt (skipn (S i) xs) (j - S i) = Some b).
    { rewrite nth_opt_skipn. replace (S i + (j - S i)) with j by lia. exact Hb. }
    destruct (desc_arr_nth l (skipn (S i) xs) (0 + S i) (j - S i) b Hb') as (pre2 & rest2 & Heq2).
    exists ((l, JArr xs) :: pre), (rest ++ pre2), (rest2 ++ desc_arr l (skipn (S (j - S i)) (skipn (S i) xs)) (0 + S i + S (j - S i))).
    rewrite Heq, Heq2. cbn [app Nat.add]. replace (S (i + (j - S i))) with j by lia.
    rewrite <- app_assoc. reflexivity.
Qed.
