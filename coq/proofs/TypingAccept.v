(* TypingAccept.v — every query that is well-typed in the independent transcription of RFC 9535
   (spec/Rfc9535Typing.v), with its indices in range and its float / regular-expression literals
   readable (spec/TypedDomain.v), is in the domain of the acceptance theorems: it passes the
   compile-time gate, it is printable and float-stable, and (standard level, selectors standing
   alone at path level of the forms the grammar has) reparsable; hence each of its spellings
   compiles (through FreeParseProofs.free_spelling). *)
From Coq Require Import ZArith List Bool Lia.
From JP Require Import Base Json PyStr Syntax Lex Parse Eval Serialize TokPrint Printable Reparsable Gate
                       NormDomain TokensOk FreeSpell Rfc9535Typing TypedDomain.
From JP Require Import EvalEqns GateLemmas EvalProofs FreeParseProofs.
Import ListNotations.

Fixpoint all_args (P : fexpr -> Prop) (es : fexprs) : Prop :=
  match es with ENil => True | ECons e r => P e /\ all_args P r end.

Lemma singular_g p : singular p = true -> g_singular p = true.
Proof.
  induction p as [|g r IH]; [reflexivity|].
  destruct g as [[]| |[|[] []]]; cbn [singular g_singular]; try discriminate; exact IH.
Qed.

Lemma fname_std name :
  ustr_eqb name tname_length || ustr_eqb name tname_count || ustr_eqb name tname_value ||
  ustr_eqb name tname_match || ustr_eqb name tname_search = true -> fname_ok name = true.
Proof.
  intros H. repeat (apply orb_true_iff in H as [H|H]); apply ustr_eqb_spec in H; subst name; reflexivity.
Qed.

Section Typed.
  Variable ext : bool.
  Variable lo hi : Z.
  Variable ro : ustr -> option bool.
  Variable E : env.
  Hypothesis H1 : one_in_range E = true.

  Notation gate_expr := (Gate.gate_expr lo hi).
  Notation gate_exprs := (Gate.gate_exprs lo hi).
  Notation gate_sel := (Gate.gate_sel lo hi).
  Notation gate_sels := (Gate.gate_sels lo hi).
  Notation gate_seg := (Gate.gate_seg lo hi).
  Notation gate_segs := (Gate.gate_segs lo hi).
  Notation st_expr := NormDomain.fl_expr.
  Notation st_exprs := NormDomain.fl_exprs.
  Notation st_sel := NormDomain.fl_sel.
  Notation st_sels := NormDomain.fl_sels.
  Notation st_seg := NormDomain.fl_seg.
  Notation st_segs := NormDomain.fl_segs.

  (* in the domain, each part under its own side condition: the gate given the bounds; printable and
     float-stable given the literals; reparsable outright *)
  Definition OK (e : fexpr) : Prop :=
    (bd_expr lo hi e = true -> gate_expr e = true) /\
    (lt_expr ro e = true -> pr_expr ro e = true /\ st_expr e = true) /\
    rp_expr E e = true.
  Definition OKsel (s : selector) : Prop :=
    (bd_sel lo hi s = true -> gate_sel s = true) /\
    (lt_sel ro s = true -> pr_sel ro s = true /\ st_sel s = true) /\
    rp_sel E s = true.
  Definition OKsels (l : sels) : Prop :=
    (bd_sels lo hi l = true -> gate_sels l = true) /\
    (lt_sels ro l = true -> pr_sels ro l = true /\ st_sels l = true) /\
    rp_sels E l = true.
  Definition OKseg (g : segment) : Prop :=
    (bd_seg lo hi g = true -> gate_seg g = true) /\
    (lt_seg ro g = true -> pr_seg ro g = true /\ st_seg g = true) /\
    rp_seg E g = true.
  Definition OKsegs (p : segs) : Prop :=
    (bd_segs lo hi p = true -> gate_segs p = true) /\
    (lt_segs ro p = true -> pr_segs ro p = true /\ st_segs p = true) /\
    rp_segs E p = true.

  Ltac ok_triv := (split; [intros _; reflexivity|split; [intros _; split; reflexivity|reflexivity]]).

  (* ---- building blocks ---- *)

  Lemma OK_not r : OK r -> g_testable r = true -> OK (FNot r).
  Proof.
    intros (Hg & Hp & Hr) Ht. split; [|split].
    - intros Hb. rewrite gate_expr_not, Ht. exact (Hg Hb).
    - exact Hp.
    - exact Hr.
  Qed.

  Lemma OK_infix l o r :
    OK l -> OK r ->
    (g_is_comparison o = true -> g_comparable l = true /\ g_comparable r = true) ->
    (is_logical o = true -> g_testable l = true /\ g_testable r = true) ->
    OK (FInfix l o r).
  Proof.
    intros (Hgl & Hpl & Hrl) (Hgr & Hpr & Hrr) Hcmp Hlog. split; [|split].
    - intros Hb. change (bd_expr lo hi (FInfix l o r)) with (bd_expr lo hi l && bd_expr lo hi r) in Hb.
      apply andb_true_iff in Hb as [B1 B2]. rewrite gate_expr_infix, (Hgl B1), (Hgr B2). cbn [andb].
      assert (H2 : (if g_is_comparison o then g_comparable l && g_comparable r else true) = true).
      { destruct (g_is_comparison o); [|reflexivity]. destruct (Hcmp eq_refl) as [-> ->]. reflexivity. }
      rewrite H2. cbn [andb]. destruct o; try reflexivity; destruct (Hlog eq_refl) as [-> ->]; reflexivity.
    - intros Hl. change (lt_expr ro (FInfix l o r)) with (lt_expr ro l && lt_expr ro r) in Hl.
      apply andb_true_iff in Hl as [L1 L2]. destruct (Hpl L1) as [P1 S1]. destruct (Hpr L2) as [P2 S2].
      change (pr_expr ro (FInfix l o r)) with (pr_expr ro l && pr_expr ro r).
      change (st_expr (FInfix l o r)) with (st_expr l && st_expr r). rewrite P1, P2, S1, S2. split; reflexivity.
    - change (rp_expr E (FInfix l o r)) with (rp_expr E l && rp_expr E r). rewrite Hrl, Hrr. reflexivity.
  Qed.

  Lemma OK_func1 name a ty t :
    gate_sig name = Some ([ty], t) -> fname_ok name = true ->
    OK a -> g_arg_ok ty a = true -> arg_form a = true ->
    OK (FFunc name (ECons a ENil)).
  Proof.
    intros Hsig Hn (Hg & Hp & Hr) Harg Haf. split; [|split].
    - intros Hb. change (bd_expr lo hi (FFunc name (ECons a ENil))) with (bd_expr lo hi a && true) in Hb.
      rewrite andb_true_r in Hb.
      rewrite gate_expr_func, Hsig. rewrite gate_exprs_cons, (Hg Hb). cbn [fexprs_list g_args_ok]. rewrite Harg. reflexivity.
    - intros Hl. change (lt_expr ro (FFunc name (ECons a ENil))) with (lt_expr ro a && true) in Hl.
      rewrite andb_true_r in Hl. destruct (Hp Hl) as [P1 S1].
      change (pr_expr ro (FFunc name (ECons a ENil))) with (fname_ok name && (pr_expr ro a && true)).
      change (st_expr (FFunc name (ECons a ENil))) with (st_expr a && true). rewrite Hn, P1, S1. split; reflexivity.
    - change (rp_expr E (FFunc name (ECons a ENil))) with (arg_form a && rp_expr E a && true).
      rewrite Haf, Hr. reflexivity.
  Qed.

  Lemma OK_func2 name a b t1 t2 t :
    gate_sig name = Some ([t1; t2], t) -> fname_ok name = true ->
    OK a -> g_arg_ok t1 a = true -> arg_form a = true ->
    OK b -> g_arg_ok t2 b = true -> arg_form b = true ->
    OK (FFunc name (ECons a (ECons b ENil))).
  Proof.
    intros Hsig Hn (Hg & Hp & Hr) Harg Haf (Hg' & Hp' & Hr') Harg' Haf'. split; [|split].
    - intros Hb. change (bd_expr lo hi (FFunc name (ECons a (ECons b ENil))))
        with (bd_expr lo hi a && (bd_expr lo hi b && true)) in Hb.
      rewrite andb_true_r in Hb. apply andb_true_iff in Hb as [B1 B2].
      rewrite gate_expr_func, Hsig. rewrite !gate_exprs_cons, (Hg B1), (Hg' B2). cbn [fexprs_list g_args_ok].
      rewrite Harg, Harg'. reflexivity.
    - intros Hl. change (lt_expr ro (FFunc name (ECons a (ECons b ENil))))
        with (lt_expr ro a && (lt_expr ro b && true)) in Hl.
      rewrite andb_true_r in Hl. apply andb_true_iff in Hl as [L1 L2].
      destruct (Hp L1) as [P1 S1]. destruct (Hp' L2) as [P2 S2].
      change (pr_expr ro (FFunc name (ECons a (ECons b ENil))))
        with (fname_ok name && (pr_expr ro a && (pr_expr ro b && true))).
      change (st_expr (FFunc name (ECons a (ECons b ENil)))) with (st_expr a && (st_expr b && true)).
      rewrite Hn, P1, P2, S1, S2. split; reflexivity.
    - change (rp_expr E (FFunc name (ECons a (ECons b ENil))))
        with (arg_form a && rp_expr E a && (arg_form b && rp_expr E b && true)).
      rewrite Haf, Hr, Haf', Hr'. reflexivity.
  Qed.

  Lemma literals_OK items :
    wt_literals ext items = true ->
    gate_exprs items = true /\ (lt_exprs ro items = true -> pr_lits ro items = true /\ st_exprs items = true).
  Proof.
    induction items as [|e r IH]; intros Hw; [repeat split; reflexivity|].
    assert (Hwr : wt_literals ext r = true) by (destruct e; try discriminate Hw; exact Hw).
    destruct (IH Hwr) as (Hg & Hps). split.
    - rewrite gate_exprs_cons, Hg. destruct e; try discriminate Hw; reflexivity.
    - intros Hl. change (lt_exprs ro (ECons e r)) with (lt_expr ro e && lt_exprs ro r) in Hl.
      apply andb_true_iff in Hl as [Hle Hlr]. destruct (Hps Hlr) as [Hp Hs].
      change (pr_lits ro (ECons e r)) with (is_lit e && pr_expr ro e && pr_lits ro r).
      change (st_exprs (ECons e r)) with (st_expr e && st_exprs r). rewrite Hp, Hs.
      destruct e; try discriminate Hw; try (split; reflexivity).
      change (lt_expr ro (FFloat n)) with (float_ok n && float_stable n) in Hle.
      apply andb_true_iff in Hle as [Ho Hst].
      change (pr_expr ro (FFloat n)) with (float_ok n). change (st_expr (FFloat n)) with (float_stable n).
      rewrite Ho, Hst. split; reflexivity.
  Qed.

  (* ---- the induction ---- *)

  Definition Pe (e : fexpr) : Prop :=
    (wt_logical ext e = true -> OK e /\ g_testable e = true) /\
    (wt_comparable ext e = true ->
       OK e /\ g_comparable e = true /\ g_arg_ok GValue e = true /\ (is_undefined e = false -> arg_form e = true)) /\
    (wt_nodes ext e = true -> OK e /\ g_arg_ok GNodes e = true /\ arg_form e = true) /\
    (wt_member ext e = true -> OK e).

  Definition Pes (es : fexprs) : Prop := all_args Pe es.
  Definition Psel (s : selector) : Prop := wt_sel ext s = true -> OKsel s.
  Definition Psels (l : sels) : Prop := wt_sels ext l = true -> OKsels l.
  Definition Pseg (g : segment) : Prop := wt_seg ext g = true -> OKseg g.
  Definition Psegs (p : segs) : Prop := wt_segs ext p = true -> OKsegs p.

  Lemma lit_case e :
    OK e -> g_comparable e = true -> g_arg_ok GValue e = true -> arg_form e = true ->
    wt_logical ext e = false -> wt_nodes ext e = false -> Pe e.
  Proof.
    intros HOK Hc Ha Hf Hl Hn. unfold Pe.
    split; [intros Hw; congruence|]. split; [intros _; repeat split; try apply HOK; auto|].
    split; [intros Hw; congruence|intros _; exact HOK].
  Qed.

  Lemma OK_query (mk : segs -> fexpr) p :
    (forall q, gate_expr (mk q) = gate_segs q /\ pr_expr ro (mk q) = pr_segs ro q /\
               st_expr (mk q) = st_segs q /\ rp_expr E (mk q) = rp_segs E q) ->
    (forall q, bd_expr lo hi (mk q) = bd_segs lo hi q /\ lt_expr ro (mk q) = lt_segs ro q) ->
    OKsegs p -> OK (mk p).
  Proof.
    intros Hmk Hd (Hg & Hp & Hr). destruct (Hmk p) as (E1 & E2 & E3 & E4). destruct (Hd p) as (D1 & D2).
    split; [|split].
    - rewrite D1, E1. exact Hg.
    - rewrite D2, E2, E3. exact Hp.
    - rewrite E4. exact Hr.
  Qed.

  (* FSelf, FRoot, FCtx *)
  Lemma query_case (mk : segs -> fexpr) p (guard : bool) :
    (forall q, gate_expr (mk q) = gate_segs q /\ pr_expr ro (mk q) = pr_segs ro q /\
               st_expr (mk q) = st_segs q /\ rp_expr E (mk q) = rp_segs E q) ->
    (forall q, g_is_query (mk q) = true /\ g_query_segs (mk q) = q /\ g_returns (mk q) = None /\
               g_is_literal (mk q) = false /\ arg_form (mk q) = true) ->
    (forall q, bd_expr lo hi (mk q) = bd_segs lo hi q /\ lt_expr ro (mk q) = lt_segs ro q) ->
    wt_logical ext (mk p) = guard && wt_segs ext p -> wt_comparable ext (mk p) = guard && singular p ->
    wt_nodes ext (mk p) = guard && wt_segs ext p ->
    (wt_member ext (mk p) = true -> wt_segs ext p = true) ->
    Psegs p -> Pe (mk p).
  Proof.
    intros Hmk Hq Hd El Ec En Em IH.
    destruct (Hq p) as (Q1 & Q2 & Q3 & Q4 & Q5).
    assert (HOK : wt_segs ext p = true -> OK (mk p)) by (intros Hw; apply OK_query; [exact Hmk|exact Hd|exact (IH Hw)]).
    split; [|split; [|split]].
    - intros H. rewrite El in H. apply andb_true_iff in H as [_ H]. split; [exact (HOK H)|].
      unfold g_testable. rewrite Q3, Q4. reflexivity.
    - intros H. rewrite Ec in H. apply andb_true_iff in H as [_ H].
      split; [exact (HOK (proj1 (singular_wt ext p H)))|]. split; [|split].
      + unfold g_comparable. rewrite Q1, Q2, Q3, (singular_g p H). reflexivity.
      + unfold g_arg_ok. rewrite Q1, Q2, (singular_g p H). cbn [andb]. rewrite orb_true_r. reflexivity.
      + intros _. exact Q5.
    - intros H. rewrite En in H. apply andb_true_iff in H as [_ H]. split; [exact (HOK H)|]. split; [|exact Q5].
      unfold g_arg_ok. rewrite Q1. reflexivity.
    - intros H. exact (HOK (Em H)).
  Qed.

  Lemma case_FNot r : Pe r -> Pe (FNot r).
  Proof.
    intros (Hl & _).
    split; [|split; [intros H; discriminate H|split; intros H; discriminate H]].
    intros Hw. rewrite wt_logical_not in Hw. destruct (Hl Hw) as [HOK Ht].
    split; [apply OK_not; assumption|reflexivity].
  Qed.

  Lemma OK_regex p fl : OK (FRegex p fl).
  Proof.
    split; [intros _; reflexivity|split; [|reflexivity]].
    intros Hl. split; [exact Hl|reflexivity].
  Qed.

  Lemma case_FInfix l o r : Pe l -> Pe r -> Pe (FInfix l o r).
  Proof.
    intros (Lg & Lc & _ & Lm) (Rg & Rc & _ & Rm).
    split; [|split; [intros H; discriminate H|split; intros H; discriminate H]].
    intros Hw. split; [|reflexivity].
    assert (Hcmp : is_cmp o = true -> OK (FInfix l o r)).
    { intros Ho. rewrite (wt_logical_cmp ext l o r Ho) in Hw. apply andb_true_iff in Hw as [Hwl Hwr].
      destruct (Lc Hwl) as (Ol & Cl & _). destruct (Rc Hwr) as (Or & Cr & _).
      apply OK_infix; auto. intros H. destruct o; discriminate Ho || discriminate H. }
    destruct o; try (apply Hcmp; reflexivity); clear Hcmp.
    - rewrite wt_logical_and in Hw. apply andb_true_iff in Hw as [Hwl Hwr].
      destruct (Lg Hwl) as [Ol Tl]. destruct (Rg Hwr) as [Or Tr].
      apply OK_infix; auto. intros H. discriminate H.
    - rewrite wt_logical_or in Hw. apply andb_true_iff in Hw as [Hwl Hwr].
      destruct (Lg Hwl) as [Ol Tl]. destruct (Rg Hwr) as [Or Tr].
      apply OK_infix; auto. intros H. discriminate H.
    - rewrite wt_logical_lg in Hw. apply andb_true_iff in Hw as [Hw Hwr]. apply andb_true_iff in Hw as [_ Hwl].
      destruct (Lc Hwl) as (Ol & _). destruct (Rc Hwr) as (Or & _).
      apply OK_infix; auto; intros H; discriminate H.
    - rewrite wt_logical_in in Hw. apply andb_true_iff in Hw as [Hw Hwr]. apply andb_true_iff in Hw as [_ Hwl].
      apply OK_infix; auto; intros H; discriminate H.
    - rewrite wt_logical_contains in Hw. apply andb_true_iff in Hw as [Hw Hwr]. apply andb_true_iff in Hw as [_ Hwl].
      apply OK_infix; auto; intros H; discriminate H.
    - rewrite wt_logical_re in Hw. destruct r; try discriminate Hw. apply andb_true_iff in Hw as [_ Hwl].
      destruct (Lc Hwl) as (Ol & Cl & _).
      apply OK_infix; auto; [apply OK_regex|]. intros H. discriminate H.
  Qed.

  Lemma case_FList items : Pe (FList items).
  Proof.
    split; [intros H; discriminate H|]. split; [intros H; discriminate H|]. split; [intros H; discriminate H|].
    intros Hw. rewrite wt_member_list in Hw. destruct (literals_OK items Hw) as (Hg & Hps).
    split; [|split].
    - intros _. rewrite gate_expr_list. exact Hg.
    - exact Hps.
    - reflexivity.
  Qed.

  Lemma case_FFunc name args : Pes args -> Pe (FFunc name args).
  Proof.
    intros IH.
    assert (Hval : wt_comparable ext (FFunc name args) = true ->
              OK (FFunc name args) /\ g_comparable (FFunc name args) = true /\
              g_arg_ok GValue (FFunc name args) = true).
    { intros Hw. rewrite wt_comparable_func in Hw.
      destruct (ustr_eqb name tname_length) eqn:HL.
      - apply ustr_eqb_spec in HL. subst name. destruct args as [|a [|b r]]; try discriminate Hw.
        destruct IH as [(_ & Hc & _) _]. destruct (wt_arg_comparable ext a Hw) as [Hwc Hnu].
        destruct (Hc Hwc) as (Oa & _ & Aa & Fa).
        split; [|split; reflexivity]. apply (OK_func1 tname_length a GValue GValue); auto.
      - destruct (ustr_eqb name tname_count || ustr_eqb name tname_value) eqn:HC.
        { destruct args as [|a [|b r]]; try discriminate Hw. destruct IH as [(_ & _ & Hn & _) _].
          destruct (Hn Hw) as (Oa & Aa & Fa).
          apply orb_true_iff in HC as [HC|HC]; apply ustr_eqb_spec in HC; subst name.
          + split; [|split; reflexivity]. apply (OK_func1 tname_count a GNodes GValue); auto.
          + split; [|split; reflexivity]. apply (OK_func1 tname_value a GNodes GValue); auto. }
        destruct (ext && ustr_eqb name tname_typeof) eqn:HT; [|discriminate Hw].
        apply andb_true_iff in HT as [_ HT]. apply ustr_eqb_spec in HT. subst name.
        destruct args as [|a [|b r]]; try discriminate Hw. destruct IH as [(_ & _ & Hn & _) _].
        destruct (Hn Hw) as (Oa & Aa & Fa).
        split; [|split; reflexivity]. apply (OK_func1 tname_typeof a GNodes GValue); auto. }
    split; [|split; [|split]].
    - (* match, search *)
      intros Hw. rewrite wt_logical_func in Hw. apply andb_true_iff in Hw as [Hname Hw].
      destruct args as [|a [|b [|c r]]]; try discriminate Hw. apply andb_true_iff in Hw as [Hwa Hwb].
      destruct IH as ((_ & Hca & _) & (_ & Hcb & _) & _).
      destruct (wt_arg_comparable ext a Hwa) as [Hwa' Hna]. destruct (wt_arg_comparable ext b Hwb) as [Hwb' Hnb].
      destruct (Hca Hwa') as (Oa & _ & Aa & Fa). destruct (Hcb Hwb') as (Ob & _ & Ab & Fb).
      apply orb_true_iff in Hname as [Hn|Hn]; apply ustr_eqb_spec in Hn; subst name.
      + split; [|reflexivity]. apply (OK_func2 tname_match a b GValue GValue GLogical); auto.
      + split; [|reflexivity]. apply (OK_func2 tname_search a b GValue GValue GLogical); auto.
    - intros Hw. destruct (Hval Hw) as (HO & Hc & Ha). split; [exact HO|]. split; [exact Hc|]. split; [exact Ha|].
      intros _. reflexivity.
    - intros H. discriminate H.
    - intros Hw. rewrite wt_member_func in Hw. exact (proj1 (Hval Hw)).
  Qed.

  (* ---- selectors, segments ---- *)

  Lemma case_SFilter e : Pe e -> Psel (SFilter e).
  Proof.
    intros (Hl & _) Hw. rewrite wt_sel_filter in Hw. destruct (Hl Hw) as [(Hg & Hp & Hr) Ht].
    split; [|split].
    - intros Hb. rewrite gate_sel_filter, Ht. exact (Hg Hb).
    - exact Hp.
    - exact Hr.
  Qed.

  Lemma case_SSlice a b c : Psel (SSlice a b c).
  Proof.
    intros _. split; [intros Hb; exact Hb|split; [intros _; split; reflexivity|]].
    cbn [rp_sel]. destruct c; [reflexivity|exact H1].
  Qed.

  Lemma case_LCons s r : Psel s -> Psels r -> Psels (LCons s r).
  Proof.
    intros IHs IHr Hw. rewrite wt_sels_cons in Hw. apply andb_true_iff in Hw as [W1 W2].
    destruct (IHs W1) as (Hg & Hp & Hr). destruct (IHr W2) as (Hg' & Hp' & Hr').
    split; [|split].
    - intros Hb. change (bd_sels lo hi (LCons s r)) with (bd_sel lo hi s && bd_sels lo hi r) in Hb.
      apply andb_true_iff in Hb as [B1 B2]. rewrite gate_sels_cons, (Hg B1), (Hg' B2). reflexivity.
    - intros Hl. change (lt_sels ro (LCons s r)) with (lt_sel ro s && lt_sels ro r) in Hl.
      apply andb_true_iff in Hl as [L1 L2]. destruct (Hp L1) as [P1 S1]. destruct (Hp' L2) as [P2 S2].
      change (pr_sels ro (LCons s r)) with (pr_sel ro s && pr_sels ro r).
      change (st_sels (LCons s r)) with (st_sel s && st_sels r). rewrite P1, P2, S1, S2. split; reflexivity.
    - change (rp_sels E (LCons s r)) with (rp_sel E s && rp_sels E r). rewrite Hr, Hr'. reflexivity.
  Qed.

  Lemma case_GSel s : Psel s -> Pseg (GSel s).
  Proof.
    intros IH Hw. rewrite wt_seg_sel in Hw.
    assert (Hs : wt_sel ext s = true) by (destruct s; try discriminate Hw; try reflexivity; exact Hw).
    assert (Hbare : bare_form s = true) by (destruct s; try discriminate Hw; reflexivity).
    destruct (IH Hs) as (Hg & Hp & Hr). split; [|split].
    - intros Hb. rewrite gate_seg_sel. exact (Hg Hb).
    - exact Hp.
    - change (rp_seg E (GSel s)) with (bare_form s && rp_sel E s). rewrite Hbare, Hr. reflexivity.
  Qed.

  Lemma case_GList items : Psels items -> Pseg (GList items).
  Proof.
    intros IH Hw. rewrite wt_seg_list in Hw.
    assert (Hne : items <> LNil) by (intros ->; discriminate Hw).
    assert (Hs : wt_sels ext items = true) by (destruct items; [discriminate Hw|exact Hw]).
    destruct (IH Hs) as (Hg & Hp & Hr). split; [|split; [exact Hp|exact Hr]].
    intros Hb. rewrite gate_seg_list. destruct items; [contradiction Hne; reflexivity|exact (Hg Hb)].
  Qed.

  Lemma case_PCons g r : Pseg g -> Psegs r -> Psegs (PCons g r).
  Proof.
    intros IHg IHr Hw. rewrite wt_segs_cons in Hw. apply andb_true_iff in Hw as [W1 W2].
    destruct (IHg W1) as (Hg & Hp & Hr). destruct (IHr W2) as (Hg' & Hp' & Hr').
    split; [|split].
    - intros Hb. change (bd_segs lo hi (PCons g r)) with (bd_seg lo hi g && bd_segs lo hi r) in Hb.
      apply andb_true_iff in Hb as [B1 B2]. rewrite gate_segs_cons, (Hg B1), (Hg' B2). reflexivity.
    - intros Hl. change (lt_segs ro (PCons g r)) with (lt_seg ro g && lt_segs ro r) in Hl.
      apply andb_true_iff in Hl as [L1 L2]. destruct (Hp L1) as [P1 S1]. destruct (Hp' L2) as [P2 S2].
      change (pr_segs ro (PCons g r)) with (pr_seg ro g && pr_segs ro r).
      change (st_segs (PCons g r)) with (st_seg g && st_segs r). rewrite P1, P2, S1, S2. split; reflexivity.
    - change (rp_segs E (PCons g r)) with (rp_seg E g && rp_segs E r). rewrite Hr, Hr'. reflexivity.
  Qed.

  Theorem typed_all :
    (forall e, Pe e) /\ (forall es, Pes es) /\ (forall s, Psel s) /\ (forall l, Psels l) /\
    (forall g, Pseg g) /\ (forall p, Psegs p).
  Proof.
    apply syntax_mutind.
    - apply lit_case; try reflexivity. ok_triv.
    - (* FUndefined *)
      split; [intros H; discriminate H|]. split; [|split; intros H; discriminate H].
      intros Hw. change (wt_comparable ext FUndefined) with ext in Hw.
      split; [ok_triv|]. split; [reflexivity|]. split; [reflexivity|]. intros He. discriminate He.
    - intros b. apply lit_case; try reflexivity. ok_triv.
    - intros z. apply lit_case; try reflexivity. ok_triv.
    - (* FFloat *)
      intros n. apply lit_case; try reflexivity.
      split; [intros _; reflexivity|split; [|reflexivity]].
      intros Hl. change (lt_expr ro (FFloat n)) with (float_ok n && float_stable n) in Hl.
      apply andb_true_iff in Hl. exact Hl.
    - intros s. apply lit_case; try reflexivity. ok_triv.
    - (* FRegex: typed only as the right operand of =~ *)
      intros p fl. split; [intros H; discriminate H|]. split; [intros H; discriminate H|].
      split; intros H; discriminate H.
    - intros items _. apply case_FList.
    - exact case_FNot.
    - intros l Hl o r Hr. apply case_FInfix; assumption.
    - intros p IH. apply (query_case FSelf p true);
        [intros q; repeat split|intros q; repeat split|intros q; repeat split|reflexivity|reflexivity|reflexivity|intros H; exact H|exact IH].
    - intros fake p IH. apply (query_case (FRoot fake) p (ext || negb fake));
        [intros q; repeat split|intros q; repeat split|intros q; repeat split|reflexivity|reflexivity|reflexivity|intros H; exact H|exact IH].
    - intros p IH. apply (query_case FCtx p ext);
        [intros q; repeat split|intros q; repeat split|intros q; repeat split|reflexivity|reflexivity|reflexivity|intros H; exact H|exact IH].
    - (* FKey *)
      split; [intros H; discriminate H|]. split; [|split; [intros H; discriminate H|intros _; ok_triv]].
      intros Hw. split; [ok_triv|]. repeat split; reflexivity.
    - exact case_FFunc.
    - exact I.
    - intros e He r Hr. split; assumption.
    - intros name _. ok_triv.
    - intros i _. split; [intros Hb; exact Hb|split; [intros _; split; reflexivity|reflexivity]].
    - exact case_SSlice.
    - intros _. ok_triv.
    - intros _. ok_triv.
    - exact case_SFilter.
    - intros _. ok_triv.
    - intros s Hs r Hr. apply case_LCons; assumption.
    - exact case_GSel.
    - intros _. ok_triv.
    - exact case_GList.
    - intros _. ok_triv.
    - intros g Hg r Hr. apply case_PCons; assumption.
  Qed.
End Typed.

(* ---- queries --------------------------------------------------------------------------------- *)

Lemma typed_segs (ext : bool) lo hi ro E p :
  one_in_range E = true -> wt_segs ext p = true ->
  (bd_segs lo hi p = true -> gate_segs lo hi p = true) /\
  (lt_segs ro p = true -> pr_segs ro p = true /\ NormDomain.fl_segs p = true) /\
  rp_segs E p = true.
Proof.
  intros H1 Hw. destruct (typed_all ext lo hi ro E H1) as (_ & _ & _ & _ & _ & H). exact (H p Hw).
Qed.

Lemma ext_path_wt p : ext_path p = true -> wt_segs true (p_segs p) = true.
Proof.
  unfold ext_path, wt_path. intros H. apply andb_true_iff in H as [H _]. apply andb_true_iff in H as [H _].
  apply andb_true_iff in H as [_ H]. exact H.
Qed.

Lemma std_query_wt q : std_query q = true -> wt_segs false (p_segs (q_first q)) = true /\ q_rest q = [].
Proof.
  unfold std_query, std_path, wt_path. intros H. apply andb_true_iff in H as [H Hr].
  apply andb_true_iff in H as [H _]. apply andb_true_iff in H as [H _]. apply andb_true_iff in H as [_ H].
  split; [exact H|]. destruct (q_rest q); [reflexivity|discriminate Hr].
Qed.

(* (1) well-typed and within bounds: through the compile-time gate *)
Theorem std_gate :
  forall lo hi (q : query), std_query q = true -> bounds_ok lo hi q = true -> gate_query lo hi q = true.
Proof.
  intros lo hi q Hs Hb. destruct (std_query_wt q Hs) as [Hw Hr].
  unfold bounds_ok in Hb. unfold gate_query. rewrite Hr in *. cbn [forallb] in *. rewrite andb_true_r in *.
  (* the environment only matters for the reparsable part, which is not used here *)
  exact (proj1 (typed_segs false lo hi (fun _ => None) default_env (p_segs (q_first q)) eq_refl Hw) Hb).
Qed.

Theorem ext_gate :
  forall lo hi (q : query), ext_query q = true -> bounds_ok lo hi q = true -> gate_query lo hi q = true.
Proof.
  intros lo hi q Hs Hb. unfold ext_query in Hs. apply andb_true_iff in Hs as [H1 H2].
  unfold bounds_ok in Hb. apply andb_true_iff in Hb as [B1 B2]. unfold gate_query.
  rewrite (proj1 (typed_segs true lo hi (fun _ => None) default_env _ eq_refl (ext_path_wt _ H1)) B1). cbn [andb].
  apply forallb_forall. intros op Hin. rewrite forallb_forall in H2, B2.
  exact (proj1 (typed_segs true lo hi (fun _ => None) default_env _ eq_refl (ext_path_wt _ (H2 op Hin))) (B2 op Hin)).
Qed.

(* (2) the shape conditions *)
Theorem ext_printable :
  forall ro (q : query), ext_query q = true -> TypedDomain.literals_ok ro q = true ->
    printable ro q = true /\ floats_stable q = true.
Proof.
  intros ro q Hs Hl. unfold ext_query in Hs. apply andb_true_iff in Hs as [H1 H2].
  unfold TypedDomain.literals_ok in Hl. apply andb_true_iff in Hl as [L1 L2]. unfold printable, floats_stable.
  destruct (proj1 (proj2 (typed_segs true 0 0 ro default_env _ eq_refl (ext_path_wt _ H1))) L1) as [P1 S1].
  rewrite P1, S1. cbn [andb]. rewrite forallb_forall in H2, L2.
  split; apply forallb_forall; intros op Hin;
    destruct (proj1 (proj2 (typed_segs true 0 0 ro default_env _ eq_refl (ext_path_wt _ (H2 op Hin)))) (L2 op Hin)) as [P S];
    assumption.
Qed.

Theorem std_printable :
  forall ro (q : query), std_query q = true -> TypedDomain.literals_ok ro q = true ->
    printable ro q = true /\ floats_stable q = true.
Proof.
  intros ro q Hs Hl. destruct (std_query_wt q Hs) as [Hw Hr].
  unfold TypedDomain.literals_ok in Hl. unfold printable, floats_stable. rewrite Hr in *. cbn [forallb] in *.
  rewrite !andb_true_r in *.
  exact (proj1 (proj2 (typed_segs false 0 0 ro default_env _ eq_refl Hw)) Hl).
Qed.

Theorem std_reparsable :
  forall (E : env) (q : query),
    in_range (e_min_index E) (e_max_index E) 1%Z = true ->
    std_query q = true -> reparsable E q = true.
Proof.
  intros E q H1 Hs. destruct (std_query_wt q Hs) as [Hw Hr].
  unfold reparsable. rewrite Hr. cbn [forallb]. rewrite andb_true_r.
  exact (proj2 (proj2 (typed_segs false 0 0 (fun _ => None) E _ H1 Hw))).
Qed.

Theorem ext_reparsable :
  forall (E : env) (q : query),
    in_range (e_min_index E) (e_max_index E) 1%Z = true ->
    ext_query q = true -> reparsable E q = true.
Proof.
  intros E q H1 Hs. unfold ext_query in Hs. apply andb_true_iff in Hs as [Hp Hr].
  unfold reparsable.
  rewrite (proj2 (proj2 (typed_segs true 0 0 (fun _ => None) E _ H1 (ext_path_wt _ Hp)))). cbn [andb].
  apply forallb_forall. intros op Hin. rewrite forallb_forall in Hr.
  exact (proj2 (proj2 (typed_segs true 0 0 (fun _ => None) E _ H1 (ext_path_wt _ (Hr op Hin))))).
Qed.

Theorem std_domain :
  forall (E : env) ro (q : query),
    in_range (e_min_index E) (e_max_index E) 1%Z = true ->
    std_query q = true ->
    bounds_ok (e_min_index E) (e_max_index E) q = true -> TypedDomain.literals_ok ro q = true ->
    c10_domain E ro q = true.
Proof.
  intros E ro q H1 Hs Hbd Hl. unfold c10_domain.
  rewrite (std_gate _ _ q Hs Hbd). destruct (std_printable ro q Hs Hl) as [-> ->].
  rewrite (std_reparsable E q H1 Hs). reflexivity.
Qed.

Theorem ext_domain :
  forall (E : env) ro (q : query),
    in_range (e_min_index E) (e_max_index E) 1%Z = true ->
    ext_query q = true ->
    bounds_ok (e_min_index E) (e_max_index E) q = true -> TypedDomain.literals_ok ro q = true ->
    c10_domain E ro q = true.
Proof.
  intros E ro q H1 Hs Hbd Hl. unfold c10_domain.
  rewrite (ext_gate _ _ q Hs Hbd). destruct (ext_printable ro q Hs Hl) as [-> ->].
  rewrite (ext_reparsable E q H1 Hs). reflexivity.
Qed.

(* (3) every spelling of a well-typed query compiles, to the query it spells *)
Theorem std_accept :
  forall (E : env) re_ok (q : query) (t : ustr),
    tokens_ok E = true -> e_well_typed E = true -> e_unicode_escape E = true ->
    in_range (e_min_index E) (e_max_index E) 1%Z = true ->
    std_query q = true ->
    bounds_ok (e_min_index E) (e_max_index E) q = true -> TypedDomain.literals_ok re_ok q = true ->
    spells E q t ->
    exists q', compile E re_ok t = Ok q' /\ norm_query q' = norm_query q.
Proof.
  intros E ro q t HT WT UE H1 Hs Hbd Hl Hsp.
  exact (free_spelling E ro q t HT WT UE (std_domain E ro q H1 Hs Hbd Hl) Hsp).
Qed.

Theorem std_accept_results :
  forall (E : env) re_ok rf rs (q : query) (t : ustr) (d ctx : json),
    tokens_ok E = true -> e_well_typed E = true -> e_unicode_escape E = true ->
    in_range (e_min_index E) (e_max_index E) 1%Z = true ->
    std_query q = true ->
    bounds_ok (e_min_index E) (e_max_index E) q = true -> TypedDomain.literals_ok re_ok q = true ->
    spells E q t ->
    exists q', compile E re_ok t = Ok q' /\
               compound_finditer E rf rs q' d ctx = compound_finditer E rf rs q d ctx.
Proof.
  intros E ro rf rs q t d ctx HT WT UE H1 Hs Hbd Hl Hsp.
  exact (free_spelling_results E ro rf rs q t d ctx HT WT UE (std_domain E ro q H1 Hs Hbd Hl) Hsp).
Qed.

Theorem ext_accept :
  forall (E : env) re_ok (q : query) (t : ustr),
    tokens_ok E = true -> e_well_typed E = true -> e_unicode_escape E = true ->
    in_range (e_min_index E) (e_max_index E) 1%Z = true ->
    ext_query q = true ->
    bounds_ok (e_min_index E) (e_max_index E) q = true -> TypedDomain.literals_ok re_ok q = true ->
    spells E q t ->
    exists q', compile E re_ok t = Ok q' /\ norm_query q' = norm_query q.
Proof.
  intros E ro q t HT WT UE H1 Hs Hbd Hl Hsp.
  exact (free_spelling E ro q t HT WT UE (ext_domain E ro q H1 Hs Hbd Hl) Hsp).
Qed.

Theorem ext_accept_results :
  forall (E : env) re_ok rf rs (q : query) (t : ustr) (d ctx : json),
    tokens_ok E = true -> e_well_typed E = true -> e_unicode_escape E = true ->
    in_range (e_min_index E) (e_max_index E) 1%Z = true ->
    ext_query q = true ->
    bounds_ok (e_min_index E) (e_max_index E) q = true -> TypedDomain.literals_ok re_ok q = true ->
    spells E q t ->
    exists q', compile E re_ok t = Ok q' /\
               compound_finditer E rf rs q' d ctx = compound_finditer E rf rs q d ctx.
Proof.
  intros E ro rf rs q t d ctx HT WT UE H1 Hs Hbd Hl Hsp.
  exact (free_spelling_results E ro rf rs q t d ctx HT WT UE (ext_domain E ro q H1 Hs Hbd Hl) Hsp).
Qed.

(* ---- where typing and the compiler differ ---------------------------------------------------- *)

Definition ro1 : ustr -> option bool := fun _ => Some true.

(* forms that no text denotes are not typed: an index standing alone at path level, `undefined` as a
   function argument (both were typed by an earlier, less precise transcription) *)
Example bare_index_not_typed :
  std_query (mkQuery (mkPath false (PCons (GSel (SIndex 1)) PNil)) []) = false /\
  ext_query (mkQuery (mkPath false (PCons (GSel (SIndex 1)) PNil)) []) = false.
Proof. vm_compute. split; reflexivity. Qed.

Example undefined_argument_not_typed :
  ext_query (mkQuery (mkPath false (PCons (GList (LCons (SFilter
     (FFunc tname_match (ECons FUndefined (ECons (FStr [97%N]) ENil)))) LNil)) PNil)) []) = false.
Proof. vm_compute. reflexivity. Qed.

(* the converse fails: the compiler accepts a comparison whose operand is itself a comparison,
   $[?(@.a == 1) == true] , which RFC 9535 typing refuses *)
Example compiled_not_typed :
  exists q, compile default_env ro1 [36; 91; 63; 40; 64; 46; 97; 32; 61; 61; 32; 49; 41; 32; 61; 61; 32; 116; 114; 117; 101; 93]%N = Ok q /\
            ext_query q = false.
Proof. eexists. split; vm_compute; reflexivity. Qed.

(* ... and it is not the only place: each of the following texts compiles (default environment) to a
   query the typing refuses, so no single relaxation of the typing gives the converse.  The tight
   description of what compiles is the domain itself (RoundTrip.compiled_domain: gate, printable,
   reparsable, float-stable); the typing is inside it (std_domain, ext_domain). *)
Definition compiles_untyped (s : ustr) : bool :=
  match compile default_env ro1 s with Ok q => negb (ext_query q) | Err _ => false end.

Example compiled_not_typed_more :
  (* $[?undefined]   $[?#]   $[?[1]] : a test that is 'undefined', the current key, a list literal *)
  compiles_untyped [36; 91; 63; 117; 110; 100; 101; 102; 105; 110; 101; 100; 93]%N = true /\
  compiles_untyped [36; 91; 63; 35; 93]%N = true /\
  compiles_untyped [36; 91; 63; 91; 49; 93; 93]%N = true /\
  (* $[?!@.a == 1] : a negation as a comparison operand *)
  compiles_untyped [36; 91; 63; 33; 64; 46; 97; 32; 61; 61; 32; 49; 93]%N = true /\
  (* $[?@.a =~ 'x']   $[?@.a == /x/] : =~ without a regex literal, a regex literal compared with == *)
  compiles_untyped [36; 91; 63; 64; 46; 97; 32; 61; 126; 32; 39; 120; 39; 93]%N = true /\
  compiles_untyped [36; 91; 63; 64; 46; 97; 32; 61; 61; 32; 47; 120; 47; 93]%N = true /\
  (* $[?undefined in @.a] : 'undefined' as a membership operand *)
  compiles_untyped [36; 91; 63; 117; 110; 100; 101; 102; 105; 110; 101; 100; 32; 105; 110; 32; 64; 46; 97; 93]%N = true /\
  (* $[?isinstance(@.a, 'x')] : the library's extra functions (compile time; evaluation is outside the model) *)
  compiles_untyped [36; 91; 63; 105; 115; 105; 110; 115; 116; 97; 110; 99; 101; 40; 64; 46; 97; 44; 32; 39; 120; 39; 41; 93]%N = true /\
  (* $..   and a slice standing alone at path level,  $.a 1:2 *)
  compiles_untyped [36; 46; 46]%N = true /\
  compiles_untyped [36; 46; 97; 32; 49; 58; 50]%N = true.
Proof. vm_compute. repeat split; reflexivity. Qed.
