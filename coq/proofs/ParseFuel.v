(* ParseFuel.v — the fuel the compile loop gives the parser model is enough: compile_tokens (and
   compile) never answer EOutOfFuel.

   Potential of a stream: N st = the number of fetches from [s_rest] until the stream is exhausted
   (the tokens before the first EOF-kind token, plus the fetch of that EOF / of the end).  With
   at most one pushed-back token it never increases; every call of the mutual block at fuel f on
   a stream with 2 * N st + C <= f (C a small constant per function) does not run out of fuel,
   and the loops' counters (started at the current fuel) are bounded by N st + 1.
   So 2 * n + 8 would do where the model uses 4 * n + 16. *)
From Coq Require Import ZArith List Bool Lia.
From JP Require Import Base Json PyStr PyJsonStr Syntax Lex Parse Gate.
From JP Require Import ParseEqns ParseSpec ParseProofs.
Import ListNotations.

(* ---- the potential ----------------------------------------------------------------------- *)

Fixpoint prefix (l : list token) : nat :=
  match l with
  | [] => 0
  | t :: r => if is_kind TEof t then 0 else S (prefix r)
  end.

Definition N (st : stream) : nat :=
  if is_kind TEof (last (s_pushed st) (s_cur st)) then 0 else S (prefix (s_rest st)).

Definition wf (st : stream) : Prop := length (s_pushed st) <= 1.
Definition emp (st : stream) : Prop := s_pushed st = [].
Definition live (st : stream) : Prop := tk (s_cur st) <> TEof.

(* progress relative to a bound M: strictly below, or nothing pushed back and a real token current *)
Definition adv (M : nat) (st : stream) : Prop :=
  wf st /\ N st <= M /\ (N st < M \/ (emp st /\ live st)).

Lemma prefix_le l : prefix l <= length l.
Proof. induction l as [|t r IH]; [apply le_n|]. cbn [prefix length]. destruct (is_kind TEof t); lia. Qed.

Lemma live_kind st : live st -> is_kind TEof (s_cur st) = false.
Proof.
  unfold live, is_kind. intros H. destruct (tkind_eqb (tk (s_cur st)) TEof) eqn:Hk; [|reflexivity].
  apply tkind_eqb_eq in Hk. contradiction.
Qed.

Lemma kind_live st k : tk (s_cur st) = k -> k <> TEof -> live st.
Proof. unfold live. intros -> H. exact H. Qed.

Lemma emp_wf st : emp st -> wf st.
Proof. unfold emp, wf. intros ->. cbn. lia. Qed.

Lemma N_live_pos st : emp st -> live st -> 1 <= N st.
Proof. unfold emp, N. intros -> Hl. cbn [last]. rewrite (live_kind st Hl). lia. Qed.

(* ---- results that are not "out of fuel" ------------------------------------------------------ *)

Definition post {A} (r : result A) (Q : A -> Prop) : Prop :=
  match r with Ok a => Q a | Err e => e <> EOutOfFuel end.

Lemma post_bind {A B} (r : result A) (f : A -> result B) (Q : A -> Prop) (Q' : B -> Prop) :
  post r Q -> (forall a, Q a -> post (f a) Q') -> post (bind r f) Q'.
Proof. intros Hr Hf. destruct r as [a|e]; [apply Hf; exact Hr|exact Hr]. Qed.

Lemma post_weaken {A} (r : result A) (Q Q' : A -> Prop) :
  post r Q -> (forall a, Q a -> Q' a) -> post r Q'.
Proof. intros H HQ. destruct r as [a|e]; [apply HQ; exact H|exact H]. Qed.

Lemma post_syntax {A} (Q : A -> Prop) : post syntax_error Q.
Proof. discriminate. Qed.

Ltac bstep H := eapply post_bind; [exact H|]; cbv beta.
Ltac noof := first [exact I | discriminate | apply post_syntax].

Lemma int_of_text_nof s : post (int_of_text s) (fun _ => True).
Proof. unfold int_of_text. destruct (py_int s) as [[z|]|]; noof. Qed.

Lemma decode_string_nof E t : post (decode_string E t) (fun _ => True).
Proof.
  unfold decode_string. destruct (e_unicode_escape E); [|exact I].
  match goal with |- context [json_loads_str ?v] => destruct (json_loads_str v) end; noof.
Qed.

Lemma parse_int_literal_nof s : post (parse_int_literal s) (fun _ => True).
Proof.
  destruct (parse_int_literal_cases s) as [->|[->|[->|[z ->]]]]; try noof.
  bstep (int_of_text_nof s). intros z _. exact I.
Qed.

Lemma parse_float_literal_nof s : post (parse_float_literal s) (fun _ => True).
Proof. destruct (parse_float_literal_cases s) as [->|[->|[n ->]]]; noof. Qed.

Lemma check_uncompared_nof e : post (check_uncompared e) (fun _ => True).
Proof.
  unfold check_uncompared. destruct (fn_return e) as [[]|]; try noof; destruct (is_literal_or_nil e); noof.
Qed.

Lemma check_comparable_nof e : post (check_comparable e) (fun _ => True).
Proof.
  unfold check_comparable. destruct (_ && _); [noof|]. destruct e; try noof.
  destruct (fn_return _) as [[]|]; noof.
Qed.

Lemma validate_function_nof name args : post (validate_function name args) (fun _ => True).
Proof.
  unfold validate_function. destruct (fn_sig name) as [[ts t]|]; [|noof].
  destruct (negb _); [noof|]. destruct (check_args ts args); noof.
Qed.

(* ---- the stream ------------------------------------------------------------------------------ *)

Lemma advance_post st :
  wf st ->
  post (advance st) (fun st' => emp st' /\ N st' <= N st /\ (emp st -> live st -> N st' + 1 = N st)).
Proof.
  intros Hwf. unfold advance, wf in *. destruct (s_pushed st) as [|p ps] eqn:Hp.
  - destruct (is_kind TEof (s_cur st)) eqn:Hc.
    + cbn [post]. split; [exact Hp|]. split; [apply le_n|]. intros _ Hl. rewrite (live_kind st Hl) in Hc. discriminate Hc.
    + destruct (s_rest st) as [|t r] eqn:Hr.
      * cbn [post]. split; [reflexivity|]. unfold N. rewrite Hp, Hr. cbn [s_pushed s_cur s_rest last prefix].
        rewrite Hc. change (is_kind TEof eof_tok) with true. split; [lia|]. intros _ _. reflexivity.
      * destruct (is_kind TIllegal t); [noof|]. cbn [post]. split; [reflexivity|].
        unfold N. rewrite Hp, Hr. cbn [s_pushed s_cur s_rest last prefix]. rewrite Hc.
        destruct (is_kind TEof t); split; try lia; intros _ _; reflexivity.
  - cbn [length] in Hwf. destruct ps; [|cbn [length] in Hwf; lia].
    cbn [post]. split; [reflexivity|]. unfold N. rewrite Hp. cbn [s_pushed s_cur s_rest last].
    split; [apply le_n|]. intros He. unfold emp in He. rewrite Hp in He. discriminate He.
Qed.

Lemma next_token_post st :
  wf st ->
  post (next_token st)
       (fun r => fst r = s_cur st /\ emp (snd r) /\ N (snd r) <= N st /\
                 (emp st -> live st -> N (snd r) + 1 = N st)).
Proof.
  intros Hwf. unfold next_token. bstep (advance_post st Hwf). intros st' (H1 & H2 & H3).
  cbn [post fst snd]. auto.
Qed.

Lemma peek_post st :
  wf st ->
  post (peek st)
       (fun r => wf (snd r) /\ s_cur (snd r) = s_cur st /\ N (snd r) <= N st /\
                 (emp st -> live st -> N (snd r) + 1 = N st)).
Proof.
  intros Hwf. unfold peek. bstep (advance_post st Hwf). intros st' (H1 & H2 & H3).
  cbn [post fst snd]. unfold emp in H1.
  assert (HN : N (push st' (s_cur st)) = N st').
  { unfold N, push. cbn [s_pushed s_cur s_rest]. rewrite H1. reflexivity. }
  split; [unfold wf, push; cbn [s_pushed]; rewrite H1; cbn; lia|].
  split; [reflexivity|]. rewrite HN. auto.
Qed.

Lemma push_cur st : emp st -> wf (push st (s_cur st)) /\ N (push st (s_cur st)) = N st.
Proof.
  unfold emp, wf, N, push. intros He. cbn [s_pushed s_cur s_rest]. rewrite He. cbn. split; [lia|reflexivity].
Qed.

(* after peeking a stream that has made progress (or sits on a real token) we are strictly below *)
Lemma peek_adv M st :
  adv M st -> post (peek st) (fun r => wf (snd r) /\ N (snd r) < M /\ s_cur (snd r) = s_cur st).
Proof.
  intros (Hwf & Hle & Hpr). eapply post_weaken; [exact (peek_post st Hwf)|].
  intros r (H1 & H2 & H3 & H4). split; [exact H1|]. split; [|exact H2].
  destruct Hpr as [Hlt|[He Hl]]; [lia|]. specialize (H4 He Hl). lia.
Qed.

Lemma next_adv M st :
  adv M st -> post (next_token st) (fun r => fst r = s_cur st /\ emp (snd r) /\ N (snd r) < M).
Proof.
  intros (Hwf & Hle & Hpr). eapply post_weaken; [exact (next_token_post st Hwf)|].
  intros r (H1 & H2 & H3 & H4). split; [exact H1|]. split; [exact H2|].
  destruct Hpr as [Hlt|[He Hl]]; [lia|]. specialize (H4 He Hl). lia.
Qed.

Section Fuel.
  Variable E : env.
  Variable re_ok : ustr -> option bool.

  Notation C := 4 (only parsing).

  Definition Qle (M : nat) (st : stream) : Prop := wf st /\ N st <= M.
  Definition Qlt (M : nat) (st : stream) : Prop := wf st /\ N st < M.

  (* ---- slices and list literals ---- *)

  Lemma parse_slice_post st :
    emp st -> live st ->
    post (parse_slice E st) (fun r => emp (snd r) /\ N (snd r) < N st).
  Proof.
    intros He Hl. unfold parse_slice.
    bstep (next_token_post st (emp_wf st He)). intros [t1 st1] (_ & He1 & _ & Hd). cbn [fst snd] in *.
    specialize (Hd He Hl).
    eapply post_bind with (Q := fun _ => True); [unfold expect; destruct (is_kind _ _); noof|]. intros _ _.
    bstep (next_token_post st1 (emp_wf st1 He1)). intros [t2 st2] (_ & He2 & Hle2 & _). cbn [fst snd] in *.
    eapply post_bind with (Q := fun _ => True); [unfold expect; destruct (is_kind _ _); noof|]. intros _ _.
    cbv zeta.
    assert (Hb : forall t : token,
               post (match tv t with [] => Ok None | txt => z <- int_of_text txt ;; Ok (Some z) end)
                    (fun _ : option Z => True)).
    { intros t. destruct (tv t) as [|c0 s0]; [exact I|]. bstep (int_of_text_nof (c0 :: s0)). intros z _. exact I. }
    eapply post_bind; [apply Hb|]. intros a _. eapply post_bind; [apply Hb|]. intros b _.
    eapply post_bind; [apply Hb|]. intros c _.
    match goal with |- context [if ?x then _ else _] => destruct x end; [|noof].
    cbn [post fst snd]. split; [exact He2|lia].
  Qed.

  Lemma parse_list_items_post f : forall st acc,
    emp st -> N st + 1 <= f ->
    post (parse_list_items E f st acc) (fun r => Qle (N st) (snd r)).
  Proof.
    induction f as [|f IH]; intros st acc He Hf; [lia|].
    rewrite parse_list_items_S.
    destruct (is_kind TRBracket (s_cur st)); [split; [apply emp_wf; exact He|apply le_n]|].
    eapply post_bind with (Q := fun _ => live st).
    { destruct (tk (s_cur st)) eqn:Hk; try noof; try (eapply kind_live; [exact Hk|discriminate]).
      - bstep (decode_string_nof E (s_cur st)). intros s _. eapply kind_live; [exact Hk|discriminate].
      - bstep (decode_string_nof E (s_cur st)). intros s _. eapply kind_live; [exact Hk|discriminate].
      - eapply post_weaken; [apply parse_float_literal_nof|]. intros e _. eapply kind_live; [exact Hk|discriminate].
      - eapply post_weaken; [apply parse_int_literal_nof|]. intros e _. eapply kind_live; [exact Hk|discriminate]. }
    intros item Hl.
    bstep (peek_post st (emp_wf st He)). intros [nxt st1] (Hw1 & _ & _ & Hd). cbn [fst snd] in *.
    specialize (Hd He Hl).
    eapply post_bind with (Q := fun st2 => wf st2 /\ N st2 <= N st1).
    { destruct (is_kind TRBracket nxt); [split; [exact Hw1|apply le_n]|].
      destruct (is_kind TComma nxt); [|noof].
      bstep (next_token_post st1 Hw1). intros r (_ & He2 & Hle2 & _). split; [apply emp_wf; exact He2|exact Hle2]. }
    intros st2 [Hw2 Hle2].
    bstep (next_token_post st2 Hw2). intros r3 (_ & He3 & Hle3 & _).
    eapply post_weaken; [apply (IH (snd r3) (item :: acc) He3); lia|].
    intros r [Hw Hle]. split; [exact Hw|lia].
  Qed.

  (* ---- the mutual block ---- *)

  Definition SP_path (f : nat) : Prop :=
    forall in_filter st acc, emp st -> 2 * N st + C <= f ->
      post (parse_path E re_ok f in_filter st acc) (fun r => Qle (N st) (snd r)).
  Definition SP_sellist (f : nat) : Prop :=
    forall st, emp st -> live st -> 2 * N st + C <= f + 1 ->
      post (parse_selector_list E re_ok f st) (fun r => emp (snd r) /\ N (snd r) < N st).
  Definition SP_filter (f : nat) : Prop :=
    forall st, emp st -> live st -> 2 * N st + C <= f ->
      post (parse_filter E re_ok f st) (fun r => Qlt (N st) (snd r)).
  Definition SP_fs (f : nat) : Prop :=
    forall st prec, emp st -> 2 * N st + C + 1 <= f ->
      post (parse_filter_selector E re_ok f st prec) (fun r => Qlt (N st) (snd r)).
  Definition SP_infix (f : nat) : Prop :=
    forall st lhs, wf st -> 2 * N st + C + 2 <= f ->
      post (parse_infix E re_ok f st lhs) (fun r => Qlt (N st) (snd r)).
  Definition SP_primary (f : nat) : Prop :=
    forall st, emp st -> 2 * N st + C <= f ->
      post (parse_primary E re_ok f st) (fun r => adv (N st) (snd r)).

  (* ---- parse_path ---- *)

  Lemma continue_post f in_filter acc g st M :
    SP_path f -> wf st -> N st < M -> 2 * M + C <= S f ->
    post (continue_with E re_ok f in_filter acc g st) (fun r => Qle M (snd r)).
  Proof.
    intros IH Hw Hlt Hf. unfold continue_with.
    bstep (next_token_post st Hw). intros r (_ & He1 & Hle1 & _).
    eapply post_weaken; [apply (IH in_filter (snd r) (g :: acc) He1); lia|].
    intros r' [Hw' Hle']. split; [exact Hw'|lia].
  Qed.

  Lemma continue_here f in_filter acc g st :
    SP_path f -> emp st -> live st -> 2 * N st + C <= S f ->
    post (continue_with E re_ok f in_filter acc g st) (fun r => Qle (N st) (snd r)).
  Proof.
    intros IH He Hl Hf. unfold continue_with.
    bstep (next_token_post st (emp_wf st He)). intros r (_ & He1 & _ & Hd). specialize (Hd He Hl).
    eapply post_weaken; [apply (IH in_filter (snd r) (g :: acc) He1); lia|].
    intros r' [Hw' Hle']. split; [exact Hw'|lia].
  Qed.

  Lemma path_step f : SP_path f -> SP_sellist f -> SP_path (S f).
  Proof.
    intros IHp IHs in_filter st acc He Hf. rewrite parse_path_S.
    assert (Hexit : post (Ok (rev acc, if in_filter then push st (s_cur st) else st))
                         (fun r => Qle (N st) (snd r))).
    { cbn [post snd]. destruct in_filter.
      - destruct (push_cur st He) as [Hw HN]. split; [exact Hw|rewrite HN; apply le_n].
      - split; [apply emp_wf; exact He|apply le_n]. }
    destruct (tk (s_cur st)) eqn:Hk; try exact Hexit;
      try (apply continue_here; [exact IHp|exact He|eapply kind_live; [exact Hk|discriminate]|exact Hf]).
    - (* slice *)
      assert (Hl : live st) by (eapply kind_live; [exact Hk|discriminate]).
      bstep (parse_slice_post st He Hl). intros r [He1 Hlt].
      apply (continue_post f in_filter acc _ (snd r) (N st) IHp (emp_wf _ He1) Hlt Hf).
    - (* bracketed selection *)
      assert (Hl : live st) by (eapply kind_live; [exact Hk|discriminate]).
      bstep (IHs st He Hl ltac:(lia)). intros r [He1 Hlt].
      apply (continue_post f in_filter acc _ (snd r) (N st) IHp (emp_wf _ He1) Hlt Hf).
  Qed.

  (* ---- parse_selector_list ---- *)

  Lemma sel_item_post f st :
    SP_filter f -> emp st -> 2 * N st + C <= f ->
    post (sel_item E re_ok f st) (fun r => adv (N st) (snd r)).
  Proof.
    intros IHf He Hf. unfold sel_item.
    assert (Hsame : live st -> adv (N st) st).
    { intros Hl. split; [apply emp_wf; exact He|]. split; [apply le_n|right; split; assumption]. }
    destruct (tk (s_cur st)) eqn:Hk; try noof;
      try (cbn [post snd]; apply Hsame; eapply kind_live; [exact Hk|discriminate]).
    - destruct (existsb _ _); [noof|]. bstep (decode_string_nof E (s_cur st)). intros s _.
      cbn [post snd]. apply Hsame. eapply kind_live; [exact Hk|discriminate].
    - destruct (existsb _ _); [noof|]. bstep (decode_string_nof E (s_cur st)). intros s _.
      cbn [post snd]. apply Hsame. eapply kind_live; [exact Hk|discriminate].
    - eapply post_weaken; [apply (parse_slice_post st He); eapply kind_live; [exact Hk|discriminate]|].
      intros r [He1 Hlt]. split; [apply emp_wf; exact He1|]. split; [lia|left; exact Hlt].
    - cbv zeta. destruct (_ || _); [noof|]. destruct (has_exponent _); [noof|].
      bstep (int_of_text_nof (tv (s_cur st))). intros z _. destruct (index_in_range E z); [|noof].
      cbn [post snd]. apply Hsame. eapply kind_live; [exact Hk|discriminate].
    - destruct f as [|f']; [lia|].
      bstep (IHf st He ltac:(eapply kind_live; [exact Hk|discriminate]) Hf). intros r [Hw Hlt].
      cbn [post snd]. split; [exact Hw|]. split; [lia|left; exact Hlt].
  Qed.

  Lemma items_post f : SP_filter f -> forall g st acc,
    emp st -> 2 * N st + C <= f -> N st + 1 <= g ->
    post (items_loop E re_ok f g st acc) (fun r => emp (snd r) /\ N (snd r) <= N st).
  Proof.
    intros IHf. induction g as [|g IH]; intros st acc He Hf Hg; [lia|].
    rewrite items_loop_S. destruct (is_kind TRBracket (s_cur st)).
    { destruct acc; [noof|]. cbn [post snd]. split; [exact He|apply le_n]. }
    bstep (sel_item_post f st IHf He Hf). intros [sel st1] Hadv. cbn [fst snd] in *.
    bstep (peek_adv (N st) st1 Hadv). intros [nxt st2] (Hw2 & Hlt2 & _). cbn [fst snd] in *.
    destruct (is_kind TEof nxt); [noof|].
    eapply post_bind with (Q := fun st3 => wf st3 /\ N st3 <= N st2).
    { destruct (is_kind TRBracket nxt); [split; [exact Hw2|apply le_n]|].
      destruct (is_kind TComma nxt); [|noof].
      bstep (next_token_post st2 Hw2). intros r (_ & He3 & Hle3 & _).
      bstep (peek_post (snd r) (emp_wf _ He3)). intros pk2 (Hw4 & _ & Hle4 & _).
      destruct (is_kind TRBracket (fst pk2)); [noof|]. cbn [post]. split; [exact Hw4|lia]. }
    intros st3 [Hw3 Hle3].
    bstep (next_token_post st3 Hw3). intros r4 (_ & He4 & Hle4 & _).
    eapply post_weaken; [apply (IH (snd r4) (sel :: acc) He4); lia|].
    intros r [He' Hle']. split; [exact He'|lia].
  Qed.

  Lemma sellist_step f : SP_filter f -> SP_sellist (S f).
  Proof.
    intros IHf st He Hl Hf. rewrite parse_selector_list_S.
    bstep (next_token_post st (emp_wf st He)). intros r0 (_ & He1 & _ & Hd). specialize (Hd He Hl).
    eapply post_weaken; [apply (items_post f IHf f (snd r0) [] He1); lia|].
    intros r [He' Hle']. split; [exact He'|lia].
  Qed.

  (* ---- parse_filter, parse_filter_selector, parse_infix ---- *)

  Lemma filter_step f : SP_fs f -> SP_filter (S f).
  Proof.
    intros IH st He Hl Hf. rewrite parse_filter_S.
    bstep (next_token_post st (emp_wf st He)). intros r0 (_ & He1 & _ & Hd). specialize (Hd He Hl).
    bstep (IH (snd r0) 1 He1 ltac:(lia)). intros r [Hw Hlt].
    bstep (check_uncompared_nof (fst r)). intros _ _. cbn [post]. split; [exact Hw|lia].
  Qed.

  Lemma fs_loop_post f prec : SP_infix f -> forall g lhs st M,
    adv M st -> 2 * M + C <= f -> M + 1 <= g ->
    post (fs_loop E re_ok f prec g lhs st) (fun r => Qlt M (snd r)).
  Proof.
    intros IHi. induction g as [|g IH]; intros lhs st M Hadv Hf Hg; [lia|].
    rewrite fs_loop_S. bstep (peek_adv M st Hadv). intros [nxt st1] (Hw1 & Hlt1 & _). cbn [fst snd] in *.
    destruct (_ || _); [split; assumption|].
    destruct (binop_of_kind (tk nxt)); [|split; assumption].
    bstep (next_token_post st1 Hw1). intros r (_ & He2 & Hle2 & _).
    bstep (IHi (snd r) lhs (emp_wf _ He2) ltac:(lia)). intros r2 [Hw3 Hlt3].
    eapply post_weaken; [apply (IH (fst r2) (snd r2) (N (snd r)));
                          [split; [exact Hw3|split; [lia|left; exact Hlt3]]|lia|lia]|].
    intros r' [Hw' Hlt']. split; [exact Hw'|lia].
  Qed.

  Lemma fs_step f : SP_primary f -> SP_infix f -> SP_fs (S f).
  Proof.
    intros IHp IHi st prec He Hf. rewrite parse_filter_selector_S.
    bstep (IHp st He ltac:(lia)). intros l Hadv.
    apply (fs_loop_post f prec IHi f (fst l) (snd l) (N st) Hadv); lia.
  Qed.

  Lemma infix_step f : SP_fs f -> SP_infix (S f).
  Proof.
    intros IH st lhs Hw Hf. rewrite parse_infix_S.
    bstep (next_token_post st Hw). intros [optok st1] (_ & He1 & Hle1 & _). cbn [fst snd] in *.
    destruct (binop_of_kind (tk optok)) as [o|]; [|discriminate].
    bstep (IH st1 (precedence_of (tk optok)) He1 ltac:(lia)). intros [rhs st2] [Hw2 Hlt2]. cbn [fst snd] in *.
    eapply post_bind with (Q := fun _ => True).
    { destruct (_ && _); [|exact I]. bstep (check_comparable_nof lhs). intros _ _. apply check_comparable_nof. }
    intros _ _.
    eapply post_bind with (Q := fun _ => True).
    { destruct (is_logical_op o); [|exact I]. bstep (check_uncompared_nof lhs). intros _ _. apply check_uncompared_nof. }
    intros _ _. cbn [post snd]. split; [exact Hw2|lia].
  Qed.

  (* ---- parse_primary ---- *)

  Lemma sub_path_post f st mk :
    SP_path f -> emp st -> live st -> 2 * N st + C <= S f ->
    post (sub_path E re_ok f st mk) (fun r => adv (N st) (snd r)).
  Proof.
    intros IH He Hl Hf. unfold sub_path.
    bstep (next_token_post st (emp_wf st He)). intros r0 (_ & He1 & _ & Hd). specialize (Hd He Hl).
    bstep (IH true (snd r0) [] He1 ltac:(lia)). intros r [Hw Hle].
    cbn [post snd]. split; [exact Hw|]. split; [lia|left; lia].
  Qed.

  Lemma regex_primary_post st :
    emp st -> live st -> post (regex_primary re_ok st) (fun r => adv (N st) (snd r)).
  Proof.
    intros He Hl. unfold regex_primary.
    bstep (peek_post st (emp_wf st He)). intros [nxt st1] (Hw1 & _ & _ & Hd). cbn [fst snd] in *.
    specialize (Hd He Hl).
    eapply post_bind with (Q := fun r : reflags * stream => wf (snd r) /\ N (snd r) <= N st1).
    { destruct (is_kind TReFlags nxt); [|split; [exact Hw1|apply le_n]].
      bstep (next_token_post st1 Hw1). intros r' (_ & He2 & Hle2 & _). split; [apply emp_wf; exact He2|exact Hle2]. }
    intros r [Hw Hle]. destruct (re_ok (tv (s_cur st))) as [[|]|]; try noof.
    cbn [post snd]. split; [exact Hw|]. split; [lia|left; lia].
  Qed.

  Lemma grp_loop_post f : SP_infix f -> forall g e st,
    wf st -> 2 * N st + C + 2 <= f -> N st + 1 <= g ->
    post (grp_loop E re_ok f g e st) (fun r => Qle (N st) (snd r)).
  Proof.
    intros IHi. induction g as [|g IH]; intros e st Hw Hf Hg; [lia|].
    rewrite grp_loop_S. destruct (is_kind TRParen (s_cur st)); [split; [exact Hw|apply le_n]|].
    destruct (is_kind TEof (s_cur st)); [noof|]. destruct (binop_of_kind _); [|noof].
    bstep (IHi st e Hw Hf). intros r2 [Hw2 Hlt2].
    eapply post_weaken; [apply (IH (fst r2) (snd r2) Hw2); lia|].
    intros r [Hw' Hle']. split; [exact Hw'|lia].
  Qed.

  Lemma finish_call_nof name acc st : post (finish_call E name acc st) (fun r => snd r = st).
  Proof.
    unfold finish_call. destruct (e_well_typed E).
    - bstep (validate_function_nof name (rev acc)). intros _ _. reflexivity.
    - destruct (fn_sig name); discriminate.
  Qed.

  Lemma arg_primary_post f st :
    SP_primary f -> emp st -> 2 * N st + C <= f ->
    post (arg_primary E re_ok f st) (fun r => adv (N st) (snd r)).
  Proof.
    intros IH He Hf. unfold arg_primary. destruct (tk (s_cur st)); try noof; apply IH; assumption.
  Qed.

  Lemma after_arg_post pk : wf (snd pk) -> post (after_arg pk) (fun st2 => wf st2 /\ N st2 <= N (snd pk)).
  Proof.
    intros Hw. unfold after_arg. destruct (is_kind TRParen (fst pk)); [split; [exact Hw|apply le_n]|].
    destruct (is_kind TComma (fst pk)); [|noof].
    bstep (next_token_post (snd pk) Hw). intros r (_ & He & Hle & _). split; [apply emp_wf; exact He|exact Hle].
  Qed.

  Lemma args_loop_post f name : SP_primary f -> SP_infix f -> forall g st acc,
    emp st -> 2 * N st + C + 1 <= f -> N st + 1 <= g ->
    post (args_loop E re_ok f name g st acc) (fun r => Qle (N st) (snd r)).
  Proof.
    intros IHp IHi. induction g as [|g IH]; intros st acc He Hf Hg; [lia|].
    rewrite args_loop_S. destruct (is_kind TRParen (s_cur st)).
    { eapply post_weaken; [apply finish_call_nof|]. intros r ->. split; [apply emp_wf; exact He|apply le_n]. }
    bstep (arg_primary_post f st IHp He ltac:(lia)). intros a Hadv.
    (* the operator loop after the argument *)
    assert (Hops : forall h e st' M, adv M st' -> M <= N st -> M + 1 <= h ->
              post (ops_loop E re_ok f name g acc h e st') (fun r => Qle (N st) (snd r))).
    { induction h as [|h IHh]; intros e st' M Hadv' HM Hh; [lia|].
      rewrite ops_loop_S. bstep (peek_adv M st' Hadv'). intros pk (Hw1 & Hlt1 & _).
      destruct (binop_of_kind (tk (fst pk))).
      - bstep (next_token_post (snd pk) Hw1). intros r (_ & He2 & Hle2 & _).
        bstep (IHi (snd r) e (emp_wf _ He2) ltac:(lia)). intros r2 [Hw3 Hlt3].
        apply (IHh (fst r2) (snd r2) (N (snd r))); [split; [exact Hw3|split; [lia|left; exact Hlt3]]|lia|lia].
      - bstep (after_arg_post pk Hw1). intros st2 [Hw2 Hle2].
        bstep (next_token_post st2 Hw2). intros r3 (_ & He3 & Hle3 & _).
        eapply post_weaken; [apply (IH (snd r3) (e :: acc) He3); lia|].
        intros r [Hw' Hle']. split; [exact Hw'|lia]. }
    apply (Hops f (fst a) (snd a) (N st) Hadv (le_n _)). lia.
  Qed.

  Lemma primary_step f : SP_path f -> SP_fs f -> SP_infix f -> SP_primary f -> SP_primary (S f).
  Proof.
    intros IHpath IHfs IHi IHp st He Hf. rewrite parse_primary_S.
    assert (Hsame : live st -> adv (N st) st).
    { intros Hl. split; [apply emp_wf; exact He|]. split; [apply le_n|right; split; assumption]. }
    destruct (tk (s_cur st)) eqn:Hk; try noof;
      assert (Hl : live st) by (eapply kind_live; [exact Hk|discriminate]);
      try (cbn [post snd]; exact (Hsame Hl));
      try (apply sub_path_post; assumption).
    - bstep (decode_string_nof E (s_cur st)). intros s _. exact (Hsame Hl).
    - bstep (decode_string_nof E (s_cur st)). intros s _. exact (Hsame Hl).
    - apply regex_primary_post; assumption.
    - (* function call *)
      bstep (next_token_post st (emp_wf st He)). intros r0 (_ & He1 & _ & Hd). specialize (Hd He Hl).
      eapply post_weaken; [apply (args_loop_post f _ IHp IHi f (snd r0) [] He1); lia|].
      intros r [Hw Hle]. split; [exact Hw|]. split; [lia|left; lia].
    - bstep (parse_float_literal_nof (tv (s_cur st))). intros e _. exact (Hsame Hl).
    - bstep (parse_int_literal_nof (tv (s_cur st))). intros e _. exact (Hsame Hl).
    - (* list literal *)
      bstep (next_token_post st (emp_wf st He)). intros r0 (_ & He1 & _ & Hd). specialize (Hd He Hl).
      bstep (parse_list_items_post f (snd r0) [] He1 ltac:(lia)). intros r [Hw Hle].
      cbn [post snd]. split; [exact Hw|]. split; [lia|left; lia].
    - (* ! *)
      bstep (next_token_post st (emp_wf st He)). intros r0 (_ & He1 & _ & Hd). specialize (Hd He Hl).
      bstep (IHfs (snd r0) 7 He1 ltac:(lia)). intros r [Hw Hlt].
      bstep (check_uncompared_nof (fst r)). intros _ _.
      cbn [post snd]. split; [exact Hw|]. split; [lia|left; lia].
    - (* ( *)
      bstep (next_token_post st (emp_wf st He)). intros r0 (_ & He1 & _ & Hd). specialize (Hd He Hl).
      bstep (IHfs (snd r0) 1 He1 ltac:(lia)). intros r [Hw Hlt].
      bstep (next_token_post (snd r) Hw). intros r1 (_ & He3 & Hle3 & _).
      eapply post_weaken; [apply (grp_loop_post f IHi f (fst r) (snd r1) (emp_wf _ He3)); lia|].
      intros r2 [Hw' Hle']. split; [exact Hw'|]. split; [lia|left; lia].
  Qed.

  Definition SPS (f : nat) : Prop :=
    SP_path f /\ SP_sellist f /\ SP_filter f /\ SP_fs f /\ SP_infix f /\ SP_primary f.

  Theorem parser_fuel f : SPS f.
  Proof.
    induction f as [|f (IHpath & IHsl & IHfilter & IHfs & IHi & IHp)].
    - repeat split; intro; intros; lia.
    - repeat split.
      + apply path_step; assumption.
      + apply sellist_step; assumption.
      + apply filter_step; assumption.
      + apply fs_step; assumption.
      + apply infix_step; assumption.
      + apply primary_step; assumption.
  Qed.

  (* ---- parse_one, compile_rest, compile_tokens ---- *)

  Lemma parse_one_post fuel st :
    emp st -> 2 * N st + C <= fuel ->
    post (parse_one E re_ok fuel st) (fun r => emp (snd r) /\ N (snd r) <= N st).
  Proof.
    intros He Hf. unfold parse_one.
    eapply post_bind with (Q := fun st1 => emp st1 /\ N st1 <= N st).
    { destruct (_ || _); [|split; [exact He|apply le_n]].
      bstep (next_token_post st (emp_wf st He)). intros r (_ & He1 & Hle1 & _). split; assumption. }
    intros st1 [He1 Hle1]. destruct (parser_fuel fuel) as (Hpath & _).
    (* not in a filter: the path returns its own final stream, which came from next_token *)
    assert (Hp : post (parse_path E re_ok fuel false st1 [])
                      (fun r => emp (snd r) /\ N (snd r) <= N st1)).
    { clear -He1 Hle1 Hf. revert st1 He1 Hle1. generalize (@nil segment).
      assert (Hgen : forall f acc st1, emp st1 -> 2 * N st1 + C <= f ->
                post (parse_path E re_ok f false st1 acc) (fun r => emp (snd r) /\ N (snd r) <= N st1)).
      { induction f as [|f IH]; intros acc st1 He1 Hf1; [lia|].
        rewrite parse_path_S.
        assert (Hexit : post (Ok (rev acc, st1)) (fun r => emp (snd r) /\ N (snd r) <= N st1))
          by (split; [exact He1|apply le_n]).
        assert (Hcont : forall g st2 M, wf st2 -> N st2 < M -> 2 * M + C <= S f ->
                  post (continue_with E re_ok f false acc g st2) (fun r => emp (snd r) /\ N (snd r) <= M)).
        { intros g st2 M Hw Hlt HM. unfold continue_with.
          bstep (next_token_post st2 Hw). intros r (_ & He2 & Hle2 & _).
          eapply post_weaken; [apply (IH (g :: acc) (snd r) He2); lia|]. intros r' [H1 H2]. split; [exact H1|lia]. }
        assert (Hhere : forall g, live st1 ->
                  post (continue_with E re_ok f false acc g st1) (fun r => emp (snd r) /\ N (snd r) <= N st1)).
        { intros g Hl. unfold continue_with.
          bstep (next_token_post st1 (emp_wf _ He1)). intros r (_ & He2 & _ & Hd). specialize (Hd He1 Hl).
          eapply post_weaken; [apply (IH (g :: acc) (snd r) He2); lia|]. intros r' [H1 H2]. split; [exact H1|lia]. }
        destruct (tk (s_cur st1)) eqn:Hk; try exact Hexit;
          try (apply Hhere; eapply kind_live; [exact Hk|discriminate]).
        - assert (Hl : live st1) by (eapply kind_live; [exact Hk|discriminate]).
          bstep (parse_slice_post st1 He1 Hl). intros r [He2 Hlt]. apply Hcont; [apply emp_wf; exact He2|exact Hlt|exact Hf1].
        - assert (Hl : live st1) by (eapply kind_live; [exact Hk|discriminate]).
          destruct (parser_fuel f) as (_ & Hsl & _).
          bstep (Hsl st1 He1 Hl ltac:(lia)). intros r [He2 Hlt]. apply Hcont; [apply emp_wf; exact He2|exact Hlt|exact Hf1]. }
      intros acc st1 He1 Hle1. apply Hgen; [exact He1|lia]. }
    bstep Hp. intros r [He2 Hle2]. cbv zeta. destruct (_ || _); [|noof].
    cbn [post snd]. split; [exact He2|lia].
  Qed.

  Lemma compile_rest_post pfuel : forall fuel st acc,
    emp st -> 2 * N st + C <= pfuel -> N st + 1 <= fuel ->
    post (compile_rest E re_ok fuel pfuel st acc) (fun _ => True).
  Proof.
    induction fuel as [|fuel IH]; intros st acc He Hpf Hf; [lia|].
    cbn [compile_rest]. destruct (is_kind TEof (s_cur st)) eqn:Hc; [exact I|].
    assert (Hl : live st).
    { unfold live. intros Hk. unfold is_kind in Hc. rewrite Hk in Hc. discriminate Hc. }
    bstep (peek_post st (emp_wf st He)). intros pk (Hw1 & _ & _ & Hd). specialize (Hd He Hl).
    destruct (is_kind TEof (fst pk)); [noof|]. cbv zeta.
    destruct (is_kind TUnion (s_cur (snd pk))).
    { bstep (next_token_post (snd pk) Hw1). intros r (_ & He2 & Hle2 & _).
      bstep (parse_one_post pfuel (snd r) He2 ltac:(lia)). intros p [He3 Hle3]. apply IH; [exact He3|lia|lia]. }
    destruct (is_kind TIntersect (s_cur (snd pk))); [|noof].
    bstep (next_token_post (snd pk) Hw1). intros r (_ & He2 & Hle2 & _).
    bstep (parse_one_post pfuel (snd r) He2 ltac:(lia)). intros p [He3 Hle3]. apply IH; [exact He3|lia|lia].
  Qed.
End Fuel.

Theorem compile_tokens_fuel :
  forall (E : env) re_ok (toks : list token), compile_tokens E re_ok toks <> Err EOutOfFuel.
Proof.
  intros E re_ok toks.
  assert (H : post (compile_tokens E re_ok toks) (fun _ => True)).
  { unfold compile_tokens. cbv zeta. unfold init_stream.
    set (st0 := mkStream (mkTok TIllegal []) [] toks).
    assert (He0 : emp st0) by reflexivity.
    assert (Hl0 : live st0) by (unfold live; cbn; discriminate).
    assert (HN0 : N st0 <= S (length toks)).
    { unfold N, st0. cbn [s_pushed s_cur s_rest last]. change (is_kind TEof (mkTok TIllegal [])) with false.
      cbv iota. pose proof (prefix_le toks). lia. }
    bstep (advance_post st0 (emp_wf st0 He0)). intros st (He & _ & Hd). specialize (Hd He0 Hl0).
    bstep (parse_one_post E re_ok (4 * length toks + 16) st He ltac:(lia)). intros p [He1 Hle1].
    bstep (compile_rest_post E re_ok (4 * length toks + 16) (S (length toks)) (snd p) [] He1
             ltac:(lia) ltac:(lia)).
    intros rest _. exact I. }
  intros Heq. rewrite Heq in H. apply H. reflexivity.
Qed.

Corollary compile_fuel :
  forall (E : env) re_ok (text : ustr), compile E re_ok text <> Err EOutOfFuel.
Proof. intros E re_ok text. unfold compile. apply compile_tokens_fuel. Qed.

Corollary compile_family_total :
  forall (E : env) re_ok (text : ustr),
    match compile E re_ok text with
    | Ok _ => True
    | Err e => jsonpath_family e = true \/ outside_model e = true
    end.
Proof.
  intros E re_ok text. pose proof (compile_family E re_ok text) as H. pose proof (compile_fuel E re_ok text) as Hf.
  destruct (compile E re_ok text) as [q|e]; [exact I|].
  destruct H as [H|[H|H]]; [left; exact H|right; exact H|contradiction Hf; rewrite H; reflexivity].
Qed.

(* ---- the lexer's own fuel ---------------------------------------------------------------------
   Lex.tokenize_fuel stops with [] when its fuel is 0; tokenize starts it at S (length s) and every
   step either shortens the text or ends the scan (the model's guard), so that branch is never
   reached with text left: any larger fuel gives the same tokens. *)

Lemma tokenize_fuel_stable E : forall f1 f2 s,
  length s < f1 -> length s < f2 -> tokenize_fuel f1 E s = tokenize_fuel f2 E s.
Proof.
  induction f1 as [|f1 IH]; intros f2 s H1 H2; [lia|]. destruct f2 as [|f2]; [lia|].
  cbn [tokenize_fuel]. destruct s as [|c s']; [reflexivity|].
  destruct (step1 E (c :: s')) as [ts rest|c0]; [|reflexivity].
  destruct (Nat.ltb (length rest) (length (c :: s'))) eqn:Hlt; [|reflexivity].
  apply Nat.ltb_lt in Hlt. f_equal. apply IH; lia.
Qed.

Corollary tokenize_fuel_enough E s k : tokenize_fuel (S (length s) + k) E s = tokenize E s.
Proof. unfold tokenize. apply tokenize_fuel_stable; lia. Qed.
