(* ShParseBase.v — PrintParseBase.v restated for the shorthand printer and its normal form [snorm]:
   parse_primary / parse_filter_selector on printed tokens, generalised over the continuation,
   and the three combination lemmas (operator chain, parenthesised group, prefix '!'). *)
From Coq Require Import ZArith List Bool Lia.
From JP Require Import Base Json PyStr PyJsonStr Syntax Lex Parse Serialize TokPrint Gate.
From JP Require Import Printable Reparsable TokensOk FreeSpell ParseEqns GateLemmas ParseSpec ReparseLemmas TokPrintEqns ShParseDefs.
Import ListNotations.

Definition need (n : nat) : nat := 3 * n + 3.

(* the token kinds the parser's function-argument loop accepts *)
Definition arg_kindb (k : tkind) : bool :=
  match k with
  | TDQ | TSQ | TFakeRoot | TRoot | TSelf | TFilterCtx | TFalse | TTrue | TFloat | TInt
  | TKey | TNil | TFunction => true
  | _ => false
  end.

Definition goodk (t : token) : Prop := tk t <> TIllegal /\ tk t <> TEof.
Definition headok (xs : list token) : Prop := exists x0 xs', xs = x0 :: xs' /\ goodk x0.

(* the tokens that can follow an expression *)
Definition term_tokb (k : token) : bool :=
  match tk k with
  | TRBracket | TComma | TRParen => true
  | x => match binop_of_kind x with Some _ => true | None => false end
  end.

(* the loop of parse_filter_selector at precedence p stops in front of k *)
Definition stop1 (k : token) (p : nat) : Prop :=
  is_kind TEof k || is_kind TRBracket k || Nat.ltb (precedence_of (tk k)) p = true \/
  binop_of_kind (tk k) = None.

Lemma term_good k : term_tokb k = true -> goodk k.
Proof. unfold term_tokb, goodk. destruct (tk k); intros H; try discriminate H; split; discriminate. Qed.

Lemma term_stop7 k : term_tokb k = true -> stop1 k 7.
Proof.
  unfold term_tokb, stop1, is_kind. destruct (tk k); intros H; try discriminate H;
    try (right; reflexivity); left; reflexivity.
Qed.

Lemma close_stop k p : tk k = TRBracket \/ tk k = TComma \/ tk k = TRParen -> stop1 k p.
Proof. intros [H|[H|H]]; right; rewrite H; reflexivity. Qed.

Lemma op_token_binop o : binop_of_kind (tk (op_token o)) = Some o.
Proof. destruct o; reflexivity. Qed.

Lemma op_token_term o : term_tokb (op_token o) = true.
Proof. destruct o; reflexivity. Qed.

Lemma headok_cons x xs : goodk x -> headok (x :: xs).
Proof. intros H. exists x, xs. auto. Qed.

Lemma headok_app xs ys : headok xs -> headok (xs ++ ys).
Proof. intros (x0 & xs' & -> & H). exists x0, (xs' ++ ys). auto. Qed.

Lemma headok_hd xs ys : headok xs -> hd_ok (xs ++ ys).
Proof. intros (x0 & xs' & -> & H & _). exact H. Qed.

Section Base.
  Variable E : env.
  Variable re_ok : ustr -> option bool.
  Hypothesis WT : e_well_typed E = true.

  Notation pfs := (parse_filter_selector E re_ok).
  Notation parse_primary := (Parse.parse_primary E re_ok).
  Notation parse_infix := (Parse.parse_infix E re_ok).
  Notation fs_loop := (ParseEqns.fs_loop E re_ok).
  Notation grp_loop := (ParseEqns.grp_loop E re_ok).

  Definition PRIM (e : fexpr) (xs : list token) : Prop :=
    forall f k rest, need (length xs) <= f -> term_tokb k = true ->
      exists st', parse_primary f (enter (xs ++ k :: rest)) = Ok (snorm_expr e, st') /\ at_ st' (k :: rest).

  Definition U (e : fexpr) (xs : list token) (L : nat) : Prop :=
    forall f prec k rest, prec <= L -> need (length xs) <= f -> term_tokb k = true ->
      (L < 8 -> stop1 k L) ->
      exists g st', pfs (S f) (enter (xs ++ k :: rest)) prec = fs_loop f prec g (snorm_expr e) st' /\
                    at_ st' (k :: rest) /\ f <= g + length xs.

  Lemma prim_U e xs L : PRIM e xs -> U e xs L.
  Proof.
    intros HP f prec k rest _ Hf Hk _. rewrite parse_filter_selector_S.
    destruct (HP f k rest Hf Hk) as (st' & -> & Hat). cbn [bind fst snd].
    exists f, st'. split; [reflexivity|]. split; [exact Hat|lia].
  Qed.

  Lemma stop1_mono k p q : p <= q -> stop1 k p -> stop1 k q.
  Proof.
    intros Hpq [H|H]; [left|right; exact H].
    apply orb_true_iff in H as [H|H]; [rewrite H; reflexivity|].
    apply Nat.ltb_lt in H. replace (Nat.ltb (precedence_of (tk k)) q) with true by (symmetry; apply Nat.ltb_lt; lia).
    apply orb_true_r.
  Qed.

  (* the loop stops in front of k and returns what it has *)
  Lemma loop_stop f prec g lhs st k rest :
    at_ st (k :: rest) -> term_tokb k = true -> stop1 k prec ->
    exists st', fs_loop f prec (S g) lhs st = Ok (lhs, st') /\ at_ st' (k :: rest).
  Proof.
    intros Hat Hk Hstop. rewrite fs_loop_S.
    rewrite (peek_at st k rest Hat (proj1 (term_good k Hk))). cbn [bind].
    exists (mkStream (s_cur st) [k] rest). split.
    - destruct Hstop as [H|H]; [rewrite H; reflexivity|rewrite H].
      destruct (_ || _); reflexivity.
    - apply at_peeked. exact (proj2 (proj2 Hat)).
  Qed.

  Lemma U_fin e xs L f prec k rest :
    U e xs L -> prec <= L -> need (length xs) <= f -> term_tokb k = true ->
    (L < 8 -> stop1 k L) -> stop1 k prec ->
    exists st', pfs (S f) (enter (xs ++ k :: rest)) prec = Ok (snorm_expr e, st') /\ at_ st' (k :: rest).
  Proof.
    intros HU Hp Hf Hk HL Hstop.
    destruct (HU f prec k rest Hp Hf Hk HL) as (g & st' & -> & Hat & Hg).
    destruct g as [|g]; [unfold need in Hf; lia|].
    exact (loop_stop f prec g (snorm_expr e) st' k rest Hat Hk Hstop).
  Qed.

  (* ---- an operator between two operands ---- *)

  Lemma chain_step l o r xl xr Ll Lr :
    U l xl Ll -> U r xr Lr -> headok xr ->
    precedence_of (tk (op_token o)) < Ll -> precedence_of (tk (op_token o)) < Lr ->
    precedence_of (tk (op_token o)) < 8 ->
    (is_comparison_op o = true -> g_comparable l = true /\ g_comparable r = true) ->
    (is_logical_op o = true -> g_testable l = true /\ g_testable r = true) ->
    U (FInfix l o r) (xl ++ op_token o :: xr) (precedence_of (tk (op_token o))).
  Proof.
    set (lev := precedence_of (tk (op_token o))).
    intros Ul Ur Hhead HLl HLr Hlev8 Hcmp Hlog f prec k rest Hprec Hf Hk Hstop.
    specialize (Hstop Hlev8).
    rewrite app_length in Hf. cbn [length] in Hf. unfold need in Hf.
    rewrite <- app_assoc. cbn [app].
    (* the left operand *)
    assert (HstopL : Ll < 8 -> stop1 (op_token o) Ll).
    { intros _. left. fold lev. replace (Nat.ltb lev Ll) with true by (symmetry; apply Nat.ltb_lt; exact HLl).
      apply orb_true_r. }
    destruct (Ul f prec (op_token o) (xr ++ k :: rest) ltac:(lia) ltac:(unfold need; lia)
                 (op_token_term o) HstopL) as (g1 & st1 & -> & Hat1 & Hg1).
    destruct g1 as [|g1]; [lia|].
    (* one turn of the loop: the operator *)
    rewrite fs_loop_S.
    assert (Hopk : goodk (op_token o)) by (apply term_good; apply op_token_term).
    rewrite (peek_at st1 _ _ Hat1 (proj1 Hopk)). cbn [bind].
    replace (is_kind TEof (op_token o)) with false by (destruct o; reflexivity).
    replace (is_kind TRBracket (op_token o)) with false by (destruct o; reflexivity).
    fold lev. replace (Nat.ltb lev prec) with false by (symmetry; apply Nat.ltb_ge; exact Hprec).
    cbn [orb]. rewrite op_token_binop.
    assert (Hc1 : tk (s_cur st1) <> TEof) by exact (proj2 (proj2 Hat1)).
    rewrite (next_at _ _ _ (at_peeked (s_cur st1) (op_token o) (xr ++ k :: rest) Hc1) (proj1 Hopk)).
    cbn [bind fst snd].
    (* parse_infix *)
    destruct f as [|f1]; [lia|]. rewrite parse_infix_S.
    rewrite (next_st0 (op_token o) (xr ++ k :: rest) (proj2 Hopk) (headok_hd xr _ Hhead)). cbn [bind].
    rewrite op_token_binop. fold lev.
    destruct f1 as [|f2]; [lia|].
    destruct (U_fin r xr Lr f2 lev k rest Ur ltac:(lia) ltac:(unfold need; lia) Hk
                (fun _ => stop1_mono k lev Lr ltac:(lia) Hstop) Hstop) as (st3 & -> & Hat3).
    cbn [bind]. rewrite WT. cbn [andb].
    assert (Hchk1 : (if is_comparison_op o
                     then _ <- check_comparable (snorm_expr l) ;; check_comparable (snorm_expr r)
                     else Ok tt) = Ok tt).
    { destruct (is_comparison_op o); [|reflexivity]. destruct (Hcmp eq_refl) as [H1 H2].
      rewrite (comparable_check (snorm_expr l)) by (rewrite comparable_snorm; exact H1). cbn [bind].
      apply comparable_check. rewrite comparable_snorm. exact H2. }
    rewrite Hchk1. cbn [bind].
    assert (Hchk2 : (if is_logical_op o
                     then _ <- check_uncompared (snorm_expr l) ;; check_uncompared (snorm_expr r)
                     else Ok tt) = Ok tt).
    { destruct (is_logical_op o); [|reflexivity]. destruct (Hlog eq_refl) as [H1 H2].
      rewrite (testable_check (snorm_expr l)) by (rewrite testable_snorm; exact H1). cbn [bind].
      apply testable_check. rewrite testable_snorm. exact H2. }
    rewrite Hchk2. cbn [bind fst snd].
    exists g1, st3. split; [reflexivity|]. split; [exact Hat3|].
    rewrite app_length. cbn [length]. lia.
  Qed.

  (* ---- a parenthesised group ---- *)

  Lemma group_prim e inner L :
    U e inner L -> 1 <= L -> headok inner -> PRIM e (lparen :: inner ++ [rparen]).
  Proof.
    intros HU HL Hhead f k rest Hf Hk.
    cbn [length] in Hf. rewrite app_length in Hf. cbn [length] in Hf. unfold need in Hf.
    destruct f as [|f1]; [lia|]. rewrite parse_primary_S.
    cbn [app enter st0 s_cur]. change (tk lparen) with TLParen. cbv iota.
    rewrite <- app_assoc. cbn [app].
    rewrite (next_st0 lparen (inner ++ rparen :: k :: rest) ltac:(discriminate) (headok_hd inner _ Hhead)).
    cbn [bind fst snd].
    destruct f1 as [|f2]; [lia|].
    destruct (U_fin e inner L f2 1 rparen (k :: rest) HU HL ltac:(unfold need; lia) eq_refl
                (fun _ => close_stop rparen L (or_intror (or_intror eq_refl)))
                (close_stop rparen 1 (or_intror (or_intror eq_refl)))) as (st2 & -> & Hat2).
    cbn [bind fst snd].
    rewrite (next_at st2 rparen (k :: rest) Hat2 ltac:(discriminate)). cbn [bind fst snd].
    rewrite grp_loop_S. cbn [st0 s_cur]. change (is_kind TRParen rparen) with true. cbv iota.
    eexists. split; [reflexivity|]. apply at_st0. discriminate.
  Qed.

  (* ---- prefix '!' ---- *)

  Lemma not_prim r y L :
    U r y L -> 7 <= L -> headok y -> g_testable r = true -> PRIM (FNot r) (not_tok :: y).
  Proof.
    intros HU HL Hhead Ht f k rest Hf Hk.
    cbn [length] in Hf. unfold need in Hf.
    destruct f as [|f1]; [lia|]. rewrite parse_primary_S.
    cbn [app enter st0 s_cur]. change (tk not_tok) with TNot. cbv iota.
    rewrite (next_st0 not_tok (y ++ k :: rest) ltac:(discriminate) (headok_hd y _ Hhead)).
    cbn [bind fst snd].
    destruct f1 as [|f2]; [lia|].
    destruct (U_fin r y L f2 7 k rest HU HL ltac:(unfold need; lia) Hk
                (fun _ => stop1_mono k 7 L HL (term_stop7 k Hk)) (term_stop7 k Hk)) as (st2 & -> & Hat2).
    cbn [bind fst snd].
    rewrite (testable_check (snorm_expr r)) by (rewrite testable_snorm; exact Ht). cbn [bind].
    eexists. split; [reflexivity|exact Hat2].
  Qed.
End Base.
