(* SliceProofs.v — CPython's slice.indices + range enumerate exactly the positions of the
   RFC 9535 Normalize/Bounds algorithm. *)
From Coq Require Import ZArith List Bool Lia ZifyBool.
From JP Require Import Base PySlice Syntax Rfc9535.
Import ListNotations.
Ltac Zify.zify_post_hook ::= Z.to_euclidean_division_equations.
Local Open Scope Z_scope.

Lemma range_len_nonneg s e st : 0 <= range_len s e st.
Proof.
  unfold range_len.
  destruct (0 <? st) eqn:Hst.
  - destruct (s <? e) eqn:Hse; [|lia].
    assert (0 <= (e - s - 1) / st) by (apply Z.div_pos; lia). lia.
  - destruct (st <? 0) eqn:Hst'; [|lia].
    destruct (e <? s) eqn:Hse; [|lia].
    assert (0 <= (s - e - 1) / - st) by (apply Z.div_pos; lia). lia.
Qed.

(* one step of an ascending range *)
Lemma range_len_up_step s e st :
  0 < st -> s < e -> range_len s e st = range_len (s + st) e st + 1.
Proof.
  intros Hst Hse. unfold range_len.
  replace (0 <? st) with true by lia.
  replace (s <? e) with true by lia.
  destruct (s + st <? e) eqn:Hnext.
  - replace (e - s - 1) with ((e - (s + st) - 1) + 1 * st) by lia.
    rewrite Z.div_add by lia. lia.
  - rewrite Z.div_small by lia. lia.
Qed.

Lemma range_len_up_empty s e st : 0 < st -> e <= s -> range_len s e st = 0.
Proof.
  intros Hst Hse. unfold range_len.
  replace (0 <? st) with true by lia. replace (s <? e) with false by lia. reflexivity.
Qed.

Lemma range_len_down_step s e st :
  st < 0 -> e < s -> range_len s e st = range_len (s + st) e st + 1.
Proof.
  intros Hst Hse. unfold range_len.
  replace (0 <? st) with false by lia.
  replace (st <? 0) with true by lia.
  replace (e <? s) with true by lia.
  destruct (e <? s + st) eqn:Hnext.
  - replace (s - e - 1) with ((s + st - e - 1) + 1 * (- st)) by lia.
    rewrite Z.div_add by lia. lia.
  - rewrite Z.div_small by lia. lia.
Qed.

Lemma range_len_down_empty s e st : st < 0 -> s <= e -> range_len s e st = 0.
Proof.
  intros Hst Hse. unfold range_len.
  replace (0 <? st) with false by lia. replace (st <? 0) with true by lia.
  replace (e <? s) with false by lia. reflexivity.
Qed.

Lemma py_range_cons s e st :
  range_len s e st = range_len (s + st) e st + 1 ->
  py_range s e st = s :: py_range (s + st) e st.
Proof.
  intros H. unfold py_range. rewrite H.
  pose proof (range_len_nonneg (s + st) e st) as Hnn.
  rewrite Z2Nat.inj_add by lia.
  rewrite Nat.add_comm. reflexivity.
Qed.

Lemma count_up_range fuel : forall i upper st,
  0 < st -> upper - i <= Z.of_nat fuel ->
  count_up fuel i upper st = py_range i upper st.
Proof.
  induction fuel as [|f IH]; intros i upper st Hst Hfuel.
  - cbn [count_up]. unfold py_range. rewrite range_len_up_empty by lia. reflexivity.
  - cbn [count_up]. destruct (i <? upper) eqn:Hlt.
    + rewrite IH by lia. symmetry. apply py_range_cons. apply range_len_up_step; lia.
    + unfold py_range. rewrite range_len_up_empty by lia. reflexivity.
Qed.

Lemma count_down_range fuel : forall i lower st,
  st < 0 -> i - lower <= Z.of_nat fuel ->
  count_down fuel i lower st = py_range i lower st.
Proof.
  induction fuel as [|f IH]; intros i lower st Hst Hfuel.
  - cbn [count_down]. unfold py_range. rewrite range_len_down_empty by lia. reflexivity.
  - cbn [count_down]. destruct (lower <? i) eqn:Hlt.
    + rewrite IH by lia. symmetry. apply py_range_cons. apply range_len_down_step; lia.
    + unfold py_range. rewrite range_len_down_empty by lia. reflexivity.
Qed.

Ltac split_ifs :=
  repeat match goal with
         | |- context [if ?c then _ else _] => let H := fresh "Hc" in destruct c eqn:H
         end.

Theorem slice_agrees :
  forall (len : nat) (start stop step : option Z),
    slice_positions len start stop step =
    map Z.to_nat (rfc_slice_indices (Z.of_nat len) start stop step).
Proof.
  intros len start stop step.
  unfold slice_positions, rfc_slice_indices.
  set (st := match step with Some s => s | None => 1 end).
  destruct (st =? 0) eqn:Hz.
  - (* zero step *)
    destruct step as [s|]; [|discriminate]. subst st. cbv beta iota in Hz.
    apply Z.eqb_eq in Hz. subst s. reflexivity.
  - assert (Hst : st <> 0) by lia.
    assert (Hpos : slice_positions len start stop step =
                   (let '(s, e, st0) := slice_indices (Z.of_nat len) start stop step in
                    map Z.to_nat (py_range s e st0))).
    { unfold slice_positions. destruct step as [[| |]|]; reflexivity. }
    unfold slice_positions in Hpos. rewrite Hpos. clear Hpos.
    unfold slice_indices. fold st.
    destruct (0 <=? st) eqn:Hsign.
    + (* ascending *)
      replace (st <? 0) with false by lia.
      f_equal. rewrite count_up_range.
      * f_equal; unfold normalize; destruct start as [a|], stop as [b|]; split_ifs; lia.
      * lia.
      * rewrite Nat2Z.id. unfold normalize; destruct start as [a|], stop as [b|]; split_ifs; lia.
    + (* descending *)
      replace (st <? 0) with true by lia.
      f_equal. rewrite count_down_range.
      * f_equal; unfold normalize; destruct start as [a|], stop as [b|]; split_ifs; lia.
      * lia.
      * rewrite Nat2Z.id. unfold normalize; destruct start as [a|], stop as [b|]; split_ifs; lia.
Qed.
