(* NormProofs.v — C10: the normal form of a compiled query (what reparsing its string form
   yields) returns the same matches; its string form and the gate/printable predicates are
   preserved under explicit side conditions (the unconditional statements are refuted below). *)
From JP Require Import Base Json PyStr PySlice Syntax Lex Parse Eval Serialize TokPrint Printable Gate
  EvalEqns FloatRepr NormDomain.
Local Open Scope Z_scope.

(* ---------------------------------------------------------------------- *)
(* Numbers that denote the same rational. *)

Definition cross (a b : num) : Z := n_num a * Zpos (n_den b) - n_num b * Zpos (n_den a).

Lemma num_eqb_cross a b : num_eqb a b = (cross a b =? 0).
Proof.
  unfold num_eqb, cross. destruct (Z.eqb_spec (n_num a * Zpos (n_den b)) (n_num b * Zpos (n_den a)));
    destruct (Z.eqb_spec (n_num a * Zpos (n_den b) - n_num b * Zpos (n_den a)) 0); auto; lia.
Qed.

Lemma num_ltb_cross a b : num_ltb a b = (cross a b <? 0).
Proof.
  unfold num_ltb, cross. destruct (Z.ltb_spec (n_num a * Zpos (n_den b)) (n_num b * Zpos (n_den a)));
    destruct (Z.ltb_spec (n_num a * Zpos (n_den b) - n_num b * Zpos (n_den a)) 0); auto; lia.
Qed.

Lemma cross_sim a a' b b' :
  num_eqb a a' = true -> num_eqb b b' = true ->
  cross a b * (Zpos (n_den a') * Zpos (n_den b')) = cross a' b' * (Zpos (n_den a) * Zpos (n_den b)).
Proof.
  unfold num_eqb, cross. intros Ha Hb. apply Z.eqb_eq in Ha, Hb.
  transitivity ((n_num a * Zpos (n_den a')) * (Zpos (n_den b) * Zpos (n_den b'))
                - (n_num b * Zpos (n_den b')) * (Zpos (n_den a) * Zpos (n_den a'))); [ring|].
  rewrite Ha, Hb. ring.
Qed.

Lemma num_eqb_sim a a' b b' :
  num_eqb a a' = true -> num_eqb b b' = true -> num_eqb a b = num_eqb a' b'.
Proof.
  intros Ha Hb. rewrite !num_eqb_cross. pose proof (cross_sim _ _ _ _ Ha Hb) as H.
  pose proof (Pos2Z.is_pos (n_den a)). pose proof (Pos2Z.is_pos (n_den a')).
  pose proof (Pos2Z.is_pos (n_den b)). pose proof (Pos2Z.is_pos (n_den b')).
  destruct (Z.eqb_spec (cross a b) 0) as [E|E]; destruct (Z.eqb_spec (cross a' b') 0) as [E'|E']; auto; exfalso.
  - rewrite E in H. symmetry in H. apply Z.mul_eq_0 in H as [H|H]; [contradiction|]. nia.
  - rewrite E' in H. apply Z.mul_eq_0 in H as [H|H]; [contradiction|]. nia.
Qed.

Lemma num_ltb_sim a a' b b' :
  num_eqb a a' = true -> num_eqb b b' = true -> num_ltb a b = num_ltb a' b'.
Proof.
  intros Ha Hb. rewrite !num_ltb_cross. pose proof (cross_sim _ _ _ _ Ha Hb) as H.
  pose proof (Pos2Z.is_pos (n_den a)). pose proof (Pos2Z.is_pos (n_den a')).
  pose proof (Pos2Z.is_pos (n_den b)). pose proof (Pos2Z.is_pos (n_den b')).
  destruct (Z.ltb_spec (cross a b) 0); destruct (Z.ltb_spec (cross a' b') 0); auto; exfalso; nia.
Qed.

Lemma num_eqb_refl a : num_eqb a a = true.
Proof. unfold num_eqb. apply Z.eqb_refl. Qed.

Lemma num_eqb_sym a b : num_eqb a b = num_eqb b a.
Proof. unfold num_eqb. apply Z.eqb_sym. Qed.

Lemma num_is_zero_sim a a' : num_eqb a a' = true -> num_is_zero a = num_is_zero a'.
Proof.
  unfold num_eqb, num_is_zero. intros H. apply Z.eqb_eq in H.
  pose proof (Pos2Z.is_pos (n_den a)). pose proof (Pos2Z.is_pos (n_den a')).
  destruct (Z.eqb_spec (n_num a) 0); destruct (Z.eqb_spec (n_num a') 0); auto; exfalso; nia.
Qed.

(* ---------------------------------------------------------------------- *)
(* JSON values equal up to the representation of numbers. *)

Inductive jsim : json -> json -> Prop :=
| JS_null : jsim JNull JNull
| JS_bool b : jsim (JBool b) (JBool b)
| JS_num n n' : num_eqb n n' = true -> jsim (JNum n) (JNum n')
| JS_str s : jsim (JStr s) (JStr s)
| JS_arr x y : Forall2 jsim x y -> jsim (JArr x) (JArr y)
| JS_obj x : jsim (JObj x) (JObj x).

Lemma jsim_refl a : jsim a a.
Proof.
  induction a as [| b | n | s | l IH | l IH] using json_ind'; try constructor.
  - apply num_eqb_refl.
  - induction IH; constructor; auto.
Qed.

Lemma json_eq_arr_sim l l' m m' :
  Forall2 jsim l l' -> Forall2 jsim m m' ->
  Forall (fun u => forall u' v v', jsim u u' -> jsim v v' -> json_eq u v = json_eq u' v') l ->
  json_eq (JArr l) (JArr m) = json_eq (JArr l') (JArr m').
Proof.
  intros Hl. revert m m'. simpl. induction Hl as [|u u' l l' Hu _ IHl]; intros m m' Hm IH.
  - inversion Hm; reflexivity.
  - inversion Hm as [|v v' k k' Hv Hk]; subst; [reflexivity|].
    apply Forall_cons_iff in IH as [IHu IH]. rewrite (IHu u' v v' Hu Hv). f_equal. apply IHl; auto.
Qed.

Lemma json_eq_sim a : forall a' b b', jsim a a' -> jsim b b' -> json_eq a b = json_eq a' b'.
Proof.
  induction a as [| x | n | s | l IH | l IH] using json_ind'; intros a' b b' Ha Hb.
  - inversion Ha; subst; inversion Hb; subst; reflexivity.
  - inversion Ha; subst; inversion Hb; subst; reflexivity.
  - inversion Ha; subst; inversion Hb; subst; try reflexivity. simpl. apply num_eqb_sim; auto.
  - inversion Ha; subst; inversion Hb; subst; reflexivity.
  - inversion Ha as [ | | | | x y Hxy | ]; subst.
    inversion Hb as [ | | | | z w Hzw | ]; subst; try reflexivity.
    apply json_eq_arr_sim; auto.
  - inversion Ha; subst; inversion Hb; subst; reflexivity.
Qed.

Lemma py_eq_arr_sim l l' m m' :
  Forall2 jsim l l' -> Forall2 jsim m m' ->
  Forall (fun u => forall u' v v', jsim u u' -> jsim v v' -> py_eq u v = py_eq u' v') l ->
  py_eq (JArr l) (JArr m) = py_eq (JArr l') (JArr m').
Proof.
  intros Hl. revert m m'. simpl. induction Hl as [|u u' l l' Hu _ IHl]; intros m m' Hm IH.
  - inversion Hm; reflexivity.
  - inversion Hm as [|v v' k k' Hv Hk]; subst; [reflexivity|].
    apply Forall_cons_iff in IH as [IHu IH]. rewrite (IHu u' v v' Hu Hv). f_equal. apply IHl; auto.
Qed.

Lemma py_eq_sim a : forall a' b b', jsim a a' -> jsim b b' -> py_eq a b = py_eq a' b'.
Proof.
  induction a as [| x | n | s | l IH | l IH] using json_ind'; intros a' b b' Ha Hb.
  - inversion Ha; subst; inversion Hb; subst; reflexivity.
  - inversion Ha; subst; inversion Hb; subst; try reflexivity.
    simpl. apply num_eqb_sim; auto. apply num_eqb_refl.
  - inversion Ha; subst; inversion Hb; subst; try reflexivity; simpl.
    + apply num_eqb_sim; auto. apply num_eqb_refl.
    + apply num_eqb_sim; auto.
  - inversion Ha; subst; inversion Hb; subst; reflexivity.
  - inversion Ha as [ | | | | x y Hxy | ]; subst.
    inversion Hb as [ | | | | z w Hzw | ]; subst; try reflexivity.
    apply py_eq_arr_sim; auto.
  - inversion Ha; subst; inversion Hb; subst; reflexivity.
Qed.

Lemma py_truthy_sim a a' : jsim a a' -> py_truthy a = py_truthy a'.
Proof.
  intros H. inversion H as [ | | n n' Hn | | x y Hxy | ]; subst; try reflexivity.
  - simpl. rewrite (num_is_zero_sim _ _ Hn). reflexivity.
  - simpl. inversion Hxy; reflexivity.
Qed.

(* ---------------------------------------------------------------------- *)
(* Filter values equal up to the representation of numbers. *)

Inductive vsim : fval -> fval -> Prop :=
| VS_nodes ns : vsim (VNodes ns) (VNodes ns)
| VS_val a a' : jsim a a' -> vsim (VVal a) (VVal a')
| VS_undef : vsim VUndef VUndef
| VS_regex p f : vsim (VRegex p f) (VRegex p f).

Lemma vsim_refl v : vsim v v.
Proof. destruct v; constructor. apply jsim_refl. Qed.

Lemma is_truthy_sim v v' : vsim v v' -> is_truthy v = is_truthy v'.
Proof.
  intros H. inversion H as [ | a a' Ha | | ]; subst; try reflexivity.
  pose proof (py_truthy_sim _ _ Ha) as Ht. inversion Ha; subst; simpl in *; auto.
Qed.

Lemma unwrap_sim v v' : vsim v v' -> vsim (unwrap v) (unwrap v').
Proof. intros H. inversion H; subst; try (constructor; auto). apply vsim_refl. Qed.

Lemma filter_eq_sim l l' r r' : vsim l l' -> vsim r r' -> filter_eq l r = filter_eq l' r'.
Proof.
  intros Hl Hr. inversion Hl as [ | a a' Ha | | ]; subst; inversion Hr as [ | b b' Hb | | ]; subst;
    try reflexivity.
  simpl. apply json_eq_sim; auto.
Qed.

Lemma filter_lt_sim l l' r r' : vsim l l' -> vsim r r' -> filter_lt l r = filter_lt l' r'.
Proof.
  intros Hl Hr. inversion Hl as [ | a a' Ha | | ]; subst; inversion Hr as [ | b b' Hb | | ]; subst;
    try reflexivity.
  - inversion Ha; subst; reflexivity.
  - inversion Ha; subst; inversion Hb; subst; try reflexivity. simpl. apply num_ltb_sim; auto.
  - inversion Ha; subst; reflexivity.
  - inversion Ha; subst; reflexivity.
Qed.

Lemma is_container_val_sim v v' : vsim v v' -> is_container_val v = is_container_val v'.
Proof. intros H. inversion H as [ | a a' Ha | | ]; subst; try reflexivity. inversion Ha; reflexivity. Qed.

Lemma filter_contains_sim c c' i i' : vsim c c' -> vsim i i' -> filter_contains c i = filter_contains c' i'.
Proof.
  intros Hc Hi. inversion Hc as [ | a a' Ha | | ]; subst; try reflexivity.
  inversion Ha as [ | | | s | x y Hxy | ms ]; subst; try reflexivity.
  - inversion Hi as [ | b b' Hb | | ]; subst; try reflexivity. inversion Hb; subst; reflexivity.
  - inversion Hi as [ | b b' Hb | | ]; subst; try reflexivity. simpl.
    clear Ha Hc Hi. induction Hxy as [|u u' l l' Hu _ IHl]; [reflexivity|]. simpl.
    rewrite (py_eq_sim _ _ _ _ Hu Hb). f_equal. exact IHl.
  - inversion Hi as [ | b b' Hb | | ]; subst; try reflexivity. inversion Hb; subst; reflexivity.
Qed.

(* ---------------------------------------------------------------------- *)
(* Comparison and function calls see only the values. *)

Section Consumers.
  Variable rf : ustr -> reflags -> ustr -> option bool.
  Variable rs : ustr -> ustr -> option bool.

  Lemma filter_compare_sim l l' o r r' :
    vsim l l' -> vsim r r' -> filter_compare rf l o r = filter_compare rf l' o r'.
  Proof.
    intros Hl Hr. destruct o; cbn [filter_compare];
      rewrite ?(is_truthy_sim _ _ Hl), ?(is_truthy_sim _ _ Hr),
              ?(filter_eq_sim _ _ _ _ Hl Hr), ?(filter_lt_sim _ _ _ _ Hl Hr), ?(filter_lt_sim _ _ _ _ Hr Hl),
              ?(is_container_val_sim _ _ Hl), ?(is_container_val_sim _ _ Hr),
              ?(filter_contains_sim _ _ _ _ Hr Hl), ?(filter_contains_sim _ _ _ _ Hl Hr); try reflexivity.
    inversion Hr as [ | b b' Hb | | ]; subst; try reflexivity.
    inversion Hl as [ | a a' Ha | | ]; subst; try reflexivity.
    inversion Ha; subst; reflexivity.
  Qed.

  Lemma unpack_arg_sim t a a' : vsim a a' -> vsim (unpack_arg t a) (unpack_arg t a').
  Proof.
    intros H. inversion H as [ ns | x x' Hx | | ]; subst.
    - apply vsim_refl.
    - destruct t; constructor; exact Hx.
    - apply vsim_refl.
    - apply vsim_refl.
  Qed.

  Definition rlsim (r r' : result (list fval)) : Prop :=
    match r, r' with
    | Ok l, Ok l' => Forall2 vsim l l'
    | Err e, Err e' => e = e'
    | _, _ => False
    end.

  Lemma unpack_args_sim ts : forall vs vs', Forall2 vsim vs vs' -> rlsim (unpack_args ts vs) (unpack_args ts vs').
  Proof.
    intros vs vs' H. revert ts. induction H as [|a a' vs vs' Ha _ IH]; intros ts.
    - destruct ts; simpl; constructor.
    - destruct ts as [|t ts]; [reflexivity|]. simpl. specialize (IH ts).
      destruct (unpack_args ts vs) as [r|e]; destruct (unpack_args ts vs') as [r'|e']; simpl in *; try contradiction.
      + constructor; auto. apply unpack_arg_sim. exact Ha.
      + exact IH.
  Qed.

  Lemma py_len_sim v v' : vsim v v' -> py_len v = py_len v'.
  Proof.
    intros H. inversion H as [ | a a' Ha | | ]; subst; try reflexivity.
    inversion Ha as [ | | | | x y Hxy | ]; subst; try reflexivity.
    simpl. assert (E : length x = length y) by (clear -Hxy; induction Hxy; simpl; congruence).
    rewrite E. reflexivity.
  Qed.

  Definition as_str (v : fval) : option ustr := match v with VVal (JStr s) => Some s | _ => None end.
  Lemma as_str_sim v v' : vsim v v' -> as_str v = as_str v'.
  Proof. intros H. inversion H as [ | a a' Ha | | ]; subst; try reflexivity. inversion Ha; reflexivity. Qed.

  Definition as_nodes (v : fval) : option (list jmatch) := match v with VNodes ns => Some ns | _ => None end.
  Lemma as_nodes_sim v v' : vsim v v' -> as_nodes v = as_nodes v'.
  Proof. intros H. inversion H; reflexivity. Qed.

  (* Python's bool() of a filter value that is not a NodeList *)
  Definition is_truthy_py (v : fval) : bool := match v with VVal j => py_truthy j | _ => true end.
  Lemma is_truthy_py_sim v v' : vsim v v' -> is_truthy_py v = is_truthy_py v'.
  Proof. intros H. inversion H as [ | a a' Ha | | ]; subst; try reflexivity. exact (py_truthy_sim _ _ Ha). Qed.

  (* call_function re-expressed through the observations that vsim preserves *)
  Definition call_obs (name : ustr) (args : list fval) : result fval :=
    if ustr_eqb name name_length then
      match args with
      | [a] => Ok (match py_len a with Some n => int_val n | None => VUndef end)
      | _ => Err (EBuiltin BTypeError)
      end
    else if ustr_eqb name name_count then
      match args with
      | [a] => match py_len a with Some n => Ok (int_val n) | None => Err (EBuiltin BTypeError) end
      | _ => Err (EBuiltin BTypeError)
      end
    else if ustr_eqb name name_value then
      match args with
      | [a] => match as_nodes a with
               | Some [n] => Ok (VVal (m_val n))
               | Some _ => Ok VUndef
               | None => match py_len a with
                         | Some 1%Z => Err (EBuiltin BAttributeError)
                         | Some _ => Ok VUndef
                         | None => Err (EBuiltin BTypeError)
                         end
               end
      | _ => Err (EBuiltin BTypeError)
      end
    else if ustr_eqb name name_match then
      match args with
      | [a; b] => Ok (bool_val (match as_str a, as_str b with
                                | Some s, Some p => match rf p (mkFlags false false false false) s with Some b => b | None => false end
                                | _, _ => false
                                end))
      | _ => Err (EBuiltin BTypeError)
      end
    else if ustr_eqb name name_search then
      match args with
      | [a; b] => Ok (bool_val (match as_str a, as_str b with
                                | Some s, Some p => match rs p s with Some b => b | None => false end
                                | _, _ => false
                                end))
      | _ => Err (EBuiltin BTypeError)
      end
    else if ustr_eqb name name_typeof then
      match args with
      | [a] => match as_nodes a with
               | Some [] => Ok (VVal (JStr word_undefined))
               | Some [n] => Ok (VVal (JStr (typeof_word (m_val n))))
               | Some _ => Ok (VVal (JStr word_array))
               | None => if is_truthy_py a then Err (EBuiltin BAttributeError)
                         else Ok (VVal (JStr word_undefined))
               end
      | _ => Err (EBuiltin BTypeError)
      end
    else Err EUnsupported.

  Lemma call_function_obs name args : call_function rf rs name args = call_obs name args.
  Proof.
    unfold call_function, call_obs.
    destruct (ustr_eqb name name_length); [reflexivity|].
    destruct (ustr_eqb name name_count); [reflexivity|].
    destruct (ustr_eqb name name_value).
    { destruct args as [|a [|b r]]; try reflexivity; destruct a as [[|n [|n' ns]]|j| |]; reflexivity. }
    destruct (ustr_eqb name name_match).
    { destruct args as [|a [|b [|c r]]]; try reflexivity;
        destruct a as [?|[]| |]; try reflexivity; try (destruct b as [?|[]| |]; reflexivity). }
    destruct (ustr_eqb name name_search).
    { destruct args as [|a [|b [|c r]]]; try reflexivity;
        destruct a as [?|[]| |]; try reflexivity; try (destruct b as [?|[]| |]; reflexivity). }
    destruct (ustr_eqb name name_typeof).
    { destruct args as [|a [|b r]]; try reflexivity; destruct a as [[|n [|n' ns]]|j| |]; reflexivity. }
    reflexivity.
  Qed.

  Lemma call_function_sim name us us' :
    Forall2 vsim us us' -> call_function rf rs name us = call_function rf rs name us'.
  Proof.
    intros H. rewrite !call_function_obs. unfold call_obs.
    destruct (ustr_eqb name name_length).
    { inversion H as [|a a' r r' Ha Hr]; subst; [reflexivity|]. inversion Hr; subst; [|reflexivity].
      rewrite (py_len_sim _ _ Ha). reflexivity. }
    destruct (ustr_eqb name name_count).
    { inversion H as [|a a' r r' Ha Hr]; subst; [reflexivity|]. inversion Hr; subst; [|reflexivity].
      rewrite (py_len_sim _ _ Ha). reflexivity. }
    destruct (ustr_eqb name name_value).
    { inversion H as [|a a' r r' Ha Hr]; subst; [reflexivity|]. inversion Hr; subst; [|reflexivity].
      rewrite (py_len_sim _ _ Ha), (as_nodes_sim _ _ Ha). reflexivity. }
    destruct (ustr_eqb name name_match).
    { inversion H as [|a a' r r' Ha Hr]; subst; [reflexivity|].
      inversion Hr as [|b b' r2 r2' Hb Hr2]; subst; [reflexivity|]. inversion Hr2; subst; [|reflexivity].
      rewrite (as_str_sim _ _ Ha), (as_str_sim _ _ Hb). reflexivity. }
    destruct (ustr_eqb name name_search).
    { inversion H as [|a a' r r' Ha Hr]; subst; [reflexivity|].
      inversion Hr as [|b b' r2 r2' Hb Hr2]; subst; [reflexivity|]. inversion Hr2; subst; [|reflexivity].
      rewrite (as_str_sim _ _ Ha), (as_str_sim _ _ Hb). reflexivity. }
    destruct (ustr_eqb name name_typeof).
    { inversion H as [|a a' r r' Ha Hr]; subst; [reflexivity|]. inversion Hr; subst; [|reflexivity].
      rewrite (is_truthy_py_sim _ _ Ha), (as_nodes_sim _ _ Ha). reflexivity. }
    reflexivity.
  Qed.
End Consumers.

(* ---------------------------------------------------------------------- *)
(* The normal form evaluates to the same matches. *)

Lemma norm_float_cases n :
  norm_expr (FFloat n) = FFloat n \/
  exists t n', float_repr n = Ok t /\ parse_float_literal t = Ok (FFloat n') /\ norm_expr (FFloat n) = FFloat n'.
Proof.
  cbn [norm_expr]. destruct (float_repr n) as [t|e] eqn:Et; [|left; reflexivity].
  destruct (parse_float_literal t) as [e'|e] eqn:Ep; [|left; reflexivity].
  destruct (parse_float_is_float _ _ Ep) as [n' ->]. right. eauto.
Qed.

Lemma norm_float_num n : exists n', norm_expr (FFloat n) = FFloat n' /\ num_eqb n' n = true.
Proof.
  destruct (norm_float_cases n) as [E|[t [n' [Ht [Hp E]]]]].
  - exists n. split; auto. apply num_eqb_refl.
  - exists n'. split; auto. rewrite num_eqb_sym. eapply float_reread_value; eauto.
Qed.

Section Equiv.
  Variable E : env.
  Variable rf : ustr -> reflags -> ustr -> option bool.
  Variable rs : ustr -> ustr -> option bool.
  Notation eval_f := (Eval.eval_f E rf rs).
  Notation eval_fs := (Eval.eval_fs E rf rs).
  Notation resolve_sel := (Eval.resolve_sel E rf rs).
  Notation resolve_sels := (Eval.resolve_sels E rf rs).
  Notation resolve_seg := (Eval.resolve_seg E rf rs).
  Notation resolve_segs := (Eval.resolve_segs E rf rs).

  Definition rsim (r r' : result fval) : Prop :=
    match r, r' with
    | Ok v, Ok v' => vsim v v'
    | Err e, Err e' => e = e'
    | _, _ => False
    end.

  Lemma rsim_refl r : rsim r r.
  Proof. destruct r; simpl; auto. apply vsim_refl. Qed.

  Lemma rlsim_refl r : rlsim r r.
  Proof. destruct r as [l|e]; simpl; auto. induction l; constructor; auto. apply vsim_refl. Qed.

  Lemma norm_eval_mut :
    (forall e root ctx cur key, rsim (eval_f (norm_expr e) root ctx cur key) (eval_f e root ctx cur key)) /\
    (forall es root ctx cur key, rlsim (eval_fs (norm_exprs es) root ctx cur key) (eval_fs es root ctx cur key)) /\
    (forall s root ctx m, resolve_sel (norm_sel s) root ctx m = resolve_sel s root ctx m) /\
    (forall l root ctx m, resolve_sels (norm_sels l) root ctx m = resolve_sels l root ctx m) /\
    (forall g root ctx ms, resolve_seg (norm_seg g) root ctx ms = resolve_seg g root ctx ms) /\
    (forall p root ctx ms, resolve_segs (norm_segs p) root ctx ms = resolve_segs p root ctx ms).
  Proof.
    apply syntax_mutind.
    - intros; apply rsim_refl.
    - intros; apply rsim_refl.
    - intros; apply rsim_refl.
    - intros; apply rsim_refl.
    - (* float *) intros n root ctx cur key. destruct (norm_float_num n) as [n' [-> Hn]].
      simpl. constructor. constructor. exact Hn.
    - intros; apply rsim_refl.
    - intros; apply rsim_refl.
    - (* list *) intros items IH root ctx cur key.
      change (norm_expr (FList items)) with (FList (norm_exprs items)). rewrite !eval_list.
      specialize (IH root ctx cur key).
      destruct (eval_fs (norm_exprs items) root ctx cur key) as [l|e];
        destruct (eval_fs items root ctx cur key) as [l'|e']; simpl in *; try contradiction; auto.
      constructor. constructor. induction IH as [|v v' l l' Hv _ IHl]; constructor; auto.
      inversion Hv; subst; try constructor; auto.
    - (* not *) intros r IH root ctx cur key.
      change (norm_expr (FNot r)) with (FNot (norm_expr r)). rewrite !eval_not.
      specialize (IH root ctx cur key).
      destruct (eval_f (norm_expr r) root ctx cur key) as [v|e];
        destruct (eval_f r root ctx cur key) as [v'|e']; simpl in *; try contradiction; auto.
      rewrite (is_truthy_sim _ _ IH). apply vsim_refl.
    - (* infix *) intros l IHl o r IHr root ctx cur key.
      change (norm_expr (FInfix l o r)) with (FInfix (norm_expr l) o (norm_expr r)). rewrite !eval_infix.
      specialize (IHl root ctx cur key). specialize (IHr root ctx cur key).
      destruct (eval_f (norm_expr l) root ctx cur key) as [lv|e];
        destruct (eval_f l root ctx cur key) as [lv'|e']; simpl in IHl; try contradiction;
        [|simpl; exact IHl].
      destruct (eval_f (norm_expr r) root ctx cur key) as [rv|e];
        destruct (eval_f r root ctx cur key) as [rv'|e']; simpl in IHr; try contradiction;
        [|simpl; exact IHr].
      cbn [bind rsim].
      rewrite (filter_compare_sim rf _ (if is_logical o then lv' else unwrap lv') o
                                     _ (if is_logical o then rv' else unwrap rv')).
      + apply vsim_refl.
      + destruct (is_logical o); auto. apply unwrap_sim; auto.
      + destruct (is_logical o); auto. apply unwrap_sim; auto.
    - (* self *) intros p IH root ctx cur key.
      change (norm_expr (FSelf p)) with (FSelf (norm_segs p)). rewrite !eval_self, IH. apply rsim_refl.
    - intros fake p IH root ctx cur key.
      change (norm_expr (FRoot fake p)) with (FRoot fake (norm_segs p)). rewrite !eval_root, IH. apply rsim_refl.
    - intros p IH root ctx cur key.
      change (norm_expr (FCtx p)) with (FCtx (norm_segs p)). rewrite !eval_ctx, IH. apply rsim_refl.
    - intros; apply rsim_refl.
    - (* function *) intros name args IH root ctx cur key.
      change (norm_expr (FFunc name args)) with (FFunc name (norm_exprs args)). rewrite !eval_func.
      destruct (signature name) as [[ts rt]|]; [|reflexivity].
      specialize (IH root ctx cur key).
      destruct (eval_fs (norm_exprs args) root ctx cur key) as [l|e];
        destruct (eval_fs args root ctx cur key) as [l'|e']; simpl in IH; try contradiction;
        [|simpl; exact IH].
      cbn [bind]. pose proof (unpack_args_sim ts _ _ IH) as Hu.
      destruct (unpack_args ts l) as [us|e]; destruct (unpack_args ts l') as [us'|e']; simpl in Hu;
        try contradiction; [|simpl; exact Hu].
      cbn [bind]. rewrite (call_function_sim rf rs name _ _ Hu). apply rsim_refl.
    - (* exprs *) intros; apply rlsim_refl.
    - intros e IHe r IHr root ctx cur key.
      change (norm_exprs (ECons e r)) with (ECons (norm_expr e) (norm_exprs r)). rewrite !eval_fs_cons.
      specialize (IHe root ctx cur key). specialize (IHr root ctx cur key).
      destruct (eval_f (norm_expr e) root ctx cur key) as [v|x];
        destruct (eval_f e root ctx cur key) as [v'|x']; simpl in IHe; try contradiction;
        [|simpl; exact IHe].
      destruct (eval_fs (norm_exprs r) root ctx cur key) as [l|x];
        destruct (eval_fs r root ctx cur key) as [l'|x']; simpl in IHr; try contradiction;
        [|simpl; exact IHr].
      simpl. constructor; auto.
    - (* selectors *) reflexivity.
    - reflexivity.
    - intros a b c root ctx m. destruct c; reflexivity.
    - reflexivity.
    - reflexivity.
    - intros e IH root ctx m.
      change (norm_sel (SFilter e)) with (SFilter (norm_expr e)). rewrite !resolve_sel_filter.
      f_equal. apply map_ext. intros [[cur key] child]. specialize (IH root ctx cur key).
      destruct (eval_f (norm_expr e) root ctx cur key) as [v|x];
        destruct (eval_f e root ctx cur key) as [v'|x']; simpl in IH; try contradiction.
      + cbn [bind]. rewrite (is_truthy_sim _ _ IH). reflexivity.
      + subst. reflexivity.
    - (* sels *) reflexivity.
    - intros s IHs r IHr root ctx m.
      change (norm_sels (LCons s r)) with (LCons (norm_sel s) (norm_sels r)).
      rewrite !resolve_sels_cons, IHs, IHr. reflexivity.
    - (* segments *) intros s IH root ctx ms.
      assert (Hone : forall s', (forall root ctx m, resolve_sel s' root ctx m = resolve_sel s root ctx m) ->
                resolve_seg (GList (LCons s' LNil)) root ctx ms = resolve_seg (GSel s) root ctx ms).
      { intros s' Hs'. rewrite resolve_seg_list, resolve_seg_sel. f_equal. apply map_ext. intros m.
        rewrite resolve_sels_cons, resolve_sels_nil, Hs'.
        destruct (resolve_sel s root ctx m) as [x|e]; cbn [bind]; [rewrite app_nil_r|]; reflexivity. }
      change (norm_seg (GSel s)) with (GList (LCons (norm_sel s) LNil)).
      apply (Hone (norm_sel s)). exact IH.
    - reflexivity.
    - intros items IH root ctx ms.
      change (norm_seg (GList items)) with (GList (norm_sels items)). rewrite !resolve_seg_list.
      f_equal. apply map_ext. intros m. apply IH.
    - (* paths *) reflexivity.
    - intros g IHg r IHr root ctx ms.
      change (norm_segs (PCons g r)) with (PCons (norm_seg g) (norm_segs r)).
      rewrite !resolve_segs_cons, IHg. destruct (resolve_seg g root ctx ms); cbn [bind]; auto.
  Qed.

  Lemma finditer_norm p d ctx : finditer E rf rs (norm_path p) d ctx = finditer E rf rs p d ctx.
  Proof. unfold finditer, norm_path. cbn [p_segs p_fake]. apply norm_eval_mut. Qed.

  Lemma norm_equiv_rest rest d ctx : forall ms,
    compound_finditer_rest E rf rs ms (map (fun op => (fst op, norm_path (snd op))) rest) d ctx =
    compound_finditer_rest E rf rs ms rest d ctx.
  Proof.
    induction rest as [|[o p] rest IH]; intros ms; [reflexivity|].
    cbn [map fst snd compound_finditer_rest]. rewrite finditer_norm.
    destruct (finditer E rf rs p d ctx); cbn [bind]; auto.
  Qed.
End Equiv.

Theorem norm_equiv :
  forall (E : env) rf rs (q : query) (d ctx : json),
    compound_finditer E rf rs (norm_query q) d ctx = compound_finditer E rf rs q d ctx.
Proof.
  intros E rf rs q d ctx. unfold compound_finditer, norm_query. cbn [q_first q_rest].
  rewrite finditer_norm. destruct (finditer E rf rs (q_first q) d ctx); cbn [bind]; auto.
  apply norm_equiv_rest.
Qed.

(* ---------------------------------------------------------------------- *)
(* Domain conditions for the string-form theorems (both decidable):
   - bare_ok: a selector standing alone at path level is a name, a wildcard, a keys selector
     or a slice (the forms the parser builds as GSel);
   - floats_stable: every float literal prints the same after being reread from its repr. *)

(* float_stable, bk_*, bare_ok, fl_*, floats_stable: spec/NormDomain.v *)

(* what float_stable gives *)
Lemma float_stable_cases n : float_stable n = true ->
  norm_expr (FFloat n) = FFloat n \/
  exists t n', float_repr n = Ok t /\ parse_float_literal t = Ok (FFloat n') /\
               norm_expr (FFloat n) = FFloat n' /\ float_repr n' = Ok t.
Proof.
  intros H. destruct (norm_float_cases n) as [E|[t [n' [Ht [Hp E]]]]]; [left; exact E|right].
  exists t, n'. repeat split; auto. unfold float_stable in H. rewrite Ht, Hp in H.
  destruct (float_repr n') as [t'|]; [|discriminate]. apply ustr_eqb_spec in H. subst. reflexivity.
Qed.

Lemma wrap_norm e x : wrap_operand (norm_expr e) x = wrap_operand e x.
Proof.
  destruct e; try reflexivity.
  destruct (norm_float_cases n) as [E|[t [n' [_ [_ E]]]]]; rewrite E; reflexivity.
Qed.

(* ---------------------------------------------------------------------- *)
(* The normal form has the same string form. *)

Section Text.
  Variable E : env.
  Notation expr_text := (Serialize.expr_text E).
  Notation exprs_text := (Serialize.exprs_text E).
  Notation canon_text := (Serialize.canon_text E).
  Notation sel_text := (Serialize.sel_text E).
  Notation sels_text := (Serialize.sels_text E).
  Notation seg_text := (Serialize.seg_text E).
  Notation segs_text := (Serialize.segs_text E).

  Lemma canon_text_infix l o r parent :
    canon_text (FInfix l o r) parent =
    match o with
    | BAnd => a <- canon_text l 4 ;; b <- canon_text r 4 ;;
              let x := a ++ [32; 38; 38; 32]%N ++ b in
              Ok (if Nat.leb 4 parent then 40%N :: x ++ [41%N] else x)
    | BOr => a <- canon_text l 3 ;; b <- canon_text r 3 ;;
             let x := a ++ [32; 124; 124; 32]%N ++ b in
             Ok (if Nat.leb 3 parent then 40%N :: x ++ [41%N] else x)
    | _ => a <- expr_text l ;; b <- expr_text r ;;
           let x := wrap_operand l a ++ sp :: binop_text o ++ sp :: wrap_operand r b in
           Ok (if Nat.leb 7 parent then 40%N :: x ++ [41%N] else x)
    end.
  Proof. destruct o; reflexivity. Qed.

  Lemma expr_text_not r :
    expr_text (FNot r) = (x <- expr_text r ;; Ok (33%N :: wrap_operand r x)).
  Proof. reflexivity. Qed.

  Lemma expr_text_infix l o r :
    expr_text (FInfix l o r) =
    (a <- expr_text l ;; b <- expr_text r ;;
     Ok (if is_logical o then 40%N :: (a ++ sp :: binop_text o ++ sp :: b) ++ [41%N]
         else wrap_operand l a ++ sp :: binop_text o ++ sp :: wrap_operand r b)).
  Proof. reflexivity. Qed.

  Lemma norm_text_mut :
    (forall e, bk_expr e = true -> fl_expr e = true ->
       expr_text (norm_expr e) = expr_text e /\
       forall parent, canon_text (norm_expr e) parent = canon_text e parent) /\
    (forall es, bk_exprs es = true -> fl_exprs es = true -> exprs_text (norm_exprs es) = exprs_text es) /\
    (forall s, bk_sel s = true -> fl_sel s = true -> sel_text (norm_sel s) = sel_text s) /\
    (forall l, bk_sels l = true -> fl_sels l = true -> sels_text (norm_sels l) = sels_text l) /\
    (forall g, bk_seg g = true -> fl_seg g = true -> seg_text (norm_seg g) = seg_text g) /\
    (forall p, bk_segs p = true -> fl_segs p = true -> segs_text (norm_segs p) = segs_text p).
  Proof.
    apply syntax_mutind.
    - intros; split; reflexivity.
    - intros; split; reflexivity.
    - intros; split; reflexivity.
    - intros; split; reflexivity.
    - (* float *) intros n _ Hf. cbn [fl_expr] in Hf.
      destruct (float_stable_cases n Hf) as [->|[t [n' [Ht [_ [-> Ht']]]]]]; [split; reflexivity|].
      change (expr_text (FFloat n')) with (float_repr n').
      change (expr_text (FFloat n)) with (float_repr n). split; [congruence|].
      intros parent. change (canon_text (FFloat n') parent) with (float_repr n').
      change (canon_text (FFloat n) parent) with (float_repr n). congruence.
    - intros; split; reflexivity.
    - intros; split; reflexivity.
    - (* list *) intros items IH Hb Hf. cbn [bk_expr fl_expr] in Hb, Hf. specialize (IH Hb Hf).
      change (norm_expr (FList items)) with (FList (norm_exprs items)).
      split; [|intros parent].
      + change (expr_text (FList (norm_exprs items)))
          with (xs <- exprs_text (norm_exprs items) ;; Ok (91%N :: join_sep [44; 32]%N xs ++ [93%N])).
        rewrite IH. reflexivity.
      + change (canon_text (FList (norm_exprs items)) parent)
          with (xs <- exprs_text (norm_exprs items) ;; Ok (91%N :: join_sep [44; 32]%N xs ++ [93%N])).
        rewrite IH. reflexivity.
    - (* not *) intros r IH Hb Hf. cbn [bk_expr fl_expr] in Hb, Hf. destruct (IH Hb Hf) as [IHe IHc].
      change (norm_expr (FNot r)) with (FNot (norm_expr r)). split; [|intros parent].
      + rewrite !expr_text_not. rewrite IHe. destruct (expr_text r) as [x|]; [|reflexivity]. cbn [bind]. rewrite wrap_norm. reflexivity.
      + change (canon_text (FNot (norm_expr r)) parent)
          with (a <- canon_text (norm_expr r) 7 ;;
                let x := 33%N :: a in Ok (if Nat.ltb 7 parent then 40%N :: x ++ [41%N] else x)).
        rewrite IHc. reflexivity.
    - (* infix *) intros l IHl o r IHr Hb Hf. cbn [bk_expr fl_expr] in Hb, Hf.
      apply andb_true_iff in Hb as [Hbl Hbr]. apply andb_true_iff in Hf as [Hfl Hfr].
      destruct (IHl Hbl Hfl) as [IHle IHlc]. destruct (IHr Hbr Hfr) as [IHre IHrc].
      change (norm_expr (FInfix l o r)) with (FInfix (norm_expr l) o (norm_expr r)).
      split; [|intros parent].
      + rewrite !expr_text_infix. rewrite IHle, IHre.
        destruct (expr_text l) as [a|]; [|reflexivity]. destruct (expr_text r) as [b|]; [|reflexivity].
        cbn [bind]. rewrite !wrap_norm. reflexivity.
      + rewrite !canon_text_infix. rewrite IHle, IHre, !IHlc, !IHrc.
        destruct o; try reflexivity;
          (destruct (expr_text l) as [a|]; [|reflexivity]; destruct (expr_text r) as [b|]; [|reflexivity];
           cbn [bind]; rewrite !wrap_norm; reflexivity).
    - (* self *) intros p IH Hb Hf. cbn [bk_expr fl_expr] in Hb, Hf. specialize (IH Hb Hf).
      change (norm_expr (FSelf p)) with (FSelf (norm_segs p)). split; [|intros parent].
      + change (expr_text (FSelf (norm_segs p))) with (x <- segs_text (norm_segs p) ;; Ok (e_self E ++ x)).
        rewrite IH. reflexivity.
      + change (canon_text (FSelf (norm_segs p)) parent) with (x <- segs_text (norm_segs p) ;; Ok (e_self E ++ x)).
        rewrite IH. reflexivity.
    - intros fake p IH Hb Hf. cbn [bk_expr fl_expr] in Hb, Hf. specialize (IH Hb Hf).
      change (norm_expr (FRoot fake p)) with (FRoot fake (norm_segs p)). split; [|intros parent].
      + change (expr_text (FRoot fake (norm_segs p)))
          with (x <- segs_text (norm_segs p) ;; Ok ((if fake then e_fake_root E else e_root E) ++ x)).
        rewrite IH. reflexivity.
      + change (canon_text (FRoot fake (norm_segs p)) parent)
          with (x <- segs_text (norm_segs p) ;; Ok ((if fake then e_fake_root E else e_root E) ++ x)).
        rewrite IH. reflexivity.
    - intros p IH Hb Hf. cbn [bk_expr fl_expr] in Hb, Hf. specialize (IH Hb Hf).
      change (norm_expr (FCtx p)) with (FCtx (norm_segs p)). split; [|intros parent].
      + change (expr_text (FCtx (norm_segs p))) with (x <- segs_text (norm_segs p) ;; Ok (e_filter_context E ++ x)).
        rewrite IH. reflexivity.
      + change (canon_text (FCtx (norm_segs p)) parent)
          with (x <- segs_text (norm_segs p) ;; Ok (e_filter_context E ++ x)).
        rewrite IH. reflexivity.
    - intros; split; reflexivity.
    - (* function *) intros name args IH Hb Hf. cbn [bk_expr fl_expr] in Hb, Hf. specialize (IH Hb Hf).
      change (norm_expr (FFunc name args)) with (FFunc name (norm_exprs args)). split; [|intros parent].
      + change (expr_text (FFunc name (norm_exprs args)))
          with (xs <- exprs_text (norm_exprs args) ;; Ok (name ++ 40%N :: join_sep [44; 32]%N xs ++ [41%N])).
        rewrite IH. reflexivity.
      + change (canon_text (FFunc name (norm_exprs args)) parent)
          with (xs <- exprs_text (norm_exprs args) ;; Ok (name ++ 40%N :: join_sep [44; 32]%N xs ++ [41%N])).
        rewrite IH. reflexivity.
    - (* exprs *) reflexivity.
    - intros e IHe r IHr Hb Hf. cbn [bk_exprs fl_exprs] in Hb, Hf.
      apply andb_true_iff in Hb as [Hbl Hbr]. apply andb_true_iff in Hf as [Hfl Hfr].
      destruct (IHe Hbl Hfl) as [IHe' _]. specialize (IHr Hbr Hfr).
      change (norm_exprs (ECons e r)) with (ECons (norm_expr e) (norm_exprs r)).
      change (exprs_text (ECons (norm_expr e) (norm_exprs r)))
        with (x <- expr_text (norm_expr e) ;; xs <- exprs_text (norm_exprs r) ;; Ok (x :: xs)).
      rewrite IHe', IHr. reflexivity.
    - (* selectors *) reflexivity.
    - reflexivity.
    - intros a b c _ _. destruct c; reflexivity.
    - reflexivity.
    - reflexivity.
    - intros e IH Hb Hf. cbn [bk_sel fl_sel] in Hb, Hf. destruct (IH Hb Hf) as [_ IHc].
      change (norm_sel (SFilter e)) with (SFilter (norm_expr e)).
      change (sel_text (SFilter (norm_expr e))) with (x <- canon_text (norm_expr e) 1 ;; Ok (63%N :: x)).
      rewrite IHc. reflexivity.
    - reflexivity.
    - intros s IHs r IHr Hb Hf. cbn [bk_sels fl_sels] in Hb, Hf.
      apply andb_true_iff in Hb as [Hbl Hbr]. apply andb_true_iff in Hf as [Hfl Hfr].
      change (norm_sels (LCons s r)) with (LCons (norm_sel s) (norm_sels r)).
      change (sels_text (LCons (norm_sel s) (norm_sels r)))
        with (x <- sel_text (norm_sel s) ;; xs <- sels_text (norm_sels r) ;; Ok (x :: xs)).
      rewrite (IHs Hbl Hfl), (IHr Hbr Hfr). reflexivity.
    - (* segments *) intros s _ Hb _. destruct s as [k|i|a b c| | |e]; try discriminate Hb.
      + change (norm_seg (GSel (SName k))) with (GList (LCons (SName k) LNil)).
        reflexivity.
      + destruct c; reflexivity.
      + reflexivity.
      + reflexivity.
    - reflexivity.
    - intros items IH Hb Hf. cbn [bk_seg fl_seg] in Hb, Hf.
      change (norm_seg (GList items)) with (GList (norm_sels items)).
      change (seg_text (GList (norm_sels items)))
        with (xs <- sels_text (norm_sels items) ;; Ok (91%N :: join_sep [44; 32]%N xs ++ [93%N])).
      rewrite (IH Hb Hf). reflexivity.
    - reflexivity.
    - intros g IHg r IHr Hb Hf. cbn [bk_segs fl_segs] in Hb, Hf.
      apply andb_true_iff in Hb as [Hbl Hbr]. apply andb_true_iff in Hf as [Hfl Hfr].
      change (norm_segs (PCons g r)) with (PCons (norm_seg g) (norm_segs r)).
      change (segs_text (PCons (norm_seg g) (norm_segs r)))
        with (x <- seg_text (norm_seg g) ;; xs <- segs_text (norm_segs r) ;; Ok (x ++ xs)).
      rewrite (IHg Hbl Hfl), (IHr Hbr Hfr). reflexivity.
  Qed.

  Lemma path_text_norm p : bk_segs (p_segs p) = true -> fl_segs (p_segs p) = true ->
    path_text E (norm_path p) = path_text E p.
  Proof.
    intros Hb Hf. unfold path_text, norm_path. cbn [p_segs p_fake].
    rewrite (proj2 (proj2 (proj2 (proj2 (proj2 norm_text_mut)))) _ Hb Hf). reflexivity.
  Qed.
End Text.

Theorem norm_text :
  forall (E : env) (q : query),
    bare_ok q = true -> floats_stable q = true ->
    query_text E (norm_query q) = query_text E q.
Proof.
  intros E q Hb Hf. unfold bare_ok in Hb. unfold floats_stable in Hf.
  apply andb_true_iff in Hb as [Hb1 Hb2]. apply andb_true_iff in Hf as [Hf1 Hf2].
  unfold query_text, norm_query. cbn [q_first q_rest]. rewrite path_text_norm by assumption.
  destruct (path_text E (q_first q)) as [x|]; [|reflexivity]. cbn [bind].
  assert (Hr : rest_text E (map (fun op => (fst op, norm_path (snd op))) (q_rest q)) = rest_text E (q_rest q)).
  { induction (q_rest q) as [|[o p] rest IH]; [reflexivity|].
    cbn [forallb snd] in Hb2, Hf2. apply andb_true_iff in Hb2 as [Hbp Hbr]. apply andb_true_iff in Hf2 as [Hfp Hfr].
    cbn [map fst snd rest_text]. rewrite path_text_norm by assumption. rewrite IH by assumption. reflexivity. }
  rewrite Hr. reflexivity.
Qed.

(* ---------------------------------------------------------------------- *)
(* The shapes the gate looks at are preserved. *)

Lemma norm_float_is_float n : exists n', norm_expr (FFloat n) = FFloat n'.
Proof. destruct (norm_float_cases n) as [E|[t [n' [_ [_ E]]]]]; eauto. Qed.

Lemma g_singular_norm p : g_singular (norm_segs p) = g_singular p.
Proof.
  induction p as [|g r IH]; [reflexivity|].
  change (norm_segs (PCons g r)) with (PCons (norm_seg g) (norm_segs r)).
  destruct g as [s| |items].
  - destruct s as [k|i|a b [c|]| | |e]; try reflexivity; simpl; exact IH.
  - reflexivity.
  - destruct items as [|s [|s' l]]; try reflexivity.
    + destruct s as [k|i|a b [c|]| | |e]; try reflexivity; simpl; exact IH.
    + destruct s as [k|i|a b [c|]| | |e]; reflexivity.
Qed.

Lemma g_is_query_norm e : g_is_query (norm_expr e) = g_is_query e.
Proof. destruct e; try reflexivity. destruct (norm_float_is_float n) as [n' ->]. reflexivity. Qed.

Lemma g_query_segs_norm e : g_query_segs (norm_expr e) = norm_segs (g_query_segs e).
Proof. destruct e; try reflexivity. destruct (norm_float_is_float n) as [n' ->]. reflexivity. Qed.

Lemma g_returns_norm e : g_returns (norm_expr e) = g_returns e.
Proof. destruct e; try reflexivity. destruct (norm_float_is_float n) as [n' ->]. reflexivity. Qed.

Lemma g_is_literal_norm e : g_is_literal (norm_expr e) = g_is_literal e.
Proof. destruct e; try reflexivity. destruct (norm_float_is_float n) as [n' ->]. reflexivity. Qed.

Lemma is_lit_norm e : is_lit (norm_expr e) = is_lit e.
Proof. destruct e; try reflexivity. destruct (norm_float_is_float n) as [n' ->]. reflexivity. Qed.

Lemma g_comparable_norm e : g_comparable (norm_expr e) = g_comparable e.
Proof.
  unfold g_comparable. rewrite g_is_query_norm, g_query_segs_norm, g_singular_norm, g_returns_norm. reflexivity.
Qed.

Lemma g_testable_norm e : g_testable (norm_expr e) = g_testable e.
Proof. unfold g_testable. rewrite g_returns_norm, g_is_literal_norm. reflexivity. Qed.

Lemma g_arg_ok_norm t a : g_arg_ok t (norm_expr a) = g_arg_ok t a.
Proof.
  unfold g_arg_ok. rewrite g_is_query_norm, g_query_segs_norm, g_singular_norm, g_returns_norm.
  destruct t; try reflexivity.
  - f_equal. f_equal. destruct a; try reflexivity. destruct (norm_float_is_float n) as [n' ->]. reflexivity.
  - f_equal. destruct a; try reflexivity. destruct (norm_float_is_float n) as [n' ->]. reflexivity.
Qed.

Lemma g_args_ok_norm args : forall ts,
  g_args_ok ts (fexprs_list (norm_exprs args)) = g_args_ok ts (fexprs_list args).
Proof.
  induction args as [|a r IH]; intros ts; [reflexivity|].
  change (norm_exprs (ECons a r)) with (ECons (norm_expr a) (norm_exprs r)).
  cbn [fexprs_list]. destruct ts as [|t ts]; [reflexivity|]. cbn [g_args_ok].
  rewrite g_arg_ok_norm, IH. reflexivity.
Qed.

(* ---------------------------------------------------------------------- *)
(* The gate is preserved when 1 is in the configured index range. *)

Section GateNorm.
  Variable lo hi : Z.
  Hypothesis one_ok : in_range lo hi 1 = true.

  Lemma gate_expr_not r : gate_expr lo hi (FNot r) = g_testable r && gate_expr lo hi r.
  Proof. reflexivity. Qed.
  Lemma gate_expr_infix l o r :
    gate_expr lo hi (FInfix l o r) =
    gate_expr lo hi l && gate_expr lo hi r &&
    (if g_is_comparison o then g_comparable l && g_comparable r else true) &&
    (match o with BAnd | BOr => g_testable l && g_testable r | _ => true end).
  Proof. reflexivity. Qed.
  Lemma gate_expr_func name args :
    gate_expr lo hi (FFunc name args) =
    gate_exprs lo hi args &&
    match gate_sig name with Some (ts, _) => g_args_ok ts (fexprs_list args) | None => false end.
  Proof. reflexivity. Qed.
  Lemma gate_exprs_cons e r : gate_exprs lo hi (ECons e r) = gate_expr lo hi e && gate_exprs lo hi r.
  Proof. reflexivity. Qed.
  Lemma gate_sel_filter e : gate_sel lo hi (SFilter e) = g_testable e && gate_expr lo hi e.
  Proof. reflexivity. Qed.
  Lemma gate_sels_cons s r : gate_sels lo hi (LCons s r) = gate_sel lo hi s && gate_sels lo hi r.
  Proof. reflexivity. Qed.
  Lemma gate_seg_sel s : gate_seg lo hi (GSel s) = gate_sel lo hi s.
  Proof. reflexivity. Qed.
  Lemma gate_seg_list1 s r : gate_seg lo hi (GList (LCons s r)) = gate_sels lo hi (LCons s r).
  Proof. reflexivity. Qed.
  Lemma gate_segs_cons g r : gate_segs lo hi (PCons g r) = gate_seg lo hi g && gate_segs lo hi r.
  Proof. reflexivity. Qed.

  Lemma gate_norm_mut :
    (forall e, gate_expr lo hi (norm_expr e) = gate_expr lo hi e) /\
    (forall es, gate_exprs lo hi (norm_exprs es) = gate_exprs lo hi es) /\
    (forall s, gate_sel lo hi (norm_sel s) = gate_sel lo hi s) /\
    (forall l, gate_sels lo hi (norm_sels l) = gate_sels lo hi l) /\
    (forall g, gate_seg lo hi (norm_seg g) = gate_seg lo hi g) /\
    (forall p, gate_segs lo hi (norm_segs p) = gate_segs lo hi p).
  Proof.
    apply syntax_mutind; try reflexivity.
    - intros n. destruct (norm_float_is_float n) as [n' ->]. reflexivity.
    - intros items IH. exact IH.
    - intros r IH. change (norm_expr (FNot r)) with (FNot (norm_expr r)).
      rewrite !gate_expr_not, g_testable_norm, IH. reflexivity.
    - intros l IHl o r IHr. change (norm_expr (FInfix l o r)) with (FInfix (norm_expr l) o (norm_expr r)).
      rewrite !gate_expr_infix, IHl, IHr, !g_comparable_norm, !g_testable_norm. reflexivity.
    - intros p IH. exact IH.
    - intros fake p IH. exact IH.
    - intros p IH. exact IH.
    - intros name args IH. change (norm_expr (FFunc name args)) with (FFunc name (norm_exprs args)).
      rewrite !gate_expr_func, IH. destruct (gate_sig name) as [[ts rt]|]; [|reflexivity].
      rewrite g_args_ok_norm. reflexivity.
    - intros e IHe r IHr. change (norm_exprs (ECons e r)) with (ECons (norm_expr e) (norm_exprs r)).
      rewrite !gate_exprs_cons, IHe, IHr. reflexivity.
    - intros a b c. destruct c; [reflexivity|]. cbn. rewrite one_ok. reflexivity.
    - intros e IH. change (norm_sel (SFilter e)) with (SFilter (norm_expr e)).
      rewrite !gate_sel_filter, g_testable_norm, IH. reflexivity.
    - intros s IHs r IHr. change (norm_sels (LCons s r)) with (LCons (norm_sel s) (norm_sels r)).
      rewrite !gate_sels_cons, IHs, IHr. reflexivity.
    - intros s IH. change (norm_seg (GSel s)) with (GList (LCons (norm_sel s) LNil)).
      rewrite gate_seg_list1, gate_sels_cons, gate_seg_sel, IH. apply andb_true_r.
    - intros items IH. change (norm_seg (GList items)) with (GList (norm_sels items)).
      destruct items as [|s r]; [reflexivity|].
      change (norm_sels (LCons s r)) with (LCons (norm_sel s) (norm_sels r)) in *.
      exact IH.
    - intros g IHg r IHr. change (norm_segs (PCons g r)) with (PCons (norm_seg g) (norm_segs r)).
      rewrite !gate_segs_cons, IHg, IHr. reflexivity.
  Qed.
End GateNorm.

(* ---------------------------------------------------------------------- *)
(* Printability, idempotence and the domain conditions themselves are preserved. *)

Lemma float_stable_reread n : float_stable n = true ->
  exists n', norm_expr (FFloat n) = FFloat n' /\ norm_expr (FFloat n') = FFloat n' /\
             float_ok n' = float_ok n /\ float_stable n' = true.
Proof.
  intros H. destruct (float_stable_cases n H) as [E|[t [n' [Ht [Hp [E Ht']]]]]].
  - exists n. rewrite E. auto.
  - exists n'. split; [exact E|].
    assert (En : norm_expr (FFloat n') = FFloat n').
    { cbn [norm_expr]. rewrite Ht', Hp. reflexivity. }
    split; [exact En|]. split.
    + unfold float_ok. rewrite Ht, Ht', Hp. reflexivity.
    + unfold float_stable. rewrite Ht', Hp, Ht'. apply ustr_eqb_refl.
Qed.

Section PrintableNorm.
  Variable re_ok : ustr -> option bool.

  Lemma pr_norm_mut :
    (forall e, fl_expr e = true -> pr_expr re_ok (norm_expr e) = pr_expr re_ok e) /\
    (forall es, fl_exprs es = true ->
        pr_exprs re_ok (norm_exprs es) = pr_exprs re_ok es /\
        pr_lits re_ok (norm_exprs es) = pr_lits re_ok es) /\
    (forall s, fl_sel s = true -> pr_sel re_ok (norm_sel s) = pr_sel re_ok s) /\
    (forall l, fl_sels l = true -> pr_sels re_ok (norm_sels l) = pr_sels re_ok l) /\
    (forall g, fl_seg g = true -> pr_seg re_ok (norm_seg g) = pr_seg re_ok g) /\
    (forall p, fl_segs p = true -> pr_segs re_ok (norm_segs p) = pr_segs re_ok p).
  Proof.
    apply syntax_mutind; try reflexivity.
    - intros n Hf. cbn [fl_expr] in Hf. destruct (float_stable_reread n Hf) as [n' [-> [_ [Hok _]]]].
      exact Hok.
    - intros items IH Hf. exact (proj2 (IH Hf)).
    - intros r IH Hf. exact (IH Hf).
    - intros l IHl o r IHr Hf. cbn [fl_expr] in Hf. apply andb_true_iff in Hf as [Hl Hr].
      change (norm_expr (FInfix l o r)) with (FInfix (norm_expr l) o (norm_expr r)).
      change (pr_expr re_ok (FInfix (norm_expr l) o (norm_expr r)))
        with (pr_expr re_ok (norm_expr l) && pr_expr re_ok (norm_expr r)).
      rewrite (IHl Hl), (IHr Hr). reflexivity.
    - intros p IH Hf. exact (IH Hf).
    - intros fake p IH Hf. exact (IH Hf).
    - intros p IH Hf. exact (IH Hf).
    - intros name args IH Hf. cbn [fl_expr] in Hf.
      change (norm_expr (FFunc name args)) with (FFunc name (norm_exprs args)).
      change (pr_expr re_ok (FFunc name (norm_exprs args)))
        with (fname_ok name && pr_exprs re_ok (norm_exprs args)).
      rewrite (proj1 (IH Hf)). reflexivity.
    - intros _. split; reflexivity.
    - intros e IHe r IHr Hf. cbn [fl_exprs] in Hf. apply andb_true_iff in Hf as [He Hr].
      change (norm_exprs (ECons e r)) with (ECons (norm_expr e) (norm_exprs r)).
      destruct (IHr Hr) as [IHr1 IHr2]. split.
      + change (pr_exprs re_ok (ECons (norm_expr e) (norm_exprs r)))
          with (pr_expr re_ok (norm_expr e) && pr_exprs re_ok (norm_exprs r)).
        rewrite (IHe He), IHr1. reflexivity.
      + change (pr_lits re_ok (ECons (norm_expr e) (norm_exprs r)))
          with (is_lit (norm_expr e) && pr_expr re_ok (norm_expr e) && pr_lits re_ok (norm_exprs r)).
        rewrite is_lit_norm, (IHe He), IHr2. reflexivity.
    - intros a b c _. destruct c; reflexivity.
    - intros e IH Hf. exact (IH Hf).
    - intros s IHs r IHr Hf. cbn [fl_sels] in Hf. apply andb_true_iff in Hf as [Hs Hr].
      change (norm_sels (LCons s r)) with (LCons (norm_sel s) (norm_sels r)).
      change (pr_sels re_ok (LCons (norm_sel s) (norm_sels r)))
        with (pr_sel re_ok (norm_sel s) && pr_sels re_ok (norm_sels r)).
      rewrite (IHs Hs), (IHr Hr). reflexivity.
    - intros s IH Hf. cbn [fl_seg] in Hf.
      change (norm_seg (GSel s)) with (GList (LCons (norm_sel s) LNil)).
      change (pr_seg re_ok (GList (LCons (norm_sel s) LNil))) with (pr_sel re_ok (norm_sel s) && true).
      rewrite (IH Hf). apply andb_true_r.
    - intros items IH Hf. exact (IH Hf).
    - intros g IHg r IHr Hf. cbn [fl_segs] in Hf. apply andb_true_iff in Hf as [Hg Hr].
      change (norm_segs (PCons g r)) with (PCons (norm_seg g) (norm_segs r)).
      change (pr_segs re_ok (PCons (norm_seg g) (norm_segs r)))
        with (pr_seg re_ok (norm_seg g) && pr_segs re_ok (norm_segs r)).
      rewrite (IHg Hg), (IHr Hr). reflexivity.
  Qed.
End PrintableNorm.

Lemma norm_idem_mut :
  (forall e, fl_expr e = true -> norm_expr (norm_expr e) = norm_expr e /\ fl_expr (norm_expr e) = true) /\
  (forall es, fl_exprs es = true -> norm_exprs (norm_exprs es) = norm_exprs es /\ fl_exprs (norm_exprs es) = true) /\
  (forall s, fl_sel s = true -> norm_sel (norm_sel s) = norm_sel s /\ fl_sel (norm_sel s) = true) /\
  (forall l, fl_sels l = true -> norm_sels (norm_sels l) = norm_sels l /\ fl_sels (norm_sels l) = true) /\
  (forall g, fl_seg g = true -> norm_seg (norm_seg g) = norm_seg g /\ fl_seg (norm_seg g) = true) /\
  (forall p, fl_segs p = true -> norm_segs (norm_segs p) = norm_segs p /\ fl_segs (norm_segs p) = true).
Proof.
  apply syntax_mutind; try (intros; split; reflexivity).
  - intros n Hf. cbn [fl_expr] in Hf. destruct (float_stable_reread n Hf) as [n' [-> [En [_ Hs]]]].
    split; [exact En|exact Hs].
  - intros items IH Hf. destruct (IH Hf) as [E1 E2].
    change (norm_expr (FList items)) with (FList (norm_exprs items)).
    change (norm_expr (FList (norm_exprs items))) with (FList (norm_exprs (norm_exprs items))).
    rewrite E1. split; [reflexivity|exact E2].
  - intros r IH Hf. destruct (IH Hf) as [E1 E2].
    change (norm_expr (FNot r)) with (FNot (norm_expr r)).
    change (norm_expr (FNot (norm_expr r))) with (FNot (norm_expr (norm_expr r))).
    rewrite E1. split; [reflexivity|exact E2].
  - intros l IHl o r IHr Hf. cbn [fl_expr] in Hf. apply andb_true_iff in Hf as [Hl Hr].
    destruct (IHl Hl) as [L1 L2]. destruct (IHr Hr) as [R1 R2].
    change (norm_expr (FInfix l o r)) with (FInfix (norm_expr l) o (norm_expr r)).
    change (norm_expr (FInfix (norm_expr l) o (norm_expr r)))
      with (FInfix (norm_expr (norm_expr l)) o (norm_expr (norm_expr r))).
    rewrite L1, R1. split; [reflexivity|].
    change (fl_expr (FInfix (norm_expr l) o (norm_expr r))) with (fl_expr (norm_expr l) && fl_expr (norm_expr r)).
    rewrite L2, R2. reflexivity.
  - intros p IH Hf. destruct (IH Hf) as [E1 E2].
    change (norm_expr (FSelf p)) with (FSelf (norm_segs p)).
    change (norm_expr (FSelf (norm_segs p))) with (FSelf (norm_segs (norm_segs p))).
    rewrite E1. split; [reflexivity|exact E2].
  - intros fake p IH Hf. destruct (IH Hf) as [E1 E2].
    change (norm_expr (FRoot fake p)) with (FRoot fake (norm_segs p)).
    change (norm_expr (FRoot fake (norm_segs p))) with (FRoot fake (norm_segs (norm_segs p))).
    rewrite E1. split; [reflexivity|exact E2].
  - intros p IH Hf. destruct (IH Hf) as [E1 E2].
    change (norm_expr (FCtx p)) with (FCtx (norm_segs p)).
    change (norm_expr (FCtx (norm_segs p))) with (FCtx (norm_segs (norm_segs p))).
    rewrite E1. split; [reflexivity|exact E2].
  - intros name args IH Hf. destruct (IH Hf) as [E1 E2].
    change (norm_expr (FFunc name args)) with (FFunc name (norm_exprs args)).
    change (norm_expr (FFunc name (norm_exprs args))) with (FFunc name (norm_exprs (norm_exprs args))).
    rewrite E1. split; [reflexivity|exact E2].
  - intros e IHe r IHr Hf. cbn [fl_exprs] in Hf. apply andb_true_iff in Hf as [He Hr].
    destruct (IHe He) as [L1 L2]. destruct (IHr Hr) as [R1 R2].
    change (norm_exprs (ECons e r)) with (ECons (norm_expr e) (norm_exprs r)).
    change (norm_exprs (ECons (norm_expr e) (norm_exprs r)))
      with (ECons (norm_expr (norm_expr e)) (norm_exprs (norm_exprs r))).
    rewrite L1, R1. split; [reflexivity|].
    change (fl_exprs (ECons (norm_expr e) (norm_exprs r))) with (fl_expr (norm_expr e) && fl_exprs (norm_exprs r)).
    rewrite L2, R2. reflexivity.
  - intros a b c _. destruct c; split; reflexivity.
  - intros e IH Hf. destruct (IH Hf) as [E1 E2].
    change (norm_sel (SFilter e)) with (SFilter (norm_expr e)).
    change (norm_sel (SFilter (norm_expr e))) with (SFilter (norm_expr (norm_expr e))).
    rewrite E1. split; [reflexivity|exact E2].
  - intros s IHs r IHr Hf. cbn [fl_sels] in Hf. apply andb_true_iff in Hf as [Hs Hr].
    destruct (IHs Hs) as [L1 L2]. destruct (IHr Hr) as [R1 R2].
    change (norm_sels (LCons s r)) with (LCons (norm_sel s) (norm_sels r)).
    change (norm_sels (LCons (norm_sel s) (norm_sels r)))
      with (LCons (norm_sel (norm_sel s)) (norm_sels (norm_sels r))).
    rewrite L1, R1. split; [reflexivity|].
    change (fl_sels (LCons (norm_sel s) (norm_sels r))) with (fl_sel (norm_sel s) && fl_sels (norm_sels r)).
    rewrite L2, R2. reflexivity.
  - intros s IH Hf. cbn [fl_seg] in Hf. destruct (IH Hf) as [E1 E2].
    change (norm_seg (GSel s)) with (GList (LCons (norm_sel s) LNil)).
    change (norm_seg (GList (LCons (norm_sel s) LNil))) with (GList (LCons (norm_sel (norm_sel s)) LNil)).
    rewrite E1. split; [reflexivity|].
    change (fl_seg (GList (LCons (norm_sel s) LNil))) with (fl_sel (norm_sel s) && true).
    rewrite E2. reflexivity.
  - intros items IH Hf. destruct (IH Hf) as [E1 E2].
    change (norm_seg (GList items)) with (GList (norm_sels items)).
    change (norm_seg (GList (norm_sels items))) with (GList (norm_sels (norm_sels items))).
    rewrite E1. split; [reflexivity|exact E2].
  - intros g IHg r IHr Hf. cbn [fl_segs] in Hf. apply andb_true_iff in Hf as [Hg Hr].
    destruct (IHg Hg) as [L1 L2]. destruct (IHr Hr) as [R1 R2].
    change (norm_segs (PCons g r)) with (PCons (norm_seg g) (norm_segs r)).
    change (norm_segs (PCons (norm_seg g) (norm_segs r)))
      with (PCons (norm_seg (norm_seg g)) (norm_segs (norm_segs r))).
    rewrite L1, R1. split; [reflexivity|].
    change (fl_segs (PCons (norm_seg g) (norm_segs r))) with (fl_seg (norm_seg g) && fl_segs (norm_segs r)).
    rewrite L2, R2. reflexivity.
Qed.

(* the normal form never has a bare index or filter at path level *)
Lemma norm_bare_mut :
  (forall e, bk_expr (norm_expr e) = true) /\
  (forall es, bk_exprs (norm_exprs es) = true) /\
  (forall s, bk_sel (norm_sel s) = true) /\
  (forall l, bk_sels (norm_sels l) = true) /\
  (forall g, bk_seg (norm_seg g) = true) /\
  (forall p, bk_segs (norm_segs p) = true).
Proof.
  apply syntax_mutind; try reflexivity.
  - intros n. destruct (norm_float_is_float n) as [n' ->]. reflexivity.
  - intros items IH. exact IH.
  - intros r IH. exact IH.
  - intros l IHl o r IHr.
    change (norm_expr (FInfix l o r)) with (FInfix (norm_expr l) o (norm_expr r)).
    change (bk_expr (FInfix (norm_expr l) o (norm_expr r))) with (bk_expr (norm_expr l) && bk_expr (norm_expr r)).
    rewrite IHl, IHr. reflexivity.
  - intros p IH. exact IH.
  - intros fake p IH. exact IH.
  - intros p IH. exact IH.
  - intros name args IH. exact IH.
  - intros e IHe r IHr.
    change (norm_exprs (ECons e r)) with (ECons (norm_expr e) (norm_exprs r)).
    change (bk_exprs (ECons (norm_expr e) (norm_exprs r))) with (bk_expr (norm_expr e) && bk_exprs (norm_exprs r)).
    rewrite IHe, IHr. reflexivity.
  - intros a b c. destruct c; reflexivity.
  - intros e IH. exact IH.
  - intros s IHs r IHr.
    change (norm_sels (LCons s r)) with (LCons (norm_sel s) (norm_sels r)).
    change (bk_sels (LCons (norm_sel s) (norm_sels r))) with (bk_sel (norm_sel s) && bk_sels (norm_sels r)).
    rewrite IHs, IHr. reflexivity.
  - intros s IH. change (norm_seg (GSel s)) with (GList (LCons (norm_sel s) LNil)).
    change (bk_seg (GList (LCons (norm_sel s) LNil))) with (bk_sel (norm_sel s) && true).
    rewrite IH. reflexivity.
  - intros items IH. exact IH.
  - intros g IHg r IHr.
    change (norm_segs (PCons g r)) with (PCons (norm_seg g) (norm_segs r)).
    change (bk_segs (PCons (norm_seg g) (norm_segs r))) with (bk_seg (norm_seg g) && bk_segs (norm_segs r)).
    rewrite IHg, IHr. reflexivity.
Qed.

Lemma forallb_map_fst_snd {A} (f g : jpath -> bool) (h : jpath -> jpath) (l : list (A * jpath)) :
  (forall p, In p (map snd l) -> f (h p) = g p) ->
  forallb (fun op => f (snd op)) (map (fun op => (fst op, h (snd op))) l) = forallb (fun op => g (snd op)) l.
Proof.
  induction l as [|[o p] l IH]; intros H; [reflexivity|]. cbn [map forallb fst snd].
  rewrite H by (left; reflexivity). rewrite IH; auto. intros p' Hp. apply H. right. exact Hp.
Qed.

Theorem norm_stable :
  forall (E : env) re_ok (q : query),
    in_range (e_min_index E) (e_max_index E) 1 = true -> floats_stable q = true ->
    gate_query (e_min_index E) (e_max_index E) q = true -> printable re_ok q = true ->
    gate_query (e_min_index E) (e_max_index E) (norm_query q) = true /\
    printable re_ok (norm_query q) = true /\
    norm_query (norm_query q) = norm_query q.
Proof.
  intros E re_ok q H1 Hf Hg Hp. unfold floats_stable in Hf. apply andb_true_iff in Hf as [Hf1 Hf2].
  rewrite forallb_forall in Hf2.
  pose proof (gate_norm_mut _ _ H1) as G. pose proof (pr_norm_mut re_ok) as P.
  pose proof norm_idem_mut as I.
  destruct G as [_ [_ [_ [_ [_ G]]]]]. destruct P as [_ [_ [_ [_ [_ P]]]]]. destruct I as [_ [_ [_ [_ [_ I]]]]].
  repeat split.
  - rewrite <- Hg. unfold gate_query, norm_query. cbn [q_first q_rest norm_path p_segs]. rewrite G. f_equal.
    apply (forallb_map_fst_snd (fun p => gate_segs _ _ (p_segs p)) (fun p => gate_segs _ _ (p_segs p)) norm_path).
    intros p _. apply G.
  - rewrite <- Hp. unfold printable, norm_query. cbn [q_first q_rest norm_path p_segs]. rewrite (P _ Hf1). f_equal.
    apply (forallb_map_fst_snd (fun p => pr_segs re_ok (p_segs p)) (fun p => pr_segs re_ok (p_segs p)) norm_path).
    intros p Hin. apply P. apply in_map_iff in Hin as [[o p'] [<- Hin]]. apply (Hf2 _ Hin).
  - unfold norm_query. cbn [q_first q_rest]. f_equal.
    + unfold norm_path. cbn [p_fake p_segs]. rewrite (proj1 (I _ Hf1)). reflexivity.
    + rewrite map_map. apply map_ext_in. intros [o p] Hin. cbn [fst snd]. f_equal.
      pose proof (proj1 (I _ (Hf2 _ Hin))) as Ei. cbn [snd] in Ei.
      unfold norm_path. cbn [p_fake p_segs]. rewrite Ei. reflexivity.
Qed.

(* the domain conditions hold again for the normal form *)
Theorem norm_domain :
  forall (q : query), floats_stable q = true ->
    bare_ok (norm_query q) = true /\ floats_stable (norm_query q) = true.
Proof.
  intros q Hf. unfold floats_stable in Hf. apply andb_true_iff in Hf as [Hf1 Hf2].
  rewrite forallb_forall in Hf2.
  destruct norm_bare_mut as [_ [_ [_ [_ [_ B]]]]]. destruct norm_idem_mut as [_ [_ [_ [_ [_ I]]]]].
  split.
  - unfold bare_ok, norm_query. cbn [q_first q_rest norm_path p_segs]. rewrite B. cbn [andb].
    apply forallb_forall. intros [o p] Hin. apply in_map_iff in Hin as [[o' p'] [Ep _]].
    injection Ep as <- <-. cbn [snd norm_path p_segs]. apply B.
  - unfold floats_stable, norm_query. cbn [q_first q_rest norm_path p_segs]. rewrite (proj2 (I _ Hf1)). cbn [andb].
    apply forallb_forall. intros [o p] Hin. apply in_map_iff in Hin as [[o' p'] [Ep Hin]].
    injection Ep as <- <-. cbn [snd norm_path p_segs]. apply (proj2 (I _ (Hf2 _ Hin))).
Qed.

(* ---------------------------------------------------------------------- *)
(* The domain conditions are needed: the unconditional statements are refuted. *)

(* $5 (a bare index at path level) prints as "$5", its normal form as "$[5]" *)
Example norm_text_needs_bare_ok :
  let q := mkQuery (mkPath false (PCons (GSel (SIndex 5)) PNil)) [] in
  gate_query (e_min_index default_env) (e_max_index default_env) q = true /\
  printable (fun _ => Some true) q = true /\ floats_stable q = true /\
  query_text default_env q = Ok [36; 53]%N /\
  query_text default_env (norm_query q) = Ok [36; 91; 53; 93]%N.
Proof. vm_compute. repeat split; reflexivity. Qed.

(* a float whose numerator has more than 400 trailing zeros: "1.00e+17" rereads as 10^17,
   which prints as "1.0e+17" *)
Example norm_text_needs_floats_stable :
  let n := mkNum true (10 ^ 402) (10 ^ 385) in
  let q := mkQuery (mkPath false (PCons (GList (LCons (SFilter (FInfix (FSelf PNil) BEq (FFloat n))) LNil)) PNil)) [] in
  gate_query (e_min_index default_env) (e_max_index default_env) q = true /\
  printable (fun _ => Some true) q = true /\ bare_ok q = true /\ float_stable n = false /\
  query_text default_env q <> query_text default_env (norm_query q).
Proof. vm_compute. repeat split; try reflexivity. discriminate. Qed.

(* an index range that does not contain 1: the step inserted into [::] is refused by the gate *)
Example norm_stable_needs_one_in_range :
  let E := mkEnv [36%N] [94%N] [64%N] [35%N] [124%N] [38%N] [95%N] [126%N] 2 9007199254740991 true true true in
  let q := mkQuery (mkPath false (PCons (GList (LCons (SSlice None None None) LNil)) PNil)) [] in
  gate_query (e_min_index E) (e_max_index E) q = true /\ printable (fun _ => Some true) q = true /\
  floats_stable q = true /\
  gate_query (e_min_index E) (e_max_index E) (norm_query q) = false.
Proof. vm_compute. repeat split; reflexivity. Qed.
