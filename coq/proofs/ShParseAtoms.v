(* ShParseAtoms.v — Section Atoms of PrintParseAtoms.v restated for the shorthand printer and [snorm]. *)
From Coq Require Import ZArith List Bool Lia.
From JP Require Import Base Json PyStr PyJsonStr Syntax Lex Parse Serialize TokPrint Printable Gate Reparsable
                       TokensOk FreeSpell.
From JP Require Import ParseEqns GateLemmas ParseSpec ReparseLemmas TokPrintEqns StringRoundTrip
                       PrintParseBase PrintParseAtoms ShParseDefs ShParseBase.
Import ListNotations.

Section Atoms.
  Variable E : env.
  Variable re_ok : ustr -> option bool.
  Hypothesis WT : e_well_typed E = true.
  Hypothesis UE : e_unicode_escape E = true.

  Notation parse_primary := (Parse.parse_primary E re_ok).
  Notation PRIM := (ShParseBase.PRIM E re_ok).
  Notation lo := (e_min_index E).
  Notation hi := (e_max_index E).

  Lemma decode_canonical s : decode_string E (mkTok TSQ (canonical_body s)) = Ok s.
  Proof.
    unfold decode_string. rewrite UE. cbn [tk tv].
    change (canonical_body s) with (canon_body s). rewrite string_round_trip. reflexivity.
  Qed.

  Lemma parse_int_str_of_Z z : parse_int_literal (str_of_Z z) = Ok (FInt z).
  Proof.
    unfold parse_int_literal. rewrite has_exponent_str_of_Z. cbn [negb].
    rewrite int_of_text_str_of_Z. reflexivity.
  Qed.

  (* a one-token primary *)
  Lemma prim_single e t :
    goodk t ->
    (forall f ys, Parse.parse_primary E re_ok (S f) (st0 t ys) = Ok (snorm_expr e, st0 t ys)) ->
    PRIM e [t].
  Proof.
    intros Hg Hp f k rest Hf Hk. unfold need in Hf. destruct f as [|f1]; [cbn [length] in Hf; lia|].
    cbn [app enter]. rewrite Hp. eexists. split; [reflexivity|]. apply at_st0. exact (proj2 Hg).
  Qed.

  Lemma prim_float n t :
    float_ok n = true -> float_repr n = Ok t -> PRIM (FFloat n) [mkTok TFloat t].
  Proof.
    intros Hok Hr. apply prim_single; [split; discriminate|]. intros f ys.
    rewrite parse_primary_S. cbn [st0 s_cur tk tv]. cbn [snorm_expr]. rewrite Hr.
    unfold float_ok in Hok. rewrite Hr in Hok.
    destruct (parse_float_literal t) as [e'|]; [reflexivity|discriminate Hok].
  Qed.

  Lemma prim_regex p fl :
    re_ok p = Some true ->
    PRIM (FRegex p fl) [mkTok TRePattern p; mkTok TReFlags (flags_text fl)].
  Proof.
    intros Hre f k rest Hf Hk. unfold need in Hf. cbn [length] in Hf.
    destruct f as [|f1]; [lia|]. cbn [app enter]. rewrite parse_primary_S.
    cbn [st0 s_cur tk]. unfold regex_primary.
    rewrite peek_st0 by discriminate. cbn [bind].
    change (is_kind TReFlags (mkTok TReFlags (flags_text fl))) with true. cbv iota.
    rewrite (next_at _ _ _ (at_peeked (mkTok TRePattern p) (mkTok TReFlags (flags_text fl)) (k :: rest)
                               ltac:(discriminate)) ltac:(discriminate)).
    cbn [bind fst snd s_cur tv st0]. rewrite Hre, flags_round_trip.
    eexists. split; [reflexivity|]. apply at_st0. discriminate.
  Qed.

  (* ---- list literals ---- *)

  Definition item_of (t : token) : result fexpr :=
    match tk t with
    | TFalse => Ok (FBool false)
    | TTrue => Ok (FBool true)
    | TFloat => parse_float_literal (tv t)
    | TInt => parse_int_literal (tv t)
    | TNil => Ok FNil
    | TDQ | TSQ => s <- decode_string E t ;; Ok (FStr s)
    | _ => syntax_error
    end.

  Lemma lit_item e x :
    is_lit e = true -> pr_expr re_ok e = true -> sh_expr_toks E e = Ok x ->
    exists t, x = [t] /\ goodk t /\ tk t <> TRBracket /\ item_of t = Ok (snorm_expr e).
  Proof.
    intros Hl Hp Hx. destruct e; try discriminate Hl.
    - injection Hx as <-. eexists. repeat split; try discriminate.
    - destruct b; injection Hx as <-; eexists; repeat split; discriminate.
    - injection Hx as <-. eexists. repeat split; try discriminate.
      unfold item_of. cbn [tk tv]. apply parse_int_str_of_Z.
    - cbn [sh_expr_toks] in Hx. destruct (float_repr n) as [t|] eqn:Hr; [|discriminate Hx].
      injection Hx as <-. eexists. repeat split; try discriminate.
      unfold item_of. cbn [tk tv snorm_expr]. rewrite Hr.
      cbn [pr_expr] in Hp. unfold float_ok in Hp. rewrite Hr in Hp.
      destruct (parse_float_literal t); [reflexivity|discriminate Hp].
    - injection Hx as <-. eexists. repeat split; try discriminate.
      unfold item_of. cbn [tk]. rewrite decode_canonical. reflexivity.
  Qed.

  Lemma list_items_parse items : forall xs,
    pr_lits re_ok items = true -> sh_exprs_toks E items = Ok xs ->
    forall f acc zs, length xs + 1 <= f ->
      parse_list_items E f (enter (sep_by [comma] xs ++ rbracket :: zs)) acc =
      Ok (rev acc ++ fexprs_list (snorm_exprs items), st0 rbracket zs).
  Proof.
    induction items as [|e r IH]; intros xs Hp Hx f acc zs Hf.
    - injection Hx as <-. cbn [sep_by app enter]. destruct f as [|f1]; [cbn [length] in Hf; lia|].
      rewrite parse_list_items_S. cbn [st0 s_cur]. change (is_kind TRBracket rbracket) with true.
      cbn [fexprs_list snorm_exprs]. rewrite app_nil_r. reflexivity.
    - rewrite sh_exprs_toks_cons in Hx.
      destruct (sh_expr_toks E e) as [x|] eqn:Hex; [|discriminate Hx]. cbn [bind] in Hx.
      destruct (sh_exprs_toks E r) as [xr|] eqn:Hxr; [|discriminate Hx]. injection Hx as <-.
      change (pr_lits re_ok (ECons e r)) with (is_lit e && pr_expr re_ok e && pr_lits re_ok r) in Hp.
      apply andb_true_iff in Hp as [Hp Hpr]. apply andb_true_iff in Hp as [Hl Hp].
      destruct (lit_item e x Hl Hp Hex) as (t & -> & Hg & Hnb & Hitem).
      cbn [length] in Hf. destruct f as [|f1]; [lia|].
      rewrite sep_by_cons. cbn [app enter]. rewrite parse_list_items_S. cbn [st0 s_cur].
      rewrite (is_kind_false TRBracket t Hnb). fold (item_of t). rewrite Hitem. cbn [bind].
      rewrite snorm_exprs_cons. cbn [fexprs_list].
      assert (Hgoal : forall st2, st2 = enter (sep_by [comma] xr ++ rbracket :: zs) ->
                parse_list_items E f1 st2 (snorm_expr e :: acc) =
                Ok (rev acc ++ snorm_expr e :: fexprs_list (snorm_exprs r), st0 rbracket zs)).
      { intros st2 ->. rewrite (IH xr Hpr eq_refl f1 (snorm_expr e :: acc) zs ltac:(lia)).
        cbn [rev]. rewrite <- app_assoc. reflexivity. }
      destruct xr as [|y xr'].
      + cbn [sep_tail]. rewrite peek_st0 by (try exact (proj2 Hg); discriminate). cbn [bind].
        change (is_kind TRBracket rbracket) with true. cbv iota. cbn [bind].
        rewrite (next_at _ _ _ (at_peeked t rbracket zs (proj2 Hg)) ltac:(discriminate)). cbn [bind snd].
        apply Hgoal. reflexivity.
      + cbn [sep_tail app]. rewrite peek_st0 by (try exact (proj2 Hg); discriminate). cbn [bind].
        change (is_kind TRBracket comma) with false. change (is_kind TComma comma) with true. cbv iota.
        rewrite (next_at _ _ _ (at_peeked t comma _ (proj2 Hg)) ltac:(discriminate)). cbn [bind snd].
        (* the head of the next item *)
        assert (Hy : exists t', y = [t'] /\ goodk t').
        { destruct r as [|e2 r2]; [discriminate Hxr|].
          rewrite sh_exprs_toks_cons in Hxr.
          destruct (sh_expr_toks E e2) as [x2|] eqn:Hex2; [|discriminate Hxr]. cbn [bind] in Hxr.
          destruct (sh_exprs_toks E r2); [|discriminate Hxr]. injection Hxr as <- _.
          change (pr_lits re_ok (ECons e2 r2)) with (is_lit e2 && pr_expr re_ok e2 && pr_lits re_ok r2) in Hpr.
          apply andb_true_iff in Hpr as [Hpr _]. apply andb_true_iff in Hpr as [Hl2 Hp2].
          destruct (lit_item e2 x2 Hl2 Hp2 Hex2) as (t' & -> & Hg' & _). eauto. }
        destruct Hy as (t' & -> & Hg').
        rewrite next_st0; [|discriminate|rewrite sep_by_cons; exact (proj1 Hg')].
        cbn [bind snd]. apply Hgoal. reflexivity.
  Qed.

  Lemma prim_list items xs :
    pr_lits re_ok items = true -> sh_exprs_toks E items = Ok xs ->
    PRIM (FList items) (lbracket :: sep_by [comma] xs ++ [rbracket]).
  Proof.
    intros Hp Hx f k rest Hf Hk. unfold need in Hf. cbn [length] in Hf. rewrite app_length in Hf.
    cbn [length] in Hf.
    assert (Hlen : length xs <= length (sep_by [comma] xs)).
    { apply sep_by_length. clear Hf. revert xs Hx. induction items as [|e r IH]; intros xs Hx.
      - injection Hx as <-. constructor.
      - rewrite sh_exprs_toks_cons in Hx.
        destruct (sh_expr_toks E e) as [x|] eqn:Hex; [|discriminate Hx]. cbn [bind] in Hx.
        destruct (sh_exprs_toks E r) as [xr|] eqn:Hxr; [|discriminate Hx]. injection Hx as <-.
        change (pr_lits re_ok (ECons e r)) with (is_lit e && pr_expr re_ok e && pr_lits re_ok r) in Hp.
        apply andb_true_iff in Hp as [Hp Hpr]. apply andb_true_iff in Hp as [Hl Hp].
        destruct (lit_item e x Hl Hp Hex) as (t & -> & _).
        constructor; [cbn [length]; lia|]. apply IH; [exact Hpr|reflexivity]. }
    destruct f as [|f1]; [lia|]. cbn [app enter]. rewrite parse_primary_S. cbn [st0 s_cur]. 
    change (tk lbracket) with TLBracket. cbv iota. rewrite <- app_assoc. cbn [app].
    assert (Hhd : hd_ok (sep_by [comma] xs ++ rbracket :: k :: rest)).
    { destruct items as [|e r].
      - injection Hx as <-. cbn. discriminate.
      - rewrite sh_exprs_toks_cons in Hx.
        destruct (sh_expr_toks E e) as [x|] eqn:Hex; [|discriminate Hx]. cbn [bind] in Hx.
        destruct (sh_exprs_toks E r) as [xr|]; [|discriminate Hx]. injection Hx as <-.
        change (pr_lits re_ok (ECons e r)) with (is_lit e && pr_expr re_ok e && pr_lits re_ok r) in Hp.
        apply andb_true_iff in Hp as [Hp _]. apply andb_true_iff in Hp as [Hl Hp].
        destruct (lit_item e x Hl Hp Hex) as (t & -> & Hg & _). rewrite sep_by_cons. exact (proj1 Hg). }
    rewrite next_st0 by (try discriminate; exact Hhd). cbn [bind fst snd].
    rewrite (list_items_parse items xs Hp Hx f1 [] (k :: rest) ltac:(lia)). cbn [bind fst snd rev app].
    rewrite fexprs_of_list. eexists. split; [reflexivity|]. apply at_st0. discriminate.
  Qed.

  (* ---- slices ---- *)

  Lemma bound_opt_text a :
    (match opt_text a with [] => Ok None | txt => z <- int_of_text txt ;; Ok (Some z) end) = Ok a.
  Proof.
    destruct a as [z|]; [|reflexivity]. cbn [opt_text].
    pose proof (str_of_Z_nonempty z) as Hne. pose proof (int_of_text_str_of_Z z) as Hi.
    destruct (str_of_Z z) as [|c s]; [contradiction Hne; reflexivity|]. rewrite Hi. reflexivity.
  Qed.

  Definition step_text (c : option Z) : ustr := match c with Some z => str_of_Z z | None => [49%N] end.
  Definition snorm_step (c : option Z) : option Z := match c with None => Some 1%Z | _ => c end.

  Lemma bound_step_text c :
    (match step_text c with [] => Ok None | txt => z <- int_of_text txt ;; Ok (Some z) end) = Ok (snorm_step c).
  Proof.
    destruct c as [z|]; [|reflexivity]. exact (bound_opt_text (Some z)).
  Qed.

  Lemma slice_parse a b c zs :
    opt_in_range lo hi a = true -> opt_in_range lo hi b = true -> opt_in_range lo hi (snorm_step c) = true ->
    parse_slice E (st0 (mkTok TSliceStart (opt_text a))
                       (mkTok TSliceStop (opt_text b) :: mkTok TSliceStep (step_text c) :: zs)) =
    Ok (SSlice a b (snorm_step c), st0 (mkTok TSliceStep (step_text c)) zs).
  Proof.
    intros Ha Hb Hc. unfold parse_slice.
    rewrite next_st0 by (cbn; discriminate). cbn [bind enter].
    unfold expect. cbn [st0 s_cur]. change (is_kind TSliceStop (mkTok TSliceStop (opt_text b))) with true.
    cbn [bind]. rewrite next_st0 by (cbn; discriminate). cbn [bind enter st0 s_cur].
    change (is_kind TSliceStep (mkTok TSliceStep (step_text c))) with true. cbn [bind tv].
    rewrite bound_opt_text. cbn [bind]. rewrite bound_opt_text. cbn [bind].
    rewrite bound_step_text. cbn [bind].
    change (fun o : option Z => match o with Some z => index_in_range E z | None => true end)
      with (opt_in_range lo hi).
    replace (match a with Some z => index_in_range E z | None => true end) with (opt_in_range lo hi a) by reflexivity.
    replace (match b with Some z => index_in_range E z | None => true end) with (opt_in_range lo hi b) by reflexivity.
    replace (match snorm_step c with Some z => index_in_range E z | None => true end)
      with (opt_in_range lo hi (snorm_step c)) by reflexivity.
    rewrite Ha, Hb, Hc. reflexivity.
  Qed.
End Atoms.
